"""Python -> Coq term printing shared by all drivers. Every numeric literal carries its scope."""
import fractions
MASK63=(1<<63)-1
def nat(n): return "%d%%nat"%n
def z(n): return "(%d)%%Z"%n
def pos(n): assert n>=1; return "%d%%positive"%n
def u63(n): return "%d%%uint63"%n
def b(x): return "true" if x else "false"
def cl(xs): return "["+"; ".join(xs)+"]"
def opt(x,f): return "None" if x is None else "(Some %s)"%f(x)
class Intern:
    """strings -> positives, stable within one case"""
    def __init__(self): self.t={}
    def __call__(self,x):
        if x not in self.t: self.t[x]=len(self.t)+1
        return self.t[x]
def value(v,I):
    if isinstance(v,bool): return "(VBool %s)"%b(v)
    if isinstance(v,int): return "(VInt %s)"%z(v)
    if isinstance(v,float):
        f=fractions.Fraction(v); return "(VFlt %s %d%%positive)"%(z(f.numerator),f.denominator)
    return "(VStr %s)"%pos(I("s:"+str(v)))
def name(full,I): return cl(pos(I("n:"+s)) for s in full.split("/"))
def digest(zs):
    """must equal KT's Coq `digest : list Z -> int` (Uint63 multiply-add fold)"""
    acc=7
    for x in zs: acc=(acc*1000003 + (x & MASK63) + 12345) & MASK63
    return acc
