"""Write cases_*.v in chunks, run coqc in parallel with a timeout and an unlimited stack, read verdict lists.

The only thing ever parsed out of Coq is the `= [v1; v2; ...] : list T` answer of one `Eval vm_compute` per file.
"""
import os, re, subprocess, resource, concurrent.futures, time

COQ_DIR = "/verif/coq"
COQ_ARGS = ["-Q", COQ_DIR, "KT"]


def _unlimit():
    try:
        resource.setrlimit(resource.RLIMIT_STACK, (resource.RLIM_INFINITY, resource.RLIM_INFINITY))
    except Exception:
        pass


def coqc(path, timeout=600, args=None):
    t = time.time()
    try:
        p = subprocess.run(["coqc"] + (args or COQ_ARGS) + [path], capture_output=True, text=True,
                           timeout=timeout, preexec_fn=_unlimit, cwd=os.path.dirname(path) or None)
        return path, p.returncode, p.stdout, p.stderr, time.time() - t
    except subprocess.TimeoutExpired:
        return path, 124, "", "timeout", time.time() - t


def split_top(body):
    out = []; depth = 0; cur = ""
    for ch in body:
        if ch in "([":
            depth += 1
        if ch in ")]":
            depth -= 1
        if ch == ";" and depth == 0:
            out.append(cur.strip()); cur = ""
        else:
            cur += ch
    if cur.strip() or out:
        out.append(cur.strip())
    return out


def parse_list(out):
    """`     = [a; b; c]\\n     : list T` -> ['a','b','c'] (elements may contain brackets but no ';' at top level)"""
    m = re.search(r"=\s*\[(.*)\]\s*:\s*list", out, re.S)
    if not m:
        return None
    body = re.sub(r"\s+", " ", m.group(1)).strip()
    if not body:
        return []
    return split_top(body)


def run_cases(workdir, header, cases, footer, chunk=250, jobs=16, timeout=600, max_bytes=40_000_000, prefix="cases"):
    """Returns (verdicts, errors, wall). verdicts[i] is the i-th element printed by Coq (string), in case order."""
    os.makedirs(workdir, exist_ok=True)
    files = []
    for k in range(0, len(cases), chunk):
        path = os.path.join(workdir, "%s_%03d.v" % (prefix, k // chunk))
        text = header + ";\n".join(cases[k:k + chunk]) + footer
        if len(text) > max_bytes:
            raise RuntimeError("generated file too large: %d bytes (generator bug?)" % len(text))
        with open(path, "w") as f:
            f.write(text)
        files.append(path)
    verdicts = []; errors = []; wall = 0.0
    with concurrent.futures.ThreadPoolExecutor(max_workers=jobs) as ex:
        for path, rc, out, err, dt in ex.map(lambda f: coqc(f, timeout), files):
            wall = max(wall, dt)
            lst = parse_list(out) if rc == 0 else None
            if lst is None:
                errors.append((path, rc, (err or out)[-3000:]))
                n = min(chunk, len(cases) - len(verdicts))
                verdicts.extend(["ERROR"] * n)
            else:
                verdicts.extend(lst)
    return verdicts, errors, wall


def eval_term(workdir, header, term, timeout=300, name="probe"):
    """Evaluate one term with vm_compute and return Coq's raw answer text (for replay files only)."""
    os.makedirs(workdir, exist_ok=True)
    path = os.path.join(workdir, name + ".v")
    with open(path, "w") as f:
        f.write(header + "\nEval vm_compute in (" + term + ").\n")
    _, rc, out, err, _ = coqc(path, timeout)
    return out if rc == 0 else "coqc failed: " + (err or out)[-2000:]
