"""Child process of the C12 check: runs a list of scenarios and prints one JSON line with everything that was issued.
Started with its own PYTHONHASHSEED; perturbs the global random / numpy generators with a salt so that any dependence on
unseeded randomness shows up as a difference between two runs."""
import sys, json, os, random, warnings, tempfile, shutil
warnings.filterwarnings("ignore")


def canon(v):
    import numpy as np
    if isinstance(v, (bool, np.bool_)): return ["b", bool(v)]
    if isinstance(v, (int, np.integer)): return ["i", int(v)]
    if isinstance(v, (float, np.floating)): return ["f", float(v).hex()]
    return ["s", str(v)]


def values_of(hps):
    return sorted((k, canon(v)) for k, v in hps.values.items())


def run_history(sc, phase="full"):
    """a deterministic worker-pool history with hyperparameters discovered inside trials.
    Resume scenarios (sc["split"] = K): phase "inproc" saves nothing extra and, after step K-1, reloads the project into a fresh
    oracle object of the same process (the workers are gone: nothing is held); phase "first" runs steps 0..K-1 in this
    interpreter and leaves the project directory and the schedule generator's state behind; phase "second" - another
    interpreter with another PYTHONHASHSEED - reloads that directory and runs steps K.. . The three must issue the same trials."""
    from ktverif import lifecycle as lc
    from keras_tuner.engine import hyperparameters as hpm
    import pickle
    cfg = sc["cfg"]
    split = sc.get("split")
    keep = phase in ("first", "second")
    d = sc["dir"] if keep else tempfile.mkdtemp(prefix="ktv12_")
    out = []
    try:
        if phase == "second":
            o = lc.make_oracle(cfg, d); o.reload()
            rng = random.Random(0); rng.setstate(pickle.load(open(os.path.join(d, "sched.pickle"), "rb"))); held = {}
            first_step = split
        else:
            if keep:
                shutil.rmtree(d, ignore_errors=True); os.makedirs(d)
            o = lc.make_oracle(cfg, d)
            rng = random.Random(cfg["hseed"]); held = {}
            first_step = 0
        for step in range(first_step, cfg["nsteps"]):
            if split is not None and step == split and phase == "inproc":
                lc._release(o)
                o = lc.make_oracle(cfg, d); o.reload(); held = {}
                out.append(["reload"])
            if split is not None and step == split and phase == "first":
                pickle.dump(rng.getstate(), open(os.path.join(d, "sched.pickle"), "wb"))
                out.append(["reload"])
                return out
            w = rng.randrange(cfg["W"]); tn = "w%d" % w
            if tn in held and rng.random() < 0.7:
                t = held.pop(tn)
                x = rng.random()
                own = repr(sorted((k, repr(v)) for k, v in t.hyperparameters.values.items() if not k.startswith("tuner/")))
                if sc.get("grow") and sum(map(ord, own)) % 2 == 0:
                    # like `if hp.Boolean("b"): hp.Int("h", ...)`: only some configurations reach the declaration
                    # the build function declares more hyperparameters, some under a condition
                    hp = t.hyperparameters
                    hp.Int("late_units", 16, 1024, default=64)
                    hp.Choice("late_act", ["relu", "tanh", "elu"])
                    with hp.conditional_scope("late_act", ["tanh", "elu"]):
                        hp.Float("late_alpha", 0.0, 1.0)
                try:
                    if x < 0.7:
                        o.update_trial(t.trial_id, {"score": float(60 * rng.randint(*((-1, 1) if cfg["kind"] == "hyperband" else (-5, 5))))}, step=0); t.status = "COMPLETED"
                    elif x < 0.9:
                        t.status = "INVALID"
                    else:
                        t.status = "FAILED"
                    o.end_trial(t); out.append(["end", int(t.trial_id), "ok"])
                except RuntimeError:
                    out.append(["end", int(t.trial_id), "abort"]); lc._release(o)
            else:
                try:
                    t = o.create_trial(tn)
                except Exception as e:
                    lc._release(o); out.append(["create", w, "EXC", type(e).__name__]); break
                if t.status == "RUNNING":
                    held[tn] = t
                out.append(["create", w, t.trial_id, t.status, values_of(t.hyperparameters)])
        out.append(["space", [h.name for h in o.hyperparameters.space]])
        return out
    finally:
        if not keep:
            shutil.rmtree(d, ignore_errors=True)


def run_hb_grow(sc):
    """Hyperband: round 0 started by parallel workers, some configurations declare a further hyperparameter, promotions follow"""
    import keras_tuner as kt
    from keras_tuner.engine import hyperparameters as hpm
    from keras_tuner.tuners import hyperband
    hps = hpm.HyperParameters(); hps.Boolean("b"); hps.Int("x", 0, 100)
    d = tempfile.mkdtemp(prefix="ktv12_")
    try:
        o = hyperband.HyperbandOracle(objective=kt.Objective("score", sc["direction"]), max_epochs=sc["max_epochs"], factor=sc["factor"], hyperparameters=hps, seed=sc["seed"])
        o._set_project_dir(d, "p"); o._display.verbose = 0
        rng = random.Random(sc["hseed"]); out = []

        def finish(t):
            if t.hyperparameters.values.get("b"):
                t.hyperparameters.Int("h", 0, 1000)
            o.update_trial(t.trial_id, {"score": float(rng.randint(0, sc.get("score_max", 50)))}); t.status = "COMPLETED"; o.end_trial(t)
        for _ in range(sc["waves"]):
            ts = []
            for i in range(sc["W"]):
                t = o.create_trial("w%d" % i)
                out.append(["create", i, t.trial_id, t.status, values_of(t.hyperparameters)])
                if t.status == "RUNNING":
                    ts.append(t)
            if not ts:
                break
            for t in ts:
                finish(t)
        return out
    finally:
        shutil.rmtree(d, ignore_errors=True)


def run_discovery(sc):
    """tuner construction with a build function made of sibling if-guarded scopes, then a few trials"""
    import keras_tuner as kt
    from keras_tuner.engine import base_tuner
    from keras_tuner.tuners import randomsearch
    from checks import c13
    prog = sc["prog"]

    def build(hp):
        c13.run_prog(hp, prog, [])

    class T(base_tuner.BaseTuner):
        def run_trial(self, trial, *a, **k): return 1.0
    d = tempfile.mkdtemp(prefix="ktv12_")
    try:
        o = randomsearch.RandomSearchOracle(objective=kt.Objective("score", "min"), max_trials=4, seed=sc["seed"])
        try:
            t = T(o, build, directory=d, project_name="p")
        except Exception as e:
            return [["ctor", type(e).__name__]]
        out = [["space", [h.name for h in o.hyperparameters.space]]]
        for _ in range(4):
            tr = o.create_trial("tuner0")
            out.append(["create", tr.trial_id, tr.status, values_of(tr.hyperparameters)])
            if tr.status != "RUNNING":
                break
            o.update_trial(tr.trial_id, {"score": 1.0}); tr.status = "COMPLETED"; o.end_trial(tr)
        return out
    finally:
        shutil.rmtree(d, ignore_errors=True)


def main():
    salt = int(sys.argv[1])
    scenarios = json.load(open(sys.argv[2]))
    phase = sys.argv[3] if len(sys.argv) > 3 else "full"
    import numpy as np
    res = []
    for k, sc in enumerate(scenarios):
        random.seed(salt * 1000 + k); np.random.seed((salt * 1000 + k) % (2 ** 31))
        try:
            if sc["type"] == "resume":
                res.append(run_history(sc, "inproc" if phase == "full" else phase))
            elif phase != "full":
                res.append([])
            else:
                res.append(run_history(sc) if sc["type"] == "history" else run_hb_grow(sc) if sc["type"] == "hb_grow" else run_discovery(sc))
        except Exception as e:
            res.append([["harness-exception", type(e).__name__, str(e)[:200]]])
    print("C12RESULT " + json.dumps(res))


if __name__ == "__main__":
    main()
