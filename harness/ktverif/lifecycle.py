"""Worker-pool histories on the real oracles (random, grid, Hyperband, Bayesian) and their translation into
cases for KT.LifeCorr (the generic lifecycle core with a table-driven populate_space).

Shared by the checks of C01, C02, C03, C11 (and reused by C07/C19)."""
import os, json, math, random, shutil, tempfile, hashlib, fractions, warnings
from ktverif import emit

F = fractions.Fraction
STN = {"RUNNING": 1, "IDLE": 2, "INVALID": 3, "STOPPED": 4, "COMPLETED": 5, "FAILED": 6}
KINDS = ("random", "grid", "hyperband", "bayes")


def token(values):
    """62-bit stable token of a values dict; {} -> 0 (the model's default payload)."""
    if not values:
        return 0
    def canon(v):
        # numpy scalars (Bayesian oracle) and their JSON round trip must give the same token; python types are C05's business
        if isinstance(v, bool) or v is None or isinstance(v, str):
            return repr(v)
        try:
            import numpy as np
            if isinstance(v, np.bool_):
                return repr(bool(v))
            if isinstance(v, np.integer):
                return repr(int(v))
            if isinstance(v, np.floating):
                return repr(float(v))
        except ImportError:
            pass
        return repr(v)
    s = ";".join("%s=%s" % (k, canon(values[k])) for k in sorted(values))
    return int.from_bytes(hashlib.sha256(s.encode()).digest()[:8], "big") >> 2 or 1


def make_space(rng, kind):
    from keras_tuner.engine import hyperparameters as hpm
    hps = hpm.HyperParameters()
    shape = rng.choice(["big", "small", "cond", "shared"]) if kind != "grid" else rng.choice(["small", "cond", "tiny"])
    if shape == "big":
        hps.Int("x", 0, 10 ** 9)
        hps.Float("y", 0.0, 1.0)
    elif shape == "small":
        hps.Int("a", 1, rng.randint(2, 3))
        hps.Boolean("b")
    elif shape == "tiny":
        hps.Choice("c", ["p", "q"])
    elif shape == "shared":
        # one name declared in two conditional branches, a further scope below one of the copies
        hps.Choice("m", ["u", "v", "w"])
        with hps.conditional_scope("m", ["u"]):
            hps.Int("k", 1, 3)
            with hps.conditional_scope("k", [2, 3]):
                hps.Boolean("g")
        with hps.conditional_scope("m", ["v"]):
            hps.Int("k", 1, 3)
    else:
        hps.Choice("m", ["u", "v"])
        with hps.conditional_scope("m", ["u"]):
            hps.Int("k", 1, 3)
        with hps.conditional_scope("m", ["v"]):
            hps.Boolean("f")
    return hps, shape


def make_space_dup(rng):
    """a Choice over strings that lists some of its values more than once (accepted by the library), next to a small Int"""
    from keras_tuner.engine import hyperparameters as hpm
    hps = hpm.HyperParameters()
    vs = rng.sample(["adam", "sgd", "rmsprop", "nadam", "adagrad", "ftrl"], rng.randint(3, 5))
    vs = vs + [rng.choice(vs) for _ in range(rng.randint(1, 3))]
    rng.shuffle(vs)
    hps.Choice("opt", vs)
    hps.Int("n", 1, 3)
    with hps.conditional_scope("opt", vs[:2]):
        hps.Choice("act", ["relu", "tanh", "gelu", "relu"])
    return hps, "dupchoice"


def gen_config(rng, kinds=KINDS, max_trials_choices=(None, 1, 2, 3, 4, 6), workers=(1, 4)):
    kind = rng.choice(kinds)
    cfg = dict(kind=kind, direction=rng.choice(["min", "max"]),
               max_trials=rng.choice(max_trials_choices), max_retries=rng.choice([0, 0, 1, 2]),
               max_consec=rng.choice([1, 2, 3, 3, 9]), seed=rng.randint(1, 10 ** 6),
               W=rng.randint(*workers), nsteps=rng.randint(6, 48), hseed=rng.randint(0, 2 ** 31),
               space_seed=rng.randint(0, 2 ** 31))
    if kind == "hyperband":
        cfg.update(max_trials=None, max_epochs=rng.choice([2, 3, 4, 9]), factor=rng.choice([2, 3]), iterations=rng.choice([1, 1, 2]))
    if kind == "bayes":
        cfg.update(max_trials=rng.choice([1, 2, 3, 5]), nsteps=min(cfg["nsteps"], 24))
    if kind == "grid" and rng.random() < 0.5:
        cfg["max_trials"] = None
    return cfg


def make_oracle(cfg, directory):
    import keras_tuner as kt
    from keras_tuner.tuners import randomsearch, gridsearch, hyperband, bayesian
    if cfg.get("shape") == "dupchoice":
        hps, shape = make_space_dup(random.Random(cfg["space_seed"]))
    else:
        hps, shape = make_space(random.Random(cfg["space_seed"]), cfg["kind"])
    obj = kt.Objective(cfg.get("obj", "score"), cfg["direction"])
    common = dict(objective=obj, seed=cfg["seed"], hyperparameters=hps, max_retries_per_trial=cfg["max_retries"],
                  max_consecutive_failed_trials=cfg["max_consec"])
    k = cfg["kind"]
    if k == "random":
        o = randomsearch.RandomSearchOracle(max_trials=cfg["max_trials"], **common)
    elif k == "grid":
        o = gridsearch.GridSearchOracle(max_trials=cfg["max_trials"], **common)
    elif k == "hyperband":
        o = hyperband.HyperbandOracle(max_epochs=cfg["max_epochs"], factor=cfg["factor"], hyperband_iterations=cfg["iterations"], **common)
    else:
        o = bayesian.BayesianOptimizationOracle(max_trials=cfg["max_trials"], num_initial_points=2, **common)
    o._set_project_dir(directory, "p")
    o._display.verbose = 0
    return o


def fvz(x):
    if x is None:
        return [9]
    if x != x:
        return [8]
    if x == math.inf:
        return [7, 2]
    if x == -math.inf:
        return [7, 1]
    f = F(x)
    # a mean of k reports is sum/k rounded to the nearest double; the model computes the exact quotient. Compare the simplest
    # rational that rounds to this very double (for dyadic values that is the value itself).
    g = f.limit_denominator(10 ** 6)
    if float(g) == x:
        f = g
    return [7, 3, f.numerator, f.denominator]


def _tnum(t):
    import re
    m = re.search(r"(\d+)$", t)
    return int(m.group(1)) if m else 0


def snapshot(o, directory):
    ids = sorted(o.trials, key=int)
    disk = []
    for i in ids:
        with open(os.path.join(directory, "p", "trial_%s" % i, "trial.json")) as fh:
            d = json.load(fh)
        disk.append((d["status"], d["score"], token(d["hyperparameters"]["values"])))
    return dict(
        st=[o.trials[i].status for i in ids], score=[o.trials[i].score for i in ids], runs=[o._run_times[i] for i in ids],
        tok=[token(o.trials[i].hyperparameters.values) for i in ids], disk=disk,
        ongoing=[(_tnum(t), int(tr.trial_id)) for t, tr in o.ongoing_trials.items()],
        so=[int(x) for x in o.start_order], eo=[int(x) for x in o.end_order], rq=[int(x) for x in o._retry_queue],
        tids=sorted(_tnum(t) for t in o.tuner_ids), idfmt=[str(i) for i in ids],
        remaining=o.remaining_trials())


def flat(resp, s):
    def L(xs):
        xs = list(xs); return [len(xs)] + xs
    out = []
    if resp[0] == "trial":
        out += [1, resp[1], STN[resp[2]], resp[3]]
    elif resp[0] == "none":
        out += [2]
    elif resp[0] == "abort":
        out += [3]
    else:
        out += [4]
    out += L(STN[x] for x in s["st"])
    sc = []
    for x in s["score"]:
        sc += fvz(x)
    out += L(sc)
    out += L(s["runs"]) + L(s["tok"])
    out += L(STN[d[0]] for d in s["disk"])
    ds = []
    for d in s["disk"]:
        ds += fvz(d[1])
    out += L(ds)
    out += L(d[2] for d in s["disk"])
    out += L(v for p in s["ongoing"] for v in p)
    out += L(s["so"]) + L(s["eo"]) + L(s["rq"]) + L(s["tids"])
    return out


class PopulateError(Exception):
    pass


def _release(o):
    """an exception escaping a synchronized method leaves the oracle's lock held (C17's business): free it for later cases"""
    from keras_tuner.engine import oracle as om
    try:
        om.THREADS[o] = None
        if om.LOCKS[o].locked():
            om.LOCKS[o].release()
    except Exception:
        pass


OUTCOME_MIX = dict(C=0.55, NAN=0.10, I=0.15, F=0.15, INF=0.05)


def run_history(cfg, outcome_mix=None, reload_p=0.04, reask_p=0.08, until_stopped=False, step_cap=None, spaces=None, negate=False):
    """Drive a real oracle; returns dict(cfg, ops, obs, table). Every random choice derives from cfg['hseed']."""
    warnings.filterwarnings("ignore")
    mix = outcome_mix or OUTCOME_MIX
    rng = random.Random(cfg["hseed"])
    d = tempfile.mkdtemp(prefix="ktv_")
    try:
        o = make_oracle(cfg, d)
        table = []
        def wrap(orc):
            orig = orc.populate_space
            def rec(trial_id):
                try:
                    r = orig(trial_id)
                except Exception as e:
                    raise PopulateError(repr(e))
                table.append([r["status"], None])
                return r
            orc.populate_space = rec
        wrap(o)
        held = {}; reported = {}; ops = []; obs = []; stopped = set(); pop_exc = None
        W = cfg["W"]; cap = step_cap or cfg["nsteps"]
        as_copy = random.Random(cfg["hseed"] ^ 0x5bd1e995).random() < 0.3
        nsteps = 0
        while nsteps < cap:
            nsteps += 1
            if until_stopped and len(stopped) == W:
                break
            if rng.random() < reload_p:
                o.save(); o = make_oracle(cfg, d); wrap(o); o.reload(); held = {}; reported = {}
                ops.append(("reload",)); obs.append((("none",), snapshot(o, d))); continue
            cand = [w for w in range(W) if w not in stopped] if until_stopped else list(range(W))
            w = rng.choice(cand); tn = "w%d" % w
            if tn in held and rng.random() >= reask_p:
                t = held[tn]
                if rng.random() < 0.45:
                    r = rng.random()
                    v = float("nan") if r < mix["NAN"] else (rng.choice([math.inf, -math.inf]) if r < mix["NAN"] + mix["INF"] else float(60 * rng.randint(*cfg.get('score_range', (-5, 5)))))
                    st = rng.choice([0, 0, 0, 1, 2])
                    if negate:
                        v = -v
                    o.update_trial(t.trial_id, {cfg.get("obj", "score"): v}, step=st)
                    reported[tn] = True
                    ops.append(("update", int(t.trial_id), v, st)); obs.append((("none",), snapshot(o, d))); continue
                held.pop(tn); r = rng.random()
                if r < mix["C"] + mix["NAN"] + mix["INF"] and reported.get(tn):
                    t.status = "COMPLETED"; oc = "ECompleted"
                elif r < 1 - mix["F"]:
                    t.status = "INVALID"; oc = "EInvalid"
                else:
                    t.status = "FAILED"; oc = "EFailed"
                reported.pop(tn, None)
                tid = int(t.trial_id)
                if as_copy:
                    # the chief/worker layer hands end_trial a reconstructed copy of the trial, not the oracle's own object
                    from keras_tuner.engine import trial as trial_module
                    tc = trial_module.Trial.from_state(t.get_state()); tc.status = t.status; t = tc
                try:
                    o.end_trial(t); resp = ("none",)
                except RuntimeError as e:
                    if "consecutive failures" not in str(e):
                        resp = ("error", "RuntimeError: " + str(e)[:200]); _release(o)
                    else:
                        resp = ("abort",); _release(o)
                except Exception as e:
                    resp = ("error", "%s: %s" % (type(e).__name__, str(e)[:200])); _release(o)
                ops.append(("end", tid, oc, token(o.trials[t.trial_id].hyperparameters.values))); obs.append((resp, snapshot(o, d)))
            else:
                before = len(table)
                try:
                    t = o.create_trial(tn)
                except PopulateError as e:
                    # the search algorithm itself raised (not the lifecycle bookkeeping): the history ends here; the
                    # algorithm-specific checks (C07/C09/C10) own this behaviour
                    pop_exc = str(e)
                    _release(o)
                    break
                tk = token(t.hyperparameters.values)
                if len(table) > before:
                    table[-1][1] = tk if t.status == "RUNNING" else 0
                if t.status == "RUNNING":
                    if tn not in held or held[tn].trial_id != t.trial_id:
                        reported[tn] = False
                    held[tn] = t
                elif t.status == "STOPPED":
                    stopped.add(w)
                ops.append(("create", w)); obs.append((("trial", int(t.trial_id), t.status, tk), snapshot(o, d)))
        final_best = [int(t.trial_id) for t in o.get_best_trials(len(o.trials) + 1)]
        return dict(cfg=cfg, ops=ops, obs=obs, table=[tuple(x) for x in table], pop_exc=pop_exc, final_best=final_best)
    finally:
        shutil.rmtree(d, ignore_errors=True)


# ------------------------------------------------------------------------------------------------ Coq emission
def fvq(x):
    if x != x:
        return "FNaN"
    if x == math.inf:
        return "FPInf"
    if x == -math.inf:
        return "FNInf"
    f = F(x)
    return "(FFin ((%d) # %d))" % (f.numerator, f.denominator)


def emit_cfg(cfg):
    mt = cfg["max_trials"]
    return "{| max_trials := %s; max_retries := %s; max_consec := %s; abort_early := false |}" % (
        "None" if not mt else "(Some %s)" % emit.nat(mt), emit.nat(cfg["max_retries"]), emit.nat(cfg["max_consec"]))


def emit_op(o):
    if o[0] == "create":
        return "Create %s" % emit.nat(o[1])
    if o[0] == "reload":
        return "Reload"
    if o[0] == "update":
        return "Update %s (rep %s %s)" % (emit.nat(o[1]), fvq(o[2]), emit.z(o[3]))
    return "End %s %s (setvals %s)" % (emit.nat(o[1]), o[2], emit.z(o[3]))


def emit_case(h, full=False):
    cfg = h["cfg"]
    tb = emit.cl("(%s, %s)" % (st, emit.z(tk or 0)) for st, tk in h["table"])
    ops = emit.cl(emit_op(o) for o in h["ops"])
    exp = emit.cl(emit.u63(emit.digest(flat(r, s))) for r, s in h["obs"])
    return "(%s, %s, true, %s, %s, %s)" % (emit_cfg(cfg), emit.b(cfg["direction"] == "max"), tb, ops, exp)


HEADER = """From Coq Require Import List ZArith QArith Bool Uint63.
Import ListNotations.
From KT Require Import Metrics Lifecycle LifeCorr.
Definition cases : list lcase := [
"""
FOOTER = "\n].\nEval vm_compute in (map check_case cases).\n"


def model_obs_at(ctx, h, n):
    """Ask Coq for the model's flattened observation at step n (replay files only)."""
    from ktverif import runcoq
    hdr = HEADER.replace("Definition cases : list lcase := [\n", "")
    return runcoq.eval_term(ctx.workdir, hdr, "obs_at (%s) %s" % (emit_case(h), emit.nat(n)), name="probe_%d" % n)
