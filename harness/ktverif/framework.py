"""Orchestration shared by every property check: gate, proof build, correspondence run, findings, evidence.

Exit codes: 0 property held on everything explored (known findings are printed, not failed);
            1 at least one VIOLATION line was printed;
            2 the harness itself is broken (never used to hide a violation: a VIOLATION line is printed too).
"""
import os, sys, re, json, time, subprocess, hashlib, random, shutil, importlib, traceback

VERIF = "/verif"
COQ = os.path.join(VERIF, "coq")
REPO = os.environ.get("KT_REPO", "/repo")
FORBIDDEN = re.compile(r"\b(Admitted|admit|Axiom|Axioms|Parameter|Parameters|Conjecture|Hypothesis|Hypotheses|Variable|Variables|Context)\b|Unset\s+Guard|bypass_check|type-in-type|impredicative-set|Admit\s+Obligations|native_compute")
ALLOWED_AXIOMS = {
    # standard-library axioms that Flocq / Reals depend on (C14 float layer only)
    "ClassicalDedekindReals.sig_forall_dec", "ClassicalDedekindReals.sig_not_dec",
    "FunctionalExtensionality.functional_extensionality_dep", "Classical_Prop.classic",
}


class Failure:
    def __init__(self, kind, signature, what, replay):
        self.kind = kind            # 'violation' | 'diff' | 'proof' | 'harness'
        self.signature = signature  # stable id used to match known_findings.json
        self.what = what
        self.replay = replay        # json-serialisable dict with the concrete input / theorem name


class Ctx:
    def __init__(self, prop, tier, seed):
        self.prop = prop; self.tier = tier; self.seed = seed
        self.rng = random.Random(seed * 1000003 + int(prop[1:]))
        self.workdir = os.path.join(VERIF, "build", "%s_%s_%d" % (prop, tier, os.getpid()))
        self.quick = tier == "quick"
        self.notes = []

    def n(self, quick, thorough):
        return quick if self.quick else thorough


# ----------------------------------------------------------------------------------------------
def strip_comments(text):
    out = []; depth = 0; i = 0
    while i < len(text):
        if text.startswith("(*", i):
            depth += 1; i += 2; continue
        if text.startswith("*)", i) and depth > 0:
            depth -= 1; i += 2; continue
        if depth == 0:
            out.append(text[i])
        i += 1
    return "".join(out)


def section_aware_gate(path):
    """Forbidden tokens outside comments. Variable/Hypothesis/Context are allowed only inside a Section."""
    text = strip_comments(open(path).read())
    bad = []
    depth = 0
    for ln, line in enumerate(text.split("\n"), 1):
        if re.match(r"\s*Section\s+\w+", line):
            depth += 1
        if re.match(r"\s*End\s+\w+\s*\.", line) and depth > 0:
            # may also be a Module end; modules are not used in this development
            depth -= 1
            continue
        for m in FORBIDDEN.finditer(line):
            tok = m.group(0)
            if tok in ("Variable", "Variables", "Hypothesis", "Hypotheses", "Context") and depth > 0:
                continue
            bad.append("%s:%d: %s" % (os.path.relpath(path, VERIF), ln, tok))
    return bad


def coq_files():
    out = []
    for root, _, files in os.walk(COQ):
        for f in files:
            if f.endswith(".v"):
                out.append(os.path.join(root, f))
    return sorted(out)


def gate():
    bad = []
    for p in coq_files():
        bad += section_aware_gate(p)
    proj = open(os.path.join(COQ, "_CoqProject")).read()
    for line in proj.split("\n"):
        line = line.strip()
        if line.startswith("-") and not line.startswith("-Q "):
            bad.append("_CoqProject: flag %r" % line)
    return bad


def cone(vfile):
    """Files of this development that `vfile` transitively requires (by basename, flat project + Props/ + gen/)."""
    names = {}
    for p in coq_files():
        rel = os.path.relpath(p, COQ)[:-2].replace("/", ".")
        names[rel] = p
        names[rel.split(".")[-1]] = p
    seen = set(); todo = [vfile]
    while todo:
        p = todo.pop()
        if p in seen or not os.path.exists(p):
            continue
        seen.add(p)
        text = strip_comments(open(p).read())
        for m in re.finditer(r"Require\s+(?:Import|Export)?\s*([^.]*(?:\.[A-Za-z_][\w']*)*)\s*\.", text):
            for w in m.group(1).split():
                w = w.strip()
                if w.startswith("KT."):
                    w = w[3:]
                if w in names:
                    todo.append(names[w])
    return sorted(seen)


def count_qed(files):
    n = 0
    for p in files:
        n += len(re.findall(r"\bQed\s*\.", strip_comments(open(p).read())))
    return n


def ensure_makefile():
    mk = os.path.join(COQ, "Makefile")
    proj = os.path.join(COQ, "_CoqProject")
    if not os.path.exists(mk) or os.path.getmtime(mk) < os.path.getmtime(proj):
        subprocess.run(["coq_makefile", "-f", "_CoqProject", "-o", "Makefile"], cwd=COQ, check=True, capture_output=True)


def build(targets, timeout=1500):
    """make the given .vo targets (dependency tracked); the Props files are always recompiled so that
    their Print Assumptions output is captured on this run. Returns (ok, log, assumptions{thm: [axioms]})."""
    ensure_makefile()
    for t in targets:
        vo = os.path.join(COQ, t)
        if t.startswith("Props/") and os.path.exists(vo):
            os.remove(vo)
    try:
        p = subprocess.run(["make", "-j16"] + targets, cwd=COQ, capture_output=True, text=True, timeout=timeout)
        log = p.stdout + p.stderr; ok = p.returncode == 0
    except subprocess.TimeoutExpired as e:
        log = "make timed out after %ds" % timeout; ok = False
    return ok, log, parse_assumptions(log)


def parse_assumptions(log):
    """`Print Assumptions thm.` prints either `Closed under the global context` or `Axioms:` + lines `name : type`."""
    res = []
    lines = log.split("\n"); i = 0
    while i < len(lines):
        l = lines[i]
        if "Closed under the global context" in l:
            res.append([])
        elif l.strip() == "Axioms:":
            ax = []; i += 1
            while i < len(lines) and lines[i].strip() and not lines[i].startswith("COQC") and "Closed under" not in lines[i] and lines[i].strip() != "Axioms:":
                m = re.match(r"^([A-Za-z_][\w.']*)\s*$|^([A-Za-z_][\w.']*)\s*:", lines[i])
                if m and not lines[i].startswith(" "):
                    ax.append(m.group(1) or m.group(2))
                i += 1
            res.append(ax); continue
        i += 1
    return res


# ----------------------------------------------------------------------------------------------
def load_findings():
    p = os.path.join(VERIF, "known_findings.json")
    if not os.path.exists(p):
        return {"findings": [], "fixed": []}
    return json.load(open(p))


def write_replay(prop, f):
    os.makedirs(os.path.join(VERIF, "replays"), exist_ok=True)
    body = json.dumps({"property": prop, "kind": f.kind, "signature": f.signature, "what": f.what, "replay": f.replay},
                      indent=1, sort_keys=True, default=str)
    h = hashlib.sha1(body.encode()).hexdigest()[:10]
    path = os.path.join(VERIF, "replays", "%s-%s.json" % (prop, h))
    with open(path, "w") as fh:
        fh.write(body)
    return path


def theorem_names(props_file):
    if not os.path.exists(props_file):
        return []
    return re.findall(r"^\s*(?:Theorem|Lemma|Corollary)\s+([\w']+)", strip_comments(open(props_file).read()), re.M)


def main(argv=None):
    import argparse
    ap = argparse.ArgumentParser()
    ap.add_argument("prop")
    ap.add_argument("--tier", default=os.environ.get("VERIF_TIER", "quick"))
    ap.add_argument("--seed", type=int, default=int(os.environ.get("VERIF_SEED", "20260930")))
    ap.add_argument("--replay", default=None)
    ap.add_argument("--no-build", action="store_true", help="debugging only: skip the proof build")
    ap.add_argument("--keep", action="store_true", help="keep the generated cases files")
    a = ap.parse_args(argv)
    prop = a.prop.upper()
    tier = a.tier if a.tier in ("quick", "thorough") else "quick"
    t0 = time.time()
    mod = importlib.import_module("checks." + prop.lower())
    ctx = Ctx(prop, tier, a.seed)
    failures = []
    # 1. gate
    bad = gate()
    if bad:
        failures.append(Failure("proof", prop + "/gate", "forbidden construct in the Coq development: " + "; ".join(bad[:5]),
                                {"theorem": "gate", "found": bad}))
    # 2. proofs
    targets = list(getattr(mod, "COQ_TARGETS", ["Props/%s.vo" % prop]))
    props_file = os.path.join(COQ, "Props", prop + ".v")
    files = cone(props_file)
    obligations = count_qed(files)
    assumptions = []; build_ok = True; log = ""
    pre = getattr(mod, "pre_build", None)
    try:
        if pre:
            pre(ctx)
    except Exception as e:
        failures.append(Failure("proof", prop + "/translator", "translator failed: %r" % (e,), {"theorem": "translator", "error": traceback.format_exc()}))
    if not a.no_build:
        build_ok, log, assumptions = build(targets)
        if not build_ok:
            m = re.search(r'File "([^"]+)", line (\d+)[^\n]*\n(?:.*\n){0,12}?Error:?([^\n]*(?:\n[^\n]+){0,6})', log)
            where = ("%s:%s %s" % (m.group(1), m.group(2), m.group(3).strip())) if m else log[-1500:]
            failures.append(Failure("proof", prop + "/proof-build", "the Coq development for this property no longer checks: " + where[:600],
                                    {"theorem": theorem_names(props_file), "make_targets": targets, "log_tail": log[-3000:]}))
        for ax in assumptions:
            for x in ax:
                if x not in ALLOWED_AXIOMS:
                    failures.append(Failure("proof", prop + "/axiom", "theorem depends on an axiom outside the allow-list: " + x, {"theorem": "Print Assumptions", "axiom": x}))
    discharged = obligations if build_ok else count_qed([f for f in files if os.path.exists(f[:-2] + ".vo") and os.path.getmtime(f[:-2] + ".vo") >= os.path.getmtime(f)])
    # 3. correspondence / spec-on-implementation / search
    res = {}
    try:
        if a.replay:
            res = mod.replay(ctx, json.load(open(a.replay)))
        else:
            res = mod.run(ctx)
    except Exception as e:
        failures.append(Failure("harness", prop + "/harness", "correspondence harness crashed: %r" % (e,), {"correspondence": prop, "error": traceback.format_exc()}))
        res = {}
    failures += res.get("failures", [])
    if not a.keep:
        shutil.rmtree(ctx.workdir, ignore_errors=True)
    # 4. findings
    kf = load_findings()
    known = {f["signature"]: f for f in kf.get("findings", []) if f.get("property") == prop}
    seen_known = {}; unknown = {}
    for f in failures:
        if f.signature in known and f.kind == "violation":
            seen_known.setdefault(f.signature, f)
        else:
            unknown.setdefault((f.kind, f.signature), f)
    for sig, f in sorted(seen_known.items()):
        print("KNOWN-FINDING: property=%s %s [%s]" % (prop, known[sig]["what"], sig))
    has_violation_input = any(f.kind == "violation" for f in unknown.values())
    nviol = 0
    for (kind, sig), f in sorted(unknown.items()):
        path = write_replay(prop, f)
        nviol += 1
        if kind == "violation":
            print("VIOLATION property=%s replay=%s" % (prop, path))
            print("  %s: %s" % (sig, f.what[:400]))
        else:
            # a broken proof / correspondence: reported either way; flagged when no failing input accompanies it
            tail = "" if has_violation_input else " no-failing-input-found"
            print("  %s (%s): %s" % (sig, kind, f.what[:400]))
            print("VIOLATION property=%s replay=%s%s" % (prop, path, tail))
    # 5. evidence
    wall = time.time() - t0
    ev_axioms = sorted({x for ax in assumptions for x in ax})
    tb = ["Coq 8.16.1 kernel + vm_compute (no native_compute, no extraction)",
          "axioms reported by Print Assumptions: " + (", ".join(ev_axioms) if ev_axioms else "none (closed under the global context)"),
          "python correspondence harness /verif/harness (generators, Python->Coq printer, digest, canonicalisation)"] + list(getattr(mod, "TRUSTED", []))
    cov = dict(obligations=obligations, discharged=discharged,
               checker_cmd="make -C /verif/coq " + " ".join(targets) + "  (full .vo build, coqc 8.16.1; Print Assumptions under each theorem of Props/%s.v)" % prop,
               trusted_base=tb,
               evaluations=int(res.get("evaluations", 0)), distinct_nontrivial=int(res.get("distinct_nontrivial", 0)),
               rule=res.get("rule", ""), samples=res.get("samples", []) or [{"theorems": theorem_names(props_file)}],
               traces_validated_against_impl=int(res.get("traces_validated", 0)),
               theorems=theorem_names(props_file), assumptions_per_theorem=assumptions,
               proof_files=[os.path.relpath(f, VERIF) for f in files],
               known_findings_seen=sorted(seen_known), stats=res.get("stats", {}))
    cov.update(res.get("extra", {}))
    doc = dict(property_id=prop, tier=tier, seed=int(a.seed), level="proof", coverage=cov,
               assumptions=list(getattr(mod, "ASSUMPTIONS", [])), wall_s=round(wall, 2), violations=nviol)
    # runs against a deliberately modified tree (tools/try_mutant.sh) must not overwrite the evidence of the real tree
    evdir = os.environ.get("VERIF_EVIDENCE_DIR") or os.path.join(VERIF, "evidence")
    os.makedirs(evdir, exist_ok=True)
    with open(os.path.join(evdir, prop + ".json"), "w") as fh:
        json.dump(doc, fh, indent=1, default=str)
    print("%s %s: %d/%d proof obligations, %d cases (%d non-trivial), %d known findings seen, %d violations, %.1fs" % (
        prop, tier, discharged, obligations, cov["evaluations"], cov["distinct_nontrivial"], len(seen_known), nviol, wall))
    if nviol:
        return 1
    return 0


if __name__ == "__main__":
    sys.exit(main())
