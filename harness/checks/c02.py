"""C02 - max_trials is a hard budget on distinct trials."""
from ktverif import lifecycle as lc
from ktverif.framework import Failure
from checks import c01

TRUSTED = c01.TRUSTED
ASSUMPTIONS = c01.ASSUMPTIONS


def spec_c02(h):
    N = h["cfg"]["max_trials"]
    if not N:
        return None
    prev = None
    for k, (op, (resp, s)) in enumerate(zip(h["ops"], h["obs"])):
        n = len(s["st"])
        if n > N:
            return k, "budget", "%d distinct trials exist, max_trials=%d" % (n, N)
        if s["remaining"] != N - n:
            return k, "remaining", "remaining_trials() = %r, expected %d - %d" % (s["remaining"], N, n)
        if op[0] == "create" and prev is not None:
            w = op[1]; holding = w in dict(prev["ongoing"])
            if not holding and prev["rq"]:
                if len(prev["st"]) != n or resp[2] != "RUNNING" or resp[1] not in prev["rq"]:
                    return k, "retry-consumes-budget", "a retry was pending (%r) but create answered trial %d %s and %d trials exist (was %d)" % (
                        prev["rq"], resp[1], resp[2], n, len(prev["st"]))
            if not holding and not prev["rq"] and len(prev["st"]) >= N:
                if resp[2] != "STOPPED" or n != len(prev["st"]):
                    return k, "stopped-at-budget", "budget used up and nothing to retry, but create answered %s" % resp[2]
        prev = s
    return None


def gen(ctx, i):
    cfg = lc.gen_config(ctx.rng, kinds=("random", "grid", "bayes"), max_trials_choices=(1, 2, 3, 4, 5, 6))
    cfg["nsteps"] = ctx.rng.randint(12, 60)
    if cfg["kind"] == "grid":
        cfg["max_trials"] = ctx.rng.choice([1, 2, 3, 4, 5])
    return cfg


RULE = ("worker-pool histories as for C01 on the oracle kinds that take max_trials (random, grid, Bayesian) with N in 1..6, 12-60 operations so "
        "that the budget boundary is reached with retries pending and save+reload in between; remaining_trials() read after every call; "
        "non-trivial = distinct history with >= 2 ended trials")


def run_shrunk(c):
    """a project that already holds k trials is resumed by an oracle whose max_trials is N2 <= k: every request is answered STOPPED"""
    import random, tempfile, shutil, warnings
    warnings.filterwarnings("ignore")
    import keras_tuner as kt
    from keras_tuner.engine import hyperparameters as hpm
    from keras_tuner.tuners import randomsearch, gridsearch, bayesian
    rng = random.Random(c["seed"])
    d = tempfile.mkdtemp(prefix="ktv02s_")

    def mk(N):
        hps = hpm.HyperParameters(); hps.Int("x", 0, 19)
        common = dict(objective=kt.Objective("score", "min"), max_trials=N, hyperparameters=hps, seed=c["oseed"], max_retries_per_trial=1, max_consecutive_failed_trials=99)
        if c["kind"] == "random": o = randomsearch.RandomSearchOracle(**common)
        elif c["kind"] == "grid": o = gridsearch.GridSearchOracle(**common)
        else: o = bayesian.BayesianOptimizationOracle(num_initial_points=2, **common)
        o._set_project_dir(d, "p"); o._display.verbose = 0
        return o
    try:
        o = mk(c["N1"])
        for i in range(c["k"]):
            t = o.create_trial("w0")
            if t.status != "RUNNING":
                return None
            x = rng.random()
            if x < 0.8:
                o.update_trial(t.trial_id, {"score": float(rng.randint(0, 9))}); t.status = "COMPLETED"
            else:
                t.status = "FAILED"
            o.end_trial(t)
        o2 = mk(c["N2"]); o2.reload()
        before = len(o2.trials)
        for j in range(3):
            t = o2.create_trial("w%d" % (j % 2))
            if t.status != "STOPPED" or len(o2.trials) != before:
                return "resumed with max_trials=%d on a project holding %d trials (%s oracle): request %d answered %s, %d trials exist now" % (
                    c["N2"], before, c["kind"], j, t.status, len(o2.trials))
        return None
    finally:
        shutil.rmtree(d, ignore_errors=True)


def shrunk_cases(ctx, n):
    fails = []
    for i in range(n):
        N1 = ctx.rng.randint(2, 6); k = ctx.rng.randint(1, N1)
        c = dict(kind=ctx.rng.choice(["random", "grid", "bayes"]), N1=N1, k=k, N2=ctx.rng.randint(1, k), seed=ctx.rng.randint(0, 2 ** 31), oseed=ctx.rng.randint(1, 10 ** 6))
        bad = run_shrunk(c)
        if bad and len(fails) < 2:
            fails.append(Failure("violation", "C02/stopped-at-budget-after-resume", bad, {"shrunk": c}))
    return fails


def run(ctx):
    res = c01.run_generic(ctx, "C02", ctx.n(200, 3000), gen, spec_c02, rule=RULE)
    n2 = ctx.n(40, 400)
    res["failures"] = list(res.get("failures", [])) + shrunk_cases(ctx, n2)
    res["evaluations"] = res.get("evaluations", 0) + n2
    res["rule"] = res.get("rule", RULE) + "; plus %d resumed projects: k trials made under max_trials=N1, then a new oracle with max_trials=N2 <= k reloads the project and every request must be answered STOPPED with no new trial (implementation-level clause; the model keeps N fixed)" % n2
    return res


def replay(ctx, doc):
    if "shrunk" in doc.get("replay", {}):
        bad = run_shrunk(doc["replay"]["shrunk"])
        fs = [Failure("violation", "C02/stopped-at-budget-after-resume", bad, {"shrunk": doc["replay"]["shrunk"]})] if bad else []
        return dict(evaluations=1, distinct_nontrivial=1, failures=fs, samples=[doc["replay"]["shrunk"]], rule="replay")
    h = lc.run_history(doc["replay"]["cfg"])
    bad = spec_c02(h)
    fs = [Failure("violation", "C02/" + bad[1], "step %d: %s" % (bad[0], bad[2]), {"cfg": h["cfg"], "step": bad[0]})] if bad else []
    return dict(evaluations=1, distinct_nontrivial=1, failures=fs, samples=[h["cfg"]], rule="replay")
