"""C02 - max_trials is a hard budget on distinct trials."""
from ktverif import lifecycle as lc
from ktverif.framework import Failure
from checks import c01

TRUSTED = c01.TRUSTED
ASSUMPTIONS = c01.ASSUMPTIONS


def spec_c02(h):
    N = h["cfg"]["max_trials"]
    if not N:
        return None
    prev = None
    for k, (op, (resp, s)) in enumerate(zip(h["ops"], h["obs"])):
        n = len(s["st"])
        if n > N:
            return k, "budget", "%d distinct trials exist, max_trials=%d" % (n, N)
        if s["remaining"] != N - n:
            return k, "remaining", "remaining_trials() = %r, expected %d - %d" % (s["remaining"], N, n)
        if op[0] == "create" and prev is not None:
            w = op[1]; holding = w in dict(prev["ongoing"])
            if not holding and prev["rq"]:
                if len(prev["st"]) != n or resp[2] != "RUNNING" or resp[1] not in prev["rq"]:
                    return k, "retry-consumes-budget", "a retry was pending (%r) but create answered trial %d %s and %d trials exist (was %d)" % (
                        prev["rq"], resp[1], resp[2], n, len(prev["st"]))
            if not holding and not prev["rq"] and len(prev["st"]) >= N:
                if resp[2] != "STOPPED" or n != len(prev["st"]):
                    return k, "stopped-at-budget", "budget used up and nothing to retry, but create answered %s" % resp[2]
        prev = s
    return None


def gen(ctx, i):
    cfg = lc.gen_config(ctx.rng, kinds=("random", "grid", "bayes"), max_trials_choices=(1, 2, 3, 4, 5, 6))
    cfg["nsteps"] = ctx.rng.randint(12, 60)
    if cfg["kind"] == "grid":
        cfg["max_trials"] = ctx.rng.choice([1, 2, 3, 4, 5])
    return cfg


RULE = ("worker-pool histories as for C01 on the oracle kinds that take max_trials (random, grid, Bayesian) with N in 1..6, 12-60 operations so "
        "that the budget boundary is reached with retries pending and save+reload in between; remaining_trials() read after every call; "
        "non-trivial = distinct history with >= 2 ended trials")


def run(ctx):
    res = c01.run_generic(ctx, "C02", ctx.n(200, 3000), gen, spec_c02, rule=RULE)
    return res


def replay(ctx, doc):
    h = lc.run_history(doc["replay"]["cfg"])
    bad = spec_c02(h)
    fs = [Failure("violation", "C02/" + bad[1], "step %d: %s" % (bad[0], bad[2]), {"cfg": h["cfg"], "step": bad[0]})] if bad else []
    return dict(evaluations=1, distinct_nontrivial=1, failures=fs, samples=[h["cfg"]], rule="replay")
