"""C03 - retry and failure policy: INVALID retried, FAILED final, abort on streak."""
import math, fractions
from ktverif import lifecycle as lc
from ktverif.framework import Failure
from checks import c01

TRUSTED = c01.TRUSTED
ASSUMPTIONS = c01.ASSUMPTIONS + ["a run 'finishes normally' when it reports only non-NaN objective values during that run and ends COMPLETED"]
F = fractions.Fraction


def run_score(reports, direction):
    """score of one run alone: best over steps of the per-step mean of that run's reports"""
    steps = {}
    for v, st in reports:
        steps.setdefault(st, []).append(v)
    means = []
    for vs in steps.values():
        if math.inf in vs and -math.inf in vs:
            return None
        if math.inf in vs:
            means.append(math.inf)
        elif -math.inf in vs:
            means.append(-math.inf)
        else:
            means.append(sum(F(x) for x in vs) / len(vs))
    return max(means) if direction == "max" else min(means)


def spec_c03(h):
    cfg = h["cfg"]; R = cfg["max_retries"]; K = cfg["max_consec"]
    prev = None
    run_reports = {}       # trial id -> reports of the current run
    for k, (op, (resp, s)) in enumerate(zip(h["ops"], h["obs"])):
        if prev is not None:
            for i, st in enumerate(prev["st"]):
                if st in ("COMPLETED", "FAILED") and i in prev["eo"]:
                    a, b = s["score"][i], prev["score"][i]
                    same = (a is None and b is None) or (a is not None and b is not None and (float(a) == float(b) or (a != a and b != b)))
                    if s["st"][i] != st or not same:
                        return k, "final-absorbing", "trial %d was %s (score %r) and is now %s (score %r)" % (i, st, prev["score"][i], s["st"][i], s["score"][i])
        if op[0] == "create" and resp[2] == "RUNNING" and prev is not None:
            w = op[1]
            if w not in dict(prev["ongoing"]):
                if prev["rq"]:
                    if resp[1] not in prev["rq"] or len(s["st"]) != len(prev["st"]):
                        return k, "retry-first", "retry queue was %r but trial %d was started" % (prev["rq"], resp[1])
                    if resp[3] != prev["tok"][resp[1]]:
                        return k, "retry-same-values", "trial %d re-issued with different hyperparameter values" % resp[1]
                run_reports[resp[1]] = []
        elif op[0] == "update":
            run_reports.setdefault(op[1], []).append((op[2], op[3]))
        elif op[0] == "reload":
            run_reports = {}
        elif op[0] == "end" and prev is not None:
            i = op[1]; oc = op[2]
            if i not in [x for _, x in prev["ongoing"]]:
                prev = s; continue
            reps = run_reports.pop(i, None)
            runs_before = prev["runs"][i]
            st = s["st"][i]
            if s["runs"][i] != runs_before + 1:
                return k, "run-counter", "run counter of trial %d went from %d to %d" % (i, runs_before, s["runs"][i])
            normal = oc == "ECompleted" and reps and all(v == v for v, _ in reps) and run_score(reps, cfg["direction"]) is not None
            if normal:
                want = run_score(reps, cfg["direction"])
                got = s["score"][i]
                ok = st == "COMPLETED" and got is not None and got == got and (got == want if want in (math.inf, -math.inf) else (got not in (math.inf, -math.inf) and (F(got) == want or float(want) == got)))
                if not ok:
                    return k, "retry-score", "run %d of trial %d reported %r and ended COMPLETED, but the trial is %s with score %r (that run's score is %s)" % (
                        runs_before + 1, i, reps, st, got, want)
            effective_invalid = oc == "EInvalid" or (oc == "ECompleted" and st != "COMPLETED")
            if oc == "EFailed" and st != "FAILED":
                return k, "failed-final", "trial %d ended FAILED but is %s" % (i, st)
            if effective_invalid:
                if runs_before + 1 <= R:
                    if st != "INVALID" or i not in s["rq"] or i in s["eo"]:
                        return k, "invalid-retried", "trial %d ended INVALID after %d run(s) (max_retries=%d) but is %s, retry queue %r" % (i, runs_before + 1, R, st, s["rq"])
                else:
                    if st != "FAILED" or i in s["rq"] or i not in s["eo"]:
                        return k, "retries-exhausted", "trial %d ended INVALID on run %d (max_retries=%d) but is %s" % (i, runs_before + 1, R, st)
            # (d) abort iff K consecutive FAILED in finishing order
            streak = 0; has = False
            for j in s["eo"]:
                streak = streak + 1 if s["st"][j] == "FAILED" else 0
                if streak == K:
                    has = True
            queued = i in s["rq"]
            if (resp[0] == "abort") != (has and not queued):
                return k, "abort-iff-streak", "end_trial %s the abort error; finishing order statuses %r, limit %d" % (
                    "raised" if resp[0] == "abort" else "did not raise", [s["st"][j] for j in s["eo"]], K)
        prev = s
    return None


def gen(ctx, i):
    cfg = lc.gen_config(ctx.rng)
    cfg["max_retries"] = ctx.rng.choice([0, 1, 1, 2, 2, 3]); cfg["max_consec"] = ctx.rng.choice([1, 2, 2, 3, 4])
    cfg["nsteps"] = ctx.rng.randint(15, 60); cfg["W"] = ctx.rng.randint(1, 3)
    return cfg


MIX = dict(C=0.40, NAN=0.18, I=0.22, F=0.15, INF=0.05)
RULE = ("worker-pool histories as for C01 with max_retries in 0..3, max_consecutive_failed_trials in 1..4, 1-3 tuners, outcome mix "
        "C 40% / NaN 18% / INVALID 22% / FAILED 15% / inf 5%; per run the reports are tracked so that 'a retry that finishes normally is "
        "COMPLETED with that run's score' is checked against the reports of that run alone; non-trivial = distinct history with >= 2 ended trials")


def run(ctx):
    return c01.run_generic(ctx, "C03", ctx.n(240, 4000), gen, spec_c03, run_kw=dict(outcome_mix=MIX, reload_p=0.02), rule=RULE)


def replay(ctx, doc):
    h = lc.run_history(doc["replay"]["cfg"], outcome_mix=MIX, reload_p=0.02)
    bad = spec_c03(h)
    fs = [Failure("violation", "C03/" + bad[1], "step %d: %s" % (bad[0], bad[2]), {"cfg": h["cfg"], "step": bad[0]})] if bad else []
    return dict(evaluations=1, distinct_nontrivial=1, failures=fs, samples=[h["cfg"]], rule="replay")
