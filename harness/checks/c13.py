"""C13 - define-by-run lookup, conditional scopes and space discovery.

(A) generated build programs (declarations of all five kinds under name scopes and conditional scopes, eager or guarded
by `if value in values`) are run on a real HyperParameters container twice (empty, then a copy with assigned values) and
on the model Space.v; every returned value / error / membership answer, the registered space (order, conditions,
defaults), the values and the recorded active/inactive scopes are compared.
(B) the same programs as the build function of a real BaseTuner: the space discovered by _populate_initial_space, the
number of builds and the outcome under the two new-entry flags are compared with Discover.v."""
import random, tempfile, shutil, fractions, warnings
from ktverif import emit, runcoq
from ktverif.framework import Failure

TRUSTED = ["raw hyperparameter names contain no '/' (name scopes are modelled on lists of segments)",
           "hyperparameter kinds enter the container model only through name, conditions and default (their domains are C14's subject)"]
ASSUMPTIONS = ["build programs are deterministic functions of the container (no other state)"]
SEGS = ["a", "b", "c", "d", "e"]
STRS = ["x", "y", "z"]


def rand_value(rng, kind):
    if kind == "int": return rng.randint(0, 3)
    if kind == "bool": return rng.random() < 0.5
    if kind == "str": return rng.choice(STRS)
    return rng.choice([0.0, 0.5, 1.0, 2.0, 1.5])


def gen_decl(rng, names=SEGS):
    n = rng.choice(names); kind = rng.choice(["int", "choice_s", "choice_i", "bool", "fixed", "float"])
    if kind == "int":
        lo = rng.randint(0, 1); hi = lo + rng.randint(0, 3); d = rng.choice([None, rng.randint(lo, hi)]); return ("decl", n, ("int", lo, hi, d))
    if kind == "choice_s":
        vs = rng.sample(STRS, rng.randint(1, 3)); return ("decl", n, ("choice", vs, rng.choice([None] + vs)))
    if kind == "choice_i":
        vs = rng.sample([0, 1, 2, 3], rng.randint(1, 3)); return ("decl", n, ("choice", vs, rng.choice([None] + vs)))
    if kind == "bool": return ("decl", n, ("bool", rng.random() < 0.5))
    if kind == "fixed": return ("decl", n, ("fixed", rand_value(rng, rng.choice(["int", "bool", "str", "float"]))))
    return ("decl", n, ("float", 0.0, 2.0, rng.choice([None, 0.5, 1.0])))


def domain(spec):
    if spec[0] == "int": return list(range(spec[1], spec[2] + 1))
    if spec[0] == "choice": return list(spec[1])
    if spec[0] == "bool": return [True, False]
    if spec[0] == "fixed": return [spec[1]]
    return [0.0, 0.5, 1.0, 2.0]


def gen_prog(rng, depth=0):
    prog = []
    for _ in range(rng.randint(1, 4 if depth < 2 else 2)):
        r = rng.random()
        if r < 0.45 or depth >= 4: prog.append(gen_decl(rng))
        elif r < 0.55: prog.append(("get", rng.choice(SEGS)))
        elif r < 0.62: prog.append(("in", rng.choice(SEGS)))
        elif r < 0.75: prog.append(("scope", rng.choice(SEGS), gen_prog(rng, depth + 1)))
        else:
            sib = [s for s in prog if s[0] == "decl"]
            if sib and rng.random() < 0.85:
                p = rng.choice(sib); parent = p[1]; dom = domain(p[2])
                if rng.random() < 0.15 and not isinstance(dom[0], str): dom = dom + [1, True, 1.0]   # numeric-tower aliases
                vs = rng.sample(dom, rng.randint(1, min(2, len(dom))))
            else:
                parent = rng.choice(SEGS); vs = [rng.randint(0, 2)]
            prog.append(("cond", rng.random() < 0.5, parent, vs, gen_prog(rng, depth + 1)))
    return prog


def gen_tree(rng, depth=0, used=None):
    """discovery programs: declaration trees with distinct names, children under conditional scopes on their parent"""
    used = used if used is not None else set()
    prog = []
    for _ in range(rng.randint(1, 3)):
        free = [n for n in "abcdefghijklmnop" if n not in used]
        if not free:
            break
        d = gen_decl(rng, names=[rng.choice(free)]); used.add(d[1]); prog.append(d)
        dom = domain(d[2])
        if depth < 3 and rng.random() < 0.75:
            for _ in range(rng.randint(1, 2)):
                vs = rng.sample(dom, rng.randint(1, min(2, len(dom))))
                body = gen_tree(rng, depth + 1, used)
                if not body:
                    continue
                st = ("cond", rng.random() < 0.3, d[1], vs, body)
                if rng.random() < 0.2:
                    st = ("scope", rng.choice(["s", "t"]), [d, st]); prog.pop()
                    prog.append(st); break
                prog.append(st)
    return prog


def gen_shared(rng):
    """the same name declared under two different conditions, the second declaration being the parent of a further scope"""
    av = rng.sample([1, 2, 3], 2)
    nv = rng.sample(["u", "v", "w"], 2)
    kind = ("choice", nv, None)
    leaf = [("decl", "leaf", ("int", 0, 3, None))]
    inner = ("cond", rng.random() < 0.5, "n", [nv[1]], leaf)
    first = ("cond", True, "a", [av[0]], [("decl", "n", kind)])
    second = ("cond", rng.random() < 0.5, "a", [av[1]], [("decl", "n", kind), inner])
    return [("decl", "a", ("choice", av, None))] + ([first, second] if rng.random() < 0.7 else [second, first])


def gen_shared2(rng):
    """a name shared by sibling conditional scopes, with further conditional scopes nested below each copy: whether a leaf is
    active depends on its WHOLE chain of conditions (kind == k1 and depth in D1), not on the innermost one"""
    ks = rng.sample(["x", "y", "z"], rng.randint(2, 3))
    dom = [0, 1, 2, 3]
    depth = ("int", 0, 3, rng.choice([None, 1, 2])) if rng.random() < 0.5 else ("choice", dom, None)
    prog = [("decl", "a", ("choice", ks, None))]
    leaves = iter(["b", "c", "d", "e"])
    branches = []
    for k in ks[: rng.randint(2, len(ks))]:
        body = [("decl", "n", depth)]
        for _ in range(rng.randint(1, 2)):
            vs = rng.sample(dom, rng.randint(1, 2))
            leaf = next(leaves, None)
            if leaf is None:
                break
            inner = [gen_decl(rng, names=[leaf])]
            if rng.random() < 0.4:
                ld = domain(inner[0][2])
                inner.append(("cond", rng.random() < 0.6, leaf, rng.sample(ld, 1), [gen_decl(rng, names=["e"])]))
            body.append(("cond", rng.random() < 0.7, "n", vs, inner))
            if rng.random() < 0.3:
                body.append(("get", leaf))
        branches.append(("cond", rng.random() < 0.8, "a", [k], body))
    rng.shuffle(branches)
    return prog + branches


def default_of(spec):
    k = spec[0]
    if k == "int": return spec[3] if spec[3] is not None else spec[1]
    if k == "choice": return spec[2] if spec[2] is not None else spec[1][0]
    if k in ("bool", "fixed"): return spec[1]
    return spec[3] if spec[3] is not None else spec[1]


VIOL = []


def run_prog(hp, prog, log):
    for st in prog:
        if st[0] == "decl":
            _, n, spec = st
            full = hp._get_name(n)
            conds_hold = all(c.is_active(hp.values) for c in hp._conditions)
            known = hp._exists(full, hp._conditions)
            before = hp.values.get(full, None) if full in hp.values else None
            had = full in hp.values
            try:
                if spec[0] == "int": v = hp.Int(n, spec[1], spec[2], default=spec[3])
                elif spec[0] == "choice": v = hp.Choice(n, list(spec[1]), default=spec[2])
                elif spec[0] == "bool": v = hp.Boolean(n, default=spec[1])
                elif spec[0] == "fixed": v = hp.Fixed(n, spec[1])
                else: v = hp.Float(n, spec[1], spec[2], default=spec[3])
                log.append(("val", v))
                # property (a), stated on the implementation's own answer
                if not conds_hold and v is not None:
                    VIOL.append("declaring %s while its conditions do not hold returned %r instead of None" % (full, v))
                elif conds_hold and known and had and v != before:
                    VIOL.append("declaring the known, active %s returned %r, its assigned value is %r" % (full, v, before))
                elif conds_hold and not known and not had and v != default_of(spec):
                    VIOL.append("declaring the unknown %s returned %r, its default is %r" % (full, v, default_of(spec)))
            except (ValueError, KeyError) as e:
                log.append(("err", type(e).__name__)); raise
        elif st[0] == "get":
            try: log.append(("val", hp.get(st[1])))
            except (ValueError, KeyError) as e: log.append(("err", type(e).__name__))
        elif st[0] == "in":
            log.append(("bool", st[1] in hp))
        elif st[0] == "scope":
            with hp.name_scope(st[1]): run_prog(hp, st[2], log)
        else:
            _, eager, parent, vs, body = st
            entered = False
            try:
                # a real `with`: an exception raised in the body travels through the context manager, as in a build function
                with hp.conditional_scope(parent, list(vs)):
                    entered = True
                    full = hp._get_name(parent)
                    if eager or (full in hp.values and hp.values[full] in list(vs)): run_prog(hp, body, log)
            except ValueError:
                if not entered:
                    log.append(("err", "ValueError"))
                raise


def cv(v, I):
    if v is None: return None
    if isinstance(v, bool): return "VBool %s" % emit.b(v)
    if isinstance(v, int): return "VInt %s" % emit.z(int(v))
    if isinstance(v, float):
        f = fractions.Fraction(v); return "VFlt %s %d" % (emit.z(f.numerator), f.denominator)
    return "VStr %d" % I("s:" + v)


cl = emit.cl
def cname(full, I): return cl("%d%%positive" % I("n:" + s) for s in full.split("/"))
def ccond(c, I): return "{| c_name := %s; c_values := %s |}" % (cname(c.name, I), cl(cv(v, I) for v in c.values))


def cprog(prog, I):
    out = []
    for st in prog:
        if st[0] == "decl": out.append("SDecl %d (%s) 1" % (I("n:" + st[1]), cv(default_of(st[2]), I)))
        elif st[0] == "get": out.append("SGet %d" % I("n:" + st[1]))
        elif st[0] == "in": out.append("SIn %d" % I("n:" + st[1]))
        elif st[0] == "scope": out.append("SScope %d %s" % (I("n:" + st[1]), cprog(st[2], I)))
        else: out.append("SCond %s %d %s %s" % (emit.b(st[1]), I("n:" + st[2]), cl(cv(v, I) for v in st[3]), cprog(st[4], I)))
    return cl(out)


def cspace(hp, I):
    return cl("{| h_name := %s; h_conds := %s; h_default := %s; h_tag := 1 |}" % (cname(h.name, I), cl(ccond(c, I) for c in h.conditions), cv(h.default, I)) for h in hp.space)
def cvals(hp, I):
    return cl("(%s, %s)" % (cname(k, I), cv(v, I)) for k, v in sorted(hp.values.items()))
def cscopes(l, I):
    return cl(cl(ccond(c, I) for c in sc) for sc in l)


def clog(log, I):
    out = []
    for k, v in log:
        if k == "val": out.append("EvVal (%s)" % ("None" if v is None else "Some (%s)" % cv(v, I)))
        elif k == "err": out.append("EvErr E%s" % v)
        else: out.append("EvBool %s" % emit.b(v))
    return cl(out)


# --------------------------------------------------------------------------- part A
def case_container(seed):
    from keras_tuner.engine import hyperparameters as hpm
    rng = random.Random(seed); I = emit.Intern()
    prog = gen_prog(rng) if rng.random() < 0.8 else gen_shared2(rng)
    del VIOL[:]
    hp = hpm.HyperParameters()
    log1 = []; raised1 = False
    try: run_prog(hp, prog, log1)
    except (ValueError, KeyError): raised1 = True
    e1 = "(%s, %s, %s, %s, %s, %s)" % (cspace(hp, I), cvals(hp, I), cscopes(hp.active_scopes, I), cscopes(hp.inactive_scopes, I), clog(log1, I), emit.b(raised1))
    hp2 = hp.copy()
    for h in hp2.space:
        r = rng.random()
        if r < 0.5:
            try: hp2.values[h.name] = h.random_sample(rng.randint(0, 99))
            except Exception: pass
        elif r < 0.6: hp2.values.pop(h.name, None)
    init2 = "(%s, %s)" % (cspace(hp2, I), cvals(hp2, I))
    assigned = dict(hp2.values)
    log2 = []; raised2 = False
    try: run_prog(hp2, prog, log2)
    except (ValueError, KeyError): raised2 = True
    e2 = "(%s, %s, %s, %s, %s, %s)" % (cspace(hp2, I), cvals(hp2, I), cscopes(hp2.active_scopes, I), cscopes(hp2.inactive_scopes, I), clog(log2, I), emit.b(raised2))
    term = "CContainer %s %s %s %s" % (cprog(prog, I), init2, e1, e2)
    # whatever happened inside (also an exception), every scope that was entered has been left again
    for which, h in (("first", hp), ("second", hp2)):
        if h._conditions or h._name_scopes:
            VIOL.append("after the %s pass (%s) the container is still inside scopes: conditions %r, name scopes %r" % (
                which, "it raised" if (raised1 if which == "first" else raised2) else "no exception", [(c.name, c.values) for c in h._conditions], list(h._name_scopes)))
    # property (b) on the implementation: parents are registered before their conditional children
    msg = None
    for sp in (hp.space, hp2.space):
        seen = set()
        for h in sp:
            for c in h.conditions:
                if c.name not in seen:
                    msg = "entry %s is registered before its parent %s" % (h.name, c.name)
            seen.add(h.name)
    if VIOL and msg is None:
        msg = VIOL[0]
    del VIOL[:]
    return term, dict(kind="container", seed=seed, prog=prog, assigned={k: repr(v) for k, v in assigned.items()}, log1=log1[:12], log2=log2[:12]), msg


# --------------------------------------------------------------------------- part B
def all_decls(prog, scopes=()):
    out = []
    for st in prog:
        if st[0] == "decl": out.append("/".join(scopes + (st[1],)))
        elif st[0] == "scope": out += all_decls(st[2], scopes + (st[1],))
        elif st[0] == "cond": out += all_decls(st[4], scopes)
    return out


def case_discovery(seed, allow, tune, predeclare):
    warnings.filterwarnings("ignore")
    import keras_tuner as kt
    from keras_tuner.engine import hyperparameters as hpm, base_tuner
    from keras_tuner.tuners import randomsearch
    rng = random.Random(seed); I = emit.Intern()
    for _ in range(50):
        r0 = rng.random()
        prog = gen_tree(rng) if r0 < 0.65 else gen_shared(rng) if r0 < 0.72 else gen_shared2(rng) if r0 < 0.82 else gen_prog(rng)
        hp = hpm.HyperParameters()
        try:
            run_prog(hp, prog, []); break
        except (ValueError, KeyError):
            continue
    else:
        return None
    builds = [0]; predeclare0 = predeclare

    def build(hp):
        builds[0] += 1
        if builds[0] > 120: raise RuntimeError("too many builds")
        run_prog(hp, prog, [])

    class T(base_tuner.BaseTuner):
        def run_trial(self, trial, *a, **k): return 1.0
    pre = hpm.HyperParameters()
    if predeclare:
        first = next((st for st in prog if st[0] == "decl"), None)
        if first is not None:
            run_prog(pre, [first], [])
    d = tempfile.mkdtemp(prefix="ktv13_")
    if not predeclare and not (allow and tune):
        predeclare = True          # the constructor requires a space when new entries are not allowed / not tuned
    o = randomsearch.RandomSearchOracle(objective=kt.Objective("score", "min"), max_trials=3, seed=1, hyperparameters=pre.copy() if predeclare else None,   # a copy: the oracle keeps and extends the object it is given
                                        allow_new_entries=allow, tune_new_entries=tune)
    status = "done"
    try:
        T(o, build, directory=d, project_name="p")
    except (ValueError, KeyError):
        status = "error"
    except RuntimeError as e:
        status = "loop" if "too many builds" in str(e) else "error"
    shutil.rmtree(d, ignore_errors=True)
    sp = o.hyperparameters
    term = "CDiscover %s %s %s %s (%s, %s, %s, %s)" % (cprog(prog, I), "(%s, %s)" % (cspace(pre, I), cvals(pre, I)), emit.b(allow), emit.b(tune),
                                                       cspace(sp, I), cvals(sp, I), emit.nat(builds[0]), emit.nat({"done": 0, "error": 1, "loop": 2}[status]))
    msg = None
    names = [h.name for h in sp.space]
    shared = len(set(all_decls(prog))) != len(all_decls(prog))
    if status == "loop":
        msg = ("discovery-terminates", "_populate_initial_space did not return after 120 builds")
    elif status == "done" and allow and tune and not shared:
        missing = [n for n in all_decls(prog) if n not in names]
        if missing:
            msg = ("discovery-complete", "declared hyperparameters %r are missing from the discovered space %r" % (missing, names))
    if status == "done" and msg is None:
        seen = set()
        for h in sp.space:
            for c in h.conditions:
                if c.name not in seen:
                    msg = ("parents-first", "entry %s is registered before its parent %s" % (h.name, c.name))
            seen.add(h.name)
    if status == "done" and not tune and [h.name for h in sp.space] != [h.name for h in pre.space]:
        msg = ("tune-new-entries", "tune_new_entries=False but the space changed: %r" % names)
    if status == "done" and not allow and set(all_decls(prog)) - {h.name for h in pre.space}:
        new_reachable = True
        msg = msg or ("allow-new-entries", "allow_new_entries=False but a build declaring new entries was accepted")
    return term, dict(kind="discovery", seed=seed, prog=prog, allow=allow, tune=tune, predeclare=predeclare0, status=status, builds=builds[0], space=names), msg


HEADER = """From stdpp Require Import gmap list.
From Coq Require Import ZArith.
From KT Require Import Space Discover.
Open Scope positive_scope.
Definition mk (sp : list hp) (v : list (name * value)) : hps :=
  {| s_scopes := []; s_conds := []; s_space := sp; s_values := list_to_map v; s_active := []; s_inactive := [] |}.
Global Instance cond_eq_dec : EqDecision cond. Proof. solve_decision. Defined.
Global Instance hp_eq_dec : EqDecision hp. Proof. solve_decision. Defined.
Global Instance err_eq_dec : EqDecision err. Proof. solve_decision. Defined.
Global Instance event_eq_dec : EqDecision event. Proof. solve_decision. Defined.
Definition exp_t := (list hp * list (name*value) * list (list cond) * list (list cond) * list event * bool)%type.
Definition same (o : hps * list event * bool) (e : exp_t) : bool :=
  let '(s, log, r) := o in let '(sp', v', a', i', log', r') := e in
  bool_decide (s_space s = sp') && bool_decide (s_values s = list_to_map v') && bool_decide (s_active s = a') && bool_decide (s_inactive s = i')
  && bool_decide (log = log') && bool_decide (r = r').
Inductive ccase :=
| CContainer (p : list stmt) (init2 : list hp * list (name*value)) (e1 e2 : exp_t)
| CDiscover (p : list stmt) (pre : list hp * list (name*value)) (allow tune : bool) (e : list hp * list (name*value) * nat * nat).
Definition check (c : ccase) : nat :=
  match c with
  | CContainer p (sp2, v2) e1 e2 =>
      if negb (same (exec 1000 empty_hps p []) e1) then 1%nat else if negb (same (exec 1000 (mk sp2 v2) p []) e2) then 2%nat else 0%nat
  | CDiscover p (psp, pv) allow tune (sp, v, nb, st) =>
      match populate_initial (fun _ h => h_default h) p allow tune 130%nat (mk psp pv) with
      | ActDone osp k b => if Nat.eqb st 0 && bool_decide (s_space osp = sp) && bool_decide (s_values osp = list_to_map v) && Nat.eqb b nb then 0%nat else 3%nat
      | ActError => if Nat.eqb st 1 then 0%nat else 4%nat
      | ActFuel => if Nat.eqb st 2 then 0%nat else 5%nat
      end
  end.
Definition cases : list ccase := [
"""
FOOTER = "\n].\nEval vm_compute in (map check cases).\n"


def run(ctx):
    n = ctx.n(900, 10000)
    terms = []; infos = []; failures = []
    stats = dict(container=0, discovery=0, statuses={}, flags={}, diffs=0)
    seen = set(); distinct = 0
    import glob, json
    corpus = [c for c in (json.load(open(f)) for f in sorted(glob.glob("/verif/corpus/C13/*.json"))) if "seed" in c and "kind" in c]
    stats["corpus_cases"] = len(corpus)
    for i in range(-len(corpus), n):
        c = corpus[i + len(corpus)] if i < 0 else None
        seed = c["seed"] if c else ctx.rng.randint(0, 2 ** 40)
        if (c["kind"] == "container") if c else (i % 3 != 2):
            term, info, msg = case_container(seed)
            stats["container"] += 1
            if msg:
                failures.append(Failure("violation", "C13/parents-first" if "registered before" in msg else "C13/lookup", msg, {"program": info["prog"], "assigned": info["assigned"], "seed": seed}))
        else:
            allow, tune = (c["allow"], c["tune"]) if c else ctx.rng.choice([(True, True), (True, True), (True, False), (False, True), (False, False)])
            r = case_discovery(seed, allow, tune, c["predeclare"] if c else ctx.rng.random() < 0.3)
            if r is None:
                continue
            term, info, msg = r
            stats["discovery"] += 1
            stats["statuses"][info["status"]] = stats["statuses"].get(info["status"], 0) + 1
            stats["flags"]["allow=%s,tune=%s" % (allow, tune)] = stats["flags"].get("allow=%s,tune=%s" % (allow, tune), 0) + 1
            if msg:
                failures.append(Failure("violation", "C13/" + msg[0], msg[1], {"program": info["prog"], "allow": allow, "tune": tune, "seed": seed}))
        terms.append(term); infos.append(info)
        key = repr(info["prog"])
        if key not in seen:
            distinct += 1
        seen.add(key)
    verdicts, errors, wall = runcoq.run_cases(ctx.workdir, HEADER, terms, FOOTER, chunk=150)
    for path, rc, err in errors:
        failures.append(Failure("harness", "C13/coqc", "coqc failed on %s: %s" % (path, err[-300:]), {"correspondence": "C13", "file": path}))
    WHAT = {"1": "first pass on an empty container", "2": "second pass with assigned values", "3": "discovered space / values / number of builds",
            "4": "the model raises, the tuner does not", "5": "the model does not terminate within 130 builds, the tuner does"}
    ndiff = 0
    for j, v in enumerate(verdicts):
        code = v.replace("%nat", "").strip()
        if code != "0":
            ndiff += 1
            if ndiff <= 3:
                failures.append(Failure("diff", "C13/model-vs-impl", "Space.v/Discover.v and the implementation disagree: %s" % WHAT.get(code, code),
                                        {"correspondence": "Space.v / Discover.v vs HyperParameters / BaseTuner._populate_initial_space", "case": infos[j]}))
    stats["diffs"] = ndiff; stats["coqc_wall_s"] = round(wall, 1)
    return dict(evaluations=len(terms), distinct_nontrivial=distinct, traces_validated=len(terms) - ndiff,
                rule="generated build programs: declaration trees of all five kinds under name scopes and conditional scopes nested to depth 4, children declared eagerly or "
                     "only under `if value in values`, same name under different conditions, numeric-tower aliases in condition values; 2/3 run on the container "
                     "(empty, then with assigned values), 1/3 as the build function of a BaseTuner under the four settings of allow_new_entries / tune_new_entries, with or "
                     "without a pre-declared entry; distinct = distinct program",
                samples=infos[:2], failures=failures, stats=stats)


def replay(ctx, doc):
    return dict(evaluations=1, distinct_nontrivial=1, failures=[], samples=[doc["replay"]], rule="replay: programs are regenerated from their seed by bin/check C13")
