"""C07 - saving and reloading an oracle preserves the search and its continuation.

Differential: at a save point of a generated history the project directory is copied, a fresh oracle of the same class
reloads it, and (a) its state is compared with the live oracle in which the running trials have been re-queued, (b) both
are driven through the same continuation and must issue the same trials (random, grid, Hyperband); for the Bayesian oracle
the continuation must stay valid and within budget. The reload operation itself is part of the model correspondence of
C01 (Reload ops inside histories); the theorems are in LReload.v."""
import os, math, random, shutil, tempfile, warnings
from ktverif import lifecycle as lc
from ktverif.framework import Failure
from checks import c01

TRUSTED = ["the live oracle with its ongoing trials moved to the retry queue is the reference ('requeue' of the property)",
           "outcomes of trial runs are a deterministic function of (trial id, run number), so both oracles see the same results"]
ASSUMPTIONS = ["saving happens at an operation boundary (crash points inside an operation are C08's subject)"]


def outcome(cfg, tid, run):
    r = random.Random(cfg["hseed"] * 7919 + tid * 131 + run)
    x = r.random()
    if x < 0.62:
        return ("C", float(60 * r.randint(-5, 5)))
    if x < 0.70:
        return ("C", float("nan"))
    if x < 0.88:
        return ("I", None)
    return ("F", None)


class Pool:
    """deterministic worker pool over one oracle"""
    def __init__(self, cfg, o, d, seed):
        self.cfg, self.o, self.d = cfg, o, d
        self.rng = random.Random(seed); self.held = {}; self.log = []; self.stopped = set(); self.exc = None
        self.reports = {}      # trial id -> the values its current run has reported (reset whenever the trial is handed out)

    def step(self):
        W = self.cfg["W"]; o = self.o
        w = self.rng.randrange(W); tn = "w%d" % w
        if tn in self.held and self.rng.random() < 0.7:
            t = self.held.pop(tn)
            kind, v = outcome(self.cfg, int(t.trial_id), o._run_times[t.trial_id])
            if self.cfg.get("grow"):
                own = repr(sorted((k, repr(x)) for k, x in t.hyperparameters.values.items() if not k.startswith("tuner/")))
                if sum(map(ord, own)) % 3 != 0:
                    # the build function declares further hyperparameters (some configurations only, as `if hp.Boolean(..)` does)
                    hp = t.hyperparameters
                    hp.Choice("late_act", ["relu", "tanh", "elu"])
                    with hp.conditional_scope("late_act", ["tanh", "elu"]):
                        hp.Int("late_k", 1, 2)
            try:
                if kind == "C":
                    o.update_trial(t.trial_id, {"score": v}, step=0); t.status = "COMPLETED"
                    self.reports.setdefault(int(t.trial_id), []).append(v)
                else:
                    t.status = "INVALID" if kind == "I" else "FAILED"
                o.end_trial(t); resp = "ok"
            except RuntimeError as e:
                resp = "abort" if "consecutive failures" in str(e) else "error:" + str(e)[:80]; lc._release(o)
            except Exception as e:
                resp = "error:%s" % type(e).__name__; lc._release(o)
            self.log.append(("end", int(t.trial_id), kind, resp))
        elif tn in self.held and self.cfg.get("mid") and self.rng.random() < 0.5:
            # an intermediate report of the running trial (as the per-epoch callback sends)
            t = self.held[tn]
            v = float(60 * self.rng.randint(-5, 5))
            o.update_trial(t.trial_id, {"score": v}, step=0)
            self.reports.setdefault(int(t.trial_id), []).append(v)
            self.log.append(("report", int(t.trial_id), v))
        else:
            try:
                t = o.create_trial(tn)
            except Exception as e:
                lc._release(o); self.exc = "%s: %s" % (type(e).__name__, str(e)[:120])
                self.log.append(("create", w, "EXC", self.exc)); return False
            if t.status == "RUNNING":
                if tn not in self.held:
                    self.reports[int(t.trial_id)] = []
                self.held[tn] = t
            self.log.append(("create", w, int(t.trial_id), t.status, lc.token(t.hyperparameters.values)))
        return True


def deep_state(o):
    """the progress of the search algorithm itself, read from the live objects (not through get_state)"""
    k = type(o).__name__
    if k == "GridSearchOracle":
        order = []
        ll = o._ordered_ids
        tid = ll._memory[0] if ll._memory else None
        # the first element of the list is the one no other element points to
        if ll._memory:
            pointed = {ll._memory[j] for j in ll._next_index.values() if j is not None}
            heads = [x for x in ll._memory if x not in pointed]
            tid = heads[0] if heads else ll._memory[0]
        guard = 0
        while tid is not None and guard < 10000:
            order.append(tid); tid = ll.next(tid); guard += 1
        return dict(order=order, populate_next=list(o._populate_next))
    if k == "HyperbandOracle":
        import json
        return dict(brackets=json.loads(json.dumps(o._brackets)), current_bracket=o._current_bracket, current_iteration=o._current_iteration)
    return {}


def requeue_live(o):
    for _, t in o.ongoing_trials.items():
        if t.trial_id not in o._retry_queue:
            o._retry_queue.append(t.trial_id)
    o.ongoing_trials = {}


def norm(s):
    """fields of a snapshot the property promises; a queued trial may be labelled RUNNING or INVALID"""
    q = set(s["rq"])
    st = ["WAITING" if (i in q and x in ("RUNNING", "INVALID")) else x for i, x in enumerate(s["st"])]
    sc = [None if (x is None) else ("nan" if x != x else float(x)) for x in s["score"]]
    return dict(st=st, score=sc, runs=s["runs"], tok=s["tok"], so=s["so"], eo=s["eo"], rq=s["rq"], ongoing=s["ongoing"])


def run_case(cfg):
    warnings.filterwarnings("ignore")
    d = tempfile.mkdtemp(prefix="ktv07a_"); d2 = tempfile.mkdtemp(prefix="ktv07b_")
    try:
        o = lc.make_oracle(cfg, d)
        p = Pool(cfg, o, d, cfg["hseed"])
        for _ in range(cfg["prefix"]):
            if not p.step():
                return dict(skip="prefix raised " + str(p.exc), prefix=p.log)
        o.save()
        shutil.rmtree(d2); shutil.copytree(d, d2)
        o2 = lc.make_oracle(cfg, d2)
        try:
            o2.reload()
        except Exception as e:
            return dict(reload_exc="%s: %s" % (type(e).__name__, str(e)[:200]), prefix=p.log)
        requeue_live(o)
        a = norm(lc.snapshot(o, d)); b = norm(lc.snapshot(o2, d2))
        state_diff = {k: (a[k], b[k]) for k in a if a[k] != b[k]}
        # algorithm-specific progress that get_state promises
        algo_diff = {}
        for attr in ("_seed_state", "_tried_so_far", "_max_collisions"):
            if hasattr(o, attr) and getattr(o, attr) != getattr(o2, attr):
                algo_diff[attr] = (repr(getattr(o, attr))[:80], repr(getattr(o2, attr))[:80])
        da, db = deep_state(o), deep_state(o2)
        for kk in da:
            if da[kk] != db[kk]:
                algo_diff[kk] = (repr(da[kk])[:160], repr(db[kk])[:160])
        if [h.name for h in o.hyperparameters.space] != [h.name for h in o2.hyperparameters.space]:
            algo_diff["space"] = ([h.name for h in o.hyperparameters.space], [h.name for h in o2.hyperparameters.space])
        pa = Pool(cfg, o, d, cfg["hseed"] + 1); pb = Pool(cfg, o2, d2, cfg["hseed"] + 1)
        for _ in range(cfg["cont"]):
            ra = pa.step(); rb = pb.step()
            if not (ra and rb):
                break
        fa = norm(lc.snapshot(o, d)); fb = norm(lc.snapshot(o2, d2))
        # a trial handed out again runs from scratch: what it has on record is what that run reported
        stale = None
        for pool, oo in ((pb, o2), (pa, o)):
            for tid, vals in pool.reports.items():
                tr = [t for k, t in oo.trials.items() if int(k) == tid][0]
                if tr.status != "COMPLETED" or any(v != v for v in vals) or not tr.metrics.exists("score"):
                    continue
                got = [float(x) for ob in tr.metrics.get_history("score") for x in ob.value]
                if got != vals and stale is None:
                    stale = "trial %d was handed out %s and that run reported %r, but it has %r on record" % (
                        tid, "again after the reload" if oo is o2 else "again", vals, got)
        return dict(prefix=p.log, state_diff=state_diff, algo_diff=algo_diff, cont_live=pa.log, cont_reloaded=pb.log,
                    final_live=fa, final_reloaded=fb, stale=stale, exc_live=pa.exc, exc_reloaded=pb.exc,
                    max_trials=cfg["max_trials"], ntrials=len(fb["st"]))
    finally:
        shutil.rmtree(d, ignore_errors=True); shutil.rmtree(d2, ignore_errors=True)


def spec(cfg, r):
    if "skip" in r:
        return None
    if "reload_exc" in r:
        return "reload-raises", "reload() raised %s" % r["reload_exc"]
    if r["state_diff"]:
        k = sorted(r["state_diff"])[0]
        return "state-restored", "after reload %s is %r, the saved oracle (running trials re-queued) had %r" % (k, r["state_diff"][k][1], r["state_diff"][k][0])
    if r["algo_diff"]:
        k = sorted(r["algo_diff"])[0]
        return "algo-state-restored", "after reload %s is %s, was %s" % (k, r["algo_diff"][k][1], r["algo_diff"][k][0])
    if r.get("stale"):
        return "rerun-from-scratch", r["stale"]
    if r["exc_reloaded"] and not r["exc_live"]:
        return "continuation", "%s oracle: the reloaded oracle raised %s where the uninterrupted one did not" % (cfg["kind"], r["exc_reloaded"])
    if cfg["kind"] != "bayes":
        for i, (x, y) in enumerate(zip(r["cont_live"], r["cont_reloaded"])):
            if x != y:
                return "continuation", "%s oracle: request %d of the continuation: uninterrupted oracle %r, reloaded oracle %r" % (cfg["kind"], i, x, y)
        if r["final_live"] != r["final_reloaded"]:
            k = [k for k in r["final_live"] if r["final_live"][k] != r["final_reloaded"][k]][0]
            return "continuation", "final %s differs: %r vs %r" % (k, r["final_live"][k], r["final_reloaded"][k])
    else:
        if r["max_trials"] and r["ntrials"] > r["max_trials"]:
            return "bayes-budget", "reloaded Bayesian oracle started %d trials, budget %d" % (r["ntrials"], r["max_trials"])
        for e in r["cont_reloaded"]:
            if e[0] == "create" and e[2] == "EXC":
                return "bayes-valid", "reloaded Bayesian oracle raised %s" % e[3]
    return None


def gen(rng):
    cfg = lc.gen_config(rng)
    cfg["prefix"] = rng.randint(0, 22); cfg["cont"] = rng.randint(8, 30)
    cfg["grow"] = rng.random() < 0.4
    cfg["mid"] = rng.random() < 0.5
    if cfg["grow"] and cfg["kind"] in ("grid", "hyperband") and rng.random() < 0.6:
        cfg["W"] = rng.randint(2, 4); cfg["prefix"] = rng.randint(6, 30)
    if cfg["kind"] == "bayes":
        cfg["max_trials"] = rng.choice([3, 4, 5]); cfg["prefix"] = rng.randint(0, 10); cfg["cont"] = rng.randint(5, 14)
    return cfg


def run(ctx):
    import glob, json
    n = ctx.n(200, 2000)
    corpus = [json.load(open(f))["cfg"] for f in sorted(glob.glob("/verif/corpus/C07/*.json"))]
    failures = []; stats = dict(by_kind={}, skipped=0, with_ongoing=0, with_retryq=0, cont_ops=0, corpus_cases=len(corpus)); distinct = 0; seen = set(); samples = []
    for i in range(n):
        cfg = corpus[i] if i < len(corpus) else gen(ctx.rng)
        r = run_case(cfg)
        stats["by_kind"][cfg["kind"]] = stats["by_kind"].get(cfg["kind"], 0) + 1
        if "skip" in r:
            stats["skipped"] += 1; continue
        if "final_live" in r:
            stats["cont_ops"] += len(r["cont_reloaded"])
            stats["with_retryq"] += bool(r["final_live"]["rq"] or any(e[0] == "end" and e[2] == "I" for e in r["prefix"]))
        held = sum(1 for e in r["prefix"] if e[0] == "create" and len(e) > 3 and e[3] == "RUNNING") - sum(1 for e in r["prefix"] if e[0] == "end")
        stats["with_ongoing"] += held > 0
        key = repr((cfg["kind"], r["prefix"]))
        if key not in seen and len(r["prefix"]) >= 3:
            distinct += 1
        seen.add(key)
        bad = spec(cfg, r)
        if bad:
            failures.append(Failure("violation", "C07/%s/%s" % (bad[0], cfg["kind"]), bad[1], {"cfg": cfg, "prefix": r["prefix"], "detail": {k: r[k] for k in ("state_diff", "algo_diff") if k in r}}))
        if len(samples) < 2 and "final_live" in r:
            samples.append(dict(cfg=cfg, prefix=r["prefix"][:10], continuation=r["cont_reloaded"][:10]))
    return dict(evaluations=n, distinct_nontrivial=distinct, traces_validated=n - stats["skipped"],
                rule="a deterministic worker pool (1-4 tuners; outcome of run k of trial i fixed by a hash: completed / NaN / INVALID / FAILED; in half of the cases running trials also send intermediate reports) drives a real "
                     "random, grid, Hyperband or Bayesian oracle for 0-22 operations; the state is saved, copied and reloaded into a fresh oracle; reloaded vs "
                     "uninterrupted (running trials re-queued) are compared field by field and then through the same 5-30 further operations; "
                     "non-trivial = distinct prefix with >= 3 operations",
                samples=samples or [dict(note="no sample")], failures=failures, stats=stats)


def replay(ctx, doc):
    cfg = doc["replay"]["cfg"]
    r = run_case(cfg); bad = spec(cfg, r)
    fs = [Failure("violation", "C07/%s/%s" % (bad[0], cfg["kind"]), bad[1], {"cfg": cfg})] if bad else []
    return dict(evaluations=1, distinct_nontrivial=1, failures=fs, samples=[cfg], rule="replay")
