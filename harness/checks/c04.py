"""C04 - best trials are the best COMPLETED trials in order; direction is symmetric."""
import math, random, tempfile, shutil, fractions
from ktverif import emit, runcoq, lifecycle as lc
from ktverif.framework import Failure

TRUSTED = ["Python's sorted() is a stable sort (reverse=True keeps the original order of equal keys)",
           "symmetry of the Bayesian oracle is observed on the implementation (two-run monitor with the real Gaussian process), not proved"]
ASSUMPTIONS = ["completed trials have non-NaN scores (C01)"]
F = fractions.Fraction
STATUSES = ["COMPLETED", "COMPLETED", "COMPLETED", "RUNNING", "INVALID", "FAILED"]


def gen_set(rng):
    n = rng.randint(0, 9)
    pool = [float(rng.randint(-6, 6)) / rng.choice([1, 2]) for _ in range(3)] + [math.inf, -math.inf]
    trials = []
    for i in range(n):
        st = rng.choice(STATUSES)
        r = rng.random()
        if st == "COMPLETED":
            sc = rng.choice(pool) if r < 0.7 else float(rng.randint(-20, 20))
        else:
            sc = None if r < 0.5 else (float("nan") if r < 0.75 else rng.choice(pool))
        trials.append((st, sc))
    return dict(direction=rng.choice(["min", "max"]), trials=trials, n=rng.randint(1, n + 2))


def run_set_impl(case):
    import keras_tuner as kt
    from keras_tuner.engine import trial as tm, hyperparameters as hpm
    from keras_tuner.tuners import randomsearch
    hps = hpm.HyperParameters(); hps.Int("x", 0, 100)
    o = randomsearch.RandomSearchOracle(objective=kt.Objective("score", case["direction"]), max_trials=50, hyperparameters=hps)
    for i, (st, sc) in enumerate(case["trials"]):
        h = hps.copy(); h.values = {"x": i}
        t = tm.Trial(h, trial_id=str(i), status=st); t.score = sc
        o.trials[str(i)] = t
    best = o.get_best_trials(case["n"])
    return [int(t.trial_id) for t in best], [t.hyperparameters.values["x"] for t in best]


def reported_case(rng):
    """the score clause: trials whose score the oracle derives itself from reports (several executions per step, several steps);
    returns a message or None"""
    import fractions, tempfile, shutil, warnings
    import keras_tuner as kt
    from keras_tuner.engine import hyperparameters as hpm
    from keras_tuner.tuners import randomsearch
    warnings.filterwarnings("ignore")
    direction = rng.choice(["min", "max"]); mx = direction == "max"
    oname = rng.choice(OBJ_NAMES)       # the explicit direction wins over whatever Keras would infer from the name
    hps = hpm.HyperParameters(); hps.Int("x", 0, 10 ** 6)
    d = tempfile.mkdtemp(prefix="ktv04_")
    try:
        o = randomsearch.RandomSearchOracle(objective=kt.Objective(oname, direction), max_trials=20, hyperparameters=hps, seed=rng.randint(1, 10 ** 6))
        o._set_project_dir(d, "p"); o._display.verbose = 0
        want = {}
        for i in range(rng.randint(2, 6)):
            t = o.create_trial("w0")
            steps = {}
            for _ in range(rng.randint(1, 6)):
                st = rng.choice([0, 0, 1, 2]); v = float(60 * rng.randint(-4, 4))
                o.update_trial(t.trial_id, {oname: v}, step=st); steps.setdefault(st, []).append(fractions.Fraction(v))
            means = [sum(vs) / len(vs) for vs in steps.values()]
            want[t.trial_id] = max(means) if mx else min(means)
            t.status = "COMPLETED"; o.end_trial(t)
        for i, w in want.items():
            got = o.trials[i].score
            if got is None or float(w) != float(got):
                return "Objective(%r, %r): trial %s reported %s; its score is %r, the best per-step mean is %s" % (oname, direction, i, "several executions per step", got, w)
        n = rng.randint(1, len(want) + 1)
        ids = [t.trial_id for t in o.get_best_trials(n)]
        exp = [i for i, _ in sorted(want.items(), key=lambda kv: (-kv[1] if mx else kv[1], int(kv[0])))][:n]
        if ids != exp:
            return "%s: get_best_trials(%d) = %r, by best per-step mean (ties in creation order) %r" % (direction, n, ids, exp)
        return None
    finally:
        shutil.rmtree(d, ignore_errors=True)


def spec_set(case, ids):
    ts = case["trials"]; mx = case["direction"] == "max"
    if len(ids) != min(case["n"], len(ts)) or len(set(ids)) != len(ids):
        return "returned %d trials %r for n=%d of %d" % (len(ids), ids, case["n"], len(ts))
    comp = [ts[i][0] == "COMPLETED" for i in ids]
    for a in range(len(ids)):
        for b in range(a + 1, len(ids)):
            if comp[b] and not comp[a]:
                return "%s trial %d is ranked ahead of COMPLETED trial %d" % (ts[ids[a]][0], ids[a], ids[b])
            if comp[a] and comp[b]:
                sa, sb = ts[ids[a]][1], ts[ids[b]][1]
                if (sb > sa) if mx else (sb < sa):
                    return "trial %d (score %r) is ranked ahead of trial %d (score %r), direction %s" % (ids[a], sa, ids[b], sb, case["direction"])
    for i, (st, sc) in enumerate(ts):
        if st == "COMPLETED" and i not in ids:
            for j in ids:
                if ts[j][0] != "COMPLETED":
                    return "COMPLETED trial %d left out while %s trial %d is returned" % (i, ts[j][0], j)
                if (sc > ts[j][1]) if mx else (sc < ts[j][1]):
                    return "left-out trial %d (score %r) is strictly better than returned trial %d (score %r)" % (i, sc, j, ts[j][1])
    return None


def fvq(x):
    if x is None or x != x:
        return "FNaN"
    return lc.fvq(x)


def emit_set(case, ids):
    ts = emit.cl("(%s, %s, %s)" % (emit.b(st == "COMPLETED"), fvq(sc), emit.nat(i)) for i, (st, sc) in enumerate(case["trials"]))
    return "(%s, %s, %s, %s)" % (emit.b(case["direction"] == "max"), emit.nat(case["n"]), ts, emit.cl(emit.nat(i) for i in ids))


HEADER = """From Coq Require Import List ZArith QArith Bool PeanoNat.
Import ListNotations.
From KT Require Import Metrics Best.
Local Close Scope Q_scope.
Definition T := (bool * fv * nat)%type.
Fixpoint leqn (a b : list nat) := match a, b with [], [] => true | x :: a, y :: b => Nat.eqb x y && leqn a b | _, _ => false end.
Definition check (c : bool * nat * list T * list nat) : bool :=
  let '(mx, n, ts, exp) := c in
  leqn (map snd (best_trials (fun t : T => fst (fst t)) (fun t : T => snd (fst t)) mx n ts)) exp.
Definition cases : list (bool * nat * list T * list nat) := [
"""
FOOTER = "\n].\nEval vm_compute in (map check cases).\n"


OBJ_NAMES = ["score", "score", "val_loss", "val_accuracy", "loss", "accuracy", "val_mean_squared_error"]


def sym_pair(ctx, cfg):
    """two-run monitor: (max, s) against (min, -s) on the implementation"""
    a = dict(cfg, direction="max"); b = dict(cfg, direction="min")
    ha = lc.run_history(a, reload_p=0.0, negate=False)
    hb = lc.run_history(b, reload_p=0.0, negate=True)
    ra = [(o, r) for o, (r, _) in zip(ha["ops"], ha["obs"]) if o[0] == "create"]
    rb = [(o, r) for o, (r, _) in zip(hb["ops"], hb["obs"]) if o[0] == "create"]
    if [x[1] for x in ra] != [x[1] for x in rb]:
        k = next((i for i, (x, y) in enumerate(zip(ra, rb)) if x[1] != y[1]), min(len(ra), len(rb)))
        return "issued trials differ at request %d: maximising s gave %r, minimising -s gave %r" % (k, ra[k][1] if k < len(ra) else None, rb[k][1] if k < len(rb) else None), ha
    if ha["final_best"] != hb["final_best"]:
        return "rankings differ: %r vs %r" % (ha["final_best"], hb["final_best"]), ha
    return None, ha


VEC_HEADER = """From Coq Require Import List ZArith Bool PeanoNat.
Import ListNotations.
From KT Require Import Lifecycle LSym BayesSym.
(* trials are identified by their index (V = Vec = nat); the stubbed predict answers 100000 + index *)
Definition mkt (i : nat) (st : status) (sc : option Z) : @trial nat Z :=
  {| t_status := st; t_score := option_map (@SVal Z) sc; t_runs := 0; t_data := i |}.
Definition ys (mx : bool) (nf : option nat) (len : nat) (ts : list (@trial nat Z)) : list (nat * option Z) :=
  map (fun p => (fst p, match snd p with SVal z => Some z | SNaN => None end))
      (vectorize Z.opp (fun (_ : unit) v => v) (fun _ => len) (fun (_ : unit) => nf) (fun _ v => SVal (100000 + Z.of_nat v)%Z) mx tt tt ts).
Definition vec_ok (c : bool * option nat * nat * list (nat * status * option Z) * list (nat * option Z)) : bool :=
  let '(mx, nf, len, ts, want) := c in
  let got := ys mx nf len (map (fun t => mkt (fst (fst t)) (snd (fst t)) (snd t)) ts) in
  Nat.eqb (length got) (length want) &&
  forallb (fun p => Nat.eqb (fst (fst p)) (fst (snd p)) && match snd (fst p), snd (snd p) with Some a, Some b => Z.eqb a b | None, None => true | _, _ => false end) (combine got want).
Definition cases : list (bool * option nat * nat * list (nat * status * option Z) * list (nat * option Z)) := [
"""
VEC_FOOTER = "\n].\nEval vm_compute in (map vec_ok cases).\n"


def vectorize_cases(ctx, n):
    """BayesianOptimizationOracle._vectorize_trials on states reached by real worker-pool histories vs BayesSym.vectorize.
    The Gaussian process is replaced by a stub whose predict identifies the trial it is asked about (through the value of a
    huge Int entry) and answers 100000 + trial index; scores are distinct integers, so the y column shows which trials entered
    the training set, in which order and with which sign."""
    import numpy as np, tempfile, shutil, warnings
    import keras_tuner as kt
    from keras_tuner.engine import hyperparameters as hpm
    from keras_tuner.tuners import bayesian
    warnings.filterwarnings("ignore")
    terms = []; infos = []; py_fail = []
    for k in range(n):
        seed = ctx.rng.randint(0, 2 ** 40); rng = random.Random(seed)
        hps = hpm.HyperParameters()
        hps.Int("x", 0, 10 ** 9)
        if rng.random() < 0.6: hps.Choice("m", ["u", "v"])
        if rng.random() < 0.5 and "m" in hps.values:
            with hps.conditional_scope("m", ["u"]): hps.Int("k", 1, 3)
        if rng.random() < 0.4: hps.Fixed("f", 7)
        if rng.random() < 0.4: hps.Float("y", 0.0, 1.0)
        direction = rng.choice(["min", "max"])
        d = tempfile.mkdtemp(prefix="ktv04v_")
        try:
            o = bayesian.BayesianOptimizationOracle(objective=kt.Objective("score", direction), max_trials=40, num_initial_points=1000, seed=rng.randint(1, 10 ** 6),
                                                    hyperparameters=hps, max_retries_per_trial=rng.choice([0, 1]), max_consecutive_failed_trials=99)
            o._set_project_dir(d, "p"); o._display.verbose = 0
            held = {}; W = rng.randint(1, 4)
            for _ in range(rng.randint(4, 30)):
                tn = "w%d" % rng.randrange(W)
                if tn in held and rng.random() < 0.7:
                    t = held.pop(tn); r = rng.random()
                    if r < 0.65:
                        o.update_trial(t.trial_id, {"score": float(7 * int(t.trial_id) + 3 - 40)}); t.status = "COMPLETED"
                    else:
                        t.status = "INVALID" if r < 0.85 else "FAILED"
                    o.end_trial(t)
                elif tn not in held:
                    t = o.create_trial(tn)
                    if t.status == "RUNNING": held[tn] = t
            ids = list(o.trials)                       # the order _vectorize_trials walks
            xs = {o.trials[i].hyperparameters.values["x"]: j for j, i in enumerate(ids)}
            hx = o.hyperparameters.space[0]
            nonfixed = o._nonfixed_space()
            nf_mode = rng.choice(["absent", "match", "other"])

            class Stub:
                calls = 0
                def predict(self, x, return_std=False):
                    Stub.calls += 1
                    j = xs[hx.prob_to_value(float(x[0][0]))]
                    return np.array([100000.0 + j]), np.array([0.0])
            stub = Stub()
            if nf_mode == "match": stub.n_features_in_ = len(nonfixed)
            if nf_mode == "other": stub.n_features_in_ = len(nonfixed) + 1
            o.gpr = stub
            x, y = o._vectorize_trials()
            trials = [(j, o.trials[i].status, o.trials[i].score) for j, i in enumerate(ids)]
            # python-side: rows of x are the vectors of the trials that y identifies
            want = []
            for row, yy in zip(x, y):
                j = xs[hx.prob_to_value(float(row[0]))]
                want.append((j, int(round(float(yy)))))
            if len(x) != len(y):
                py_fail.append("x has %d rows, y %d entries" % (len(x), len(y)))
            nf = None if nf_mode == "absent" else len(nonfixed) if nf_mode == "match" else len(nonfixed) + 1
            stc = lambda s: s if s in ("RUNNING", "COMPLETED", "FAILED", "INVALID") else "IDLE"
            terms.append("(%s, %s, %s, %s, %s)" % (emit.b(direction == "max"), emit.opt(nf, emit.nat), emit.nat(len(nonfixed)),
                         emit.cl("(%s, %s, %s)" % (emit.nat(j), stc(st), emit.opt(None if sc is None else int(sc), emit.z)) for j, st, sc in trials),
                         emit.cl("(%s, Some %s)" % (emit.nat(j), emit.z(v)) for j, v in want)))
            infos.append(dict(seed=seed, direction=direction, nfeat=nf_mode, trials=[(j, st, None if sc is None else float(sc)) for j, st, sc in trials], y=want))
        finally:
            lc._release(o); shutil.rmtree(d, ignore_errors=True)
    verdicts, errors, wall = runcoq.run_cases(ctx.workdir, VEC_HEADER, terms, VEC_FOOTER, chunk=100, prefix="vec")
    fails = []
    for path, rc, err in errors:
        fails.append(Failure("harness", "C04/coqc", "coqc failed on %s: %s" % (path, err[-300:]), {"correspondence": "C04 vectorize", "file": path}))
    for m in py_fail[:1]:
        fails.append(Failure("violation", "C04/bayes-training-set", m, {"note": "regenerated from the run seed"}))
    nd = 0
    for j, v in enumerate(verdicts):
        if v != "true":
            nd += 1
            if nd <= 2:
                fails.append(Failure("diff", "C04/vectorize-model-vs-impl", "BayesSym.vectorize and BayesianOptimizationOracle._vectorize_trials disagree: %r" % (infos[j],),
                                     {"correspondence": "BayesSym.v vs BayesianOptimizationOracle._vectorize_trials", "case": infos[j]}))
    return fails, dict(vec_cases=n, vec_diffs=nd, vec_coqc_wall_s=round(wall, 1), vec_rows=sum(len(i["y"]) for i in infos),
                       vec_ongoing_rows=sum(1 for i in infos for (j, v) in i["y"] if v >= 100000))


def run(ctx):
    rng = ctx.rng
    n = ctx.n(1500, 20000)
    cases = []; terms = []; outs = []
    seen = set(); nontriv = 0
    stats = dict(sets=n, ties=0, with_inf=0, beyond=0, sym_pairs=0, sym_by_kind={})
    for i in range(n):
        c = gen_set(rng)
        ids, xs = run_set_impl(c)
        cases.append(c); outs.append(ids); terms.append(emit_set(c, ids))
        comp = [sc for st, sc in c["trials"] if st == "COMPLETED"]
        tie = len(set(comp)) < len(comp)
        stats["ties"] += tie; stats["with_inf"] += any(x in (math.inf, -math.inf) for x in comp); stats["beyond"] += c["n"] > len(c["trials"])
        key = repr(c)
        if key not in seen and len(comp) >= 2:
            nontriv += 1
        seen.add(key)
    verdicts, errors, wall = runcoq.run_cases(ctx.workdir, HEADER, terms, FOOTER, chunk=400)
    failures = []
    for path, rc, err in errors:
        failures.append(Failure("harness", "C04/coqc", "coqc failed on %s: %s" % (path, err[-300:]), {"correspondence": "C04", "file": path}))
    ndiff = 0
    for i, v in enumerate(verdicts):
        msg = spec_set(cases[i], outs[i])
        if msg:
            failures.append(Failure("violation", "C04/ranking", msg, {"case": cases[i], "impl": outs[i]}))
        if v != "true":
            ndiff += 1
            if not msg:
                failures.append(Failure("diff", "C04/model-vs-impl", "Best.v and Oracle.get_best_trials disagree (tie order or selection)",
                                        {"correspondence": "Best.v vs Oracle.get_best_trials", "case": cases[i], "impl": outs[i]}))
    # the score clause on trials scored by the oracle from its own reports
    nrep = ctx.n(60, 600); stats["reported_sets"] = nrep
    for j in range(nrep):
        msg = reported_case(rng)
        if msg:
            failures.append(Failure("violation", "C04/score-from-reports", msg, {"note": "regenerated from the run seed"}))
            break
    # symmetry monitor on the four real oracles
    npairs = ctx.n(36, 300)
    import glob, json
    corpus = [json.load(open(f))["cfg"] for f in sorted(glob.glob("/verif/corpus/C04/*.json"))]
    stats["corpus_pairs"] = len(corpus)
    for j in range(npairs + len(corpus)):
        if j < len(corpus):
            msg, ha = sym_pair(ctx, corpus[j])
            stats["sym_pairs"] += 1
            if msg:
                failures.append(Failure("violation", "C04/direction-symmetry", "%s oracle: %s" % (corpus[j]["kind"], msg), {"cfg": corpus[j], "ops": ha["ops"]}))
            continue
        cfg = lc.gen_config(rng)
        cfg["nsteps"] = rng.randint(15, 40)
        if j % 3 == 0:
            # the Bayesian model must see the same data either way, also while other trials are still running
            cfg.update(kind="bayes", W=rng.choice([2, 3]), max_trials=rng.choice([6, 7, 8]), nsteps=45, max_retries=0, max_consec=9)
        elif j % 3 == 1 or j % 6 == 2:
            cfg.update(kind="hyperband", W=rng.choice([2, 3, 4]), max_trials=None, max_epochs=rng.choice([4, 9]), factor=rng.choice([2, 3]), iterations=1, nsteps=rng.choice([60, 90, 120]))
            if rng.random() < 0.9:
                cfg["score_range"] = rng.choice([(0, 1), (0, 1), (0, 2), (-1, 1)])     # ties among the candidates of a promotion: which of them continues must not depend on the direction
                cfg["max_retries"] = 0
        if cfg["kind"] == "bayes" and j % 3 != 0:
            cfg["max_trials"] = rng.choice([4, 5, 6]); cfg["nsteps"] = 30
        if rng.random() < 0.4:
            cfg["obj"] = rng.choice(OBJ_NAMES[2:])
        msg, ha = sym_pair(ctx, cfg)
        stats["sym_pairs"] += 1
        stats["sym_by_kind"][cfg["kind"]] = stats["sym_by_kind"].get(cfg["kind"], 0) + 1
        if msg:
            failures.append(Failure("violation", "C04/direction-symmetry", "%s oracle: %s" % (cfg["kind"], msg), {"cfg": cfg, "ops": ha["ops"]}))
    vf, vstats = vectorize_cases(ctx, ctx.n(60, 600))
    failures.extend(vf); stats.update(vstats)
    stats["diffs"] = ndiff; stats["coqc_wall_s"] = round(wall, 1)
    return dict(evaluations=n + npairs + vstats["vec_cases"], distinct_nontrivial=nontriv, traces_validated=n - ndiff,
                rule="(a) trial sets of 0-9 trials with statuses COMPLETED/RUNNING/INVALID/FAILED, scores from a small pool (ties), negatives, +-inf, NaN on "
                     "non-completed trials, n from 1 to beyond the number of trials, installed in a real oracle and ranked by get_best_trials; "
                     "(c) the training set the Bayesian oracle builds (_vectorize_trials with a stubbed GP on states reached by worker-pool histories) vs BayesSym.vectorize; "
                     "(b) two-run monitor: the same seeded worker-pool history on each of the four oracles once with (max, s) and once with (min, -s); "
                     "non-trivial = distinct set with >= 2 completed trials",
                samples=[dict(case=cases[0], impl=outs[0]), dict(case=cases[1], impl=outs[1])], failures=failures, stats=stats)


def replay(ctx, doc):
    r = doc["replay"]
    fs = []
    if "case" in r:
        c = r["case"]; c["trials"] = [tuple(t) for t in c["trials"]]
        ids, _ = run_set_impl(c); msg = spec_set(c, ids)
        if msg:
            fs.append(Failure("violation", "C04/ranking", msg, {"case": c}))
    else:
        msg, _ = sym_pair(ctx, r["cfg"])
        if msg:
            fs.append(Failure("violation", "C04/direction-symmetry", msg, {"cfg": r["cfg"]}))
    return dict(evaluations=1, distinct_nontrivial=1, failures=fs, samples=[r], rule="replay")
