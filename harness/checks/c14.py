"""C14 - value/probability transforms stay in the domain and invert each other.

Coq side (HpFloat.v over Flocq binary64 + HpExact.v): Int with linear sampling (any step), Choice, Boolean - the binary64
computation of prob_to_index/index_to_prob is modelled bit-exactly and compared on adversarial probabilities.
Float hyperparameters and log / reverse_log sampling go through libm (pow, log) and float floor-division: they are checked
on the implementation only (domain, lattice, round trip, determinism) - stated as partial in the evidence."""
import math, random, fractions, itertools
from ktverif import emit, runcoq
from ktverif.framework import Failure

F = fractions.Fraction
TRUSTED = ["CPython float arithmetic is IEEE-754 binary64 round-to-nearest-even (what Flocq's Bdiv/Bmult model)",
           "math.pow / math.log (libm) are not modelled: log and reverse_log sampling and Float lattices are checked on the implementation only",
           "random.Random(seed).random() is a deterministic function of the seed"]
ASSUMPTIONS = ["probabilities are finite binary64 numbers in [0, 1)", "n_values < 2^50 for the round-trip theorems"]


def b64(x):
    if x == 0:
        return "(Fz 0 0)"
    m, e = math.frexp(x)
    mi = int(m * 2 ** 53)
    return "(Fz (%d) (%d))" % (mi, e - 53)


def adversarial_probs(rng, n):
    ps = [0.0, 1.0 - 2.0 ** -53, 0.5, math.nextafter(0.5, 0.0), 2.0 ** -1074, 2.0 ** -1022]
    for i in rng.sample(range(n), min(n, 4)):
        for q in (i / n, (i + 1) / n, (i + 0.5) / n):
            for x in (q, math.nextafter(q, 0.0), math.nextafter(q, 1.0)):
                if 0.0 <= x < 1.0:
                    ps.append(x)
    ps += [rng.random() for _ in range(4)]
    return ps


def pre_build(ctx):
    """regenerate coq/gen/Gen_hp.v (return expressions of Int/Float.prob_to_value) from /repo's source"""
    import os
    from ktverif import translate_hp
    text, ip, fp = translate_hp.main(os.environ.get("KT_REPO", "/repo"))
    os.makedirs("/verif/coq/gen", exist_ok=True)
    path = "/verif/coq/gen/Gen_hp.v"
    old = open(path).read() if os.path.exists(path) else ""
    if old != text:
        open(path, "w").write(text)
    ctx.notes.append(dict(int_prob_to_value=ip, float_prob_to_value=fp))


# ------------------------------------------------------------------ generation
def gen_hp(rng):
    import keras_tuner as kt
    from keras_tuner.engine import hyperparameters as hpm
    kind = rng.choice(["int_lin", "int_lin", "int_log", "int_rlog", "float_lin", "float_lin_step", "float_log", "float_rlog",
                       "float_log_step", "choice", "choice", "boolean", "fixed"])
    if kind == "int_lin":
        lo = rng.randint(-20, 20); hi = lo + rng.choice([0, 1, 2, 3, 7, 10, 33, 100]); step = rng.choice([None, 1, 2, 3, 5, 7])
        spec = dict(kind=kind, lo=lo, hi=hi, step=step)
        hp = hpm.Int("x", lo, hi, step=step)
    elif kind in ("int_log", "int_rlog"):
        lo = rng.choice([1, 2, 3, 10]); hi = lo * rng.choice([1, 2, 8, 10, 100, 1000]) + rng.choice([0, 0, 1, 5]); step = rng.choice([None, None, 2, 3, 10])
        spec = dict(kind=kind, lo=lo, hi=hi, step=step)
        hp = hpm.Int("x", lo, hi, step=step, sampling="log" if kind == "int_log" else "reverse_log")
    elif kind == "float_lin":
        lo = rng.choice([-2.5, -1.0, 0.0, 0.1, 1e-4, 3.0]); hi = lo + rng.choice([0.0, 0.5, 1.0, 2.25, 10.0])
        spec = dict(kind=kind, lo=lo, hi=hi, step=None); hp = hpm.Float("x", lo, hi)
    elif kind == "float_lin_step":
        lo = rng.choice([-1.0, 0.0, 0.1, 0.25, 1.0]); step = rng.choice([0.1, 0.2, 0.25, 0.5, 0.3, 1.0]); hi = round(lo + step * rng.choice([0, 1, 2, 3, 5, 6, 10]) + rng.choice([0.0, 0.0, 0.05]), 10)
        spec = dict(kind=kind, lo=lo, hi=hi, step=step); hp = hpm.Float("x", lo, hi, step=step)
    elif kind in ("float_log", "float_rlog"):
        lo = rng.choice([1e-4, 1e-3, 0.5, 1.0, 2.0]); hi = lo * rng.choice([1.0, 10.0, 100.0, 1e4])
        spec = dict(kind=kind, lo=lo, hi=hi, step=None); hp = hpm.Float("x", lo, hi, sampling="log" if kind == "float_log" else "reverse_log")
    elif kind == "float_log_step":
        lo = rng.choice([1e-3, 0.01, 1.0, 2.0]); step = rng.choice([2, 10]); hi = lo * step ** rng.choice([0, 1, 2, 3, 4]) * rng.choice([1.0, 1.0, 1.5])
        smp = rng.choice(["log", "reverse_log"])
        spec = dict(kind=kind, lo=lo, hi=hi, step=step, sampling=smp); hp = hpm.Float("x", lo, hi, step=step, sampling=smp)
    elif kind == "choice":
        n = rng.randint(1, 9); t = rng.choice(["str", "int", "float", "bool"])
        vals = {"str": ["a", "b", "c", "d", "e", "f", "g", "h", "i"], "int": [3, 1, 4, 15, 9, 2, 6, 5, 35], "float": [0.1, 0.5, 2.0, 1e-3, 3.5, 7.0, 9.0, 11.0, 0.25], "bool": [True, False]}[t]
        vals = vals[: min(n, len(vals))]
        spec = dict(kind=kind, values=vals); hp = hpm.Choice("x", vals)
    elif kind == "boolean":
        spec = dict(kind=kind); hp = hpm.Boolean("x", default=rng.choice([False, True]))
    else:
        v = rng.choice([3, 2.5, "s", True]); spec = dict(kind=kind, value=v); hp = hpm.Fixed("x", v)
    return spec, hp


def same(a, b):
    return type(a) is type(b) and (a == b)


# ------------------------------------------------------------------ the property on the implementation
def in_domain(spec, hp, v, exact=False):
    k = spec["kind"]
    if k.startswith("int"):
        if type(v) is not int:
            return "value %r has type %s, expected int" % (v, type(v).__name__)
        if not (spec["lo"] <= v <= spec["hi"]):
            return "value %r outside [%d, %d]" % (v, spec["lo"], spec["hi"])
        st = spec["step"] if spec["step"] is not None else (1 if k == "int_lin" else None)
        if st is not None:
            if k == "int_lin" and (v - spec["lo"]) % st != 0:
                return "value %r is not on the lattice %d + i*%d" % (v, spec["lo"], st)
            if k == "int_log" and not any(spec["lo"] * st ** i == v for i in range(64)):
                return "value %r is not on the lattice %d * %d^i" % (v, spec["lo"], st)
            if k == "int_rlog" and not any(spec["hi"] + spec["lo"] - spec["lo"] * st ** i == v for i in range(64)):
                return "value %r is not on the mirrored lattice" % (v,)
        return None
    if k.startswith("float"):
        if type(v) is not float:
            return "value %r has type %s, expected float" % (v, type(v).__name__)
        # what prob_to_value hands to a trial must lie in [min, max] exactly; the enumerated lattice of a stepped Float is
        # the code's own 'on the lattice up to floating point error' (+1e-8 in _get_n_values) and is compared with a tolerance
        tol = 0.0 if exact else 1e-9 * max(1.0, abs(spec["lo"]), abs(spec["hi"]))
        if not (spec["lo"] - tol <= v <= spec["hi"] + tol):
            return "value %r outside [%r, %r]" % (v, spec["lo"], spec["hi"])
        return None
    if k == "choice":
        # Choice stores bools as ints (True == 1): membership is Python equality
        return None if any(v == x for x in spec["values"]) else "value %r is not one of the choices" % (v,)
    if k == "boolean":
        return None if type(v) is bool else "value %r is not a bool" % (v,)
    return None if same(v, spec["value"]) else "value %r is not the fixed value" % (v,)


def expected_lattice(spec):
    """the stepped lattice as the code's own float/int formula enumerates it, extended as far as it stays <= max"""
    k = spec["kind"]; lo, hi, st = spec["lo"], spec["hi"], spec["step"]
    out = []
    i = 0
    while i < 10000:
        if k in ("int_lin", "float_lin_step"):
            v = lo + i * st
        elif k == "int_log" or (k == "float_log_step" and spec["sampling"] == "log"):
            v = lo * (st ** i) if k == "int_log" else lo * math.pow(st, i)
        else:
            v = hi + lo - (lo * (st ** i) if k == "int_rlog" else lo * math.pow(st, i))
        inside = (v <= hi) if not (k == "int_rlog" or (k == "float_log_step" and spec["sampling"] == "reverse_log")) else (v >= lo)
        tol = 0 if k.startswith("int") else 1e-9 * max(1.0, abs(hi))
        if not inside and not (abs(v - (hi if v > lo else lo)) <= tol):
            break
        out.append(v); i += 1
    return out


def spec_hp(spec, hp, probs, seeds):
    k = spec["kind"]
    for p in probs:
        v = hp.prob_to_value(p)
        m = in_domain(spec, hp, v, exact=True)
        if m:
            return "domain", "prob_to_value(%r) -> %s" % (p, m)
    for s in seeds:
        a = hp.random_sample(s); b = hp.random_sample(s)
        if not same(a, b) or not same(a, hp.prob_to_value(random.Random(s).random())):
            return "determinism", "random_sample(%d) gave %r then %r (prob_to_value of the seeded draw: %r)" % (s, a, b, hp.prob_to_value(random.Random(s).random()))
    # enumerated values / lattice
    stepped = spec.get("step") is not None or k == "int_lin"
    if k in ("choice", "boolean", "fixed") or stepped:
        vals = list(hp.values)
        if stepped and k not in ("choice", "boolean", "fixed"):
            sp = dict(spec); sp["step"] = spec["step"] if spec["step"] is not None else 1
            want = expected_lattice(sp)
            for v in vals:
                m = in_domain(spec, hp, v)
                if m:
                    return "values-type", "values property: %s" % m
            tol = 0 if k.startswith("int") else 1e-9 * max(1.0, abs(spec["hi"]))
            if len(vals) != len(want) or any(abs(a - b) > tol for a, b in zip(vals, want)):
                return "lattice", "values are %r, the lattice up to max is %r" % (vals[:12], want[:12])
        for v in vals:
            back = hp.prob_to_value(hp.value_to_prob(v))
            if k == "choice" and back == v:
                continue
            if not same(back, v) and not (isinstance(v, float) and isinstance(back, float) and abs(back - v) <= 1e-12 * max(1.0, abs(v))):
                return "roundtrip", "value %r maps to probability %r and back to %r" % (v, hp.value_to_prob(v), back)
        d = hp.default
        if k != "fixed" and not stepped and in_domain(spec, hp, d):
            return "default", "default %r: %s" % (d, in_domain(spec, hp, d))
    else:
        for p in probs[:6]:
            v = hp.prob_to_value(p); back = hp.prob_to_value(hp.value_to_prob(v))
            if isinstance(v, float):
                if abs(back - v) > 1e-9 * max(1.0, abs(v)):
                    return "roundtrip", "value %r maps to probability %r and back to %r" % (v, hp.value_to_prob(v), back)
            elif not same(back, v):
                return "roundtrip", "value %r maps to probability %r and back to %r" % (v, hp.value_to_prob(v), back)
    return None


# ------------------------------------------------------------------ dense sweep of the range ends (libm-dependent paths)
EDGE_PROBS = [0.0, 5e-324, 2.0 ** -53, 1e-9, 0.5, 1.0 - 1e-9, 1.0 - 2.0 ** -52, 1.0 - 2.0 ** -53]


def sweep_edges(rng, n_int, n_float):
    """log / reverse_log sampling goes through math.pow and math.log, where whether a range end is hit, missed by an ulp or
    overshot depends on the particular (min, max, step): sweep many of them at probabilities next to 0 and 1."""
    from keras_tuner.engine import hyperparameters as hpm
    out = []; count = 0
    pairs = [(lo, hi) for lo in range(1, 41) for hi in range(lo, lo + 101)]
    rng.shuffle(pairs)
    for lo, hi in pairs[:n_int]:
        for smp in ("log", "reverse_log", "linear"):
            for step in ((None, 2, 3) if smp != "linear" else (None, 3)):
                try:
                    hp = hpm.Int("x", lo, hi, step=step, sampling=smp)
                except ValueError:
                    continue
                spec = dict(kind={"log": "int_log", "reverse_log": "int_rlog", "linear": "int_lin"}[smp], lo=lo, hi=hi, step=step)
                for p in EDGE_PROBS:
                    count += 1
                    m = in_domain(spec, hp, hp.prob_to_value(p), exact=True)
                    if m:
                        out.append((spec, p, m)); break
    for _ in range(n_float):
        lo = rng.choice([1e-4, 1e-3, 0.5, 1.0, 2.0, 3.0, 0.1, 7.0, -1.0, -2.5, 0.0, rng.uniform(0.001, 10)])
        for smp in ("linear", "log", "reverse_log"):
            if smp != "linear" and lo <= 0:
                continue
            hi = lo * rng.choice([1.0, 10.0, 100.0, 1e4, rng.uniform(1, 50)]) if lo > 0 else lo + rng.choice([0.5, 1.0, 3.3, 10.0])
            for step in (None, rng.choice([0.1, 0.25, 0.3, 1.0]) if smp == "linear" else rng.choice([2, 3, 10, 1.5])):
                try:
                    hp = hpm.Float("x", lo, hi, step=step, sampling=smp)
                except ValueError:
                    continue
                kind = ("float_lin" if step is None else "float_lin_step") if smp == "linear" else ("float_log_step" if step is not None else ("float_log" if smp == "log" else "float_rlog"))
                spec = dict(kind=kind, lo=lo, hi=hi, step=step, sampling=smp)
                for p in EDGE_PROBS:
                    count += 1
                    m = in_domain(spec, hp, hp.prob_to_value(p), exact=True)
                    if m:
                        out.append((spec, p, m)); break
    return out, count


# ------------------------------------------------------------------ Coq cases (Int linear, Choice, Boolean)
def emit_case(spec, hp, probs):
    k = spec["kind"]
    if k == "int_lin":
        st = spec["step"] if spec["step"] is not None else 1
        vals = list(hp.values)
        p2v = emit.cl("(%s, %s)" % (b64(p), emit.z(hp.prob_to_value(p))) for p in probs)
        v2p = emit.cl("(%s, %s)" % (emit.z(v), b64(hp.value_to_prob(v))) for v in vals)
        return "CInt {| lo := %s; hi := %s; step := %s |} %s %s %s" % (emit.z(spec["lo"]), emit.z(spec["hi"]), emit.z(st), p2v, v2p, emit.cl(emit.z(v) for v in vals))
    if k == "choice":
        n = len(spec["values"])
        p2i = emit.cl("(%s, %s)" % (b64(p), emit.nat([i for i, x in enumerate(spec["values"]) if x == hp.prob_to_value(p)][0])) for p in probs)
        i2p = emit.cl("(%s, %s)" % (emit.nat(i), b64(hp.value_to_prob(v))) for i, v in enumerate(spec["values"]))
        return "CChoice %s %s %s" % (emit.nat(n), p2i, i2p)
    if k == "boolean":
        return "CBool %s %s %s" % (emit.cl("(%s, %s)" % (b64(p), emit.b(hp.prob_to_value(p))) for p in probs), b64(hp.value_to_prob(True)), b64(hp.value_to_prob(False)))
    return None


HEADER = """From Coq Require Import ZArith List Bool.
From Flocq Require Import Core BinarySingleNaN.
From KT Require Import FloatIndex HpExact HpFloat.
Import ListNotations.
Definition Fz (m e : Z) : b64 := binary_normalize prec emax Hprec Hmax mode_NE m e false.
Definition feq (a b : b64) : bool := match Bcompare a b with Some Eq => true | _ => false end.
Inductive hcase :=
| CInt (l : ilat) (p2v : list (b64 * Z)) (v2p : list (Z * b64)) (vals : list Z)
| CChoice (n : nat) (p2i : list (b64 * nat)) (i2p : list (nat * b64))
| CBool (p2v : list (b64 * bool)) (pt pf : b64).
Fixpoint leqz (a b : list Z) := match a, b with [], [] => true | x :: a, y :: b => Z.eqb x y && leqz a b | _, _ => false end.
Definition check (c : hcase) : bool :=
  match c with
  | CInt l p2v v2p vals =>
      forallb (fun pv => Z.eqb (int_p2v l (fst pv)) (snd pv)) p2v
      && forallb (fun vp => feq (int_v2p l (fst vp)) (snd vp)) v2p
      && leqz (int_values l) vals
  | CChoice n p2i i2p =>
      forallb (fun pi => Z.eqb (idx (fst pi) (Z.of_nat n)) (Z.of_nat (snd pi))) p2i
      && forallb (fun ip => feq (choice_v2p (fst ip) n) (snd ip)) i2p
  | CBool p2v pt pf => forallb (fun pv => Bool.eqb (bool_p2v (fst pv)) (snd pv)) p2v && feq (bool_v2p true) pt && feq (bool_v2p false) pf
  end.
Definition cases : list hcase := [
"""
FOOTER = "\n].\nEval vm_compute in (map check cases).\n"


def run(ctx):
    import glob, json
    rng = ctx.rng
    n = ctx.n(700, 8000)
    specs = []; terms = []; term_idx = []; failures = []
    stats = dict(by_kind={}, probs=0, coq_cases=0, impl_only=0)
    seen = set(); distinct = 0
    for i in range(n):
        spec, hp = gen_hp(rng)
        nvals = 10
        if spec["kind"] == "int_lin":
            st = spec["step"] or 1; nvals = (spec["hi"] - spec["lo"]) // st + 1
        elif spec["kind"] == "choice":
            nvals = len(spec["values"])
        probs = adversarial_probs(rng, max(1, nvals))
        stats["by_kind"][spec["kind"]] = stats["by_kind"].get(spec["kind"], 0) + 1; stats["probs"] += len(probs)
        bad = spec_hp(spec, hp, probs, [0, rng.choice([-1, -7, 2 ** 40, True]), rng.randint(-5, 5)] + [rng.randint(0, 10 ** 6) for _ in range(2)])
        if bad:
            failures.append(Failure("violation", "C14/%s/%s" % (bad[0], spec["kind"]), "%r: %s" % (spec, bad[1]), {"hp": spec}))
        t = emit_case(spec, hp, probs)
        if t is not None:
            terms.append(t); term_idx.append(i); stats["coq_cases"] += 1
        else:
            stats["impl_only"] += 1
        specs.append(spec)
        key = repr(spec)
        if key not in seen:
            distinct += 1
        seen.add(key)
    bad_edges, n_edges = sweep_edges(rng, ctx.n(1500, 4040), ctx.n(1500, 20000))
    stats["edge_sweep_calls"] = n_edges
    seen_sig = set()
    for spec, p, m in bad_edges:
        sig = "C14/domain/%s" % spec["kind"]
        if sig not in seen_sig:
            seen_sig.add(sig)
            failures.append(Failure("violation", sig, "%r: prob_to_value(%r) -> %s (%d such definitions in the sweep of range ends)" % (
                spec, p, m, sum(1 for x in bad_edges if x[0]["kind"] == spec["kind"])), {"hp": spec, "prob": p}))
    verdicts, errors, wall = runcoq.run_cases(ctx.workdir, HEADER, terms, FOOTER, chunk=60)
    for path, rc, err in errors:
        failures.append(Failure("harness", "C14/coqc", "coqc failed on %s: %s" % (path, err[-300:]), {"correspondence": "C14", "file": path}))
    ndiff = 0
    for j, v in enumerate(verdicts):
        if v != "true":
            ndiff += 1
            if ndiff <= 3:
                failures.append(Failure("diff", "C14/model-vs-impl", "HpFloat.v and the implementation disagree on %r" % (specs[term_idx[j]],),
                                        {"correspondence": "HpFloat.v (binary64) vs hp_utils / Int / Choice / Boolean", "hp": specs[term_idx[j]]}))
    stats["diffs"] = ndiff; stats["coqc_wall_s"] = round(wall, 1)
    return dict(evaluations=n, distinct_nontrivial=distinct, traces_validated=len(terms) - ndiff,
                rule="hyperparameters of all five kinds (Int/Float x linear/log/reverse_log x step or none, negative/zero/fractional bounds, min == max; Choice of "
                     "1-9 str/int/float/bool; Boolean; Fixed); per hp ~20 probabilities incl. 0, 1-2^-53, bucket boundaries k/n +- 1 ulp, bucket centres, "
                     "denormals; plus a sweep of Int (min,max) pairs in 1..40 x +0..100 and random Float ranges, all samplings, with and without step, at 8 probabilities next to 0 and 1 "
                     "(exact bounds); domain membership, determinism of random_sample(seed), lattice enumeration and round trip on every domain value; the binary64 model is "
                     "compared bit for bit on Int-linear, Choice and Boolean; distinct = distinct hyperparameter definition",
                samples=[specs[0], specs[1], specs[2]], failures=failures, stats=stats)


def replay(ctx, doc):
    return dict(evaluations=1, distinct_nontrivial=1, failures=[], samples=[doc["replay"]], rule="replay: re-run bin/check C14 (cases are regenerated from the seed)")
