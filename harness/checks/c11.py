"""C11 - no livelock, no early stop: IDLE only while work is in flight; searches finish.

Implementation-level check on the four real oracles under fair worker pools (every started trial is eventually ended),
run until every worker has been told STOPPED (or a step cap, which would be a livelock): IDLE only with something
ongoing; number of trial runs within the bound; STOPPED sticky; STOPPED only for a reason (budget, finished schedule,
exhausted space) - including searches whose hyperparameters are declared only inside the trials. The oracle models behind
the theorems are tied to the code by the correspondences of C01 (lifecycle), C06 (random), C09 (grid), C10 (Hyperband)."""
import math, random, tempfile, shutil, warnings
from ktverif import lifecycle as lc
from ktverif.framework import Failure

TRUSTED = ["fairness is realised by the harness: a busy worker finishes with probability 0.6 per turn", "the Bayesian oracle runs the real GP"]
ASSUMPTIONS = ["workers always finish the trials they are given (the property's hypothesis)"]


def gen(rng):
    kind = rng.choice(["random", "grid", "hyperband", "bayes", "hyperband", "random"])
    cfg = dict(kind=kind, direction=rng.choice(["min", "max"]), max_retries=rng.choice([0, 0, 1, 2]), max_consec=99, seed=rng.randint(1, 10 ** 6),
               W=rng.randint(1, 4), hseed=rng.randint(0, 2 ** 31), outcome=rng.choice(["mixed", "mixed", "all_fail", "all_invalid", "all_ok"]),
               space=rng.choice(["big", "small", "tiny", "cond", "late", "late"]))
    if kind == "random": cfg["max_trials"] = rng.choice([1, 2, 3, 5, 8])
    elif kind == "grid": cfg["max_trials"] = rng.choice([None, None, 3, 20]); cfg["space"] = rng.choice(["small", "tiny", "cond", "late"])
    elif kind == "bayes": cfg["max_trials"] = rng.choice([2, 3, 5])
    else: cfg.update(max_trials=None, max_epochs=rng.choice([2, 3, 4, 9]), factor=rng.choice([2, 3]), iterations=rng.choice([1, 1, 2]))
    if cfg["space"] != "late" and rng.random() < (0.35 if kind != "grid" else 0.6):
        if kind == "grid": cfg["W"] = rng.randint(2, 4)
        cfg["flags"] = rng.choice([[False, True], [False, True], [False, False], [True, False]])     # tune_new_entries, allow_new_entries: a space fixed up front
    return cfg


def declare_late(hp):
    a = hp.Choice("la", ["p", "q"])
    with hp.conditional_scope("la", ["q"]):
        if a == "q":
            hp.Int("lb", 1, 3)


def make(cfg, d):
    import keras_tuner as kt
    from keras_tuner.engine import hyperparameters as hpm
    from keras_tuner.tuners import randomsearch, gridsearch, hyperband, bayesian
    hps = hpm.HyperParameters()
    sp = cfg["space"]
    if sp == "big": hps.Int("x", 0, 10 ** 9); hps.Float("y", 0.0, 1.0)
    elif sp == "small": hps.Int("a", 1, 3); hps.Boolean("b")
    elif sp == "tiny": hps.Choice("c", ["p", "q"])
    elif sp == "cond":
        hps.Choice("m", ["u", "v"])
        with hps.conditional_scope("m", ["u"]): hps.Int("k", 1, 3)
        with hps.conditional_scope("m", ["v"]): hps.Boolean("f")
    common = dict(objective=kt.Objective("score", cfg["direction"]), seed=cfg["seed"], hyperparameters=hps if sp != "late" else None,
                  max_retries_per_trial=cfg["max_retries"], max_consecutive_failed_trials=cfg["max_consec"])
    if cfg.get("flags"):
        common.update(tune_new_entries=cfg["flags"][0], allow_new_entries=cfg["flags"][1])
    k = cfg["kind"]
    if k == "random": o = randomsearch.RandomSearchOracle(max_trials=cfg["max_trials"], **common)
    elif k == "grid": o = gridsearch.GridSearchOracle(max_trials=cfg["max_trials"], **common)
    elif k == "hyperband": o = hyperband.HyperbandOracle(max_epochs=cfg["max_epochs"], factor=cfg["factor"], hyperband_iterations=cfg["iterations"], **common)
    else: o = bayesian.BayesianOptimizationOracle(max_trials=cfg["max_trials"], num_initial_points=2, **common)
    o._set_project_dir(d, "p"); o._display.verbose = 0
    return o


def n_configs(cfg):
    return {"small": 6, "tiny": 2, "cond": 5, "late": 4}.get(cfg["space"])


def run_case(cfg):
    warnings.filterwarnings("ignore")
    rng = random.Random(cfg["hseed"]); d = tempfile.mkdtemp(prefix="ktv11_")
    try:
        o = make(cfg, d)
        W = cfg["W"]; held = {}; stopped = set(); runs = 0; events = []; viol = None
        as_copy = random.Random(cfg["hseed"] ^ 0x2545f491).random() < 0.35     # end_trial gets a reconstructed copy, as from the chief/worker layer
        R = cfg["max_retries"]
        cap = 4000
        steps = 0
        while len(stopped) < W and steps < cap:
            steps += 1
            w = rng.choice([x for x in range(W) if x not in stopped]); tn = "w%d" % w
            if tn in held:
                if rng.random() < 0.6:
                    t = held.pop(tn); runs += 1
                    if cfg["space"] == "late":
                        declare_late(t.hyperparameters)
                    oc = cfg["outcome"]; x = rng.random()
                    try:
                        if oc == "all_ok" or (oc == "mixed" and x < 0.65):
                            o.update_trial(t.trial_id, {"score": float(rng.randint(-9, 9))}); t.status = "COMPLETED"
                        elif oc == "all_invalid" or (oc == "mixed" and x < 0.85):
                            t.status = "INVALID"
                        else:
                            t.status = "FAILED"
                        if as_copy:
                            from keras_tuner.engine import trial as trial_module
                            tc = trial_module.Trial.from_state(t.get_state()); tc.status = t.status; t = tc
                        o.end_trial(t)
                    except RuntimeError as e:
                        lc._release(o)
                        if "consecutive" not in str(e):
                            viol = ("exception", "end_trial raised %s" % str(e)[:120]); break
                    except Exception as e:
                        lc._release(o); viol = ("exception", "end_trial raised %s: %s" % (type(e).__name__, str(e)[:120])); break
                continue
            n_ongoing = len(o.ongoing_trials); n_queued = len(o._retry_queue); n_trials = len(o.trials); seed0 = o._seed_state
            try:
                t = o.create_trial(tn)
            except Exception as e:
                lc._release(o); viol = ("exception", "create_trial raised %s: %s" % (type(e).__name__, str(e)[:120])); break
            events.append((w, t.status))
            if t.status == "RUNNING":
                held[tn] = t
            elif t.status == "IDLE":
                if n_ongoing == 0:
                    viol = ("idle-without-work", "tuner %d was told IDLE while no trial is running anywhere (trials %d, retry queue %d)" % (w, n_trials, n_queued)); break
            elif t.status == "STOPPED":
                stopped.add(w)
                if n_queued > 0:
                    # create_trial serves the retry queue before anything else: STOPPED with a retry pending leaves that trial unrun for good
                    viol = ("early-stop-retry-pending", "tuner %d was told STOPPED while %d trial(s) were waiting in the retry queue (trials %d, ongoing %d)" % (w, n_queued, n_trials, n_ongoing)); break
                N = cfg.get("max_trials")
                reason = None
                from checks import c09
                big = any(type(h).__name__ in ("Int", "Float") and getattr(h, "max_value", 0) - getattr(h, "min_value", 0) > 100 for h in o.hyperparameters.space)
                nc = None if big or cfg["space"] == "big" else len(c09.all_combos(o.hyperparameters))   # configurations of the space as known now
                if N and n_trials >= N: reason = "budget"
                elif cfg["kind"] == "grid":
                    reason = "all combinations tried" if nc is not None and n_trials >= nc else None
                elif nc is not None and len(o._tried_so_far) >= nc:
                    reason = "no untried configuration in the known space"
                elif o._seed_state - seed0 >= 21 and cfg["kind"] != "grid":
                    reason = "the sampling loop gave up after max_collisions + 1 = 21 collisions (bounded effort)"
                elif cfg["kind"] == "hyperband":
                    last = o._current_bracket == 0 and o._current_iteration + 1 == o.hyperband_iterations
                    reason = "schedule" if last and n_trials > 0 else None
                if reason is None:
                    viol = ("early-stop", "tuner %d was told STOPPED after %d trials (%d ongoing): budget %r not used up, %d of %r configurations of the known space tried%s" % (
                        w, n_trials, n_ongoing, N, len(o._tried_so_far), nc, ", Hyperband sweep at bracket %r of iteration %r" % (o._current_bracket, o._current_iteration) if cfg["kind"] == "hyperband" else ""))
                    break
                if n_ongoing == 0 and n_queued == 0:
                    pass
        if viol is None and steps >= cap:
            viol = ("livelock", "the search did not reach STOPPED for all workers within %d scheduling steps (%d trial runs, %d trials)" % (cap, runs, len(o.trials)))
        if viol is None:
            bound = (R + 1) * len(o.trials)
            if runs > bound:
                viol = ("run-bound", "%d trial runs for %d trials with max_retries=%d" % (runs, len(o.trials), R))
            # once the budget is used up and nothing is queued, STOPPED is what everybody is told from then on (C02_stopped)
            N = cfg.get("max_trials")
            if viol is None and N and len(o.trials) >= N and not o._retry_queue and not o.ongoing_trials:
                for w in range(W):
                    t = o.create_trial("w%d" % w)
                    if t.status != "STOPPED":
                        viol = ("stopped-not-sticky", "budget used up and nothing queued, but tuner %d is answered %s" % (w, t.status)); break
        return viol, dict(cfg=cfg, trials=len(o.trials), runs=runs, idle=sum(1 for e in events if e[1] == "IDLE"), steps=steps)
    finally:
        shutil.rmtree(d, ignore_errors=True)


def run(ctx):
    import glob, json
    n = ctx.n(220, 3000)
    corpus = [json.load(open(f))["cfg"] for f in sorted(glob.glob("/verif/corpus/C11/*.json"))]
    failures = []; stats = dict(by_kind={}, by_outcome={}, by_space={}, idle_answers=0, runs=0, trials=0, corpus_cases=len(corpus)); distinct = 0; seen = set(); samples = []
    for i in range(n):
        cfg = corpus[i] if i < len(corpus) else gen(ctx.rng)
        viol, info = run_case(cfg)
        stats["by_kind"][cfg["kind"]] = stats["by_kind"].get(cfg["kind"], 0) + 1
        stats["by_outcome"][cfg["outcome"]] = stats["by_outcome"].get(cfg["outcome"], 0) + 1
        stats["by_space"][cfg["space"]] = stats["by_space"].get(cfg["space"], 0) + 1
        stats["idle_answers"] += info["idle"]; stats["runs"] += info["runs"]; stats["trials"] += info["trials"]
        key = repr({k: v for k, v in cfg.items() if k not in ("hseed", "seed")})
        if key not in seen and info["runs"] >= 2:
            distinct += 1
        seen.add(key)
        if viol:
            failures.append(Failure("violation", "C11/%s/%s" % (viol[0], cfg["kind"]), "%s oracle (space %s, %d workers, outcomes %s): %s" % (cfg["kind"], cfg["space"], cfg["W"], cfg["outcome"], viol[1]), {"cfg": cfg, "info": info}))
        if len(samples) < 2:
            samples.append(info)
    return dict(evaluations=n, distinct_nontrivial=distinct, traces_validated=n,
                rule="fair worker pools (1-4 workers; a busy worker finishes with probability 0.6 per turn) on the real random, grid, Hyperband and Bayesian oracles until every worker is "
                     "told STOPPED; spaces: huge / 6 / 2 / 5 configurations / declared only inside the trials; outcome patterns mixed, all COMPLETED, all INVALID, all FAILED; retries 0-2; "
                     "non-trivial = distinct configuration with >= 2 trial runs",
                samples=samples, failures=failures, stats=stats)


def replay(ctx, doc):
    cfg = doc["replay"]["cfg"]
    viol, info = run_case(cfg)
    fs = [Failure("violation", "C11/%s/%s" % (viol[0], cfg["kind"]), viol[1], {"cfg": cfg})] if viol else []
    return dict(evaluations=1, distinct_nontrivial=1, failures=fs, samples=[info], rule="replay")
