"""C20 - kept checkpoints are the best epoch's weights; reload and resume use them.

The real Tuner.run_trial / SaveBestEpoch / convert_to_metrics_dict / get_best_step / load_model / get_best_models and
Hyperband.run_trial / _build_hypermodel are driven with a hypermodel whose `fit` replays a generated per-epoch metric
curve through the real callbacks on a real (one-weight) Keras model: before each epoch ends the weight is set to a stamp
identifying (trial, execution, epoch), so the checkpoint file (written and read by Keras) says which epoch was kept.
Model: Checkpoint.v (last_saved / best_epoch over the execution-major value list), evaluated inside Coq on the same curves."""
import os, math, random, tempfile, shutil, warnings, fractions
from ktverif import emit, runcoq, lifecycle as lc
from ktverif.framework import Failure

TRUSTED = ["Keras save_weights / load_weights restore the arrays (exercised for real on a one-weight model, not proved)",
           "a real model.fit honours initial_epoch/epochs and calls on_epoch_end once per epoch with the epoch index (the scripted fit does exactly that)"]
ASSUMPTIONS = ["finite per-epoch objective values (the property's quantifier)", "one SaveBestEpoch instance is shared by all executions of a trial (as Tuner.run_trial does)"]
F = fractions.Fraction


def stamp(trial_idx, execution, epoch):
    return float(trial_idx * 10000 + execution * 100 + epoch)


def unstamp(x):
    x = int(round(x)); return x // 10000, (x % 10000) // 100, x % 100


def gen_case(rng):
    kind = rng.choice(["random", "random", "grid", "hyperband", "bayes"])
    obj = rng.choice(["min", "max", "multi"])
    cfg = dict(kind=kind, obj=obj, executions=rng.choice([1, 1, 2, 3]), ntrials=rng.randint(2, 4), epochs=rng.randint(1, 5), seed=rng.randint(1, 10 ** 6), cseed=rng.randint(0, 2 ** 31))
    if kind == "hyperband":
        cfg.update(max_epochs=rng.choice([3, 4]), factor=2, executions=rng.choice([1, 2]))
    # the objective is written into the epoch logs by a user callback passed to search(callbacks=[...]) instead of coming from fit itself
    cfg["via_callback"] = rng.random() < 0.4
    return cfg


def curve_values(cfg, trial_idx, execution, epoch):
    """deterministic small-integer metric values with many ties and plateaus"""
    r = random.Random(cfg["cseed"] * 1000003 + trial_idx * 977 + execution * 31 + epoch)
    return dict(a=float(r.randint(0, 3)), b=float(r.randint(0, 3)))


INJECT = {}      # shared with the (deep-copied) user callback: the metric values of the epoch that is ending


def objective_of(cfg, logs):
    if cfg["obj"] == "multi":
        return logs["a"] - logs["b"]        # a minimised, b maximised
    return logs["a"]


def run_case(cfg):
    warnings.filterwarnings("ignore")
    import numpy as np
    import keras
    import keras_tuner as kt
    d = tempfile.mkdtemp(prefix="ktv20_")
    log = []          # per trial id: list of executions, each a list of (epoch, objective, stamp)
    state = dict(order=[])

    class HM(kt.HyperModel):
        def build(self, hp):
            hp.Int("u", 1, 1000)
            m = keras.Sequential([keras.Input((1,)), keras.layers.Dense(1, use_bias=False, kernel_initializer="zeros")])
            m.compile(loss="mse", optimizer="sgd")
            return m

        def fit(self, hp, model, *args, callbacks=None, epochs=None, initial_epoch=0, **kwargs):
            tid = state["current"]
            tidx = state["order"].index(tid)
            ex = state["exec_count"].get(tid, 0); state["exec_count"][tid] = ex + 1
            nep = epochs if epochs is not None else cfg["epochs"]
            start_w = float(model.get_weights()[0][0][0])
            rec = dict(start_weight=start_w, epochs=[], fit_epochs=(initial_epoch, nep))
            cl = keras.callbacks.CallbackList(callbacks or [], add_history=True, model=model)
            cl.on_train_begin()
            hist = {}
            for e in range(initial_epoch, nep):
                cl.on_epoch_begin(e)
                logs = curve_values(cfg, tidx, ex, e)
                model.set_weights([np.array([[stamp(tidx, ex, e)]], dtype="float32")])
                vals = dict(logs)
                if cfg.get("via_callback"):
                    INJECT.clear(); INJECT.update(vals); logs = {"loss": 0.0}
                cl.on_epoch_end(e, logs)
                rec["epochs"].append((e, objective_of(cfg, vals)))
                for k, v in vals.items():
                    hist.setdefault(k, []).append(v)
            cl.on_train_end()
            log.append((tid, ex, rec))
            h = keras.callbacks.History(); h.history = hist; h.epoch = list(range(initial_epoch, nep))
            return h
    if cfg["obj"] == "multi":
        objective = [kt.Objective("a", "min"), kt.Objective("b", "max")]
    else:
        objective = kt.Objective("a", cfg["obj"])
    common = dict(hypermodel=HM(), objective=objective, directory=d, project_name="p", executions_per_trial=cfg["executions"], seed=cfg["seed"])
    k = cfg["kind"]
    if k == "random": t = kt.RandomSearch(max_trials=cfg["ntrials"], **common)
    elif k == "grid": t = kt.GridSearch(max_trials=cfg["ntrials"], **common)
    elif k == "bayes": t = kt.BayesianOptimization(max_trials=cfg["ntrials"], num_initial_points=2, **common)
    else: t = kt.Hyperband(max_epochs=cfg["max_epochs"], factor=cfg["factor"], hyperband_iterations=1, **common)
    t.oracle._display.verbose = 0
    state["exec_count"] = {}
    orig_run = t.run_trial

    def run_trial(trial, *a, **kw):
        state["current"] = trial.trial_id
        if trial.trial_id not in state["order"]:
            state["order"].append(trial.trial_id)
        return orig_run(trial, *a, **kw)
    t.run_trial = run_trial
    class Inject(keras.callbacks.Callback):
        def on_epoch_end(self, epoch, logs=None):
            if logs is not None:
                logs.update(INJECT)
    try:
        if cfg.get("via_callback"):
            t.search(epochs=cfg["epochs"], verbose=0, callbacks=[Inject()])
        else:
            t.search(epochs=cfg["epochs"], verbose=0)
        out = dict(trials=[], log=[(tid, ex, rec) for tid, ex, rec in log])
        for tid in state["order"]:
            tr = t.oracle.trials[tid]
            kept = None
            try:
                m = t.load_model(tr)
                kept = unstamp(float(m.get_weights()[0][0][0]))
            except Exception as e:
                kept = "load failed: %s" % type(e).__name__
            out["trials"].append(dict(id=tid, idx=state["order"].index(tid), status=tr.status, score=tr.score, best_step=tr.best_step, kept=kept,
                                      values={k2: v for k2, v in tr.hyperparameters.values.items() if k2.startswith("tuner/")}))
        nb = min(3, len(state["order"]))
        best = t.oracle.get_best_trials(nb)
        models = t.get_best_models(nb)
        out["best"] = [(b.trial_id, unstamp(float(m.get_weights()[0][0][0]))) for b, m in zip(best, models)]
        return out
    finally:
        shutil.rmtree(d, ignore_errors=True)


def better(cfg, a, b):
    mx = cfg["obj"] == "max"
    return a > b if mx else a < b


def spec(cfg, out):
    by_trial = {}
    for tid, ex, rec in out["log"]:
        by_trial.setdefault(tid, []).append((ex, rec))
    kept_of = {}
    for tr in out["trials"]:
        tid = tr["id"]; runs = sorted(by_trial.get(tid, []))
        if tr["status"] != "COMPLETED" or not runs:
            continue
        flat = [(ex, e, v) for ex, rec in runs for (e, v) in rec["epochs"]]
        if not flat:
            continue
        best = flat[0]
        for x in flat[1:]:
            if better(cfg, x[2], best[2]):
                best = x
        want = (tr["idx"], best[0], best[1])
        kept_of[tid] = tr["kept"]
        if tr["kept"] != want:
            return "kept-epoch", "trial %s keeps the weights of (trial, execution, epoch) %r; the first epoch attaining the best objective %r over all executions is %r" % (tid, tr["kept"], best[2], want)
        if len(runs) == 1:
            rel = best[1] - runs[0][1]["fit_epochs"][0]      # best_step counts the epochs of this run (a promoted Hyperband trial starts at initial_epoch)
            if tr["best_step"] != rel or abs(float(tr["score"]) - best[2]) > 1e-9:
                return "reported-best", "trial %s: one execution, best epoch %d (the %d-th of the run) value %r, but the oracle holds best_step %r score %r" % (tid, best[1], rel, best[2], tr["best_step"], tr["score"])
        else:
            per = []
            for ex, rec in runs:
                b = rec["epochs"][0]
                for x in rec["epochs"][1:]:
                    if better(cfg, x[1], b[1]): b = x
                per.append(b[1])
            if abs(float(tr["score"]) - sum(per) / len(per)) > 1e-9:
                return "reported-score", "trial %s: score %r is not the mean %r of the per-execution best objectives" % (tid, tr["score"], sum(per) / len(per))
        # Hyperband: a promoted trial starts from its parent's kept weights and trains [initial_epoch, epochs)
        v = tr["values"]
        if "tuner/epochs" in v:
            for ex, rec in runs:
                if rec["fit_epochs"] != (v["tuner/initial_epoch"], v["tuner/epochs"]):
                    return "epoch-range", "trial %s trained epochs %r, its budget says [%d, %d)" % (tid, rec["fit_epochs"], v["tuner/initial_epoch"], v["tuner/epochs"])
                if "tuner/trial_id" in v:
                    parent = v["tuner/trial_id"]
                    pk = next((t2["kept"] for t2 in out["trials"] if t2["id"] == parent), None)
                    if pk is not None and unstamp(rec["start_weight"]) != pk:
                        return "starts-from-parent", "trial %s (execution %d) started from weights %r, its parent %s keeps %r" % (tid, ex, unstamp(rec["start_weight"]), parent, pk)
    for tid, k in out["best"]:
        if tid in kept_of and kept_of[tid] != k:
            return "best-models", "get_best_models returned weights %r for trial %s which keeps %r" % (k, tid, kept_of[tid])
    return None


def fvq(x):
    f = F(x); return "(FFin ((%d) # %d))" % (f.numerator, f.denominator)


def emit_case(cfg, out):
    items = []
    by_trial = {}
    for tid, ex, rec in out["log"]:
        by_trial.setdefault(tid, []).append((ex, rec))
    for tr in out["trials"]:
        runs = sorted(by_trial.get(tr["id"], []))
        if tr["status"] != "COMPLETED" or not runs or not isinstance(tr["kept"], tuple):
            continue
        flat = [(ex, e, v) for ex, rec in runs for (e, v) in rec["epochs"]]
        if not flat:
            continue
        pos = [i for i, (ex, e, v) in enumerate(flat) if (tr["idx"], ex, e) == tr["kept"]]
        single = "(Some %s)" % emit.nat(tr["best_step"]) if len(runs) == 1 else "None"
        items.append("(%s, %s, %s, %s)" % (emit.b(cfg["obj"] == "max"), emit.cl(fvq(v) for _, _, v in flat), emit.nat(pos[0] if pos else 9999), single))
    return items


HEADER = """From Coq Require Import List ZArith QArith Bool PeanoNat.
Import ListNotations.
From KT Require Import Metrics Checkpoint.
Local Close Scope Q_scope.
Definition check (c : bool * list fv * nat * option nat) : bool :=
  let '(mx, vals, kept, single) := c in
  match last_saved (better_than mx) vals with
  | Some i => Nat.eqb i kept && match single with Some b => Nat.eqb (best_epoch (better_than mx) vals) b | None => true end
  | None => false
  end.
Definition cases : list (bool * list fv * nat * option nat) := [
"""
FOOTER = "\n].\nEval vm_compute in (map check cases).\n"


def run(ctx):
    n = ctx.n(18, 160)
    terms = []; owners = []; failures = []; infos = []
    stats = dict(by_kind={}, by_obj={}, executions={}, trials=0, curves=0, promoted=0)
    distinct = 0
    import glob, json
    corpus = [json.load(open(f))["cfg"] for f in sorted(glob.glob("/verif/corpus/C20/*.json"))]
    stats["corpus_cases"] = len(corpus)
    for i in range(n + len(corpus)):
        cfg = corpus[i] if i < len(corpus) else gen_case(ctx.rng)
        try:
            out = run_case(cfg)
        except Exception as e:
            failures.append(Failure("harness", "C20/harness", "scripted search failed: %s: %s" % (type(e).__name__, str(e)[:200]), {"correspondence": "C20", "cfg": cfg})); continue
        stats["by_kind"][cfg["kind"]] = stats["by_kind"].get(cfg["kind"], 0) + 1; stats["by_obj"][cfg["obj"]] = stats["by_obj"].get(cfg["obj"], 0) + 1
        stats["executions"][cfg["executions"]] = stats["executions"].get(cfg["executions"], 0) + 1
        stats["trials"] += len(out["trials"]); stats["promoted"] += sum(1 for t in out["trials"] if "tuner/trial_id" in t["values"])
        bad = spec(cfg, out)
        if bad:
            failures.append(Failure("violation", "C20/" + bad[0], "%s tuner, objective %s, %d executions: %s" % (cfg["kind"], cfg["obj"], cfg["executions"], bad[1]), {"cfg": cfg}))
        items = emit_case(cfg, out)
        stats["curves"] += len(items)
        if len(items) >= 2:
            distinct += 1
        for it in items:
            terms.append(it); owners.append(cfg)
        if len(infos) < 2:
            infos.append(dict(cfg=cfg, trials=[{k: v for k, v in t.items() if k in ("id", "status", "score", "best_step", "kept")} for t in out["trials"]]))
    verdicts, errors, wall = runcoq.run_cases(ctx.workdir, HEADER, terms, FOOTER, chunk=300)
    for path, rc, err in errors:
        failures.append(Failure("harness", "C20/coqc", "coqc failed on %s: %s" % (path, err[-300:]), {"correspondence": "C20", "file": path}))
    ndiff = 0
    for j, v in enumerate(verdicts):
        if v != "true":
            ndiff += 1
            if ndiff <= 3:
                failures.append(Failure("diff", "C20/model-vs-impl", "Checkpoint.v and the kept checkpoint / reported best step disagree", {"correspondence": "Checkpoint.v vs SaveBestEpoch / tuner_utils", "cfg": owners[j], "case": terms[j][:300]}))
    stats["diffs"] = ndiff; stats["coqc_wall_s"] = round(wall, 1)
    return dict(evaluations=n, distinct_nontrivial=distinct, traces_validated=len(terms) - ndiff,
                rule="end-to-end searches with the real RandomSearch / GridSearch / BayesianOptimization / Hyperband tuners (2-4 trials, 1-3 executions per trial, 1-5 epochs, objectives "
                     "min / max / multi-objective) whose fit replays integer-valued curves in 0..3 (ties, plateaus) through the real callbacks and stamps the model's weight per epoch; "
                     "the checkpoint of every trial and the models of get_best_models are loaded for real; non-trivial = search with >= 2 completed trials",
                samples=infos or [dict(note="none")], failures=failures, stats=stats)


def replay(ctx, doc):
    cfg = doc["replay"]["cfg"]
    out = run_case(cfg); bad = spec(cfg, out)
    fs = [Failure("violation", "C20/" + bad[0], bad[1], {"cfg": cfg})] if bad else []
    return dict(evaluations=1, distinct_nontrivial=1, failures=fs, samples=[cfg], rule="replay")
