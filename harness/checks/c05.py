"""C05 - issued values cover exactly the active hyperparameters, within their domain.

The property is checked on every trial the four real oracles hand out, over generated search spaces (all five kinds, all
sampling modes, +-step, conditions nested to depth 4, part of the space declared only inside trials) and worker-pool
histories that steer the oracles (scores, failures, retries). The coverage theorem (Props/C05.v) is about
ensure_active_values on the container model, which the C13 correspondence ties to the code."""
import math, random, tempfile, shutil, warnings
from ktverif import lifecycle as lc, emit, runcoq
from ktverif.framework import Failure

TRUSTED = ["the oracle's own copy of the search space at the time the trial is issued (trial.hyperparameters.space) is the reference for 'active' and 'domain'",
           "Bayesian trials use the real Gaussian process; quick tier keeps them few"]
ASSUMPTIONS = ["the coverage theorem assumes distinct names; the implementation-level check also runs spaces in which one name is declared in two conditional branches (20% of the cases): a name carries a value iff one of its entries is active, an entry being active iff its whole chain of conditions holds"]


def gen_space(rng, hps, prefix="", depth=0, parents=None):
    """declares into `hps`; returns the list of (name, maker) it declared, usable as condition parents"""
    declared = []
    for _ in range(rng.randint(1, 3)):
        n = "%sh%d_%d" % (prefix, depth, len(declared))
        k = rng.choice(["int", "int_step", "int_log", "float", "float_step", "float_log", "choice_s", "choice_i", "bool", "fixed"])
        if k == "int": hps.Int(n, rng.randint(-3, 1), rng.randint(2, 9))
        elif k == "int_step": hps.Int(n, 0, rng.choice([6, 7, 10]), step=rng.choice([2, 3]))
        elif k == "int_log": hps.Int(n, rng.choice([1, 2]), rng.choice([16, 100, 130]), step=rng.choice([None, 2, 10]), sampling=rng.choice(["log", "reverse_log"]))
        elif k == "float": hps.Float(n, -1.0, 2.5)
        elif k == "float_step": hps.Float(n, 0.0, rng.choice([1.0, 0.75]), step=rng.choice([0.25, 0.2]))
        elif k == "float_log": hps.Float(n, 1e-3, 10.0, step=rng.choice([None, 10]), sampling=rng.choice(["log", "reverse_log"]))
        elif k == "choice_s": hps.Choice(n, rng.sample(["p", "q", "r", "s"], rng.randint(1, 4)))
        elif k == "choice_i": hps.Choice(n, rng.sample([1, 2, 4, 8], rng.randint(1, 4)))
        elif k == "bool": hps.Boolean(n)
        else: hps.Fixed(n, rng.choice([3, 0.5, "c", True]))
        declared.append(n)
        full = hps._get_name(n)
        hp = [h for h in hps.space if h.name == full][-1]
        if depth < 3 and rng.random() < 0.45:
            dom = list(hp.values) if not type(hp).__name__ == "Float" or hp.step else [hp.default]
            if type(hp).__name__ == "Fixed": dom = [hp.value]
            vs = rng.sample(dom, rng.randint(1, min(2, len(dom)))) if dom else [hp.default]
            with hps.conditional_scope(n, vs):
                gen_space(rng, hps, prefix + "c%d" % len(declared), depth + 1)
    return declared


def gen_shared_diffdom(rng, hps):
    """one name declared in two or three mutually exclusive branches with a DIFFERENT domain in each (same type): the value issued
    must lie in the domain of the entry that is active"""
    ks = rng.sample(["p", "q", "r"], rng.randint(2, 3))
    hps.Choice("m", ks)
    mode = rng.choice(["int", "int", "choice", "float"])
    for i, k in enumerate(ks):
        with hps.conditional_scope("m", [k]):
            if mode == "int":
                lo = [1, 100, 1000][i]
                hps.Int("u", lo, lo + rng.randint(2, 9))
            elif mode == "choice":
                hps.Choice("u", [10 * i + j for j in range(rng.randint(2, 4))])
            else:
                hps.Float("u", float(10 * i), float(10 * i + 1), step=0.25)
            if rng.random() < 0.4:
                hps.Int("y%d" % i, 0, 2)
            if mode != "float" and rng.random() < 0.4:
                last = [h for h in hps.space if h.name == "u"][-1]
                dom = list(last.values) if mode == "choice" else list(range(last.min_value, last.max_value + 1))
                with hps.conditional_scope("u", rng.sample(dom, rng.randint(1, len(dom) - 1))):
                    hps.Boolean("z%d" % i)
    return ["m"]


def gen_shared_space(rng, hps):
    """one name declared in two conditional branches, with a further conditional scope below it in one of them: an entry is
    active only if its whole chain of conditions holds"""
    ks = rng.sample(["p", "q", "r"], rng.randint(2, 3))
    hps.Choice("m", ks)
    branches = ks[: rng.randint(2, len(ks))]
    u_bool = rng.random() < 0.5          # the shared name is declared the same way in every branch
    for i, k in enumerate(branches):
        with hps.conditional_scope("m", [k]):
            if u_bool: hps.Boolean("u")
            else: hps.Choice("u", [0, 1, 2])
            dom = list([h for h in hps.space if h.name == "u"][-1].values)
            if i == 0 or rng.random() < 0.4:
                with hps.conditional_scope("u", rng.sample(dom, rng.randint(1, max(1, len(dom) - 1)))):
                    hps.Float("w%d" % i, 0.0, 1.0, step=0.25)
                    if rng.random() < 0.4:
                        hps.Int("x%d" % i, 1, 3)
            if rng.random() < 0.5:
                hps.Int("y%d" % i, 0, 2)
    return ["m"]


def in_domain(hp, v):
    import numpy as np
    t = type(hp).__name__
    if t == "Int":
        if isinstance(v, (bool, np.bool_)) or not isinstance(v, (int, np.integer)):
            return "value %r has type %s, expected int" % (v, type(v).__name__)
        if not hp.min_value <= v <= hp.max_value:
            return "value %r outside [%r, %r]" % (v, hp.min_value, hp.max_value)
        if hp.step is not None and hp.sampling == "linear" and (v - hp.min_value) % hp.step != 0 and v != hp.default:
            return "value %r off the lattice %r + i*%r" % (v, hp.min_value, hp.step)
        if hp.step is not None and hp.sampling != "linear" and v not in [int(x) for x in hp.values] and v != hp.default:
            return "value %r off the lattice %r" % (v, list(hp.values))
        return None
    if t == "Float":
        if not isinstance(v, (float, np.floating)):
            return "value %r has type %s, expected float" % (v, type(v).__name__)
        tol = 1e-9 * max(1.0, abs(hp.max_value))
        if not hp.min_value - tol <= v <= hp.max_value + tol:
            return "value %r outside [%r, %r]" % (v, hp.min_value, hp.max_value)
        if hp.step is not None and not any(abs(v - x) <= tol for x in hp.values) and v != hp.default:
            return "value %r off the lattice %r" % (v, list(hp.values)[:8])
        return None
    if t == "Choice":
        return None if any(v == x for x in hp.values) else "value %r is not one of %r" % (v, hp.values)
    if t == "Boolean":
        return None if isinstance(v, (bool, np.bool_)) else "value %r is not a bool" % (v,)
    return None if v == hp.value else "value %r is not the fixed value %r" % (v, hp.value)


def entry_active(hp, vals):
    """an entry is active iff EVERY condition of its chain holds (judged here, not by HyperParameters.is_active)"""
    return all(c.name in vals and any(vals[c.name] == x for x in c.values) for c in hp.conditions)


def check_trial(t):
    """the property on one issued trial; returns (clause, message) or None"""
    hps = t.hyperparameters
    vals = {k: v for k, v in hps.values.items() if not k.startswith("tuner/")}
    names = {}
    for hp in hps.space:
        names.setdefault(hp.name, []).append(hp)
    for n, entries in names.items():
        active = any(entry_active(hp, vals) for hp in entries)
        if active and n not in vals:
            return "missing", "active hyperparameter %s has no value (values %r)" % (n, vals)
        if not active and n in vals:
            return "inactive-valued", "inactive hyperparameter %s carries the value %r" % (n, vals[n])
    for n, v in vals.items():
        if n not in names:
            return "unknown-name", "value for %s which is not in the search space" % n
        act = [hp for hp in names[n] if entry_active(hp, vals)] or names[n]
        msgs = [in_domain(hp, v) for hp in act]
        if all(msgs):
            return "domain", "%s (%s): %s" % (n, type(act[0]).__name__, msgs[0])
    return None


def run_case(cfg):
    warnings.filterwarnings("ignore")
    import keras_tuner as kt
    from keras_tuner.engine import hyperparameters as hpm
    from keras_tuner.tuners import randomsearch, gridsearch, hyperband, bayesian
    rng = random.Random(cfg["hseed"])
    hps = hpm.HyperParameters()
    if cfg.get("shared") == "diffdom":
        gen_shared_diffdom(random.Random(cfg["space_seed"]), hps)
    elif cfg.get("shared"):
        gen_shared_space(random.Random(cfg["space_seed"]), hps)
    else:
        gen_space(random.Random(cfg["space_seed"]), hps)
    late_seed = cfg["space_seed"] + 1
    obj = kt.Objective("score", cfg["direction"])
    common = dict(objective=obj, seed=cfg["seed"], hyperparameters=hps, max_retries_per_trial=cfg["max_retries"], max_consecutive_failed_trials=99)
    k = cfg["kind"]
    if k == "random": o = randomsearch.RandomSearchOracle(max_trials=cfg["max_trials"] or 8, **common)
    elif k == "grid": o = gridsearch.GridSearchOracle(max_trials=cfg["max_trials"] or 12, **common)
    elif k == "hyperband": o = hyperband.HyperbandOracle(max_epochs=cfg.get("max_epochs", 4), factor=cfg.get("factor", 2), **common)
    else: o = bayesian.BayesianOptimizationOracle(max_trials=cfg["max_trials"] or 6, num_initial_points=2, **common)
    d = tempfile.mkdtemp(prefix="ktv05_")
    o._set_project_dir(d, "p"); o._display.verbose = 0
    issued = []; held = {}; bad = None; ended = 0
    try:
        for step in range(cfg["nsteps"]):
            w = rng.randrange(cfg["W"]); tn = "w%d" % w
            if tn in held and rng.random() < 0.75:
                t = held.pop(tn); ended += 1
                if cfg["grow"] and ended > cfg.get("grow_after", 0) and rng.random() < 0.5:
                    # cfg["grow_variants"]: different trials discover different sub-spaces (`if model == ...` branches of a build function)
                    kvar = int(t.trial_id) % 3 if cfg.get("grow_variants") else None
                    with t.hyperparameters.name_scope("late" if kvar is None else "late%d" % kvar):
                        gen_space(random.Random(late_seed + (kvar or 0)), t.hyperparameters)
                    grown_now = True
                else:
                    grown_now = False
                x = rng.random()
                try:
                    if x < 0.75:
                        o.update_trial(t.trial_id, {"score": float(rng.randint(-50, 50))}); t.status = "COMPLETED"
                    else:
                        t.status = "INVALID" if x < 0.9 else "FAILED"
                    o.end_trial(t)
                except Exception as e:
                    lc._release(o)
                    if not (isinstance(e, RuntimeError) and "consecutive" in str(e)):
                        bad = ("exception", "end_trial raised %s: %s" % (type(e).__name__, str(e)[:150])); break
                if grown_now:
                    # what a trial discovered is part of the search space from then on (default tune_new_entries / allow_new_entries)
                    lost = [h.name for h in t.hyperparameters.space if not o.hyperparameters._exists(h.name, h.conditions)]
                    if lost:
                        bad = ("discovery-lost", "trial %s of the %s oracle declared %r; after its end_trial the oracle's space does not contain them" % (t.trial_id, k, lost[:4])); break
            else:
                try:
                    t = o.create_trial(tn)
                except Exception as e:
                    lc._release(o); bad = ("exception", "create_trial raised %s: %s" % (type(e).__name__, str(e)[:150])); break
                if t.status == "RUNNING":
                    held[tn] = t
                    issued.append((t.trial_id, dict(t.hyperparameters.values)))
                    r = check_trial(t)
                    if r:
                        bad = (r[0], "trial %s of the %s oracle: %s" % (t.trial_id, k, r[1])); break
        return issued, bad, [h.name + ":" + type(h).__name__ for h in o.hyperparameters.space]
    finally:
        shutil.rmtree(d, ignore_errors=True)


def gen(rng):
    cfg = lc.gen_config(rng)
    cfg["grow"] = rng.random() < 0.35
    cfg["nsteps"] = rng.randint(10, 40)
    cfg["grow_after"] = rng.choice([0, 0, 1, 3, 6])
    cfg["shared"] = rng.random() < 0.2
    cfg["grow_variants"] = rng.random() < 0.5
    if rng.random() < 0.25:
        # values carried over from trials issued before the space grew: Hyperband promotions, retries, Bayesian/grid successors
        cfg["kind"] = rng.choice(["hyperband", "hyperband", "grid", "random"]); cfg["grow"] = True; cfg["grow_after"] = rng.randint(2, 10)
        cfg["W"] = rng.randint(3, 6); cfg["nsteps"] = rng.randint(60, 120)
        if cfg["kind"] == "hyperband":
            cfg.update(max_trials=None, max_epochs=rng.choice([4, 9]), factor=rng.choice([2, 3]))
        cfg["max_retries"] = rng.choice([0, 1, 2])
    if cfg["kind"] == "bayes":
        cfg["max_trials"] = rng.choice([3, 4, 5]); cfg["nsteps"] = 16
    if rng.random() < 0.15:
        cfg["shared"] = "diffdom"
        if cfg["kind"] == "bayes":
            cfg["max_trials"] = rng.choice([5, 7, 9]); cfg["nsteps"] = 30
    if cfg["kind"] == "grid":
        cfg["max_trials"] = rng.choice([6, 10, 14])
    return cfg


V2V_HEADER = """From stdpp Require Import gmap list.
From Coq Require Import ZArith.
From KT Require Import Space Discover BayesVec.
Open Scope positive_scope.
(* one case: the space (h_tag 5 = Fixed), the table ((space index, vector index), prob_to_value), what the implementation returned *)
Definition tbl_lookup (t : list ((nat*nat)*value)) (i j : nat) : value :=
  match List.find (fun e => Nat.eqb (fst (fst e)) i && Nat.eqb (snd (fst e)) j) t with Some e => snd e | None => VStr 999999 end.
Definition v2v_ok (c : list hp * list ((nat*nat)*value) * list (name*value)) : bool :=
  let '(sp, t, want) := c in
  bool_decide (vector_to_values (fun h => Pos.eqb (h_tag h) 5) (tbl_lookup t) sp = list_to_map want).
Definition cases : list (list hp * list ((nat*nat)*value) * list (name*value)) := [
"""
V2V_FOOTER = "\n].\nEval vm_compute in (map v2v_ok cases).\n"


def v2v_space(rng, hps):
    """spaces for the _vector_to_values correspondence: all kinds incl. Fixed, conditions, names shared between branches"""
    r = rng.random()
    if r < 0.3:
        gen_shared_diffdom(rng, hps)
    elif r < 0.5:
        gen_shared_space(rng, hps)
    else:
        gen_space(rng, hps)
    if rng.random() < 0.5:
        hps.Fixed("fx", rng.choice([7, "k", 1.5, True]))
    if rng.random() < 0.3:
        with hps.conditional_scope(hps.space[0].name, [hps.space[0].default]):
            hps.Fixed("fy", 3); hps.Boolean("fz")


def v2v_cases(ctx, n):
    """BayesianOptimizationOracle._vector_to_values on generated spaces and vectors vs BayesVec.vector_to_values"""
    import keras_tuner as kt
    from keras_tuner.engine import hyperparameters as hpm
    from keras_tuner.tuners import bayesian
    from checks.c13 import cv, cname, ccond
    terms = []; infos = []
    for k in range(n):
        seed = ctx.rng.randint(0, 2 ** 40); rng = random.Random(seed); I = emit.Intern()
        hps = hpm.HyperParameters(); v2v_space(rng, hps)
        o = bayesian.BayesianOptimizationOracle(objective=kt.Objective("score", "min"), max_trials=3, hyperparameters=hps)
        sp = list(o.hyperparameters.space)
        nonfixed = [h for h in sp if not isinstance(h, hpm.Fixed)]
        vec = [rng.choice([0.0, 1.0, 0.5, rng.random(), rng.random()]) for _ in nonfixed]
        got = o._vector_to_values(list(vec))
        tbl = []; j = 0
        for i, h in enumerate(sp):
            if isinstance(h, hpm.Fixed):
                continue
            tbl.append("((%s,%s), %s)" % (emit.nat(i), emit.nat(j), cv(h.prob_to_value(vec[j]), I))); j += 1
        space = emit.cl("{| h_name := %s; h_conds := %s; h_default := %s; h_tag := %d |}" % (
            cname(h.name, I), emit.cl(ccond(c, I) for c in h.conditions), cv(h.default, I), 5 if isinstance(h, hpm.Fixed) else 1) for h in sp)
        want = emit.cl("(%s, %s)" % (cname(kk, I), cv(x, I)) for kk, x in sorted(got.items()))
        terms.append("(%s, %s, %s)" % (space, emit.cl(tbl), want))
        infos.append(dict(seed=seed, space=[h.name + ":" + type(h).__name__ for h in sp], vector=vec, got={kk: repr(x) for kk, x in got.items()}))
    verdicts, errors, wall = runcoq.run_cases(ctx.workdir, V2V_HEADER, terms, V2V_FOOTER, chunk=100, prefix="v2v")
    fails = []
    for path, rc, err in errors:
        fails.append(Failure("harness", "C05/coqc", "coqc failed on %s: %s" % (path, err[-300:]), {"correspondence": "C05 v2v", "file": path}))
    nd = 0
    for j, v in enumerate(verdicts):
        if v != "true":
            nd += 1
            if nd <= 2:
                fails.append(Failure("diff", "C05/v2v-model-vs-impl", "BayesVec.vector_to_values and BayesianOptimizationOracle._vector_to_values disagree on %r" % (infos[j],),
                                     {"correspondence": "BayesVec.v vs BayesianOptimizationOracle._vector_to_values", "case": infos[j]}))
    return fails, dict(v2v_cases=n, v2v_diffs=nd, v2v_coqc_wall_s=round(wall, 1), v2v_shared_name=sum(1 for i in infos if len(set(x.split(":")[0] for x in i["space"])) < len(i["space"])))

HBV_HEADER = """From stdpp Require Import gmap list.
From Coq Require Import ZArith.
From KT Require Import Space Discover HB HBValues.
Open Scope positive_scope.
(* one case: the five tuner/* names, the parent (its values, its id) if the trial is a promotion, the sample otherwise,
   (bracket, round, epochs, initial epoch) read from the real bracket book / _get_epochs, the values the real oracle issued *)
Definition hbv_ok (cs : list name * option (list (name*value) * value) * list (name*value) * (nat*nat*Z*Z) * list (name*value)) : bool :=
  let '(tn, par, sample, (lb, rd, ep, ini), want) := cs in
  match tn with
  | [a1; a2; a3; a4; a5] =>
      let t := {| n_trial_id := a1; n_epochs := a2; n_initial := a3; n_bracket := a4; n_round := a5 |} in
      let i := {| i_label := lb; i_bracket := lb; i_round := rd; i_epochs := ep; i_initial := ini;
                  i_parent := match par with Some _ => Some 0%nat | None => None end |} in
      bool_decide (hb_payload t (fun _ => match par with Some (pv, _) => list_to_map pv | None => ∅ end)
                              (fun _ => match par with Some (_, p) => p | None => VStr 1 end) (list_to_map sample) i = list_to_map want)
  | _ => false
  end.
Definition cases : list (list name * option (list (name*value) * value) * list (name*value) * (nat*nat*Z*Z) * list (name*value)) := [
"""
HBV_FOOTER = "\n].\nEval vm_compute in (map hbv_ok cases).\n"
TUNER_KEYS = ["tuner/trial_id", "tuner/epochs", "tuner/initial_epoch", "tuner/bracket", "tuner/round"]


def hbv_cases(ctx, n):
    """the values the real HyperbandOracle issues (round 0 and promotions, several workers, ties, failures) vs HBValues.hb_payload"""
    import keras_tuner as kt
    from keras_tuner.engine import hyperparameters as hpm
    from keras_tuner.tuners import hyperband
    from checks.c13 import cv, cname
    warnings.filterwarnings("ignore")
    terms = []; infos = []; promos = 0; deep = 0
    for k in range(n):
        seed = ctx.rng.randint(0, 2 ** 40); rng = random.Random(seed)
        hps = hpm.HyperParameters()
        (gen_shared_space if rng.random() < 0.25 else gen_space)(rng, hps)
        o = hyperband.HyperbandOracle(objective=kt.Objective("score", rng.choice(["min", "max"])), max_epochs=rng.choice([3, 4, 8, 9]), factor=rng.choice([2, 3]),
                                      seed=rng.randint(1, 10 ** 6), hyperparameters=hps, max_retries_per_trial=rng.choice([0, 1]), max_consecutive_failed_trials=99)
        d = tempfile.mkdtemp(prefix="ktv05h_")
        try:
            o._set_project_dir(d, "p"); o._display.verbose = 0
            W = rng.randint(1, 3); held = {}
            for step in range(rng.randint(20, 70)):
                tn = "w%d" % rng.randrange(W)
                if tn in held:
                    t = held.pop(tn); x = rng.random()
                    try:
                        if x < 0.85:
                            o.update_trial(t.trial_id, {"score": float(rng.randint(0, 4))}); t.status = "COMPLETED"
                        else:
                            t.status = "INVALID" if x < 0.95 else "FAILED"
                        o.end_trial(t)
                    except Exception:
                        lc._release(o); break
                    continue
                try:
                    t = o.create_trial(tn)
                except Exception:
                    lc._release(o); break
                if t.status != "RUNNING":
                    if not held: break
                    continue
                held[tn] = t
                vals = dict(t.hyperparameters.values)
                where = [(br["bracket_num"], r, e["past_id"]) for br in o._brackets for r, rnd in enumerate(br["rounds"]) for e in rnd if e["id"] == t.trial_id]
                if len(where) != 1 or len(terms) >= 40 * n:
                    continue        # a re-issued retry keeps its first entry: still exactly one
                b, r, past = where[0]
                I = emit.Intern()
                tnames = emit.cl(cname(x, I) for x in TUNER_KEYS)
                cvals = lambda dct: emit.cl("(%s, %s)" % (cname(kk, I), cv(x, I)) for kk, x in sorted(dct.items()))
                if past is not None:
                    pv = dict(o.trials[past].hyperparameters.values); promos += 1; deep += "tuner/trial_id" in pv
                    par = "Some (%s, %s)" % (cvals(pv), cv(past, I)); sample = "[]"
                else:
                    par = "None"; sample = cvals({kk: x for kk, x in vals.items() if kk not in TUNER_KEYS[1:]})
                info = "(%s, %s, %s, %s)" % (emit.nat(b), emit.nat(r), emit.z(o._get_epochs(b, r)), emit.z(o._get_epochs(b, r - 1) if r > 0 else 0))
                terms.append("(%s, %s, %s, %s, %s)" % (tnames, par, sample, info, cvals(vals)))
                infos.append(dict(seed=seed, trial=t.trial_id, bracket=b, round=r, parent=past, values={kk: repr(x) for kk, x in vals.items()}))
        finally:
            shutil.rmtree(d, ignore_errors=True)
    verdicts, errors, wall = runcoq.run_cases(ctx.workdir, HBV_HEADER, terms, HBV_FOOTER, chunk=150, prefix="hbv")
    fails = []
    for path, rc, err in errors:
        fails.append(Failure("harness", "C05/coqc", "coqc failed on %s: %s" % (path, err[-300:]), {"correspondence": "C05 hbv", "file": path}))
    nd = 0
    for j, v in enumerate(verdicts):
        if v != "true":
            nd += 1
            if nd <= 2:
                fails.append(Failure("diff", "C05/hbvalues-model-vs-impl", "HBValues.hb_payload and the values HyperbandOracle issued disagree on %r" % (infos[j],),
                                     {"correspondence": "HBValues.v vs HyperbandOracle._populate_space/_random_trial", "case": infos[j]}))
    return fails, dict(hbv_cases=len(terms), hbv_promotions=promos, hbv_promotions_of_promoted=deep, hbv_diffs=nd, hbv_coqc_wall_s=round(wall, 1))


def run(ctx):
    import glob, json
    n = ctx.n(220, 1500)
    corpus = [json.load(open(f))["cfg"] for f in sorted(glob.glob("/verif/corpus/C05/*.json"))]
    failures = []; stats = dict(by_kind={}, issued=0, grown=0, space_kinds={}, corpus_cases=len(corpus)); distinct = 0; samples = []; seen = set()
    for i in range(n):
        cfg = corpus[i] if i < len(corpus) else gen(ctx.rng)
        issued, bad, space = run_case(cfg)
        stats["by_kind"][cfg["kind"]] = stats["by_kind"].get(cfg["kind"], 0) + 1
        stats["issued"] += len(issued); stats["grown"] += bool(cfg["grow"])
        for s in space:
            kk = s.split(":")[1]; stats["space_kinds"][kk] = stats["space_kinds"].get(kk, 0) + 1
        key = repr(space) + cfg["kind"]
        if key not in seen and len(issued) >= 2:
            distinct += 1
        seen.add(key)
        if bad:
            failures.append(Failure("violation", "C05/%s/%s" % (bad[0], cfg["kind"]), bad[1], {"cfg": cfg, "space": space, "issued": [(a, {k: repr(v) for k, v in b.items()}) for a, b in issued[-3:]]}))
        if len(samples) < 2 and issued:
            samples.append(dict(cfg=cfg, space=space, first_trials=[(a, {k: repr(v) for k, v in b.items()}) for a, b in issued[:2]]))
    vf, vstats = v2v_cases(ctx, ctx.n(200, 2000))
    failures.extend(vf); stats.update(vstats)
    hf, hstats = hbv_cases(ctx, ctx.n(40, 300))
    failures.extend(hf); stats.update(hstats)
    return dict(evaluations=n + vstats["v2v_cases"] + hstats["hbv_cases"], distinct_nontrivial=distinct, traces_validated=stats["issued"],
                rule="(model correspondence: every trial issued by the real HyperbandOracle on short multi-worker histories - round 0 and promotions - vs HBValues.hb_payload evaluated in Coq; BayesianOptimizationOracle._vector_to_values on generated spaces incl. Fixed entries and shared names, random and edge vectors, vs BayesVec.v evaluated in Coq) "
                     "search spaces of 1-15 entries over Int/Float (linear, log, reverse_log, +-step), Choice, Boolean, Fixed with conditions nested to depth 4; 35% of the "
                     "cases declare a further sub-space inside trials; worker-pool histories (1-4 tuners, scores, INVALID/FAILED outcomes, retries) on the real random, grid, "
                     "Hyperband and Bayesian oracles; every RUNNING trial is checked: value for exactly the active names, each value in its domain (type, range, lattice, "
                     "choice, fixed); non-trivial = distinct (space, oracle kind) with >= 2 issued trials",
                samples=samples or [dict(note="none")], failures=failures, stats=stats)


def replay(ctx, doc):
    if "cfg" not in doc.get("replay", {}):
        # a model-vs-implementation disagreement (v2v / hbvalues): the case is regenerated from the run's seed, so replay = the check itself
        return run(ctx)
    cfg = doc["replay"]["cfg"]
    issued, bad, space = run_case(cfg)
    fs = [Failure("violation", "C05/%s/%s" % (bad[0], cfg["kind"]), bad[1], {"cfg": cfg})] if bad else []
    return dict(evaluations=1, distinct_nontrivial=1, failures=fs, samples=[cfg], rule="replay")
