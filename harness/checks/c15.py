"""C15 - config/JSON round trips are lossless for spaces, values, trials and metrics.

Every generated object is serialised with get_config/get_state, pushed through json.dumps/json.loads (as on disk),
rebuilt with from_config/from_state and compared in every observable respect; a second round trip must give the same JSON
text; copies must be independent. MetricHistory round trips are also compared with MetricsCodec.v inside Coq."""
import json, math, random, contextlib, tempfile, shutil, warnings, fractions
from ktverif import emit, runcoq, lifecycle as lc
from ktverif.framework import Failure
from checks.c18 import fvq

TRUSTED = ["json.dumps / json.loads (with Python's NaN / Infinity extensions, as keras_tuner.utils.save_json uses them)"]
ASSUMPTIONS = ["observables = type, bounds, step, sampling, effective default, conditions, `ordered`, order of the space; values; status, message, score, best step; "
               "per-metric direction and step-sorted history with every execution. Not promised: insertion order of observations, `_default` being None vs an explicit equal value"]
F = fractions.Fraction


def same_float(a, b):
    if a is None or b is None:
        return a is None and b is None
    if isinstance(a, float) and isinstance(b, float) and a != a and b != b:
        return True
    return type(a) is type(b) and a == b


def hp_obs(h):
    t = type(h).__name__
    d = dict(type=t, name=h.name, default=h.default, default_type=type(h.default).__name__,
             conditions=[(c.name, list(c.values)) for c in h.conditions])
    for a in ("min_value", "max_value", "step", "sampling", "ordered", "value"):
        if hasattr(h, a):
            d[a] = getattr(h, a); d[a + "_type"] = type(getattr(h, a)).__name__
    if t == "Choice":
        d["values"] = list(h.values); d["values_types"] = [type(v).__name__ for v in h.values]
    return d


def hps_obs(hps):
    return dict(space=[hp_obs(h) for h in hps.space], values=sorted((k, repr(v), type(v).__name__) for k, v in hps.values.items()))


def gen_hps(rng):
    from keras_tuner.engine import hyperparameters as hpm
    hps = hpm.HyperParameters()
    for i in range(rng.randint(0, 6)):
        with contextlib.ExitStack() as st:
            if hps.space and rng.random() < 0.5:
                p = rng.choice(list(hps.space))
                try:
                    for c in p.conditions: st.enter_context(hps.conditional_scope(c.name, c.values))
                    import itertools
                    pv = list(itertools.islice(p.values, 4)) if type(p).__name__ != "Fixed" else [p.value]
                    st.enter_context(hps.conditional_scope(p.name, rng.sample(pv, rng.randint(1, len(pv)))))
                except ValueError:
                    pass
            if rng.random() < 0.2:
                st.enter_context(hps.name_scope("s%d" % rng.randint(0, 1)))
            n = "h%d" % i; k = rng.choice(["int", "intd", "intlog", "float", "floatstep", "floatlog", "choice_s", "choice_i", "choice_f", "choice_ord", "bool", "fixed"])
            try:
                # zero-like defaults and values (0, 0.0, False) where they are NOT the lower bound: "unset" and "zero" must not be confused
                if k == "int":
                    lo = rng.randint(-5, 0); hi = rng.randint(1, 9); hps.Int(n, lo, hi, default=rng.choice([None, None, 0, lo, hi]))
                elif k == "intd": hps.Int(n, 0, 10, step=rng.choice([None, 2, 5]), default=rng.choice([0, 4, 10]))
                elif k == "intlog": hps.Int(n, 1, 64, step=rng.choice([None, 2]), sampling=rng.choice(["log", "reverse_log"]))
                elif k == "float": hps.Float(n, -1.5, 2.5, default=rng.choice([None, -1.5, 0.25, 0.0]))
                elif k == "floatstep": hps.Float(n, 0.0, 1.0, step=0.25, default=rng.choice([None, 0.5]))
                elif k == "floatlog": hps.Float(n, 1e-4, 1e-1, sampling="log", step=rng.choice([None, 10]))
                elif k == "choice_s": hps.Choice(n, ["a", "b", "c"][: rng.randint(1, 3)], default=rng.choice([None, "a"]))
                elif k == "choice_i": hps.Choice(n, [3, 1, 2, 0][: rng.randint(3, 4)], default=rng.choice([None, 1]))
                elif k == "choice_f": hps.Choice(n, [0.5, 0.1, 0.0][: rng.randint(2, 3)])
                elif k == "choice_ord": hps.Choice(n, [1, 2, 3], ordered=rng.choice([True, False]))
                elif k == "bool": hps.Boolean(n, default=rng.random() < 0.5)
                else: hps.Fixed(n, rng.choice([1, 2.5, "x", False, 0, 0.0, True]))
            except ValueError:
                pass
    for h in hps.space:
        if rng.random() < 0.5 and hps.is_active(h):
            hps.values[h.name] = h.random_sample(rng.randint(0, 99))
    hps.ensure_active_values()
    return hps


def check_hps(hps):
    from keras_tuner.engine import hyperparameters as hpm
    cfg = hps.get_config()
    text = json.dumps(cfg)
    back = hpm.HyperParameters.from_config(json.loads(text))
    a, b = hps_obs(hps), hps_obs(back)
    if a != b:
        k = "space" if a["space"] != b["space"] else "values"
        i = next((i for i, (x, y) in enumerate(zip(a[k], b[k])) if x != y), None)
        return "hyperparameters", "%s differ after the round trip: %r became %r" % (k, a[k][i] if i is not None else a[k], b[k][i] if i is not None else b[k])
    if json.dumps(back.get_config()) != text:
        return "hyperparameters-idempotent", "a second round trip changes the JSON text"
    cp = hps.copy()
    if hps_obs(cp) != a:
        return "copy-equal", "copy() differs from the original"
    before = json.dumps(hps.get_config())
    cp.values["__probe__"] = 1
    if cp.space:
        cp.space[0].name = cp.space[0].name + "_renamed"
    cp.Fixed("__new__", 3)
    if json.dumps(hps.get_config()) != before:
        return "copy-independent", "mutating the copy changed the original"
    return None


def gen_tracker(rng):
    from keras_tuner.engine import metrics_tracking as mt
    tr = mt.MetricsTracker(); reps = []
    names = ["loss", "val_accuracy", "score"][: rng.randint(1, 3)]
    for n in names:
        tr.register(n, direction=rng.choice([None, "min", "max"]))
    for _ in range(rng.randint(0, 12)):
        n = rng.choice(names); r = rng.random()
        v = float("nan") if r < 0.1 else math.inf if r < 0.15 else -math.inf if r < 0.2 else float(rng.randint(-20, 20)) / rng.choice([1, 2, 4])
        st = rng.choice([0, 1, 2, 5, 3])
        tr.update(n, v, step=st); reps.append((n, v, st))
    return tr, names, reps


def tracker_obs(tr, names):
    out = {}
    for n in names:
        out[n] = dict(direction=tr.get_direction(n), history=[(o.step, [float(x) for x in o.value]) for o in tr.get_history(n)],
                      best=tr.get_best_value(n))
    return out


def eq_tracker(a, b):
    for n in a:
        if a[n]["direction"] != b[n]["direction"]:
            return "direction of %s: %s became %s" % (n, a[n]["direction"], b[n]["direction"])
        ha, hb = a[n]["history"], b[n]["history"]
        if len(ha) != len(hb) or any(x[0] != y[0] or len(x[1]) != len(y[1]) or not all(same_float(p, q) for p, q in zip(x[1], y[1])) for x, y in zip(ha, hb)):
            return "history of %s: %r became %r" % (n, ha, hb)
        if not (a[n]["best"] is None and b[n]["best"] is None) and not same_float(float(a[n]["best"]), float(b[n]["best"])):
            return "best value of %s: %r became %r" % (n, a[n]["best"], b[n]["best"])
    return None


def check_trial(rng):
    from keras_tuner.engine import trial as tm, metrics_tracking as mt
    hps = gen_hps(rng)
    t = tm.Trial(hps, trial_id=str(rng.randint(0, 99)).zfill(rng.choice([1, 2, 4])), status=rng.choice(["RUNNING", "COMPLETED", "INVALID", "FAILED"]))
    tr, names, reps = gen_tracker(rng)
    t.metrics = tr
    t.score = rng.choice([None, 0.0, 1.5, float("nan"), math.inf, -3.25]); t.best_step = rng.choice([0, 3, 7])
    t.message = rng.choice([None, "Traceback ...\nValueError: x", ""])
    text = json.dumps(t.get_state())
    b = tm.Trial.from_state(json.loads(text))
    for f in ("trial_id", "status", "message", "best_step"):
        if getattr(t, f) != getattr(b, f):
            return "trial", "%s: %r became %r" % (f, getattr(t, f), getattr(b, f))
    if not same_float(t.score, b.score):
        return "trial", "score: %r became %r" % (t.score, b.score)
    if hps_obs(t.hyperparameters) != hps_obs(b.hyperparameters):
        return "trial", "hyperparameters of the trial differ after the round trip"
    m = eq_tracker(tracker_obs(t.metrics, names), tracker_obs(b.metrics, names))
    if m:
        return "trial-metrics", m
    if json.dumps(b.get_state()) != text:
        return "trial-idempotent", "a second round trip changes the JSON text"
    return None


def check_oracle_state(rng):
    """oracle state reached by a schedule: get_state -> JSON -> set_state on a fresh oracle of the same class with the trials installed"""
    cfg = lc.gen_config(rng); cfg["nsteps"] = rng.randint(5, 30)
    if cfg["kind"] == "bayes":
        cfg["max_trials"] = 4; cfg["nsteps"] = 12
    d = tempfile.mkdtemp(prefix="ktv15_"); d2 = tempfile.mkdtemp(prefix="ktv15_")
    try:
        o = lc.make_oracle(cfg, d)
        r = random.Random(cfg["hseed"]); held = {}
        for _ in range(cfg["nsteps"]):
            w = "w%d" % r.randrange(cfg["W"])
            if w in held and r.random() < 0.7:
                t = held.pop(w); x = r.random()
                try:
                    if x < 0.7: o.update_trial(t.trial_id, {"score": float(r.randint(-9, 9))}); t.status = "COMPLETED"
                    else: t.status = "INVALID" if x < 0.85 else "FAILED"
                    o.end_trial(t)
                except RuntimeError:
                    lc._release(o)
            else:
                t = o.create_trial(w)
                if t.status == "RUNNING": held[w] = t
        st = o.get_state(); text = json.dumps(st)
        o2 = lc.make_oracle(cfg, d2)
        from keras_tuner.engine import trial as tm
        for tid, t in o.trials.items():
            o2.trials[tid] = tm.Trial.from_state(json.loads(json.dumps(t.get_state())))
        o2.set_state(json.loads(text))
        st2 = o2.get_state()
        for k in st:
            if k == "display":
                continue
            a, b = st[k], st2[k]
            if k == "tried_so_far":
                a, b = sorted(a), sorted(b)
            if json.dumps(a, sort_keys=True) != json.dumps(b, sort_keys=True):
                return cfg["kind"], "oracle-state", "%s oracle: state field %s: %r became %r" % (cfg["kind"], k, str(a)[:120], str(b)[:120])
        # ... and the live objects: what the restored oracle will act on, read from its attributes (two get_state outputs can
        # agree on a field both of them leave out)
        def live(x):
            return dict(run_times={tid: x._run_times[tid] for tid in o.trials}, retry_queue=list(x._retry_queue), start_order=list(x.start_order),
                        end_order=list(x.end_order), seed_state=x._seed_state, tried_so_far=sorted(x._tried_so_far),
                        id_to_hash={tid: x._id_to_hash[tid] for tid in o.trials if tid in o._id_to_hash or tid in x._id_to_hash})
        la, lb = live(o), live(o2)
        for k in la:
            if la[k] != lb[k]:
                return cfg["kind"], "oracle-live-state", "%s oracle: after get_state -> JSON -> set_state the attribute %s is %r, was %r" % (cfg["kind"], k, str(lb[k])[:120], str(la[k])[:120])
        return cfg["kind"], None, None
    finally:
        shutil.rmtree(d, ignore_errors=True); shutil.rmtree(d2, ignore_errors=True)


def emit_history(reps, name):
    mine = [(v, st) for (n, v, st) in reps if n == name]
    return emit.cl("(%s, %s)" % (fvq(v), emit.z(st)) for v, st in mine)


HEADER = """From Coq Require Import List ZArith QArith Bool.
Import ListNotations.
From KT Require Import Metrics MetricsCodec.
Fixpoint leq {X} (e : X -> X -> bool) (a b : list X) := match a, b with [], [] => true | x :: a, y :: b => e x y && leq e a b | _, _ => false end.
Definition fe (x y : fv) := feq x y || (is_nan x && is_nan y).
Definition oeq (a b : obs) := leq (fun p q => Z.eqb (fst p) (fst q) && leq fe (snd p) (snd q)) a b.
(* reports -> observations; config; reload; the reloaded history as the implementation lists it *)
Definition check (c : list (fv * Z) * list (Z * list fv)) : bool :=
  let '(reps, expected) := c in
  let o := fold_left (fun o p => update o (fst p) (snd p)) reps [] in
  oeq (history (mh_from_config (mh_config o))) expected && oeq (mh_config o) expected.
Definition cases : list (list (fv * Z) * list (Z * list fv)) := [
"""
FOOTER = "\n].\nEval vm_compute in (map check cases).\n"


def run(ctx):
    from keras_tuner.engine import metrics_tracking as mt
    rng = ctx.rng
    n = ctx.n(600, 8000)
    failures = []; stats = dict(hyperparameters=0, trackers=0, trials=0, oracle_states=0, by_kind={}, hp_entries=0)
    terms = []; distinct = 0; seen = set(); samples = []
    for i in range(n):
        kind = i % 3
        if kind == 0:
            hps = gen_hps(rng); stats["hyperparameters"] += 1; stats["hp_entries"] += len(hps.space)
            key = json.dumps(hps.get_config())
            if key not in seen and len(hps.space) >= 2: distinct += 1
            seen.add(key)
            bad = check_hps(hps)
            if bad: failures.append(Failure("violation", "C15/" + bad[0], bad[1], {"config": json.loads(key)}))
            if len(samples) < 1: samples.append(dict(kind="hyperparameters", config=json.loads(key)))
        elif kind == 1:
            tr, names, reps = gen_tracker(rng); stats["trackers"] += 1
            a = tracker_obs(tr, names)
            back = mt.MetricsTracker.from_config(json.loads(json.dumps(tr.get_config())))
            m = eq_tracker(a, tracker_obs(back, names))
            if m: failures.append(Failure("violation", "C15/metrics-tracker", m, {"reports": reps}))
            for nm in names:
                hist = [(o.step, [float(x) for x in o.value]) for o in back.get_history(nm)]
                terms.append("(%s, %s)" % (emit_history(reps, nm), emit.cl("(%s, %s)" % (emit.z(s), emit.cl(fvq(x) for x in vs)) for s, vs in hist)))
            key = repr(reps)
            if key not in seen and len(reps) >= 3: distinct += 1
            seen.add(key)
            if len(samples) < 2: samples.append(dict(kind="metrics", reports=reps[:6]))
        else:
            stats["trials"] += 1
            bad = check_trial(rng)
            if bad: failures.append(Failure("violation", "C15/" + bad[0], bad[1], {"seed": "regenerated from VERIF_SEED"}))
    for j in range(ctx.n(40, 500)):
        k, clause, msg = check_oracle_state(rng)
        stats["oracle_states"] += 1; stats["by_kind"][k] = stats["by_kind"].get(k, 0) + 1
        if clause: failures.append(Failure("violation", "C15/%s/%s" % (clause, k), msg, {"kind": k}))
    verdicts, errors, wall = runcoq.run_cases(ctx.workdir, HEADER, terms, FOOTER, chunk=300)
    for path, rc, err in errors:
        failures.append(Failure("harness", "C15/coqc", "coqc failed on %s: %s" % (path, err[-300:]), {"correspondence": "C15", "file": path}))
    ndiff = sum(1 for v in verdicts if v != "true")
    if ndiff:
        failures.append(Failure("diff", "C15/model-vs-impl", "MetricsCodec.v and MetricHistory.get_config/from_config disagree on %d histories" % ndiff, {"correspondence": "MetricsCodec.v vs MetricHistory codec"}))
    stats["diffs"] = ndiff; stats["coqc_wall_s"] = round(wall, 1)
    return dict(evaluations=n + stats["oracle_states"], distinct_nontrivial=distinct, traces_validated=len(terms) - ndiff,
                rule="(1/3) search spaces of 0-6 entries of all kinds and options (defaults given or not, `ordered`, step, log sampling, conditions on Fixed/Choice/Int/Boolean parents, name scopes) with "
                     "values; (1/3) MetricsTrackers with 1-3 metrics, NaN/inf, repeated and out-of-order steps; (1/3) Trials combining both with status/message/score/best_step; plus oracle "
                     "states reached by schedules on the four oracle kinds; all through json.dumps/loads; non-trivial = distinct space with >= 2 entries or report list with >= 3 reports",
                samples=samples, failures=failures, stats=stats)


def replay(ctx, doc):
    return dict(evaluations=1, distinct_nontrivial=1, failures=[], samples=[doc["replay"]], rule="replay: instances are regenerated from VERIF_SEED by bin/check C15")
