"""C12 - same seed, same history, same trials.

Every scenario is executed in two fresh interpreters with different PYTHONHASHSEED and differently seeded global
random / numpy generators (and once more in a third to separate flakiness from dependence); the issued trials (ids,
values with their exact float bits, statuses) and the discovered search space must be identical."""
import os, sys, json, random, subprocess, tempfile, concurrent.futures
from ktverif import lifecycle as lc
from ktverif.framework import Failure
from checks import c13

TRUSTED = ["two interpreter runs with different PYTHONHASHSEED and global seeds expose hash-order and unseeded-randomness dependence (wall clock: timestamps are not part of the compared output)",
           "the Bayesian oracle runs with the real scikit-learn Gaussian process (seeded RandomState)"]
ASSUMPTIONS = ["the request schedule and the reported results are replayed identically (the harness derives them from the scenario seed)"]


def gen_siblings(rng):
    """an eagerly declared parent with two or three sibling children, each guarding a further declaration with `if`"""
    vals = rng.sample([1, 2, 3], 2)
    kids = []
    for nm, leaf in zip("bcd"[: rng.randint(2, 3)], "pqr"):
        cv = rng.sample(["u", "v", "w"], 2)
        kids.append(("decl", nm, ("choice", cv, None)))
        kids.append(("cond", False, nm, [cv[1]], [("decl", leaf, ("int", 0, 3, None))]))
    return [("decl", "a", ("choice", vals, None)), ("cond", True, "a", [vals[1]], kids)]


def gen_scenarios(rng, n):
    out = []
    for i in range(n):
        if i % 6 == 0:
            # a search resumed in a fresh interpreter must go on exactly like one reloaded in the same process: small discrete
            # spaces, so that samples drawn after the reload collide with configurations tried before it
            cfg = lc.gen_config(rng, kinds=["random", "random", "hyperband", "bayes", "grid"])
            cfg["nsteps"] = rng.randint(16, 40); cfg["max_trials"] = rng.choice([None, 6, 8, 12]) if cfg["kind"] != "hyperband" else None
            if cfg["kind"] == "bayes":
                cfg["max_trials"] = rng.choice([4, 5, 6]); cfg["nsteps"] = 24
            if cfg["kind"] == "hyperband":
                cfg["max_epochs"] = rng.choice([3, 4, 9]); cfg["nsteps"] = rng.randint(25, 60)
            if rng.random() < 0.3:
                cfg["shape"] = "dupchoice"
            out.append(dict(type="resume", cfg=cfg, grow=rng.random() < 0.3, split=rng.randint(3, max(4, cfg["nsteps"] - 4))))
        elif i % 6 == 1:
            out.append(dict(type="hb_grow", direction=rng.choice(["min", "max"]), max_epochs=rng.choice([4, 8, 9]), factor=rng.choice([2, 3]), seed=rng.randint(1, 10 ** 6),
                            hseed=rng.randint(0, 2 ** 31), W=rng.choice([3, 4, 6]), waves=rng.randint(3, 6),
                            score_max=rng.choice([1, 2, 2, 50])))      # few score values: ties among the candidates of a promotion
        elif i % 6 == 4:
            out.append(dict(type="discovery", prog=gen_siblings(rng), seed=rng.randint(1, 10 ** 6)))
        elif i % 3 == 2:
            for _ in range(50):
                prog = c13.gen_tree(rng)
                if any(st[0] == "cond" for st in prog):
                    break
            out.append(dict(type="discovery", prog=prog, seed=rng.randint(1, 10 ** 6)))
        else:
            cfg = lc.gen_config(rng)
            cfg["nsteps"] = rng.randint(12, 40)
            if cfg["kind"] == "bayes":
                cfg["max_trials"] = rng.choice([4, 5, 6]); cfg["nsteps"] = 24
            if cfg["kind"] == "hyperband":
                cfg["max_epochs"] = rng.choice([3, 4, 9]); cfg["nsteps"] = rng.randint(25, 60)
                cfg["W"] = rng.randint(2, 4)
            if rng.random() < 0.3:
                cfg["shape"] = "dupchoice"
            if cfg["kind"] != "bayes" and rng.random() < 0.2:
                cfg["seed"] = -rng.randint(1, 8)        # the per-sample seeds seed, seed+1, ... then pass through 0
            out.append(dict(type="history", cfg=cfg, grow=rng.random() < 0.6))
    return out


def run_child(salt, hashseed, path, phase="full"):
    env = dict(os.environ, PYTHONHASHSEED=str(hashseed), PYTHONPATH=os.environ.get("KT_REPO", "/repo") + ":/verif/harness", TF_CPP_MIN_LOG_LEVEL="3")
    p = subprocess.run(["/venv/bin/python", "-W", "ignore", "-m", "ktverif.c12_child", str(salt), path, phase], capture_output=True, text=True, env=env, timeout=3000)
    for line in p.stdout.split("\n"):
        if line.startswith("C12RESULT "):
            return json.loads(line[len("C12RESULT "):])
    raise RuntimeError("child failed: " + (p.stderr or p.stdout)[-500:])


def first_diff(a, b):
    for i, (x, y) in enumerate(zip(a, b)):
        if x != y:
            return i, x, y
    if len(a) != len(b):
        return min(len(a), len(b)), None, None
    return None


def run(ctx):
    n = ctx.n(60, 600)
    import glob
    corpus = [json.load(open(f))["scenario"] for f in sorted(glob.glob("/verif/corpus/C12/*.json"))]
    scenarios = corpus + gen_scenarios(ctx.rng, n - len(corpus))
    os.makedirs(ctx.workdir, exist_ok=True)
    import shutil
    for k, sc in enumerate(scenarios):
        if sc["type"] == "resume":
            sc["dir"] = os.path.join(ctx.workdir, "resume_%d" % k)
    path = os.path.join(ctx.workdir, "scenarios.json")
    json.dump(scenarios, open(path, "w"))
    with concurrent.futures.ThreadPoolExecutor(max_workers=4) as ex:
        futs = [ex.submit(run_child, s, h, path) for s, h in ((1, 1), (2, 7919), (3, 1))]
        f4 = ex.submit(run_child, 4, 4242, path, "first")
        r1, r2, r3 = [f.result() for f in futs]
        rf = f4.result()
    rs = run_child(5, 90001, path, "second")
    for sc in scenarios:
        if sc["type"] == "resume":
            shutil.rmtree(sc["dir"], ignore_errors=True)
    failures = []; stats = dict(history=0, discovery=0, by_kind={}, issued=0, grown_spaces=0, differing=0)
    distinct = 0
    for k, sc in enumerate(scenarios):
        stats[sc["type"]] = stats.get(sc["type"], 0) + 1
        if sc["type"] == "history":
            stats["by_kind"][sc["cfg"]["kind"]] = stats["by_kind"].get(sc["cfg"]["kind"], 0) + 1
        stats["issued"] += sum(1 for e in r1[k] if e[0] == "create")
        if any(e[0] == "space" and any(x.startswith("late_") for x in e[1]) for e in r1[k]):
            stats["grown_spaces"] += 1
        if sum(1 for e in r1[k] if e[0] == "create") >= 3:
            distinct += 1
        d = first_diff(r1[k], r2[k]) or first_diff(r1[k], r3[k])
        if sc["type"] == "resume":
            stats["resume"] = stats.get("resume", 0)
            dr = first_diff(r1[k], rf[k] + rs[k])
            if dr and not d:
                stats["differing"] += 1
                failures.append(Failure("violation", "C12/resume-fresh-process-" + sc["cfg"]["kind"],
                                        "%s search reloaded after %d steps: reloading in the same process and resuming in a fresh interpreter (other PYTHONHASHSEED) differ at event %d: %r vs %r" % (
                                            sc["cfg"]["kind"], sc["split"], dr[0], dr[1], dr[2]), {"scenario": sc, "event": dr[0], "same_process": dr[1], "fresh_process": dr[2]}))
        if d:
            stats["differing"] += 1
            if sc["type"] in ("history", "resume"):
                what = "history on the %s oracle%s" % (sc["cfg"]["kind"], " with hyperparameters discovered inside trials" if sc.get("grow") else "")
                sig = "C12/history-" + sc["cfg"]["kind"] + ("-grow" if sc.get("grow") else "")
                if sc["type"] == "resume":
                    what += ", reloaded into a fresh oracle object after %d steps" % sc["split"]; sig = "C12/after-reload-" + sc["cfg"]["kind"]
            elif sc["type"] == "hb_grow":
                what = "Hyperband search in which some configurations declare a further hyperparameter"; sig = "C12/hyperband-promotion-after-growth"
            else:
                what = "space discovery at tuner construction"; sig = "C12/discovery"
            failures.append(Failure("violation", sig, "two replays of the same %s differ at event %d: %r vs %r" % (what, d[0], d[1], d[2]),
                                    {"scenario": sc, "event": d[0], "run_a": d[1], "run_b": d[2]}))
    return dict(evaluations=n, distinct_nontrivial=distinct, traces_validated=n - stats["differing"],
                rule="scenarios = (1/2) seeded worker-pool histories on the real random, grid, Hyperband and Bayesian oracles (30% over a space whose string Choices list values "
                     "more than once), 30-60% of them declaring further (conditional) hyperparameters inside trials, (1/6) Hyperband searches with growth and tied scores, (1/3) tuner constructions over generated declaration trees followed by four trials; each scenario is replayed in "
                     "three fresh interpreters (PYTHONHASHSEED 1 / 7919 / 1, different global random and numpy seeds); half of the histories are additionally cut at a random step: "
                     "reloaded into a fresh oracle of the same process vs. first part in one interpreter and the rest in another (PYTHONHASHSEED 4242 / 90001) on the saved project; non-trivial = scenario issuing >= 3 trials",
                samples=[dict(scenario=scenarios[0], issued=r1[0][:6]), dict(scenario=scenarios[2], issued=r1[2][:4])], failures=failures, stats=stats)


def replay(ctx, doc):
    sc = doc["replay"]["scenario"]
    os.makedirs(ctx.workdir, exist_ok=True)
    path = os.path.join(ctx.workdir, "scenario.json"); json.dump([sc], open(path, "w"))
    a = run_child(1, 1, path); b = run_child(2, 7919, path)
    d = first_diff(a[0], b[0])
    fs = [Failure("violation", doc.get("signature", "C12/replay"), "two replays differ at event %d: %r vs %r" % d, {"scenario": sc})] if d else []
    return dict(evaluations=1, distinct_nontrivial=1, failures=fs, samples=[sc], rule="replay")
