"""C08 - a crash between any two writes leaves a resumable, consistent project.

Every state write goes through keras_tuner.utils.save_json; the harness counts the writes of a scripted search, kills the
process model-wise (a BaseException) after exactly k writes, restarts a fresh tuner on the same directory and (a) compares
the order and content of all writes and the state rebuilt after the restart with Crash.v, (b) checks the property on the
implementation: durable ends keep status and score, unfinished trials are run again, ids stay unique, the budget is
honoured in full, the resumed search terminates."""
import os, json, math, random, shutil, tempfile, warnings
from ktverif import emit, runcoq, lifecycle as lc
from ktverif.framework import Failure

TRUSTED = ["each utils.save_json call is one atomic write (the property says so); directory listing returns what was written",
           "crash = BaseException raised inside save_json before the (k+1)-th write; restart = new oracle and tuner objects on the same directory",
           "populate_space enters the model as a recorded table"]
ASSUMPTIONS = ["single worker process (BaseTuner.search); the chief/worker mode is not crashed"]


class Crash(BaseException):
    pass


class ScriptEnd(BaseException):
    pass


def gen_case(rng):
    cfg = lc.gen_config(rng, max_trials_choices=(1, 2, 3, 4))
    if cfg["kind"] == "bayes":
        cfg["max_trials"] = rng.choice([2, 3])
    if cfg["kind"] == "hyperband":
        cfg["max_epochs"] = rng.choice([2, 3, 4])
    script = []
    for _ in range(rng.randint(1, 7)):
        a = rng.choices(["float", "nan", "raise", "failed"], weights=[55, 12, 20, 13])[0]
        script.append((a, float(60 * rng.randint(-5, 5))))
    cfg["script"] = script
    return cfg


def run_search(cfg, d, script, crash_after=None, record=None):
    """One BaseTuner session on directory d. Returns (outcome, oracle, ops, table, nwrites)."""
    warnings.filterwarnings("ignore")
    import keras_tuner as kt
    from keras_tuner import utils as ktutils, errors, config as cfgmod
    from keras_tuner.engine import base_tuner
    cfgmod.DEBUG = False
    script = list(script); ops = []; table = []; nscript = len(script)
    state = dict(n=0)
    orig_save = ktutils.save_json

    def save_json(path, obj):
        if crash_after is not None and state["n"] >= crash_after:
            raise Crash()
        state["n"] += 1
        if record is not None:
            record.append((os.path.relpath(path, d), json.loads(json.dumps(obj))))
        return orig_save(path, obj)
    ktutils.save_json = save_json
    try:
        o = lc.make_oracle(cfg, d)
        orig_pop = o.populate_space
        def rec(trial_id):
            try:
                r = orig_pop(trial_id)
            except Exception as e:
                raise lc.PopulateError(repr(e))
            table.append([r["status"], None]); return r
        o.populate_space = rec

        class T(base_tuner.BaseTuner):
            def run_trial(self, trial, *a, **k):
                if not script:
                    raise ScriptEnd()
                att, v = script.pop(0)
                if att == "float": return v
                if att == "nan": return float("nan")
                if att == "raise": raise ValueError("scripted")
                raise errors.FailedTrialError("scripted")
        outcome = None
        try:
            t = T(oracle=o, directory=d, project_name="p", overwrite=False)
        except Crash:
            return "Crash", o, ops, table, state["n"], 0
        ora = t.oracle; ora._display.verbose = 0
        oc, ou, oe = ora.create_trial, ora.update_trial, ora.end_trial
        def create(tuner_id):
            before = len(table)
            tr = oc(tuner_id)
            tk = lc.token(tr.hyperparameters.values)
            if len(table) > before:
                table[-1][1] = tk if tr.status == "RUNNING" else 0
            ops.append(("create", 0, int(tr.trial_id), tr.status, tk)); return tr
        def update(trial_id, metrics, step=0):
            ops.append(("update", int(trial_id), float(metrics["score"]), int(step))); return ou(trial_id, metrics, step=step)
        def end(trial):
            if trial.status not in ("COMPLETED", "INVALID", "FAILED"):
                raise RuntimeError("odd: end_trial called with status %s (outside the write protocol Crash.v models; C19's subject)" % trial.status)
            st = {"COMPLETED": "ECompleted", "INVALID": "EInvalid", "FAILED": "EFailed"}[trial.status]
            ops.append(["end", int(trial.trial_id), st, None])
            try:
                return oe(trial)
            finally:
                ops[-1][3] = lc.token(ora.trials[trial.trial_id].hyperparameters.values); ops[-1] = tuple(ops[-1])
        ora.create_trial, ora.update_trial, ora.end_trial = create, update, end
        try:
            t.search(); outcome = "Done"
        except Crash:
            outcome = "Crash"
        except ScriptEnd:
            outcome = "ScriptEnd"
        except lc.PopulateError:
            outcome = "populate-error"
        except RuntimeError as e:
            outcome = "Aborted" if "consecutive failures" in str(e) else "error:" + str(e)[:100]
        lc._release(ora)
        return outcome, ora, ops, table, state["n"], nscript - len(script)
    finally:
        ktutils.save_json = orig_save


def disk_finals(d):
    """trials whose end is durably recorded: trial files saying COMPLETED or FAILED"""
    out = {}
    import glob
    for f in glob.glob(os.path.join(d, "p", "trial_*", "trial.json")):
        j = json.load(open(f))
        out[int(j["trial_id"])] = (j["status"], j["score"])
    return out


def same_score(a, b):
    if a is None or b is None:
        return a is None and b is None
    return (a != a and b != b) or float(a) == float(b)


def wdigest(w):
    path, obj = w
    if path.endswith("trial.json"):
        sc = lc.fvz(obj["score"])
        return [1, int(obj["trial_id"]), lc.STN[obj["status"]]] + sc + [lc.token(obj["hyperparameters"]["values"])]
    if path.endswith("oracle.json"):
        def L(xs):
            xs = list(xs); return [len(xs)] + xs
        og = []
        for t, i in obj["ongoing_trials"].items():
            og += [lc._tnum(t), int(i)]
        n = len(obj["start_order"])
        runs = [obj["run_times"].get(x, 0) for x in obj["start_order"]]
        return [2] + L(og) + L(int(x) for x in obj["start_order"]) + L(int(x) for x in obj["end_order"]) + L(int(x) for x in obj["retry_queue"]) + L(runs)
    return [3]


def emit_case(cfg, ops, table, writes, recs):
    tb = emit.cl("(%s, %s)" % (st, emit.z(tk or 0)) for st, tk in table)
    def op(o):
        if o[0] == "create":
            return "Create %s" % emit.nat(o[1])
        if o[0] == "update":
            return "Update %s (rep %s %s)" % (emit.nat(o[1]), lc.fvq(o[2]), emit.z(o[3]))
        return "End %s %s (setvals %s)" % (emit.nat(o[1]), o[2], emit.z(o[3]))
    wexp = emit.cl(emit.u63(emit.digest(wdigest(w))) for w in writes)
    ks = emit.cl("(%s, %s)" % (emit.nat(k), emit.u63(emit.digest(fl))) for k, fl in recs)
    return "(%s, %s, %s, %s, %s, %s)" % (lc.emit_cfg(cfg), emit.b(cfg["direction"] == "max"), tb, emit.cl(op(o) for o in ops), wexp, ks)


HEADER = """From Coq Require Import List ZArith QArith Bool Uint63.
Import ListNotations.
From KT Require Import Metrics Lifecycle LifeCorr Crash CrashCorr.
Definition cases : list ccase := [
"""
FOOTER = "\n].\nEval vm_compute in (map check_ccase cases).\n"
TAIL = [("float", 0.0)] * 40


def run_scenario(cfg, ks_budget, rng):
    """Returns dict with writes, ops, table, per-k results."""
    d0 = tempfile.mkdtemp(prefix="ktv08_")
    try:
        writes = []
        outcome, o, ops, table, W, _ = run_search(cfg, d0, cfg["script"], record=writes)
    finally:
        shutil.rmtree(d0, ignore_errors=True)
    if outcome == "populate-error" or outcome.startswith("error"):
        return dict(skip=outcome)
    allk = list(range(0, W + 1))
    ks = allk if len(allk) <= ks_budget else sorted(rng.sample(allk, ks_budget))
    per_k = []
    for k in ks:
        d = tempfile.mkdtemp(prefix="ktv08_")
        try:
            out1, o1, ops1, _, n1, consumed = run_search(cfg, d, cfg["script"], crash_after=k)
            finals = {i: v for i, v in disk_finals(d).items() if v[0] in ("COMPLETED", "FAILED")}
            started = set(disk_finals(d).keys())
            tuner_file = os.path.exists(os.path.join(d, "p", "tuner0.json"))
            # restart; look at the rebuilt state before anything else happens
            o2 = lc.make_oracle(cfg, d)
            from keras_tuner.engine import base_tuner
            class T0(base_tuner.BaseTuner):
                def run_trial(self, *a, **k):
                    raise ScriptEnd()
            try:
                t0 = T0(oracle=o2, directory=d, project_name="p", overwrite=False)
                rec_flat = ([1] + lc.flat(("none",), lc.snapshot(o2, d))[1:]) if tuner_file else [0]
                rec_snap = lc.snapshot(o2, d) if tuner_file else None
                rec_err = None
            except Exception as e:
                rec_flat = [-1]; rec_snap = None; rec_err = "%s: %s" % (type(e).__name__, str(e)[:200])
            # the resumed search, run to the end (remaining attempts then good results)
            rest = list(cfg["script"][min(consumed, len(cfg["script"])):]) + TAIL
            out2, o3, ops3, _, _, _ = (None, None, [], None, None, None)
            if rec_err is None:
                try:
                    out2, o3, ops3, _, _, _ = run_search(cfg, d, rest)
                    final = lc.snapshot(o3, d)
                except Exception as e:
                    # the resumed search itself raised (e.g. KeyError for a queued trial whose file is gone): reported as resume-raises
                    out2 = "error:%s: %s" % (type(e).__name__, str(e)[:120]); ops3 = []; final = None
            else:
                final = None
            per_k.append(dict(k=k, crashed=out1, finals=finals, started=sorted(started), tuner_file=tuner_file, rec_flat=rec_flat, rec_snap=rec_snap,
                              rec_err=rec_err, out2=out2, final=final, resumed_runs=[x for x in ops3 if x[0] == "create" and x[3] == "RUNNING"]))
        finally:
            shutil.rmtree(d, ignore_errors=True)
    return dict(writes=writes, ops=ops, table=table, W=W, outcome=outcome, per_k=per_k)


def inv_weak(s):
    """the lifecycle invariant Inv of LInv.v (the form that C08_any_crash_point proves of every rebuilt state) on a snapshot"""
    n = len(s["st"]); on_ids = [i for _, i in s["ongoing"]]
    if len(set(s["eo"])) != len(s["eo"]):
        return "end_order lists a trial twice: %r" % (s["eo"],)
    if len(set(s["rq"])) != len(s["rq"]):
        return "the retry queue lists a trial twice: %r" % (s["rq"],)
    if s["so"] != list(range(n)):
        return "start_order is %r for %d trials" % (s["so"], n)
    for i in range(n):
        final = s["st"][i] in ("COMPLETED", "FAILED")
        if (i in on_ids) + (i in s["rq"]) + (i in s["eo"]) > 1:
            return "trial %d is in more than one of ongoing / retry queue / end_order" % i
        if i in s["eo"] and not final:
            return "trial %d is in end_order with status %s" % (i, s["st"][i])
        if final and (i in on_ids or i in s["rq"]):
            return "trial %d has status %s but is %s" % (i, s["st"][i], "ongoing" if i in on_ids else "queued for retry")
        if not final and i not in on_ids and i not in s["rq"]:
            return "trial %d has status %s and is neither ongoing nor queued: it will never be run again" % (i, s["st"][i])
        if s["st"][i] == "COMPLETED" and (s["score"][i] is None or s["score"][i] != s["score"][i]):
            return "COMPLETED trial %d has score %r" % (i, s["score"][i])
    return None


def has_streak(s, kmax):
    run = 0
    for i in s["eo"]:
        run = run + 1 if s["st"][i] == "FAILED" else 0
        if run >= kmax:
            return True
    return False


def spec(cfg, sc):
    N = cfg["max_trials"]
    for r in sc["per_k"]:
        k = r["k"]
        if r["rec_err"]:
            return k, "unusable", "after a crash following write %d the project cannot be reopened: %s" % (k, r["rec_err"])
        if r["out2"] is None or r["out2"].startswith("error") or r["out2"] == "populate-error":
            return k, "resume-raises", "the resumed search raised (%s)" % r["out2"]
        fin = r["final"]
        if r["rec_snap"] is not None:
            m = inv_weak(r["rec_snap"])
            if m:
                return k, "rebuilt-inconsistent", "the state rebuilt by the restart is inconsistent: %s" % m
            if r["rec_snap"]["ongoing"]:
                return k, "rebuilt-ongoing", "the restart keeps trials handed out to tuners that no longer exist: %r" % (r["rec_snap"]["ongoing"],)
        m = inv_weak(fin)
        if m:
            return k, "resumed-inconsistent", "after the resumed search: %s" % m
        if r["out2"] == "Aborted" and not has_streak(fin, cfg["max_consec"]):
            return k, "abort-unjustified", "the resumed search raised 'consecutive failures exceeded the limit of %d' but the ended trials %r have statuses %r" % (
                cfg["max_consec"], fin["eo"], [fin["st"][i] for i in fin["eo"] if i < len(fin["st"])])
        for i, (st, sc_) in r["finals"].items():
            if i >= len(fin["st"]) and r["tuner_file"]:
                return k, "durable-end-lost", "trial %d was durably %s before the crash and is missing after the resumed search" % (i, st)
            if i < len(fin["st"]) and r["tuner_file"] and (fin["st"][i] != st or not same_score(fin["score"][i], sc_)):
                return k, "durable-end-changed", "trial %d was durably recorded as %s (score %r); after restart and resumed search it is %s (score %r)" % (i, st, sc_, fin["st"][i], fin["score"][i])
        if r["out2"] == "Done":
            for i, st in enumerate(fin["st"]):
                if st not in ("COMPLETED", "FAILED"):
                    return k, "left-unfinished", "trial %d is still %s after the resumed search answered STOPPED" % (i, st)
            if N and cfg["kind"] == "random" and len(fin["st"]) != N:
                return k, "budget-in-full", "resumed search finished with %d trials, budget %d" % (len(fin["st"]), N)
        if N and len(fin["st"]) > N:
            return k, "budget", "%d trials after the resumed search, budget %d" % (len(fin["st"]), N)
        if len(set(fin["idfmt"])) != len(fin["idfmt"]) or [int(x) for x in fin["idfmt"]] != list(range(len(fin["idfmt"]))):
            return k, "ids", "trial ids after resume: %r" % (fin["idfmt"],)
        if r["out2"] == "ScriptEnd":
            return k, "terminates", "the resumed search did not finish within %d further trial runs" % len(TAIL)
    return None


def run(ctx):
    import glob, re
    n = ctx.n(40, 400); kb = ctx.n(8, 10 ** 6)
    corpus = [json.load(open(f))["cfg"] for f in sorted(glob.glob("/verif/corpus/C08/*.json"))]
    cases = []; terms = []; scs = []
    stats = dict(scenarios=0, crash_points=0, by_kind={}, skipped=0, reload_after_crash=0, fresh_after_crash=0, writes=0, corpus_cases=len(corpus), exhaustive_per_scenario=not ctx.quick)
    distinct = 0; seen = set()
    for i in range(n):
        cfg = corpus[i] if i < len(corpus) else gen_case(ctx.rng)
        cfg["script"] = [tuple(a) for a in cfg["script"]]
        sc = run_scenario(cfg, kb, ctx.rng)
        stats["by_kind"][cfg["kind"]] = stats["by_kind"].get(cfg["kind"], 0) + 1
        if "skip" in sc:
            stats["skipped"] += 1; continue
        stats["scenarios"] += 1; stats["crash_points"] += len(sc["per_k"]); stats["writes"] += sc["W"]
        stats["reload_after_crash"] += sum(1 for r in sc["per_k"] if r["tuner_file"]); stats["fresh_after_crash"] += sum(1 for r in sc["per_k"] if not r["tuner_file"])
        cases.append(cfg); scs.append(sc)
        terms.append(emit_case(cfg, sc["ops"], sc["table"], sc["writes"], [(r["k"], r["rec_flat"]) for r in sc["per_k"] if r["rec_flat"] != [-1]]))
        key = repr((cfg["kind"], cfg["script"]))
        if key not in seen and sc["W"] >= 6:
            distinct += 1
        seen.add(key)
    verdicts, errors, wall = runcoq.run_cases(ctx.workdir, HEADER, terms, FOOTER, chunk=40)
    failures = []
    if stats["skipped"] * 2 > n:
        failures.append(Failure("harness", "C08/skipped", "%d of %d generated searches could not be used (the uncrashed search raised or populate_space failed)" % (stats["skipped"], n),
                                {"correspondence": "C08", "skipped": stats["skipped"]}))
    for path, rc, err in errors:
        failures.append(Failure("harness", "C08/coqc", "coqc failed on %s: %s" % (path, err[-300:]), {"correspondence": "C08", "file": path}))
    ndiff = 0; shown = 0
    for i, v in enumerate(verdicts):
        cfg, sc = cases[i], scs[i]
        bad = spec(cfg, sc)
        if bad:
            k, clause, msg = bad
            failures.append(Failure("violation", "C08/" + clause, "%s oracle, crash after write %d of %d: %s" % (cfg["kind"], k, sc["W"], msg),
                                    {"cfg": cfg, "crash_after_write": k, "writes": [w[0] for w in sc["writes"]][: k + 1]}))
        if v != "None":
            ndiff += 1
            if not bad and shown < 3:
                shown += 1
                m = re.search(r"\d+", v); code = int(m.group(0)) if m and v != "ERROR" else -1
                hdr = HEADER.replace("Definition cases : list ccase := [\n", "")
                if 0 <= code < 1000:
                    what = "write %d of the search differs (%s)" % (code, sc["writes"][code][0] if code < len(sc["writes"]) else "extra write in the model")
                    detail = runcoq.eval_term(ctx.workdir, hdr, "cwrite_at (%s) %s" % (terms[i], emit.nat(code)), name="probe08_%d" % i)
                    impl = wdigest(sc["writes"][code]) if code < len(sc["writes"]) else None
                elif code >= 1000:
                    k = code - 1000
                    what = "the state rebuilt after a crash following write %d differs" % k
                    detail = runcoq.eval_term(ctx.workdir, hdr, "crec_at (%s) %s" % (terms[i], emit.nat(k)), name="probe08_%d" % i)
                    impl = next((r["rec_flat"] for r in sc["per_k"] if r["k"] == k), None)
                else:
                    what, detail, impl = "coqc error", "", None
                failures.append(Failure("diff", "C08/model-vs-impl", "%s oracle: %s" % (cfg["kind"], what),
                                        {"correspondence": "CrashCorr.v (Crash.v) vs save_json write sequence / restart", "cfg": cfg, "impl_flat": impl, "model_flat": detail[-1500:],
                                         "writes": [w[0] for w in sc["writes"]]}))
    stats["diffs"] = ndiff; stats["coqc_wall_s"] = round(wall, 1)
    samples = [dict(cfg=cases[0], writes=[w[0] for w in scs[0]["writes"]], crash_points=[r["k"] for r in scs[0]["per_k"]])] if cases else [dict(note="none")]
    return dict(evaluations=stats["crash_points"], distinct_nontrivial=distinct, traces_validated=len(cases) - ndiff,
                rule="scripted single-worker searches (1-7 attempts: result / NaN / exception / FailedTrialError; budget 1-4; retries 0-2) on the four real oracles; "
                     "for each scenario the process is stopped after exactly k state writes (quick: up to 8 sampled k per scenario incl. 0 and all; thorough: every k), restarted "
                     "on the same directory and run to the end; write order+content and the rebuilt state are compared with Crash.v; non-trivial = distinct scenario with >= 6 writes",
                samples=samples, failures=failures, stats=stats, extra=dict(exhaustive=False))


def replay(ctx, doc):
    cfg = doc["replay"]["cfg"]; cfg["script"] = [tuple(a) for a in cfg["script"]]
    sc = run_scenario(cfg, 10 ** 6, random.Random(0))
    bad = spec(cfg, sc) if "skip" not in sc else None
    fs = [Failure("violation", "C08/" + bad[1], "crash after write %d: %s" % (bad[0], bad[2]), {"cfg": cfg})] if bad else []
    return dict(evaluations=1, distinct_nontrivial=1, failures=fs, samples=[cfg], rule="replay (all crash points)")
