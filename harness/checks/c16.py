"""C16 - the chief/worker RPC layer is transparent.

(A) protocol-buffer round trips of search spaces+values, trials and metrics (every message goes through
SerializeToString / FromString): nothing lost, added or retyped, scores and metric values up to single precision, every
parent listed ahead of its conditional children; the order part is compared with ProtoHp.v inside Coq.
(B) one request sequence is applied to an oracle directly and to an identical oracle through OracleClient -> (serialised
request) -> OracleServicer -> (serialised response): same trial lifecycle, same values when the chief knows the space, with
hyperparameters discovered on the worker and sent back at end_trial.
(C) exit_chief is true exactly when no trial is ongoing and every tuner that asked has been told to stop."""
import os, math, json, struct, random, tempfile, shutil, contextlib, warnings
from ktverif import emit, runcoq, lifecycle as lc
from ktverif.framework import Failure
from checks import c15, c05

TRUSTED = ["protobuf wire encoding (exercised: every request and response is serialised and parsed; sockets / gRPC transport are not)",
           "single precision = struct.pack('f') rounding"]
ASSUMPTIONS = ["the chief and the worker run the same code version"]


def f32(x):
    if x is None: return None
    if x != x or x in (math.inf, -math.inf): return x
    return struct.unpack("f", struct.pack("f", x))[0]


def roundtrip_hps(hps):
    from keras_tuner import protos
    from keras_tuner.engine import hyperparameters as hpm
    p = hps.to_proto()
    q = protos.get_proto().HyperParameters.FromString(p.SerializeToString())
    return hpm.HyperParameters.from_proto(q)


def check_hps(hps):
    back = roundtrip_hps(hps)
    a, b = c15.hps_obs(hps), c15.hps_obs(back)
    key = lambda e: (e["name"], json.dumps(e["conditions"], default=str))
    sa, sb = sorted(a["space"], key=key), sorted(b["space"], key=key)
    for x, y in zip(sa, sb):
        x2 = dict(x); y2 = dict(y)
        # the Int/Float protos carry the effective default, not whether it was given: same observable
        if json.dumps(x2, default=str, sort_keys=True) != json.dumps(y2, default=str, sort_keys=True):
            return "entry-changed", "entry %s: %r became %r" % (x["name"], {k: v for k, v in x2.items() if y2.get(k) != v}, {k: v for k, v in y2.items() if x2.get(k) != v})
    if len(sa) != len(sb):
        return "entries-lost-or-added", "%d entries became %d" % (len(sa), len(sb))
    if a["values"] != b["values"]:
        extra = [v for v in b["values"] if v not in a["values"]]; missing = [v for v in a["values"] if v not in b["values"]]
        return "values", "values changed: added %r, lost or retyped %r" % (extra, missing)
    seen = set()
    for h in back.space:
        for c in h.conditions:
            if c.name not in seen:
                return "parents-first", "after decoding, %s (%s) is listed ahead of its parent %s; decoded order %r" % (h.name, type(h).__name__, c.name, [x.name for x in back.space])
        seen.add(h.name)
    return None


def check_trial(rng):
    from keras_tuner import protos
    from keras_tuner.engine import trial as tm
    hps = c15.gen_hps(rng)
    t = tm.Trial(hps, trial_id=str(rng.randint(0, 99)).zfill(rng.choice([1, 2, 4])), status=rng.choice(["RUNNING", "COMPLETED", "INVALID", "FAILED", "IDLE", "STOPPED"]))
    tr, names, reps = c15.gen_tracker(rng)
    t.metrics = tr
    t.score = rng.choice([None, 0.0, 1.5, 0.1, -3.25, 1e-8, 123456.789]); t.best_step = rng.choice([0, 3, 7])
    q = protos.get_proto().Trial.FromString(t.to_proto().SerializeToString())
    b = tm.Trial.from_proto(q)
    if (t.trial_id, t.status) != (b.trial_id, b.status):
        return "trial", "id/status %r became %r" % ((t.trial_id, t.status), (b.trial_id, b.status))
    if t.score is None:
        if b.score is not None: return "trial-score", "score None became %r" % b.score
    elif b.score is None or f32(t.score) != b.score or (b.best_step != t.best_step):
        return "trial-score", "score %r (step %r) became %r (step %r); single precision of the original is %r" % (t.score, t.best_step, b.score, b.best_step, f32(t.score))
    if c15.hps_obs(t.hyperparameters)["values"] != c15.hps_obs(b.hyperparameters)["values"]:
        return "trial-values", "values %r became %r" % (c15.hps_obs(t.hyperparameters)["values"], c15.hps_obs(b.hyperparameters)["values"])
    for n in names:
        ha = [(o.step, [f32(float(x)) for x in o.value]) for o in t.metrics.get_history(n)]
        hb = [(o.step, [float(x) for x in o.value]) for o in b.metrics.get_history(n)]
        if len(ha) != len(hb) or any(x[0] != y[0] or len(x[1]) != len(y[1]) or not all(c15.same_float(p, q2) for p, q2 in zip(x[1], y[1])) for x, y in zip(ha, hb)):
            return "trial-metrics", "history of %s: %r became %r" % (n, ha, hb)
        if t.metrics.get_direction(n) != b.metrics.get_direction(n):
            return "trial-metrics", "direction of %s changed" % n
    return None


# ---------------------------------------------------------------------------------------------- (B) remote vs direct
class InProcessStub:
    """calls the servicer after a serialise/parse round trip of the request, and does the same to the response"""
    def __init__(self, servicer):
        self.s = servicer
        for n in ("GetSpace", "UpdateSpace", "CreateTrial", "UpdateTrial", "EndTrial", "GetTrial", "GetBestTrials"):
            setattr(self, n, self._mk(n))

    def _mk(self, name):
        def call(request, **kw):
            req = type(request).FromString(request.SerializeToString())
            resp = getattr(self.s, name)(req, None)
            return type(resp).FromString(resp.SerializeToString())
        return call


def make_pair(cfg):
    from keras_tuner.distribute import oracle_chief, oracle_client
    os.environ.setdefault("KERASTUNER_ORACLE_IP", "127.0.0.1"); os.environ.setdefault("KERASTUNER_ORACLE_PORT", "1"); os.environ["KERASTUNER_TUNER_ID"] = "tuner0"
    d1 = tempfile.mkdtemp(prefix="ktv16a_"); d2 = tempfile.mkdtemp(prefix="ktv16b_")
    direct = mk(cfg, d1); remote_oracle = mk(cfg, d2)
    servicer = oracle_chief.OracleServicer(remote_oracle)
    client = oracle_client.OracleClient(mk(cfg, tempfile.mkdtemp(prefix="ktv16c_")))
    client.stub = InProcessStub(servicer)
    return direct, remote_oracle, client, servicer, [d1, d2]


def mk(cfg, d):
    import keras_tuner as kt
    from keras_tuner.engine import hyperparameters as hpm
    from keras_tuner.tuners import randomsearch, gridsearch, hyperband, bayesian
    hps = hpm.HyperParameters()
    c05.gen_space(random.Random(cfg["space_seed"]), hps)
    common = dict(objective=kt.Objective("score", cfg["direction"]), seed=cfg["seed"], hyperparameters=hps, max_retries_per_trial=cfg["max_retries"], max_consecutive_failed_trials=99)
    k = cfg["kind"]
    if k == "random": o = randomsearch.RandomSearchOracle(max_trials=cfg["max_trials"] or 8, **common)
    elif k == "grid": o = gridsearch.GridSearchOracle(max_trials=cfg["max_trials"] or 12, **common)
    elif k == "hyperband": o = hyperband.HyperbandOracle(max_epochs=4, factor=2, **common)
    else: o = bayesian.BayesianOptimizationOracle(max_trials=cfg["max_trials"] or 5, num_initial_points=2, **common)
    o._set_project_dir(d, "p"); o._display.verbose = 0
    return o


def canon_values(v):
    out = []
    for k in sorted(v):
        x = v[k]
        import numpy as np
        if isinstance(x, (bool, np.bool_)): out.append((k, "bool", bool(x)))
        elif isinstance(x, (int, np.integer)): out.append((k, "int", int(x)))
        elif isinstance(x, (float, np.floating)): out.append((k, "float", float(x)))
        else: out.append((k, "str", str(x)))
    return out


def run_pair(cfg):
    warnings.filterwarnings("ignore")
    from keras_tuner.distribute import oracle_chief
    direct, remote, client, servicer, dirs = make_pair(cfg)
    try:
        rng = random.Random(cfg["hseed"]); held_d = {}; held_r = {}; log = []; grown = False
        late_seed = cfg["space_seed"] + 1
        for step in range(cfg["nsteps"]):
            w = "w%d" % rng.randrange(cfg["W"])
            if w in held_d and rng.random() < 0.75:
                td = held_d.pop(w); tr = held_r.pop(w)
                if cfg["grow"] and rng.random() < 0.5:
                    grown = True        # from here on the chief learns entries it did not know: only the lifecycle must coincide
                    for t in (td, tr):
                        with t.hyperparameters.name_scope("late"):
                            c05.gen_space(random.Random(late_seed), t.hyperparameters)
                x = rng.random(); v = float(rng.randint(-50, 50)) / 4
                for (o, t, tag) in ((direct, td, "direct"), (client, tr, "remote")):
                    try:
                        if x < 0.75:
                            o.update_trial(t.trial_id, {"score": v}); t.status = "COMPLETED"
                        else:
                            t.status = "INVALID" if x < 0.9 else "FAILED"
                        o.end_trial(t)
                    except Exception as e:
                        lc._release(direct); lc._release(remote)
                        if not (isinstance(e, RuntimeError) and "consecutive" in str(e)):
                            return ("exception", "%s end_trial raised %s: %s" % (tag, type(e).__name__, str(e)[:160])), log
                a = direct.trials[td.trial_id]; b = remote.trials[tr.trial_id]
                if (a.status, f32(a.score) if a.score is not None else None) != (b.status, f32(b.score) if b.score is not None else None) and not (a.score != a.score and b.score != b.score):
                    return ("lifecycle", "after end_trial trial %s is %s (score %r) directly and %s (score %r) on the chief" % (td.trial_id, a.status, a.score, b.status, b.score)), log
                log.append(("end", td.trial_id, a.status))
            elif w not in held_d:
                try:
                    td = direct.create_trial(w)
                except Exception as e:
                    lc._release(direct); return None, log      # the direct oracle itself raised: not this property's business
                try:
                    tr = client.create_trial(w)
                except Exception as e:
                    lc._release(remote); return ("exception", "remote create_trial raised %s: %s" % (type(e).__name__, str(e)[:160])), log
                if (td.trial_id, td.status) != (tr.trial_id, tr.status):
                    return ("lifecycle", "request %d: create_trial answered (%s, %s) directly and (%s, %s) through the RPC layer" % (step, td.trial_id, td.status, tr.trial_id, tr.status)), log
                if td.status == "RUNNING":
                    va, vb = canon_values(td.hyperparameters.values), canon_values(tr.hyperparameters.values)
                    if va != vb and not grown:
                        return ("values", "trial %s carries %r directly and %r through the RPC layer" % (td.trial_id, va, vb)), log
                    r = c05.check_trial(remote.trials[tr.trial_id])
                    if r:
                        return ("chief-trial-" + r[0], "trial %s on the chief: %s" % (tr.trial_id, r[1])), log
                    held_d[w] = td; held_r[w] = tr
                log.append(("create", w, td.trial_id, td.status))
            # what a worker is told the search space is = the space the chief's oracle holds now (also after an end_trial that
            # brought new entries)
            if step % 3 == 0:
                try:
                    got_sp = [(h.name, type(h).__name__, [(c.name, list(c.values)) for c in h.conditions]) for h in client.get_space().space]
                except Exception as e:
                    lc._release(remote); return ("exception", "remote get_space raised %s: %s" % (type(e).__name__, str(e)[:160])), log
                have_sp = [(h.name, type(h).__name__, [(c.name, list(c.values)) for c in h.conditions]) for h in remote.hyperparameters.space]
                if sorted(map(repr, got_sp)) != sorted(map(repr, have_sp)):
                    return ("get-space", "request %d: get_space through the RPC layer lists %r, the chief's oracle holds %r" % (step, [x[0] for x in got_sp], [x[0] for x in have_sp])), log
            # (C) exit_chief
            want = len(remote.ongoing_trials) == 0 and len(remote.tuner_ids) == 0
            if oracle_chief.exit_chief(remote) != want:
                return ("exit-chief", "exit_chief is %r with ongoing %r and tuner ids %r" % (not want, list(remote.ongoing_trials), sorted(remote.tuner_ids))), log
        # the chief regards the search as finished only when every worker has been told to stop and nothing runs
        if servicer.stop_triggered and oracle_chief.exit_chief(remote) and (remote.ongoing_trials or remote.tuner_ids):
            return ("exit-chief", "chief would exit with work in flight"), log
        # space known to the chief: parents first
        seen = set()
        for h in remote.hyperparameters.space:
            for c in h.conditions:
                if c.name not in seen:
                    return ("chief-space-order", "in the chief's search space %s precedes its parent %s" % (h.name, c.name)), log
            seen.add(h.name)
        return None, log
    finally:
        for d in dirs:
            shutil.rmtree(d, ignore_errors=True)


def gen_pair(rng):
    cfg = lc.gen_config(rng)
    cfg["grow"] = rng.random() < 0.5; cfg["nsteps"] = rng.randint(10, 40)
    if cfg["kind"] == "bayes":
        cfg["max_trials"] = rng.choice([3, 4]); cfg["nsteps"] = 14
    if cfg["kind"] == "grid":
        cfg["max_trials"] = rng.choice([6, 10])
    return cfg


# ---------------------------------------------------------------------------------------------- Coq: order of the decoded space
KIND_TAG = {"Fixed": 1, "Float": 2, "Int": 3, "Choice": 4, "Boolean": 5}


def emit_order_case(hps, back, I):
    from checks.c13 import cname, ccond, cv
    def sp(h):
        return emit.cl("{| h_name := %s; h_conds := %s; h_default := %s; h_tag := %d |}" % (cname(x.name, I), emit.cl(ccond(c, I) for c in x.conditions), cv(x.default, I), KIND_TAG[type(x).__name__]) for x in h.space)
    return "(%s, %s)" % (sp(hps), emit.cl(cname(x.name, I) for x in back.space))


HEADER = """From stdpp Require Import gmap list.
From Coq Require Import ZArith.
From KT Require Import Space Discover ProtoHp.
Open Scope positive_scope.
Definition check (c : list hp * list name) : bool :=
  let '(sp, names) := c in bool_decide (map h_name (decoded_space sp) = names).
Definition cases : list (list hp * list name) := [
"""
FOOTER = "\n].\nEval vm_compute in (map check cases).\n"


def run(ctx):
    import glob
    rng = ctx.rng
    n = ctx.n(500, 6000); npairs = ctx.n(120, 1500)
    failures = []; stats = dict(spaces=0, trials=0, pairs=0, by_kind={}, grown=0, requests=0); distinct = 0; seen = set(); terms = []; samples = []
    for i in range(n):
        if i % 2 == 0:
            hps = c15.gen_hps(rng); stats["spaces"] += 1
            key = json.dumps(hps.get_config())
            if key not in seen and len(hps.space) >= 2: distinct += 1
            seen.add(key)
            bad = check_hps(hps)
            if bad: failures.append(Failure("violation", "C16/" + bad[0], bad[1], {"config": json.loads(key)}))
            if not any(type(h).__name__ == "Fixed" and isinstance(h.value, (float,)) and False for h in hps.space):
                I = emit.Intern(); terms.append(emit_order_case(hps, roundtrip_hps(hps), I))
            if len(samples) < 1: samples.append(dict(kind="space", config=json.loads(key)))
        else:
            stats["trials"] += 1
            bad = check_trial(rng)
            if bad: failures.append(Failure("violation", "C16/" + bad[0], bad[1], {"seed": "regenerated from VERIF_SEED"}))
    corpus = [json.load(open(f))["cfg"] for f in sorted(glob.glob("/verif/corpus/C16/*.json"))]
    for j in range(npairs):
        cfg = corpus[j] if j < len(corpus) else gen_pair(rng)
        bad, log = run_pair(cfg)
        stats["pairs"] += 1; stats["by_kind"][cfg["kind"]] = stats["by_kind"].get(cfg["kind"], 0) + 1; stats["grown"] += bool(cfg["grow"]); stats["requests"] += len(log)
        if bad:
            failures.append(Failure("violation", "C16/%s/%s" % (bad[0], cfg["kind"]), "%s oracle: %s" % (cfg["kind"], bad[1]), {"cfg": cfg, "requests": log[-6:]}))
        if len(samples) < 2 and log: samples.append(dict(kind="pair", cfg=cfg, requests=log[:6]))
    verdicts, errors, wall = runcoq.run_cases(ctx.workdir, HEADER, terms, FOOTER, chunk=120)
    for path, rc, err in errors:
        failures.append(Failure("harness", "C16/coqc", "coqc failed on %s: %s" % (path, err[-300:]), {"correspondence": "C16", "file": path}))
    ndiff = sum(1 for v in verdicts if v != "true")
    if ndiff:
        failures.append(Failure("diff", "C16/model-vs-impl", "ProtoHp.v and from_proto(to_proto(.)) disagree on the decoded order of %d spaces" % ndiff, {"correspondence": "ProtoHp.v vs HyperParameters.to_proto/from_proto"}))
    stats["diffs"] = ndiff; stats["coqc_wall_s"] = round(wall, 1)
    return dict(evaluations=n + npairs, distinct_nontrivial=distinct, traces_validated=len(terms) - ndiff + stats["pairs"],
                rule="(a) spaces (all kinds and options, conditions on parents of every kind, name scopes, values) and trials (statuses, scores incl. values not representable in single precision, "
                     "metrics) through to_proto -> SerializeToString -> FromString -> from_proto; (b) identical oracles of the four kinds driven directly and through OracleClient/OracleServicer with "
                     "serialised requests and responses, 1-4 tuner ids, sub-spaces declared on the worker and sent back at end_trial; non-trivial = distinct space with >= 2 entries",
                samples=samples, failures=failures, stats=stats)


def replay(ctx, doc):
    r = doc["replay"]
    fs = []
    if "cfg" in r:
        bad, log = run_pair(r["cfg"])
        if bad: fs.append(Failure("violation", "C16/%s/%s" % (bad[0], r["cfg"]["kind"]), bad[1], r))
    return dict(evaluations=1, distinct_nontrivial=1, failures=fs, samples=[r], rule="replay")
