"""C09 - grid search visits every combination exactly once, then stops.

(a) correspondence of the grid model (GR.v: populate_space with the ordered list, the pending queue, _compare,
_get_next_combination; G3.v: combos / next_comb) with the real GridSearchOracle on generated conditional spaces and
multi-worker schedules run to STOPPED, with failures, retries and save+reload;
(b) the property on the implementation: at STOPPED the started trials are exactly the valid combinations, each once, the
first one all-defaults - also when part of the space is declared only inside the trials (uniform discovery)."""
import random, tempfile, shutil, contextlib, itertools, warnings
from ktverif import emit, runcoq, lifecycle as lc
from ktverif.framework import Failure

TRUSTED = ["values are interned as their position in [default] + remaining values (what _compare and _get_next_combination use)",
           "uniform discovery: every build declares the same children for the same parent values (otherwise 'all combinations' is not defined)"]
ASSUMPTIONS = ["max_trials=None and the consecutive-failure limit is not reached (the property's setting)", "names are distinct within a space"]
cl = emit.cl
P = emit.pos


def gen_space(rng):
    n = rng.randint(1, 4); spec = []
    for i in range(n):
        kind = rng.choice(["int", "choice", "bool", "fixed", "intstep", "intlog"])
        if kind == "int": lo = rng.randint(-2, 2); args = (lo, lo + rng.randint(0, 2))
        elif kind == "intstep": lo = rng.randint(0, 3); args = (lo, lo + rng.randint(0, 6), rng.randint(1, 3))
        elif kind == "intlog": args = (rng.choice([1, 2]), rng.choice([4, 8, 9]), 2)
        elif kind == "choice":
            vs = rng.sample(["a", "b", "c", "d"], rng.randint(1, 3)); args = (vs, rng.choice(vs + [None]))
        elif kind == "bool": args = (rng.random() < 0.5,)
        else: args = (rng.choice([7, "k", 1.5, True]),)
        parent = rng.randrange(i) if i > 0 and rng.random() < 0.6 else None
        spec.append(["h%d" % i, kind, args, parent, None])
    return spec


def declare(hps, spec, objs, rng, only=None):
    """declares entries of `spec` (all, or those with index in `only`) into hps, under their chains of conditions"""
    def chain(i):
        p = spec[i][3]
        return [] if p is None else chain(p) + [(p, spec[i][4])]
    for i, (name, kind, args, parent, _) in enumerate(spec):
        if parent is not None and spec[i][4] is None:
            pv = list(objs[parent].values)
            spec[i][4] = rng.sample(pv, rng.randint(1, len(pv)))
        if only is not None and i not in only:
            if i >= len(objs): objs.append(None)
            continue
        with contextlib.ExitStack() as st:
            ok = True
            for (p, vals) in chain(i):
                try:
                    st.enter_context(hps.conditional_scope(spec[p][0], vals))
                except ValueError:
                    ok = False; break
            if not ok:
                continue
            if kind == "int": hps.Int(name, args[0], args[1])
            elif kind == "intstep": hps.Int(name, args[0], args[1], step=args[2])
            elif kind == "intlog": hps.Int(name, args[0], args[1], step=args[2], sampling="log")
            elif kind == "choice": hps.Choice(name, args[0], default=args[1])
            elif kind == "bool": hps.Boolean(name, default=args[0])
            else: hps.Fixed(name, args[0])
        ent = [h for h in hps.space if h.name == name]
        if i < len(objs): objs[i] = ent[-1] if ent else None
        else: objs.append(ent[-1] if ent else None)


def declare_lazy(hps, spec):
    """the define-by-run pattern `if hp.get(parent) in values: declare the child`: an entry is declared only by a trial in
    which its whole chain of conditions holds (parent values were fixed when the full tree was generated)"""
    def chain(i):
        p = spec[i][3]
        return [] if p is None else chain(p) + [(p, spec[i][4])]
    for i, (name, kind, args, parent, _) in enumerate(spec):
        ch = chain(i)
        if not all(spec[p][0] in hps.values and any(hps.values[spec[p][0]] == x for x in vals) for p, vals in ch):
            continue
        with contextlib.ExitStack() as st:
            for (p, vals) in ch:
                st.enter_context(hps.conditional_scope(spec[p][0], vals))
            if kind == "int": hps.Int(name, args[0], args[1])
            elif kind == "intstep": hps.Int(name, args[0], args[1], step=args[2])
            elif kind == "intlog": hps.Int(name, args[0], args[1], step=args[2], sampling="log")
            elif kind == "choice": hps.Choice(name, args[0], default=args[1])
            elif kind == "bool": hps.Boolean(name, default=args[0])
            else: hps.Fixed(name, args[0])


def hall(hp):
    vl = list(hp.values)
    if hp.default in vl: vl.remove(hp.default)
    return [hp.default] + vl


def intern_space(hps):
    sp = []
    names = {h.name: i + 1 for i, h in enumerate(hps.space)}
    halls = {h.name: hall(h) for h in hps.space}
    for h in hps.space:
        conds = []
        for c in h.conditions:
            ph = halls[c.name]; idx = []
            for v in c.values:
                found = [k + 1 for k, x in enumerate(ph) if x == v]
                idx.append(found[0] if found else 1000)
            conds.append((names[c.name], idx))
        sp.append((names[h.name], conds, len(halls[h.name])))
    return sp, names, halls


def iv(vals, names, halls):
    out = []
    for k, v in vals.items():
        idx = [j + 1 for j, x in enumerate(halls[k]) if x == v and type(x) is type(v)] or [j + 1 for j, x in enumerate(halls[k]) if x == v]
        out.append((names[k], idx[0] if idx else 999))
    return sorted(out)


def all_combos(hps):
    """valid assignments of a (well-ordered) space: exactly the active names, values from [default]+values"""
    out = [dict()]
    for h in hps.space:
        nxt = []
        for a in out:
            if all(c.is_active(a) for c in h.conditions):
                for v in hall(h):
                    b = dict(a); b[h.name] = v; nxt.append(b)
            else:
                nxt.append(a)
        out = nxt
    return out


def canon(vals):
    return tuple(sorted((k, repr(v)) for k, v in vals.items()))


def gen_space_retry(rng):
    """a Choice whose values are not in ascending order declared up front, one or two small entries discovered inside the trials:
    a retried trial that ends after the discovery is asked for its successor a second time, when its old successor is already
    in the list - the only situation in which _compare sees two different non-default values of one hyperparameter"""
    vs = rng.sample(["relu", "tanh", "elu", "gelu"], rng.randint(3, 4))
    spec = [["h0", "choice", (vs, rng.choice(vs + [None])), None, None]]
    for i in range(1, rng.randint(2, 3)):
        kind = rng.choice(["int", "bool", "choice"])
        args = (0, rng.randint(1, 2)) if kind == "int" else (rng.random() < 0.5,) if kind == "bool" else (rng.sample(["p", "q", "r"], 2), None)
        spec.append(["h%d" % i, kind, args, None if rng.random() < 0.6 else 0, None])
    if rng.random() < 0.5:
        # a child below an entry that is itself discovered only inside the trials
        spec.append(["h%d" % len(spec), "int", (1, rng.randint(2, 3)), 1, None])
    return spec


def gen_samename(rng, hps):
    """one name declared in two or three mutually exclusive branches, with the same or with a different domain in each, and
    further entries below it (implementation-level family: the model and its theorems assume distinct names)"""
    ks = rng.sample(["p", "q", "r"], rng.randint(2, 3))
    hps.Choice("m", ks, default=rng.choice(ks + [None]))
    mode = rng.choice(["int", "choice", "same", "bool"])
    for i, k in enumerate(ks):
        with hps.conditional_scope("m", [k]):
            if mode == "int": lo = [1, 100, 1000][i]; hps.Int("u", lo, lo + rng.randint(1, 3))
            elif mode == "choice": hps.Choice("u", [10 * i + j for j in range(rng.randint(2, 3))])
            elif mode == "same": hps.Choice("u", [0, 1, 2])
            else: hps.Boolean("u")
            if rng.random() < 0.4:
                hps.Int("y%d" % i, 0, rng.randint(1, 2))
            if rng.random() < 0.5:
                dom = list([h for h in hps.space if h.name == "u"][-1].values)
                with hps.conditional_scope("u", rng.sample(dom, rng.randint(1, max(1, len(dom) - 1)))):
                    hps.Boolean("z%d" % i)
    if rng.random() < 0.3:
        hps.Boolean("t")


def run_case(seed, dynamic=False, family=None):
    warnings.filterwarnings("ignore")
    import keras_tuner as kt
    from keras_tuner.engine import hyperparameters as hpm
    from keras_tuner.tuners import gridsearch
    rng = random.Random(seed)
    for _attempt in range(50):
        if family == "samename":
            spec = []; full = hpm.HyperParameters(); gen_samename(rng, full); break
        spec = gen_space(rng) if family != "retry" else gen_space_retry(rng)
        full = hpm.HyperParameters(); objs = []
        declare(full, spec, objs, rng)
        # keep the grid small enough for the model to enumerate it inside Coq in seconds (a 4-entry space can have > 1000 combinations)
        if len(all_combos(full)) <= 150:
            break
    upfront = None
    if dynamic:
        k = rng.randint(0, max(0, len(spec) - 1)) if family != "retry" else 1
        upfront = set(range(k))
    hps = hpm.HyperParameters()
    if family == "samename":
        hps = full.copy()
    elif upfront is None:
        declare(hps, spec, [], rng)
    else:
        declare(hps, spec, [None] * len(spec), rng, only=upfront)
    cfg = dict(max_retries=rng.choice([0, 0, 1]) if family != "retry" else rng.choice([0, 1, 2, 3]), max_consec=50)
    cfg["die_final"] = family == "retry" and rng.random() < 0.5     # also the last (FAILED) run of a trial may die before declaring anything - once the whole tree is known to the oracle
    W = rng.randint(1, 3) if family != "retry" else rng.randint(2, 4)
    p_invalid = 0.15 if family != "retry" else 0.35
    p_ok = 0.7 if family != "lazy" else 0.45     # lazy: the trial that discovers an entry often fails
    as_copy = rng.random() < 0.35      # end_trial is given a reconstructed copy of the trial, as the chief/worker layer does
    d = tempfile.mkdtemp(prefix="ktv09_")

    def mk():
        o = gridsearch.GridSearchOracle(objective=kt.Objective("score", "min"), hyperparameters=hps.copy(), max_retries_per_trial=cfg["max_retries"], max_consecutive_failed_trials=50)
        o._set_project_dir(d, "p"); o._display.verbose = 0; return o
    try:
        o = mk()
        sp, names, halls = intern_space(full)
        held = {}; ops = []; obs = []; stopped = set(); exc = None

        def snap():
            ids = sorted(o.trials, key=int)
            return dict(st=[o.trials[i].status for i in ids], ongoing=[(int(t[1:]), int(tr.trial_id)) for t, tr in o.ongoing_trials.items()],
                        eo=[int(x) for x in o.end_order], rq=[int(x) for x in o._retry_queue])
        cap = max(600, 60 + 14 * (cfg["max_retries"] + 1) * len(all_combos(full)))
        for _ in range(cap):
            if len(stopped) == W: break
            if rng.random() < (0.03 if not dynamic else 0.05) and not held:
                o.save(); o = mk(); o.reload(); ops.append(("reload",)); obs.append((("none",), snap())); continue
            w = rng.randrange(W); tn = "w%d" % w
            if tn in held and rng.random() < 0.7:
                t = held.pop(tn); r = rng.random()
                will_retry = p_ok <= r < p_ok + p_invalid and o._run_times[t.trial_id] + 1 <= cfg["max_retries"]
                if family == "lazy":
                    declare_lazy(t.hyperparameters, spec)
                elif dynamic and family != "samename" and not (family == "retry" and (will_retry or (r >= p_ok and cfg.get("die_final") and len(o.hyperparameters.space) == len(full.space))) and rng.random() < 0.6):
                    # the build function declares the whole tree. In the retry family a crashing run that will be retried may die
                    # before it gets there, and so may a last run once the oracle knows the whole tree (the trial then ends without
                    # values for the entries discovered since it was created: they count as defaults). A last run that dies BEFORE the
                    # discovery is excluded: the grid does not return to a trial that ended before an entry was discovered
                    # (gridsearch_test.test_new_hp pins that behaviour)
                    declare(t.hyperparameters, spec, [None] * len(spec), rng)
                if r < p_ok: o.update_trial(t.trial_id, {"score": float(rng.randint(-3, 3))}); t.status = "COMPLETED"; oc = "ECompleted"
                elif r < p_ok + p_invalid: t.status = "INVALID"; oc = "EInvalid"
                else: t.status = "FAILED"; oc = "EFailed"
                try:
                    if as_copy:
                        from keras_tuner.engine import trial as trial_module
                        tc = trial_module.Trial.from_state(t.get_state()); tc.status = t.status
                        o.end_trial(tc)
                    else:
                        o.end_trial(t)
                except Exception as e:
                    lc._release(o); exc = "end_trial raised %s: %s" % (type(e).__name__, str(e)[:120]); break
                ops.append(("end", int(t.trial_id), oc)); obs.append((("none",), snap()))
            elif tn not in held and w not in stopped:
                try:
                    t = o.create_trial(tn)
                except Exception as e:
                    lc._release(o); exc = "create_trial raised %s: %s" % (type(e).__name__, str(e)[:120]); break
                if t.status == "RUNNING": held[tn] = t
                if t.status == "STOPPED": stopped.add(w)
                ops.append(("create", w)); obs.append((("trial", int(t.trial_id), t.status, iv(t.hyperparameters.values, names, halls) if not dynamic else []), snap()))
        # the property on the implementation
        viol = None
        if exc:
            viol = ("exception", exc)
        elif len(stopped) == W:
            final_space = o.hyperparameters if family != "lazy" else full    # lazy: what the build function can declare, whatever the oracle has learnt
            want = [canon(c) for c in all_combos(final_space)]
            got = []
            for i in sorted(o.trials, key=int):
                v = dict(o.trials[i].hyperparameters.values)
                # a trial that ended before an entry was discovered ran with its default
                for h in final_space.space:
                    if h.name not in v and all(c.is_active(v) for c in h.conditions):
                        v[h.name] = h.default
                got.append(canon(v))
            first = canon(dict(o.trials[sorted(o.trials, key=int)[0]].hyperparameters.values)) if o.trials else None
            if len(set(got)) != len(got):
                dup = [g for g in got if got.count(g) > 1][0]
                viol = ("visited-twice", "combination %r was started %d times" % (dict(dup), got.count(dup)))
            elif set(got) != set(want):
                missing = [dict(x) for x in want if x not in got][:3]; extra = [dict(x) for x in got if x not in want][:3]
                viol = ("not-all-visited", "STOPPED after %d of %d combinations; never tried: %r; not a combination: %r" % (len(got), len(want), missing, extra))
            elif want and first is not None and got[0] != want[0] and not dynamic:
                viol = ("first-is-defaults", "first trial %r is not the all-defaults combination %r" % (dict(got[0]), dict(want[0])))
        elif not exc:
            viol = ("no-stop", "the grid search did not reach STOPPED within %d operations (%d trials, %d combinations)" % (cap, len(o.trials), len(all_combos(full))))
        return dict(cfg, sp=sp), ops, obs, viol, dict(seed=seed, dynamic=dynamic, family=family, W=W, space=[(h.name, type(h).__name__) for h in full.space], ntrials=len(o.trials))
    finally:
        shutil.rmtree(d, ignore_errors=True)


def emit_case(cfg, ops, obs):
    c = "{| max_trials := None; max_retries := %s; max_consec := %s; abort_early := false |}" % (emit.nat(cfg["max_retries"]), emit.nat(cfg["max_consec"]))
    sp = cl("{| hname := %s; hconds := %s; hall := %s |}" % (P(n), cl("(%s, %s)" % (P(pn), cl(P(i) for i in idx)) for pn, idx in conds), cl(P(k + 1) for k in range(m))) for n, conds, m in cfg["sp"])

    def op(o):
        if o[0] == "create": return "Create %s" % emit.nat(o[1])
        if o[0] == "reload": return "Reload"
        return "End %s %s (fun v => v)" % (emit.nat(o[1]), o[2])

    def ob(x):
        r, s = x
        rr = "ENone" if r[0] == "none" else "ETrial %s %s %s" % (emit.nat(r[1]), r[2], cl("(%s,%s)" % (P(a), P(b)) for a, b in r[3]))
        return "(%s, (%s, %s, (%s, %s)))" % (rr, cl(s["st"]), cl("(%s,%s)" % (emit.nat(a), emit.nat(b)) for a, b in s["ongoing"]), cl(emit.nat(x) for x in s["eo"]), cl(emit.nat(x) for x in s["rq"]))
    return "(%s, %s, %s, %s)" % (c, sp, cl(map(op, ops)), cl(map(ob, obs)))


HEADER = """From stdpp Require Import gmap list.
From KT Require Import Lifecycle G3 GR.
Global Instance status_eqdec : EqDecision status. Proof. solve_decision. Defined.
Definition V := gmap positive positive.
Inductive eresp := ETrial (id : nat) (st : status) (l : list (positive*positive)) | ENone.
Definition snap (s : @ostate gstate V unit) := (map (@t_status V unit) (trials s), ongoing s, (end_order s, retryq s)).
Definition sc (v : V) : scored unit := SVal tt.
Definition obs_of (c : cfg) (sp : list hp) (ops : list (@op V)) :=
  map (fun rs => (fst rs, snap (snd rs))) (run (∅ : V) sc (gpopulate sp) gend (fun g _ _ => g) (fun g => g) (fun v => v) c (init ginit) ops).
Definition resp_eqb (a : @resp V) (b : eresp) : bool := match a, b with
  | RTrial i s l, ETrial j t m => Nat.eqb i j && bool_decide (s = t) && bool_decide (l = list_to_map m)
  | RNone, ENone => true | _, _ => false end.
Definition obs_eqb (a : @resp V * (list status * list (nat*nat) * (list nat * list nat))) (b : eresp * (list status * list (nat*nat) * (list nat * list nat))) : bool :=
  let '(r1,(st1,og1,(eo1,rq1))) := a in let '(r2,(st2,og2,(eo2,rq2))) := b in
  resp_eqb r1 r2 && bool_decide (st1 = st2) && bool_decide (og1 = og2) && bool_decide (eo1 = eo2) && bool_decide (rq1 = rq2).
Fixpoint first_diff (n : nat) a b : option nat :=
  match a, b with [], [] => None | x :: a, y :: b => if obs_eqb x y then first_diff (S n) a b else Some n | _, _ => Some n end.
Definition cases : list (cfg * list hp * list (@op V) * list (eresp * (list status * list (nat*nat) * (list nat * list nat)))) := [
"""
FOOTER = "\n].\nEval vm_compute in (map (fun c => let '(cf, sp, ops, ob) := c in first_diff 0 (obs_of cf sp ops) ob) cases).\n"


def latecrash_case(rng):
    """several workers hold trials created before anything was discovered; the first to finish declares the whole tree, one or
    more of the others then crash for good WITHOUT having declared anything (their values lack the new entries, which count as
    defaults); the search goes on to STOPPED: every combination of the tree exactly once"""
    import keras_tuner as kt
    from keras_tuner.engine import hyperparameters as hpm
    from keras_tuner.tuners import gridsearch
    warnings.filterwarnings("ignore")
    a_vals = rng.sample(["x", "y", "z"], rng.randint(2, 3)); p_bool = rng.random() < 0.5; cmax = rng.randint(2, 3); with_d = rng.random() < 0.3
    pd = False if p_bool else "u"

    def tree(hp):
        p = hp.Boolean("p") if p_bool else hp.Choice("p", ["u", "v"])
        with hp.conditional_scope("p", [pd]):
            hp.Int("c", 1, cmax)
        if with_d: hp.Boolean("d")
    hps = hpm.HyperParameters(); hps.Choice("a", a_vals)
    full = hps.copy(); tree(full)
    d = tempfile.mkdtemp(prefix="ktv09l_")
    try:
        o = gridsearch.GridSearchOracle(objective=kt.Objective("score", "min"), hyperparameters=hps, max_retries_per_trial=0, max_consecutive_failed_trials=50)
        o._set_project_dir(d, "p"); o._display.verbose = 0
        W = rng.randint(2, min(3, len(a_vals)))
        first = [o.create_trial("w%d" % w) for w in range(W)]
        if any(t.status != "RUNNING" for t in first):
            return None

        def finish(t, crash):
            if crash:
                t.status = "FAILED"
            else:
                tree(t.hyperparameters); o.update_trial(t.trial_id, {"score": 1.0}); t.status = "COMPLETED"
            o.end_trial(t)
        finish(first[0], False)
        for t in first[1:]:
            finish(t, rng.random() < 0.7)
        held = {}; stopped = set()
        for _ in range(400):
            if len(stopped) == W: break
            w = rng.randrange(W); tn = "w%d" % w
            if tn in held:
                finish(held.pop(tn), rng.random() < 0.15)
            elif w not in stopped:
                t = o.create_trial(tn)
                if t.status == "RUNNING": held[tn] = t
                elif t.status == "STOPPED": stopped.add(w)
        if len(stopped) < W:
            return "the grid search did not reach STOPPED within 400 operations"
        want = [canon(c) for c in all_combos(full)]; got = []
        for i in sorted(o.trials, key=int):
            v = dict(o.trials[i].hyperparameters.values)
            for h in full.space:
                if h.name not in v and all(c.is_active(v) for c in h.conditions):
                    v[h.name] = h.default
            got.append(canon(v))
        if len(set(got)) != len(got):
            dup = [g for g in got if got.count(g) > 1][0]
            return "combination %r was started %d times" % (dict(dup), got.count(dup))
        if set(got) != set(want):
            return "STOPPED after %d of %d combinations; never tried: %r (a in %r, %d workers, crashed without declaring: trials created before the discovery)" % (
                len(got), len(want), [dict(x) for x in want if x not in got][:3], a_vals, W)
        return None
    finally:
        shutil.rmtree(d, ignore_errors=True)


def run(ctx):
    n = ctx.n(150, 2500); ndyn = ctx.n(120, 1600)
    terms = []; infos = []; failures = []
    stats = dict(static=0, dynamic=0, ops=0, trials=0, reloads=0, workers={}, max_combos=0)
    distinct = 0; seen = set()
    import glob, json
    corpus = [json.load(open(f))["case"] for f in sorted(glob.glob("/verif/corpus/C09/*.json"))]
    stats["corpus_cases"] = len(corpus)
    for i in range(-len(corpus), n + ndyn):
        if i < 0:
            c = corpus[i + len(corpus)]; seed, dyn, fam = c["seed"], c["dynamic"], c.get("family")
        else:
            seed = ctx.rng.randint(0, 2 ** 40); dyn = i >= n
            fam = "retry" if dyn and (i - n) % 2 == 1 else "samename" if dyn and (i - n) % 6 == 0 else "lazy" if dyn and (i - n) % 6 == 2 else None
        cfg, ops, obs, viol, info = run_case(seed, dynamic=dyn, family=fam)
        stats["dynamic" if dyn else "static"] += 1; stats["ops"] += len(ops); stats["trials"] += info["ntrials"]
        stats["reloads"] += sum(1 for o in ops if o[0] == "reload"); stats["workers"][info["W"]] = stats["workers"].get(info["W"], 0) + 1
        stats["max_combos"] = max(stats["max_combos"], info["ntrials"])
        if viol:
            failures.append(Failure("violation", "C09/%s%s" % (viol[0], "-dynamic" if dyn else ""), viol[1], {"case": info}))
        if not dyn:
            terms.append(emit_case(cfg, ops, obs)); infos.append(info)
        key = repr(info["space"]) + repr(ops)
        if key not in seen and info["ntrials"] >= 3:
            distinct += 1
        seen.add(key)
    for j in range(ctx.n(60, 600)):
        msg = latecrash_case(ctx.rng)
        stats["latecrash_cases"] = stats.get("latecrash_cases", 0) + 1
        if msg:
            failures.append(Failure("violation", "C09/not-all-visited-latecrash", msg, {"note": "regenerated from the run seed"}))
            break
    verdicts, errors, wall = runcoq.run_cases(ctx.workdir, HEADER, terms, FOOTER, chunk=15)
    for path, rc, err in errors:
        failures.append(Failure("harness", "C09/coqc", "coqc failed on %s: %s" % (path, err[-300:]), {"correspondence": "C09", "file": path}))
    ndiff = 0
    for j, v in enumerate(verdicts):
        if v != "None":
            ndiff += 1
            if ndiff <= 3:
                failures.append(Failure("diff", "C09/model-vs-impl", "GR.v and GridSearchOracle disagree at step %s" % v,
                                        {"correspondence": "GR.v / G3.v vs GridSearchOracle", "case": infos[j]}))
    stats["diffs"] = ndiff; stats["coqc_wall_s"] = round(wall, 1)
    return dict(evaluations=n + ndyn, distinct_nontrivial=distinct, traces_validated=len(terms) - ndiff,
                rule="spaces of 1-4 entries (Int, stepped Int, stepped log Int, Choice with default in or out of first place, Boolean, Fixed) with conditions on earlier "
                     "entries nested to depth 3; 1-3 workers with random finishing orders, COMPLETED / INVALID (retried) / FAILED outcomes, save+reload at quiet points; run until "
                     "every worker is told STOPPED; the static cases are compared step by step with the model, the dynamic ones (part of the tree declared only inside the "
                     "trials; a sixth declare children lazily (only in trials whose values satisfy the parent condition; the combinations expected are those of the full tree), a sixth declare one name in several exclusive branches, with equal or different domains; half of them with a non-ascending Choice up front, 2-4 workers, retries and runs that crash before declaring anything) are checked on the implementation; non-trivial = distinct (space, schedule) with >= 3 trials",
                samples=infos[:2], failures=failures, stats=stats)


def replay(ctx, doc):
    info = doc["replay"]["case"]
    cfg, ops, obs, viol, info2 = run_case(info["seed"], dynamic=info["dynamic"], family=info.get("family"))
    fs = [Failure("violation", "C09/%s%s" % (viol[0], "-dynamic" if info["dynamic"] else ""), viol[1], {"case": info2})] if viol else []
    return dict(evaluations=1, distinct_nontrivial=1, failures=fs, samples=[info2], rule="replay from the case seed")
