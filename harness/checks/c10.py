"""C10 - Hyperband follows the successive-halving schedule and promotes only winners.

(a) correspondence of HB.v (populate_space: bracket sweep, round sizes, candidate selection, promotion, labels) with the
real HyperbandOracle on multi-worker histories (ties, failures, retries); the size table is read from the real oracle
(_get_size) and handed to the model;
(b) the property on the implementation: schedule formulas (H1), round capacities (H2), promotion soundness (H3) in the
state where a trial is promoted and at the end of the history."""
import math, random, tempfile, shutil, warnings
from ktverif import emit, runcoq, lifecycle as lc
from ktverif.framework import Failure

TRUSTED = ["the round sizes are a table read from HyperbandOracle._get_size (the float formula itself is not part of the property); only sizes[b][0] >= 1 is needed by the proofs",
           "the search space is one huge Int so that random sampling never collides (exhaustion is C06/C11's subject)"]
ASSUMPTIONS = ["scores are small integers (ties are frequent)", "one objective report per run"]
cl = emit.cl


def gen_case(rng):
    if rng.random() < 0.3:
        # stragglers: many workers, one or two of them slow, brackets with >= 3 rounds, few score ties: a round is partly filled
        # while its members have already finished, and better trials join it later
        cfg = dict(max_epochs=rng.choice([8, 9, 16, 27]), factor=rng.choice([2, 3]), iters=1, max_retries=rng.choice([0, 0, 1]), max_consec=50, mx=rng.random() < 0.5,
                   slow=rng.sample(range(8), rng.randint(1, 2)), wide=True)
        return cfg, rng.randint(5, 8), rng.randint(150, 320), rng.randint(0, 2 ** 31)
    cfg = dict(max_epochs=rng.choice([1, 2, 3, 4, 5, 8, 9, 10, 27]), factor=rng.choice([2, 3, 4]), iters=rng.choice([1, 1, 2]),
               max_retries=rng.choice([0, 0, 1]), max_consec=rng.choice([2, 3, 50]), mx=rng.random() < 0.5)
    return cfg, rng.randint(1, 4), rng.randint(10, 90), rng.randint(0, 2 ** 31)


def brackets_snapshot(o, book):
    for br in o._brackets:
        r0 = br["rounds"][0]
        if r0:
            book[r0[0]["id"]] = dict(num=br["bracket_num"], rounds=[[dict(e) for e in r] for r in br["rounds"]])


def run_case(cfg, W, nsteps, seed):
    warnings.filterwarnings("ignore")
    import keras_tuner as kt
    from keras_tuner.engine import hyperparameters as hpm
    from keras_tuner.tuners import hyperband
    rng = random.Random(seed)
    d = tempfile.mkdtemp(prefix="ktv10_")
    try:
        oseed = rng.randint(1, 10 ** 6)

        def mk():
            hps = hpm.HyperParameters(); hps.Int("x", 0, 10 ** 9)
            oo = hyperband.HyperbandOracle(objective=kt.Objective("score", "max" if cfg["mx"] else "min"), max_epochs=cfg["max_epochs"], factor=cfg["factor"],
                                           hyperband_iterations=cfg["iters"], seed=oseed, hyperparameters=hps,
                                           max_retries_per_trial=cfg["max_retries"], max_consecutive_failed_trials=cfg["max_consec"])
            oo._set_project_dir(d, "p"); oo._display.verbose = 0
            return oo
        o = mk()
        nb = o._get_num_brackets()
        sizes = [[o._get_size(b, r) for r in range(b + 1)] for b in range(nb)]
        held = {}; ops = []; obs = []; book = {}; viol = None; issued = {}

        def snap():
            ids = sorted(o.trials, key=int)
            return dict(st=[o.trials[i].status for i in ids], runs=[o._run_times[i] for i in ids],
                        ongoing=[(int(t[1:]), int(tr.trial_id)) for t, tr in o.ongoing_trials.items()],
                        so=[int(x) for x in o.start_order], eo=[int(x) for x in o.end_order], rq=[int(x) for x in o._retry_queue],
                        tids=sorted(int(t[1:]) for t in o.tuner_ids))

        def info(t):
            v = t.hyperparameters.values
            if "tuner/bracket" not in v: return []
            return [v["tuner/bracket"], v["tuner/round"], v["tuner/epochs"], v["tuner/initial_epoch"], int(v["tuner/trial_id"]) if "tuner/trial_id" in v else -1]

        def ep(b, r):
            return math.ceil(cfg["max_epochs"] / cfg["factor"] ** (b - r))

        def strictly_better(a, b):
            return a > b if cfg["mx"] else a < b

        def check_promotions(when):
            for first, br in book.items():
                b = br["num"]
                for r, rnd in enumerate(br["rounds"]):
                    if len(rnd) > sizes[b][r]:
                        return "capacity", "%s: round %d of bracket %d holds %d trials, scheduled %d" % (when, r, b, len(rnd), sizes[b][r])
                    if r == 0:
                        continue
                    prev = br["rounds"][r - 1]; prev_ids = [e["id"] for e in prev]
                    pasts = [e["past_id"] for e in rnd]
                    if len(set(pasts)) != len(pasts):
                        return "parent-shared", "%s: two trials of round %d of bracket %d continue the same trial: %r" % (when, r, b, pasts)
                    for e in rnd:
                        q = e["past_id"]
                        if q not in prev_ids:
                            return "parent-round", "%s: trial %s of round %d continues %s which is not in round %d of bracket %d" % (when, e["id"], r, q, r - 1, b)
                        tq = o.trials[q]
                        if tq.status != "COMPLETED":
                            return "parent-completed", "%s: trial %s continues %s whose status is %s" % (when, e["id"], q, tq.status)
                        better = [p for p in prev_ids if o.trials[p].status == "COMPLETED" and strictly_better(o.trials[p].score, tq.score)]
                        if len(better) >= sizes[b][r]:
                            return "not-a-winner", "%s: trial %s continues %s (score %r) but %d trials of round %d score strictly better and round %d has %d places" % (
                                when, e["id"], q, tq.score, len(better), r - 1, r, sizes[b][r])
                        if e["id"] in o.trials:
                            va = {k: v for k, v in o.trials[e["id"]].hyperparameters.values.items() if not k.startswith("tuner/")}
                            vb = {k: v for k, v in tq.hyperparameters.values.items() if not k.startswith("tuner/")}
                            if va != vb:
                                return "same-values", "%s: promoted trial %s has values %r, its parent %s has %r" % (when, e["id"], va, q, vb)
            return None
        for _ in range(nsteps):
            if rng.random() < 0.03:
                # the process restarts: a fresh oracle reloads the project; whoever held a trial is gone
                import json as _json
                before = (o._current_iteration, o._current_bracket, _json.loads(_json.dumps(o._brackets)))
                o.save(); lc._release(o); o = mk(); o.reload(); held = {}
                after = (o._current_iteration, o._current_bracket, _json.loads(_json.dumps(o._brackets)))
                if viol is None and before != after:
                    k = [i for i in range(3) if before[i] != after[i]][0]
                    viol = ("schedule-state-after-reload", "after save+reload %s is %r, was %r: the sweep continues from another place of the schedule" % (
                        ["the iteration counter", "the current bracket", "the bracket book"][k], after[k], before[k]))
                ops.append(("reload",)); obs.append((("none",), snap())); continue
            w = rng.randrange(W); tn = "w%d" % w
            if tn in held and rng.random() < (0.8 if w not in cfg.get("slow", ()) else 0.07):
                t = held.pop(tn); r = rng.random()
                if cfg.get("wide"): r *= 0.8
                if r < 0.7:
                    sc = float(rng.randint(-3, 3) if not cfg.get("wide") else rng.randint(-40, 40)); o.update_trial(t.trial_id, {"score": sc}); t.status = "COMPLETED"; oc = ("C", int(sc))
                elif r < 0.75:
                    o.update_trial(t.trial_id, {"score": float("nan")}); t.status = "COMPLETED"; oc = ("N",)
                elif r < 0.88: t.status = "INVALID"; oc = ("I",)
                else: t.status = "FAILED"; oc = ("F",)
                try: o.end_trial(t); resp = ("none",)
                except RuntimeError: resp = ("abort",); lc._release(o)
                ops.append(("end", int(t.trial_id), oc)); obs.append((resp, snap()))
            else:
                t = o.create_trial(tn)
                brackets_snapshot(o, book)
                if t.status == "RUNNING":
                    new = tn not in held or held[tn].trial_id != t.trial_id
                    held[tn] = t
                    i = info(t)
                    if viol is None and i and int(t.trial_id) not in issued:
                        b, r, e, ie, par = i
                        mine = [br for br in book.values() if any(en["id"] == t.trial_id for rnd in br["rounds"] for en in rnd)]
                        if mine and mine[0]["num"] != b:
                            viol = ("bracket-label", "trial %s was placed in bracket %d but carries tuner/bracket=%d" % (t.trial_id, mine[0]["num"], b))
                        elif e != ep(b, r) or ie != (0 if r == 0 else ep(b, r - 1)):
                            viol = ("epochs", "trial %s: bracket %d round %d carries epochs=%d initial_epoch=%d, schedule says %d / %d" % (t.trial_id, b, r, e, ie, ep(b, r), 0 if r == 0 else ep(b, r - 1)))
                        elif (r == 0) != (par == -1):
                            viol = ("round-parent", "trial %s of round %d has parent %r" % (t.trial_id, r, par))
                    issued[int(t.trial_id)] = i
                    if viol is None:
                        c = check_promotions("when trial %s was issued" % t.trial_id)
                        if c: viol = c
                ops.append(("create", w)); obs.append((("trial", int(t.trial_id), t.status, info(t)), snap()))
        if viol is None:
            brackets_snapshot(o, book)
            c = check_promotions("at the end of the history")
            if c: viol = c
        return dict(cfg, nb=nb, sizes=sizes), ops, obs, viol, dict(cfg=cfg, W=W, nsteps=nsteps, seed=seed, sizes=sizes, promoted=sum(1 for i in issued.values() if i and i[1] > 0), trials=len(o.trials))
    finally:
        shutil.rmtree(d, ignore_errors=True)


def emit_case(cfg, ops, obs):
    c = "{| max_trials := None; max_retries := %s; max_consec := %s; abort_early := false |}" % (emit.nat(cfg["max_retries"]), emit.nat(cfg["max_consec"]))
    tb = cl(cl(emit.nat(x) for x in row) for row in cfg["sizes"])
    h = "{| max_epochs := %s; factor := %s; iterations := Some %s; nbrackets := %s; sizes := tbl %s; maximize := %s |}" % (
        emit.z(cfg["max_epochs"]), emit.z(cfg["factor"]), emit.nat(cfg["iters"]), emit.nat(cfg["nb"]), tb, emit.b(cfg["mx"]))

    def op(o):
        if o[0] == "create": return "Create %s" % emit.nat(o[1])
        if o[0] == "reload": return "Reload"
        oc = o[2]
        if oc[0] == "C": return "End %s ECompleted (hrep (Some %s))" % (emit.nat(o[1]), emit.z(oc[1]))
        if oc[0] == "N": return "End %s ECompleted (hrep None)" % emit.nat(o[1])
        return "End %s %s (fun v => v)" % (emit.nat(o[1]), "EInvalid" if oc[0] == "I" else "EFailed")

    def ob(x):
        r, s = x
        rr = {"none": "ENone", "abort": "EAbort"}.get(r[0]) or "ETrial %s %s %s" % (emit.nat(r[1]), r[2], cl(emit.z(v) for v in r[3]))
        pr = lambda l: cl(emit.nat(v) for v in l)
        return "(%s, (%s, %s, %s, (%s, %s, %s, %s)))" % (rr, cl(s["st"]), pr(s["runs"]), cl("(%s,%s)" % (emit.nat(a), emit.nat(b)) for a, b in s["ongoing"]), pr(s["so"]), pr(s["eo"]), pr(s["rq"]), pr(s["tids"]))
    return "(%s, %s, %s, %s)" % (c, h, cl(map(op, ops)), cl(map(ob, obs)))


HEADER = """From Coq Require Import List ZArith Bool PeanoNat.
Import ListNotations.
From KT Require Import Lifecycle HB HBCorr.
Definition cases : list hcase := [
"""
FOOTER = "\n].\nEval vm_compute in (map check_hcase cases).\n"


def run(ctx):
    import glob, json
    n = ctx.n(160, 2500)
    corpus = [json.load(open(f))["case"] for f in sorted(glob.glob("/verif/corpus/C10/*.json"))]
    terms = []; infos = []; failures = []
    stats = dict(ops=0, trials=0, promoted=0, by_epochs={}, workers={}, corpus_cases=len(corpus))
    distinct = 0; seen = set()
    for i in range(n):
        if i < len(corpus):
            c = corpus[i]; cfg, W, ns, seed = c["cfg"], c["W"], c["nsteps"], c["seed"]
        else:
            cfg, W, ns, seed = gen_case(ctx.rng)
        cfg2, ops, obs, viol, info = run_case(cfg, W, ns, seed)
        terms.append(emit_case(cfg2, ops, obs)); infos.append(info)
        stats["ops"] += len(ops); stats["trials"] += info["trials"]; stats["promoted"] += info["promoted"]
        stats["by_epochs"][cfg["max_epochs"]] = stats["by_epochs"].get(cfg["max_epochs"], 0) + 1; stats["workers"][W] = stats["workers"].get(W, 0) + 1
        if viol:
            failures.append(Failure("violation", "C10/" + viol[0], viol[1], {"case": info}))
        key = repr((cfg, W, ops))
        if key not in seen and info["promoted"] >= 1:
            distinct += 1
        seen.add(key)
    verdicts, errors, wall = runcoq.run_cases(ctx.workdir, HEADER, terms, FOOTER, chunk=25)
    for path, rc, err in errors:
        failures.append(Failure("harness", "C10/coqc", "coqc failed on %s: %s" % (path, err[-300:]), {"correspondence": "C10", "file": path}))
    ndiff = 0
    for j, v in enumerate(verdicts):
        if v != "None":
            ndiff += 1
            if ndiff <= 3:
                failures.append(Failure("diff", "C10/model-vs-impl", "HB.v and HyperbandOracle disagree at step %s" % v,
                                        {"correspondence": "HBCorr.v (HB.v) vs HyperbandOracle", "case": infos[j]}))
    stats["diffs"] = ndiff; stats["coqc_wall_s"] = round(wall, 1)
    return dict(evaluations=n, distinct_nontrivial=distinct, traces_validated=n - ndiff,
                rule="HyperbandOracle with max_epochs in {1,2,3,4,5,8,9,10,27}, factor 2-4, 1-2 iterations, 1-4 workers, 10-90 operations, integer scores in -3..3 (ties), "
                     "NaN / INVALID / FAILED outcomes, retries; every issued trial's tuner/* entries, the bracket book (rounds with id/past_id) and the lifecycle "
                     "bookkeeping are compared with the model; non-trivial = distinct history with >= 1 promoted trial",
                samples=infos[:2], failures=failures, stats=stats)


def replay(ctx, doc):
    c = doc["replay"]["case"]
    cfg2, ops, obs, viol, info = run_case(c["cfg"], c["W"], c["nsteps"], c["seed"])
    fs = [Failure("violation", "C10/" + viol[0], viol[1], {"case": info})] if viol else []
    return dict(evaluations=1, distinct_nontrivial=1, failures=fs, samples=[info], rule="replay from the case seed")
