"""C06 - sampling oracles never start the same configuration twice, and give up cleanly.

(a) correspondence of Rand.v with the real RandomSearchOracle on generated conditional spaces (small finite ones are
exhausted), spaces growing at end_trial, retries, reloads: issued values, values of every stored trial, oracle space,
seed state, size of the tried set after every call; the seeded samples the run consumed are recomputed with
HyperParameter.random_sample(seed) and handed to the model as its table `samp`.
(b) the property on the implementation for random, Hyperband and Bayesian (warm-up) oracles: a trial created by sampling
differs from the recorded values of every existing trial; exhaustion answers STOPPED / IDLE after a bounded number of
seeded draws."""
import random, tempfile, shutil, contextlib, warnings
from ktverif import emit, runcoq, lifecycle as lc
from ktverif.framework import Failure
from checks.c13 import cv, cname, ccond

TRUSTED = ["sha256 of the sorted k=v string is collision free and injective on the generated names/values (modelled as the identity on the values map)",
           "random.Random(seed).random() enters the model as the table samp(index, seed) recomputed by the harness"]
ASSUMPTIONS = ["names and string values contain no '=' (so that the k=v string is unambiguous)"]
cl = emit.cl


LATE_SALT = [0]


def decl(hps, rng, name):
    if name.startswith("late"):
        # a build function declares a given name the same way in every trial: what `late<i>` is depends on the case only
        rng = random.Random("%s/%d" % (name, LATE_SALT[0]))
    kind = rng.choice(["int", "choice", "bool", "fixed", "float", "intbig"])
    if kind == "int":
        lo = rng.randint(0, 2); return hps.Int(name, lo, lo + rng.randint(0, 2))
    if kind == "intbig": return hps.Int(name, 0, 10 ** 6)
    if kind == "choice": return hps.Choice(name, rng.sample(["x", "y", "z"], rng.randint(1, 3)))
    if kind == "bool": return hps.Boolean(name)
    if kind == "fixed": return hps.Fixed(name, rng.choice([7, "k", 1.5, True]))
    return hps.Float(name, 0.0, 1.0, step=rng.choice([0.5, 0.25]))


def gen_space(rng):
    from keras_tuner.engine import hyperparameters as hpm
    hps = hpm.HyperParameters(); n = rng.randint(0, 4)
    for i in range(n):
        with contextlib.ExitStack() as st:
            if hps.space and rng.random() < 0.55:
                p = rng.choice(list(hps.space))
                for c in p.conditions: st.enter_context(hps.conditional_scope(c.name, c.values))
                import itertools; pv = list(itertools.islice(p.values, 5)); st.enter_context(hps.conditional_scope(p.name, rng.sample(pv, rng.randint(1, len(pv)))))
            try: decl(hps, rng, "h%d" % i)
            except ValueError: pass
    return hps


def chp(h, I): return "{| h_name := %s; h_conds := %s; h_default := %s; h_tag := 1 |}" % (cname(h.name, I), cl(ccond(c, I) for c in h.conditions), cv(h.default, I))
def cvals(v, I): return cl("(%s, %s)" % (cname(k, I), cv(x, I)) for k, x in sorted(v.items()))


def run_case(seed):
    warnings.filterwarnings("ignore")
    import keras_tuner as kt
    from keras_tuner.engine.hyperparameters import hyperparameter as hpbase
    from keras_tuner.tuners import randomsearch
    rng = random.Random(seed); I = emit.Intern()
    LATE_SALT[0] = seed
    hps = gen_space(rng)
    cfg = dict(max_trials=rng.choice([None, 2, 4, 8]), max_retries=rng.choice([0, 1]), max_consec=rng.choice([2, 3, 9]))
    W = rng.randint(1, 3); d = tempfile.mkdtemp(prefix="ktv06_"); sd = rng.randint(1, 10 ** 6)

    def mk():
        o = randomsearch.RandomSearchOracle(objective=kt.Objective("score", "min"), max_trials=cfg["max_trials"], seed=sd, hyperparameters=hps.copy(),
                                            max_retries_per_trial=cfg["max_retries"], max_consecutive_failed_trials=cfg["max_consec"])
        o._set_project_dir(d, "p"); o._display.verbose = 0; return o
    try:
        o = mk()
        init_space = cl(chp(h, I) for h in o.hyperparameters.space); init_vals = cvals(o.hyperparameters.values, I)
        held = {}; ops = []; obs = []; samp = []; viol = None; plain = []; stopped_count = 0

        def snap():
            ids = sorted(o.trials, key=int)
            return (cl(o.trials[i].status for i in ids), cl(cvals(o.trials[i].hyperparameters.values, I) for i in ids),
                    cl("(%s,%s)" % (emit.nat(int(t[1:])), emit.nat(int(tr.trial_id))) for t, tr in o.ongoing_trials.items()),
                    cl(emit.nat(int(x)) for x in o.end_order), cl(emit.nat(int(x)) for x in o._retry_queue),
                    cl(chp(h, I) for h in o.hyperparameters.space), emit.z(o._seed_state), emit.nat(len(o._tried_so_far)))
        for _ in range(rng.randint(5, 40)):
            r0 = rng.random()
            if r0 < 0.05:
                o.save(); o = mk(); o.reload(); held = {}; ops.append("RReload"); obs.append(("ENone", snap())); plain.append(("reload",)); continue
            if stopped_count >= 2:
                break          # the search is over: a real tuner leaves after its first STOPPED
            w = rng.randrange(W); tn = "w%d" % w
            if tn in held and rng.random() < 0.85:
                t = held[tn]
                if rng.random() < 0.4:
                    v = float("nan") if rng.random() < 0.12 else float(rng.randint(-5, 5))
                    o.update_trial(t.trial_id, {"score": v}); ops.append("RUpdate %s (%s)" % (emit.nat(int(t.trial_id)), "None" if v != v else "Some %s" % emit.z(int(v))))
                    obs.append(("ENone", snap())); plain.append(("update", int(t.trial_id))); continue
                held.pop(tn); r = rng.random()
                if rng.random() < 0.3:
                    with contextlib.ExitStack() as st:
                        if t.hyperparameters.space and rng.random() < 0.5:
                            p = rng.choice(t.hyperparameters.space)
                            try:
                                for c in p.conditions: st.enter_context(t.hyperparameters.conditional_scope(c.name, c.values))
                                import itertools; pv = list(itertools.islice(p.values, 5)); st.enter_context(t.hyperparameters.conditional_scope(p.name, rng.sample(pv, rng.randint(1, len(pv)))))
                            except ValueError: pass
                        try: decl(t.hyperparameters, rng, "late%d" % rng.randint(0, 2))
                        except ValueError: pass
                reported = o.trials[t.trial_id].metrics.exists("score")
                if r < 0.6 and reported: t.status = "COMPLETED"; oc = "ECompleted"
                elif r < 0.8: t.status = "INVALID"; oc = "EInvalid"
                else: t.status = "FAILED"; oc = "EFailed"
                sp = cl(chp(h, I) for h in t.hyperparameters.space); vv = cvals(t.hyperparameters.values, I)
                try: o.end_trial(t); resp = "ENone"
                except RuntimeError: resp = "EAbort"; lc._release(o)
                ops.append("REnd %s %s %s %s" % (emit.nat(int(t.trial_id)), oc, sp, vv)); obs.append((resp, snap())); plain.append(("end", int(t.trial_id), oc))
            else:
                s0 = o._seed_state; space0 = list(o.hyperparameters.space); n0 = len(o.trials)
                before = {i: dict(tr.hyperparameters.values) for i, tr in o.trials.items()}
                t = o.create_trial(tn)
                for sdv in range(s0, o._seed_state):
                    for i, h in enumerate(space0): samp.append("((%s,%s), %s)" % (emit.nat(i), emit.z(sdv), cv(h.random_sample(sdv), I)))
                if t.status == "RUNNING": held[tn] = t
                if t.status == "STOPPED": stopped_count += 1
                # the property, on the implementation
                if viol is None:
                    if len(o.trials) > n0 and t.status == "RUNNING":
                        for i, v in before.items():
                            if v == dict(t.hyperparameters.values):
                                viol = ("duplicate-start", "trial %s was started with the values %r that trial %s already carries" % (t.trial_id, v, i))
                    if o._seed_state - s0 > 21 * max(1, len(space0)):
                        viol = ("bounded-effort", "one create_trial drew %d seeded samples for a space of %d entries" % (o._seed_state - s0, len(space0)))
                ops.append("RCreate %s" % emit.nat(w)); obs.append(("ETrial %s %s %s" % (emit.nat(int(t.trial_id)), t.status, cvals(t.hyperparameters.values, I)), snap()))
                plain.append(("create", w, t.trial_id, t.status, {k: repr(v) for k, v in t.hyperparameters.values.items()}))
        c = "{| max_trials := %s; max_retries := %s; max_consec := %s; abort_early := false |}" % (
            "None" if cfg["max_trials"] is None else "(Some %s)" % emit.nat(cfg["max_trials"]), emit.nat(cfg["max_retries"]), emit.nat(cfg["max_consec"]))
        ob = cl("(%s, (%s))" % (r, ", ".join(s)) for r, s in obs)
        term = "(%s, (%s, %s, %s), %s, %s, %s)" % (c, init_space, init_vals, emit.z(sd), cl(samp), cl(ops), ob)
        return term, dict(seed=seed, cfg=cfg, space=[h.name for h in hps.space], ops=plain), viol
    finally:
        shutil.rmtree(d, ignore_errors=True)


def sampling_oracles_spec(rng):
    """duplicate starts on Hyperband's first rounds and the Bayesian warm-up (they share Oracle._random_values)"""
    cfg = lc.gen_config(rng, kinds=("hyperband", "bayes"))
    cfg["nsteps"] = rng.randint(20, 50)
    if cfg["kind"] == "bayes":
        cfg["max_trials"] = rng.choice([4, 6, 9]); cfg["nsteps"] = 30
    h = lc.run_history(cfg, reload_p=0.02)
    seen = {}
    for o, (r, s) in zip(h["ops"], h["obs"]):
        if o[0] == "create" and r[2] == "RUNNING":
            pass
    # values tokens of trials at creation: a new id with a token equal to an earlier new trial's token is a duplicate start
    first_tok = {}
    for o, (r, s) in zip(h["ops"], h["obs"]):
        if o[0] == "create" and r[0] == "trial" and r[2] == "RUNNING" and r[1] not in first_tok:
            first_tok[r[1]] = r[3]
    if cfg["kind"] == "bayes":
        toks = list(first_tok.values())[:2]          # the warm-up trials
        if len(set(toks)) != len(toks):
            return cfg, "bayes warm-up started the same configuration twice"
    return cfg, None


def key_order_case(rng):
    """two workers, a space that grows inside the trials in an order that depends on the branch: the values dict of a stored
    trial and the dict of a later sample list the same entries in different orders. The search runs until the 6
    configurations are exhausted, so every configuration is sampled again: none may be started twice."""
    import tempfile, shutil, warnings
    import keras_tuner as kt
    from keras_tuner.engine import hyperparameters as hpm
    from keras_tuner.tuners import randomsearch, hyperband
    warnings.filterwarnings("ignore")
    hps = hpm.HyperParameters(); hps.Choice("a", [0, 1])
    d = tempfile.mkdtemp(prefix="ktv06k_")
    kind = rng.choice(["random", "random", "hyperband"])
    try:
        if kind == "random":
            o = randomsearch.RandomSearchOracle(objective=kt.Objective("score", "min"), max_trials=30, hyperparameters=hps, seed=rng.randint(1, 10 ** 6))
        else:
            o = hyperband.HyperbandOracle(objective=kt.Objective("score", "min"), max_epochs=2, factor=2, hyperband_iterations=6, hyperparameters=hps, seed=rng.randint(1, 10 ** 6))
        o._set_project_dir(d, "p"); o._display.verbose = 0
        first = rng.choice([0, 1])

        def build(hp):
            a = hp.values.get("a", 0)
            if a == first:
                with hp.conditional_scope("a", [first]):
                    hp.Int("b", 0, 1)
                hp.Int("c", 0, 1)
            else:
                hp.Int("c", 0, 1)
        held = {}; W = rng.choice([2, 3]); started = {}
        for _ in range(400):
            w = "w%d" % rng.randrange(W)
            if w in held and rng.random() < 0.6:
                t = held.pop(w); build(t.hyperparameters)
                o.update_trial(t.trial_id, {"score": float(rng.randint(0, 9))}); t.status = "COMPLETED"; o.end_trial(t)
            elif w not in held:
                before = {i: {k: v for k, v in tr.hyperparameters.values.items() if not k.startswith("tuner/")} for i, tr in o.trials.items()}
                n0 = len(o.trials)
                t = o.create_trial(w)
                if t.status == "RUNNING":
                    held[w] = t
                    mine = {k: v for k, v in t.hyperparameters.values.items() if not k.startswith("tuner/")}
                    if len(o.trials) > n0 and "tuner/trial_id" not in t.hyperparameters.values:
                        for i, v in before.items():
                            if v == mine and len(v) >= 2:
                                return "%s oracle: trial %s was started with the values %r that trial %s already carries (entries discovered in another order)" % (kind, t.trial_id, mine, i)
                elif t.status == "STOPPED" and not held:
                    break
        return None
    finally:
        shutil.rmtree(d, ignore_errors=True)


HEADER = """From stdpp Require Import gmap list.
From Coq Require Import ZArith.
From KT Require Import Lifecycle Space Discover Rand.
Open Scope positive_scope.
Global Instance cond_eq_dec : EqDecision cond. Proof. solve_decision. Defined.
Global Instance hp_eq_dec : EqDecision hp. Proof. solve_decision. Defined.
Global Instance status_eq_dec : EqDecision status. Proof. solve_decision. Defined.
Inductive eresp := ETrial (id : nat) (st : status) (v : list (name*value)) | ENone | EAbort.
Definition snap_t := (list status * list (list (name*value)) * list (nat*nat) * list nat * list nat * list hp * Z * nat)%type.
Definition ost := @ostate rstate tdata unit.
Definition snap_ok (s : ost) (e : snap_t) : bool :=
  let '(st, vs, og, eo, rq, sp, sd, nt) := e in
  bool_decide (map (@t_status tdata unit) (trials s) = st) &&
  bool_decide (map (fun t => tv_values (t_data t)) (trials s) = map (fun l => (list_to_map l : vals)) vs) &&
  bool_decide (ongoing s = og) && bool_decide (end_order s = eo) && bool_decide (retryq s = rq) &&
  bool_decide (s_space (a_osp (algo s)) = sp) && Z.eqb (a_seed (algo s)) sd && Nat.eqb (length (a_tried (algo s))) nt.
Definition resp_ok (r : @resp tdata) (e : eresp) : bool :=
  match r, e with
  | RTrial i st d, ETrial j st' v => Nat.eqb i j && bool_decide (st = st') && bool_decide (tv_values d = list_to_map v)
  | RNone, ENone | RAbort, EAbort => true
  | _, _ => false end.
Fixpoint first_bad (n : nat) (tr : list (@resp tdata * ost)) (ex : list (eresp * snap_t)) : option nat :=
  match tr, ex with
  | [], [] => None
  | (r, s) :: tr', (e, sn) :: ex' => if resp_ok r e && snap_ok s sn then first_bad (S n) tr' ex' else Some n
  | _, _ => Some n end.
Definition case_t := (cfg * (list hp * list (name*value) * Z) * list ((nat*Z)*value) * list rop * list (eresp * snap_t))%type.
Definition check (c : case_t) : option nat :=
  let '(cf, (sp, v, sd0), stab, ops, ex) := c in
  let samp := fun (i : nat) (sd : Z) => match list_find (fun p => bool_decide (p.1 = (i, sd))) stab with Some (_, (_, x)) => x | None => VInt 0%Z end in
  let draw := fun (k : nat) (h : hp) => h_default h in
  let a0 := {| a_osp := {| s_scopes := []; s_conds := []; s_space := sp; s_values := list_to_map v; s_active := []; s_inactive := [] |};
               a_seed := sd0; a_tried := []; a_idhash := []; a_k := 0%nat |} in
  first_bad 0%nat (rrun samp draw true true 20%nat cf (init a0) ops) ex.
Definition cases : list case_t := [
"""
FOOTER = "\n].\nEval vm_compute in (map check cases).\n"


def resume_case(rng):
    """a search over a small finite space is killed between two oracle calls (nothing is saved beyond what the calls
    themselves saved), a fresh oracle reloads the project and several tuners go on: across both processes no two trials may
    start with the same configuration (Hyperband: among its round-0 trials; Bayesian: warm-up only)"""
    import keras_tuner as kt
    from keras_tuner.engine import hyperparameters as hpm
    from keras_tuner.tuners import randomsearch, hyperband, bayesian
    warnings.filterwarnings("ignore")
    kind = rng.choice(["random", "random", "hyperband", "bayes"])
    hps = hpm.HyperParameters()
    shape = rng.choice(["ab", "choice", "cond"])
    if shape == "ab": hps.Int("a", 0, rng.randint(1, 2)); hps.Boolean("b")
    elif shape == "choice": hps.Choice("c", ["p", "q", "r", "s"][: rng.randint(2, 4)])
    else:
        hps.Choice("m", ["u", "v"])
        with hps.conditional_scope("m", ["u"]): hps.Int("k", 1, 3)
    sd = rng.randint(1, 10 ** 6); d = tempfile.mkdtemp(prefix="ktv06r_")
    common = dict(objective=kt.Objective("score", "min"), seed=sd, max_retries_per_trial=rng.choice([0, 1]), max_consecutive_failed_trials=99)

    def mk():
        if kind == "random": o = randomsearch.RandomSearchOracle(max_trials=50, hyperparameters=hps.copy(), **common)
        elif kind == "hyperband": o = hyperband.HyperbandOracle(max_epochs=rng0.choice([4, 9]), factor=3, hyperband_iterations=1, hyperparameters=hps.copy(), **common)
        else: o = bayesian.BayesianOptimizationOracle(max_trials=50, num_initial_points=1000, hyperparameters=hps.copy(), **common)
        o._set_project_dir(d, "p"); o._display.verbose = 0; return o
    rng0 = random.Random(sd)
    started = {}; log = []
    try:
        o = mk(); W = rng.randint(1, 3); held = {}
        for phase, nst in (("first", rng.randint(1, 8)), ("resumed", rng.randint(4, 18))):
            if phase == "resumed":
                lc._release(o); rng0 = random.Random(sd); o = mk(); o.reload(); held = {}; W = rng.randint(2, 4); log.append(("kill+reload",))
            for _ in range(nst):
                tn = "w%d" % rng.randrange(W)
                if tn in held and rng.random() < 0.6:
                    t = held.pop(tn)
                    if rng.random() < 0.75:
                        o.update_trial(t.trial_id, {"score": float(rng.randint(-5, 5))}); t.status = "COMPLETED"
                    else:
                        t.status = rng.choice(["INVALID", "FAILED"])
                    o.end_trial(t); log.append(("end", t.trial_id, t.status))
                elif tn not in held:
                    t = o.create_trial(tn); log.append(("create", tn, t.trial_id, t.status))
                    if t.status != "RUNNING":
                        continue
                    held[tn] = t
                    v = {k: x for k, x in t.hyperparameters.values.items() if not k.startswith("tuner/")}
                    if kind == "hyperband" and t.hyperparameters.values.get("tuner/round", 0) != 0:
                        continue
                    if t.trial_id in started:
                        continue
                    for i, w in started.items():
                        if w == v:
                            return dict(kind=kind, shape=shape, seed=sd), "%s oracle, %s process: trial %s was started with %r, the configuration of trial %s (log %r)" % (kind, phase, t.trial_id, v, i, log[-12:])
                    started[t.trial_id] = v
        return dict(kind=kind, shape=shape, seed=sd), None
    finally:
        try: lc._release(o)
        except Exception: pass
        shutil.rmtree(d, ignore_errors=True)


def hb_late_case(rng):
    """Hyperband over a small finite space whose later rounds declare one more hyperparameter (so the values of promoted
    trials change when they end), with the space either growing or frozen (tune_new_entries=False): no round-0 trial may be
    started with the configuration another round-0 trial was started with"""
    import keras_tuner as kt
    from keras_tuner.engine import hyperparameters as hpm
    from keras_tuner.tuners import hyperband
    warnings.filterwarnings("ignore")
    hps = hpm.HyperParameters()
    hps.Choice("units", [8, 16, 32, 64, 128, 256][: rng.randint(3, 6)])
    if rng.random() < 0.4: hps.Boolean("bn")
    flags = rng.choice([(True, True), (False, True), (False, True)])
    sd = rng.randint(1, 10 ** 6); d = tempfile.mkdtemp(prefix="ktv06h_")
    info = dict(kind="hyperband", seed=sd, flags=flags)
    try:
        o = hyperband.HyperbandOracle(objective=kt.Objective("score", rng.choice(["min", "max"])), max_epochs=rng.choice([4, 9]), factor=rng.choice([2, 3]),
                                      hyperband_iterations=rng.choice([1, 2]), seed=sd, hyperparameters=hps, tune_new_entries=flags[0], allow_new_entries=flags[1],
                                      max_retries_per_trial=0, max_consecutive_failed_trials=99)
        o._set_project_dir(d, "p"); o._display.verbose = 0
        W = rng.randint(1, 3); held = {}; started = {}; log = []
        for _ in range(rng.randint(30, 90)):
            tn = "w%d" % rng.randrange(W)
            if tn in held and rng.random() < 0.7:
                t = held.pop(tn)
                if t.hyperparameters.values.get("tuner/initial_epoch", 0) > 0:
                    t.hyperparameters.Boolean("late")          # `if initial_epoch > 0: hp.Boolean(...)`: declared in later rounds only
                o.update_trial(t.trial_id, {"score": float(rng.randint(-9, 9))}); t.status = "COMPLETED"
                o.end_trial(t); log.append(("end", t.trial_id))
            elif tn not in held:
                t = o.create_trial(tn); log.append(("create", t.trial_id, t.status))
                if t.status == "STOPPED": break
                if t.status != "RUNNING": continue
                held[tn] = t
                if t.hyperparameters.values.get("tuner/round", 0) != 0:
                    continue
                v = {k: x for k, x in t.hyperparameters.values.items() if not k.startswith("tuner/")}
                for i, w in started.items():
                    if w == v:
                        return info, "Hyperband (tune_new_entries=%r): round-0 trial %s was started with %r, the configuration round-0 trial %s was started with (log %r)" % (flags[0], t.trial_id, v, i, log[-10:])
                started[t.trial_id] = v
        return info, None
    finally:
        try: lc._release(o)
        except Exception: pass
        shutil.rmtree(d, ignore_errors=True)


def run(ctx):
    n = ctx.n(120, 1500)
    terms = []; infos = []; failures = []
    stats = dict(ops=0, creates=0, stopped=0, grown=0, reloads=0, sampling_histories=0)
    distinct = 0; seen = set()
    import time as _t; _t0 = _t.time()
    import glob, json
    corpus = [json.load(open(f))["seed"] for f in sorted(glob.glob("/verif/corpus/C06/*.json"))]
    stats["corpus_cases"] = len(corpus)
    for i in range(n):
        seed = corpus[i] if i < len(corpus) else ctx.rng.randint(0, 2 ** 40)
        term, info, viol = run_case(seed)
        terms.append(term); infos.append(info)
        stats["ops"] += len(info["ops"]); stats["creates"] += sum(1 for o in info["ops"] if o[0] == "create")
        stats["stopped"] += sum(1 for o in info["ops"] if o[0] == "create" and o[3] == "STOPPED"); stats["reloads"] += sum(1 for o in info["ops"] if o[0] == "reload")
        if viol:
            failures.append(Failure("violation", "C06/" + viol[0], viol[1], {"case": info}))
        key = repr(info["space"]) + repr(info["cfg"])
        if key not in seen and sum(1 for o in info["ops"] if o[0] == "create" and o[3] == "RUNNING") >= 2:
            distinct += 1
        seen.add(key)
    stats["t_random_s"] = round(_t.time() - _t0, 1); _t0 = _t.time()
    for j in range(ctx.n(40, 600)):
        msg = key_order_case(ctx.rng)
        stats["key_order_histories"] = stats.get("key_order_histories", 0) + 1
        if msg:
            failures.append(Failure("violation", "C06/duplicate-start-order", msg, {"note": "regenerated from the run seed"}))
            break
    for j in range(ctx.n(10, 300)):
        cfg, msg = sampling_oracles_spec(ctx.rng)
        stats["sampling_histories"] += 1
        if msg:
            failures.append(Failure("violation", "C06/duplicate-start-" + cfg["kind"], msg, {"cfg": cfg}))
    for j in range(ctx.n(60, 800)):
        info, msg = resume_case(ctx.rng)
        stats["resume_histories"] = stats.get("resume_histories", 0) + 1
        if msg:
            failures.append(Failure("violation", "C06/duplicate-start-after-resume-" + info["kind"], msg, {"note": "regenerated from the run seed", "info": info}))
            break
    for j in range(ctx.n(60, 800)):
        info, msg = hb_late_case(ctx.rng)
        stats["hyperband_late_decl_histories"] = stats.get("hyperband_late_decl_histories", 0) + 1
        if msg:
            failures.append(Failure("violation", "C06/duplicate-start-hyperband-round0", msg, {"note": "regenerated from the run seed", "info": info}))
            break
    stats["t_sampling_s"] = round(_t.time() - _t0, 1); _t0 = _t.time()
    verdicts, errors, wall = runcoq.run_cases(ctx.workdir, HEADER, terms, FOOTER, chunk=8)
    stats["t_coq_total_s"] = round(_t.time() - _t0, 1)
    for path, rc, err in errors:
        failures.append(Failure("harness", "C06/coqc", "coqc failed on %s: %s" % (path, err[-300:]), {"correspondence": "C06", "file": path}))
    ndiff = 0
    for j, v in enumerate(verdicts):
        if v != "None":
            ndiff += 1
            if ndiff <= 3:
                failures.append(Failure("diff", "C06/model-vs-impl", "Rand.v and RandomSearchOracle disagree at step %s" % v,
                                        {"correspondence": "Rand.v vs RandomSearchOracle (_random_values, _record_values, update_space)", "case": infos[j]}))
    stats["diffs"] = ndiff; stats["coqc_wall_s"] = round(wall, 1)
    return dict(evaluations=n, distinct_nontrivial=distinct, traces_validated=n - ndiff,
                rule="RandomSearchOracle over generated spaces of 0-4 entries (small finite Int/Choice/Boolean/Fixed/stepped Float and one large Int, conditions on "
                     "earlier entries), budgets None/2/4/8 above and below the number of configurations, 1-3 tuners, 30% of ended trials declare a new (conditional) "
                     "entry, retries, save+reload; plus Hyperband and Bayesian histories for the implementation-level clause, and searches over small finite spaces killed between two calls and resumed by several tuners; non-trivial = distinct (space, config) with >= 2 started trials",
                samples=infos[:2], failures=failures, stats=stats)


def replay(ctx, doc):
    info = doc["replay"].get("case")
    fs = []
    if info:
        term, info2, viol = run_case(info["seed"])
        if viol:
            fs.append(Failure("violation", "C06/" + viol[0], viol[1], {"case": info2}))
    return dict(evaluations=1, distinct_nontrivial=1, failures=fs, samples=[doc["replay"]], rule="replay from the case seed")
