"""C01 - trial lifecycle is a well-formed state machine under any interleaving."""
from ktverif import emit, runcoq, lifecycle as lc
from ktverif.framework import Failure

TRUSTED = ["populate_space of each real oracle enters the model as a recorded table of its responses (the theorems hold for every populate)",
           "sha256 token of a values dict identifies the dict (collision-free assumed)"]
ASSUMPTIONS = ["end_trial is called only for a trial currently handed out; update_trial only for an existing trial (other calls are rejected no-ops in the model)"]


def spec_c01(h):
    """The property stated on the implementation's own trace. Returns (step, clause, message) or None."""
    handed = {}
    prev = None
    for k, (op, (resp, s)) in enumerate(zip(h["ops"], h["obs"])):
        n = len(s["st"])
        if resp[0] == "error":
            return k, "exception", "%s raised %s" % (op[0], resp[1])
        if [int(x) for x in s["idfmt"]] != list(range(n)) or len(set(s["idfmt"])) != n:
            return k, "unique-ids", "trial ids are %r" % (s["idfmt"],)
        if s["so"] != list(range(n)):
            return k, "start-order", "start_order %r does not list each of the %d trials once in issue order" % (s["so"], n)
        on_ids = [i for _, i in s["ongoing"]]
        if len(set(on_ids)) != len(on_ids):
            return k, "assigned-once", "a trial is assigned to two tuners: %r" % (s["ongoing"],)
        for w, i in s["ongoing"]:
            if s["st"][i] != "RUNNING":
                return k, "ongoing-running", "trial %d is ongoing for tuner %d with status %s" % (i, w, s["st"][i])
        if len(set(s["eo"])) != len(s["eo"]):
            return k, "end-order", "end_order lists a trial twice: %r" % (s["eo"],)
        for i in range(n):
            places = (i in on_ids) + (i in s["rq"]) + (i in s["eo"])
            if places != 1:
                return k, "partition", "trial %d is in %d of {ongoing, retry queue, end_order} (ongoing=%r retry=%r ended=%r)" % (i, places, s["ongoing"], s["rq"], s["eo"])
            final = s["st"][i] in ("COMPLETED", "FAILED")
            if final != (i in s["eo"]):
                return k, "final-iff-ended", "trial %d has status %s but %s end_order" % (i, s["st"][i], "is in" if i in s["eo"] else "is not in")
            if s["st"][i] == "COMPLETED" and (s["score"][i] is None or s["score"][i] != s["score"][i]):
                return k, "completed-score", "COMPLETED trial %d has score %r" % (i, s["score"][i])
        # responses
        if op[0] == "create":
            w = op[1]
            if prev is not None and w in dict(prev["ongoing"]):
                i = dict(prev["ongoing"])[w]
                if resp[1] != i:
                    return k, "same-trial", "tuner %d held trial %d and was given trial %d" % (w, i, resp[1])
            elif resp[2] == "RUNNING":
                if prev is not None and resp[1] in prev["eo"]:
                    return k, "reissued-final", "trial %d was handed out again after it ended %s" % (resp[1], prev["st"][resp[1]])
            if resp[2] == "RUNNING":
                if dict(s["ongoing"]).get(w) != resp[1]:
                    return k, "assigned", "RUNNING trial %d handed to tuner %d is not recorded as its ongoing trial" % (resp[1], w)
                handed[w] = resp[1]
            elif w in handed and prev is not None and w in dict(prev["ongoing"]):
                return k, "reissued-final", "tuner %d asked again and was given trial %d with status %s" % (w, resp[1], resp[2])
            if resp[2] in ("STOPPED", "IDLE") and prev is not None and prev["rq"] and w not in dict(prev["ongoing"]):
                return k, "queued-trial-lost", "trial %d waits in the retry queue but tuner %d, which holds nothing, was answered %s instead of being given it" % (prev["rq"][-1], w, resp[2])
        elif op[0] == "end":
            for w in [w for w, i in handed.items() if i == op[1]]:
                handed.pop(w)
        elif op[0] == "reload":
            handed = {}
        if sorted(handed.items()) != sorted(s["ongoing"]):
            return k, "ongoing-equals-handed-out", "ongoing trials %r differ from the trials handed out and not yet ended %r" % (s["ongoing"], sorted(handed.items()))
        prev = s
    return None


def gen(ctx, i):
    return lc.gen_config(ctx.rng)


def nontrivial(h):
    kinds = {o[0] for o in h["ops"]}
    ends = [o for o in h["ops"] if o[0] == "end"]
    return len(ends) >= 2 and "create" in kinds


def run_generic(ctx, prop, n, gen_cfg, spec, run_kw=None, rule=""):
    cases = []; terms = []
    stats = dict(ops=0, create=0, update=0, end=0, reload=0, aborts=0, by_kind={}, outcomes={}, statuses={})
    seen = set(); distinct = 0
    import glob, json, os
    corpus = [json.load(open(f))["cfg"] for f in sorted(glob.glob("/verif/corpus/%s/*.json" % prop))]
    stats["corpus_cases"] = len(corpus)
    for i in range(n):
        cfg = corpus[i] if i < len(corpus) else gen_cfg(ctx, i)
        h = lc.run_history(cfg, **(run_kw or {}))
        cases.append(h); terms.append(lc.emit_case(h))
        stats["by_kind"][cfg["kind"]] = stats["by_kind"].get(cfg["kind"], 0) + 1
        if h.get("pop_exc"):
            stats["populate_exceptions"] = stats.get("populate_exceptions", 0) + 1
        for o, (r, s) in zip(h["ops"], h["obs"]):
            stats["ops"] += 1; stats[o[0]] += 1
            if o[0] == "end":
                stats["outcomes"][o[2]] = stats["outcomes"].get(o[2], 0) + 1
            if r[0] == "abort":
                stats["aborts"] += 1
            if r[0] == "trial":
                stats["statuses"][r[2]] = stats["statuses"].get(r[2], 0) + 1
        key = repr((cfg["kind"], h["ops"]))
        if nontrivial(h) and key not in seen:
            distinct += 1
        seen.add(key)
    verdicts, errors, wall = runcoq.run_cases(ctx.workdir, lc.HEADER, terms, lc.FOOTER, chunk=150)
    failures = []
    for path, rc, err in errors:
        failures.append(Failure("harness", prop + "/coqc", "coqc failed on generated cases %s: %s" % (path, err[-400:]), {"correspondence": prop, "file": path}))
    ndiff = 0; shown = 0
    for i, v in enumerate(verdicts):
        h = cases[i]
        bad = spec(h)
        if bad:
            k, clause, msg = bad
            failures.append(Failure("violation", "%s/%s" % (prop, clause), "step %d (%s): %s [oracle kind %s]" % (k, h["ops"][k][0], msg, h["cfg"]["kind"]),
                                    {"cfg": h["cfg"], "ops": h["ops"][: k + 1], "step": k, "clause": clause, "message": msg,
                                     "state": {a: b for a, b in h["obs"][k][1].items() if a in ("st", "ongoing", "rq", "eo", "runs", "score")}}))
        if v != "None":
            ndiff += 1
            if not bad and shown < 3:
                shown += 1
                import re as _re
                m = _re.search(r"\d+", v)
                step = int(m.group(0)) if (m and v != "ERROR") else -1
                detail = lc.model_obs_at(ctx, h, step) if step >= 0 else ""
                failures.append(Failure("diff", "%s/model-vs-impl" % prop,
                                        "lifecycle model and implementation disagree at step %d of a %s history (op %r)" % (step, h["cfg"]["kind"], h["ops"][step] if 0 <= step < len(h["ops"]) else None),
                                        {"correspondence": "LifeCorr.v (Lifecycle.v) vs keras_tuner.engine.oracle.Oracle", "cfg": h["cfg"], "ops": h["ops"][: step + 1], "step": step,
                                         "impl_flat": lc.flat(*h["obs"][step]) if 0 <= step < len(h["obs"]) else None, "model_flat": detail[-1500:]}))
    stats["diffs"] = ndiff; stats["coqc_wall_s"] = round(wall, 1)
    samples = [dict(cfg=cases[0]["cfg"], ops=cases[0]["ops"][:12], responses=[r for r, _ in cases[0]["obs"][:12]])]
    return dict(evaluations=n, distinct_nontrivial=distinct, traces_validated=n - ndiff, rule=rule, samples=samples, failures=failures, stats=stats)


RULE = ("worker-pool histories on the real RandomSearch/GridSearch/Hyperband/Bayesian oracles: 1-4 tuner ids, 6-48 operations drawn from "
        "create / re-ask while holding / update (0-3 reports, NaN and infinities included) / end with COMPLETED, INVALID or FAILED / save+reload; "
        "after every call the full bookkeeping (statuses, scores, run counters, values tokens, trial files, ongoing, start/end order, retry queue, "
        "tuner ids) is digested and compared with the model; non-trivial = distinct history with >= 2 ended trials")


def run(ctx):
    return run_generic(ctx, "C01", ctx.n(240, 4000), gen, spec_c01, rule=RULE)


def replay(ctx, doc):
    r = doc["replay"]
    h = lc.run_history(r["cfg"])
    bad = spec_c01(h)
    fs = []
    if bad:
        fs.append(Failure("violation", "C01/" + bad[1], "step %d: %s" % (bad[0], bad[2]), {"cfg": r["cfg"], "step": bad[0]}))
    return dict(evaluations=1, distinct_nontrivial=1, failures=fs, samples=[r["cfg"]], rule="replay of one generated history (regenerated from its cfg/hseed)")
