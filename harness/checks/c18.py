"""C18 - metric bookkeeping and result conversion: correspondence of Metrics.v with
keras_tuner.engine.metrics_tracking / tuner_utils, plus a direct spec check of the implementation's outputs."""
import math, fractions, random
from ktverif import emit, runcoq
from ktverif.framework import Failure

TRUSTED = ["numpy mean/nanmin/nanmax modelled over exact rationals; generator keeps values dyadic (<=10 significant bits, |x|<=64, "
           "<=6 executions per step) so that float and rational comparisons agree; values compared within 2^-40",
           "keras.callbacks.History is built by hand (a `history` dict of equal-length lists)"]
ASSUMPTIONS = ["Python dicts have no duplicate keys; History logs are rectangular", "statistics.mean of ints is exact"]
F = fractions.Fraction


def fvq(x):
    if x != x:
        return "FNaN"
    if x == math.inf:
        return "FPInf"
    if x == -math.inf:
        return "FNInf"
    f = F(x)
    return "(FFin ((%d) # %d))" % (f.numerator, f.denominator)


def rnd_val(rng, special=0.2):
    r = rng.random()
    if r < special * 0.5:
        return float("nan")
    if r < special * 0.75:
        return float("inf")
    if r < special:
        return float("-inf")
    v = float(rng.randint(-24, 24)) / rng.choice([1, 1, 2, 4, 8])
    if rng.random() < 0.15:
        v += rng.choice([-2, -1, 1, 2]) * 2.0 ** -30       # a near tie: close to, but not equal to, another value of the pool
    return v


# ---------------------------------------------------------------- part A: tracker
def gen_tracker_case(rng):
    names = ["loss", "val_accuracy", "score", "m3"][: rng.randint(1, 4)]
    # direction passed by the oracle for the objective metric (None for the others)
    objdir = {n: rng.choice([None, None, "min", "max"]) for n in names}
    reps = []
    converging = rng.random() < 0.2       # a curve that has converged: all values within a few 2^-30 of each other
    base = float(rng.randint(-8, 8)) / rng.choice([1, 2, 8])
    for _ in range(rng.randint(0, 14)):
        v = base + rng.randint(-3, 3) * 2.0 ** -30 if converging else rnd_val(rng, rng.choice([0.0, 0.2, 0.5]))
        reps.append((rng.choice(names), v, rng.choice([0, 1, 2, 3, 3, 7, -1])))
    return dict(kind="tracker", names=names, objdir=objdir, reps=reps)


def run_tracker_impl(case):
    from keras_tuner.engine import metrics_tracking as mt
    tr = mt.MetricsTracker()
    infer = {}
    for n in case["names"]:
        infer[n] = mt.infer_metric_direction(n)
    for (n, v, st) in case["reps"]:
        if not tr.exists(n):
            tr.register(n, direction=case["objdir"][n])
        tr.update(n, v, step=st)
    out = {}
    for n in case["names"]:
        if not tr.exists(n):
            out[n] = None
            continue
        bv = tr.get_best_value(n); bs = tr.get_best_step(n)
        out[n] = dict(dir=tr.get_direction(n), bv=None if bv is None else float(bv), bs=bs,
                      hist=[(o.step, [float(x) for x in o.value]) for o in tr.get_history(n)])
    return infer, out


def spec_tracker(case, infer, out):
    """Property C18 stated directly on the implementation's output (used to decide whether a DIFF is a violation)."""
    for n in case["names"]:
        reps = [(v, st) for (m, v, st) in case["reps"] if m == n]
        o = out[n]
        if not reps:
            if o is not None and (o["bv"] is not None or o["hist"]):
                return "metric %s has data without reports" % n
            continue
        want_dir = case["objdir"][n] or infer[n] or "min"
        if o["dir"] != want_dir:
            return "direction of %s is %s, expected %s" % (n, o["dir"], want_dir)
        steps = {}
        for v, st in reps:
            steps.setdefault(st, []).append(v)
        hist = o["hist"]
        if [s for s, _ in hist] != sorted(steps):
            return "history of %s not in step order / wrong steps: %r" % (n, [s for s, _ in hist])
        for s, vals in hist:
            if [repr(x) for x in vals] != [repr(x) for x in steps[s]]:
                return "executions at step %r of %s are %r, reported %r" % (s, n, vals, steps[s])
        def mean(vs):
            if any(x != x for x in vs): return float("nan")
            if math.inf in vs and -math.inf in vs: return float("nan")
            if math.inf in vs: return math.inf
            if -math.inf in vs: return -math.inf
            return sum(F(x) for x in vs) / len(vs)
        means = {s: mean(vs) for s, vs in steps.items()}
        good = [m for m in means.values() if m == m]
        if not good:
            if o["bv"] == o["bv"]:
                return "all means NaN but best value %r" % o["bv"]
            continue
        best = max(good) if want_dir == "max" else min(good)
        if o["bv"] != o["bv"] or (o["bv"] in (math.inf, -math.inf)) != (best in (math.inf, -math.inf)) or \
                abs(F(o["bv"]) - best if best not in (math.inf, -math.inf) else (0 if o["bv"] == best else 1)) > F(1, 2 ** 40):
            return "best value of %s is %r, expected %s" % (n, o["bv"], best)
        first = [s for s in steps if means[s] == best][0]   # insertion order of first report
        if o["bs"] != first:
            return "best step of %s is %r, expected %r" % (n, o["bs"], first)
    return None


def emit_tracker(case, infer, out, I):
    def d(x):
        return "None" if x is None else "(Some %s)" % emit.b(x == "max")
    names = emit.cl(emit.pos(I(n)) for n in case["names"])
    inf = emit.cl("(%s, %s)" % (emit.pos(I(n)), d(infer[n])) for n in case["names"])
    reps = emit.cl("(%s, %s, %s, %s)" % (emit.pos(I(n)), d(case["objdir"][n]), fvq(v), emit.z(st)) for (n, v, st) in case["reps"])
    exp = []
    for n in case["names"]:
        o = out[n]
        if o is None:
            exp.append("None")
        else:
            exp.append("(Some (%s, %s, %s, %s))" % (emit.b(o["dir"] == "max"), emit.opt(o["bv"], fvq), emit.opt(o["bs"], emit.z),
                       emit.cl("(%s, %s)" % (emit.z(s), emit.cl(fvq(x) for x in vals)) for s, vals in o["hist"])))
    return "CTracker %s %s %s %s" % (names, inf, reps, emit.cl(exp))


# ---------------------------------------------------------------- part B: result conversion
def gen_result(rng, objective_names, depth=0, allow_list=True):
    r = rng.random()
    if r < 0.2:
        return ("float", rnd_val(rng, 0.1))
    if r < 0.4:
        keys = list(objective_names) + rng.sample(["aux", "val_aux"], rng.randint(0, 2))
        rng.shuffle(keys)
        return ("dict", [(k, rnd_val(rng, 0.1)) for k in keys])
    if r < 0.75 or not allow_list or depth >= 2:
        keys = list(objective_names) + rng.sample(["aux", "val_aux"], rng.randint(0, 2))
        rng.shuffle(keys)
        nep = rng.randint(1, 6)
        pool = [rnd_val(rng, rng.choice([0.0, 0.0, 0.15])) for _ in range(3)]   # few distinct values -> ties and plateaus
        return ("hist", [[(k, rng.choice(pool)) for k in keys] for _ in range(nep)])
    return ("list", [gen_result(rng, objective_names, depth + 1) for _ in range(rng.randint(1, 4))])


def gen_convert_case(rng):
    if rng.random() < 0.6:
        obj = ("single", "score", rng.choice(["min", "max"]))
        names = ["score"]
    else:
        parts = [("a", rng.choice(["min", "max"])), ("b", rng.choice(["min", "max"]))][: rng.randint(1, 2)]
        obj = ("multi", parts)
        names = [p[0] for p in parts]
    res = gen_result(rng, names)
    if obj[0] == "multi":
        # dict / float results are not meaningful for a multi-objective (they lack the summed key): use Histories
        res = _force_hist(rng, res, names)
    return dict(kind="convert", obj=obj, res=res)


def _force_hist(rng, res, names):
    k = res[0]
    if k == "list":
        return ("list", [_force_hist(rng, x, names) for x in res[1]])
    if k == "hist":
        return res
    return ("hist", [[(n, rnd_val(rng, 0.05)) for n in names] for _ in range(rng.randint(1, 4))])


def to_py_result(res):
    import keras
    k = res[0]
    if k == "float":
        return res[1]
    if k == "dict":
        return dict(res[1])
    if k == "hist":
        h = keras.callbacks.History()
        h.history = {}
        for ep in res[1]:
            for (n, v) in ep:
                h.history.setdefault(n, []).append(v)
        return h
    return [to_py_result(x) for x in res[1]]


def run_convert_impl(case):
    import keras_tuner as kt
    from keras_tuner.engine import tuner_utils
    o = case["obj"]
    if o[0] == "single":
        obj = kt.Objective(o[1], o[2])
    else:
        from keras_tuner.engine import objective as om
        obj = om.MultiObjective([kt.Objective(n, d) for n, d in o[1]])
    try:
        py = to_py_result(case["res"])
        md = tuner_utils.convert_to_metrics_dict(py, obj)
        bs = tuner_utils.get_best_step(to_py_result(case["res"]), obj)
        return dict(md=[(k, float(v)) for k, v in md.items()], bs=int(bs), err=None)
    except Exception as e:   # e.g. KeyError for a history without the objective
        return dict(md=None, bs=None, err=type(e).__name__)


def obj_value(o, logs):
    if o[0] == "single":
        return dict(logs).get(o[1])
    tot = 0.0
    d = dict(o[1])
    for k, v in logs:
        if k in d:
            tot = tot + v if d[k] == "min" else tot - v
    return tot


def spec_convert(case, out):
    """objective(convert(results)) == mean over executions of each execution's best-epoch objective (finite values)."""
    o = case["obj"]; name = o[1] if o[0] == "single" else "multi_objective"; mx = (o[0] == "single" and o[2] == "max")

    def leaves(res):
        if res[0] == "list":
            for x in res[1]:
                yield from leaves(x)
        else:
            yield res

    def best_obj(res):
        if res[0] == "float":
            return res[1], 0
        if res[0] == "dict":
            return dict(res[1]).get(name), 0
        vals = [obj_value(o, ep) for ep in res[1]]
        if any(v is None or v != v for v in vals):
            return None, None
        b = max(vals) if mx else min(vals)
        return b, vals.index(b)

    def nested_mean(res):
        """mean of means, as average_metrics_dicts nests; returns (Fraction|None, best_step)"""
        if res[0] != "list":
            v, e = best_obj(res)
            if v is None or v != v or v in (math.inf, -math.inf):
                return None, None
            return F(v), e
        sub = [nested_mean(x) for x in res[1]]
        if any(s[0] is None for s in sub):
            return None, None
        return sum(s[0] for s in sub) / len(sub), int(F(sum(s[1] for s in sub), len(sub)))
    want, want_step = nested_mean(case["res"])
    if want is None:
        # an execution whose best-epoch objective is NaN makes the mean NaN (it is not dropped from the average)
        ls = [best_obj(x)[0] for x in leaves(case["res"])]
        if ls and all(v is not None for v in ls) and any(v != v for v in ls) and not out["err"]:
            got = dict(out["md"]).get(name)
            if got is not None and got == got:
                return "one execution's objective is NaN, the converted objective is %r instead of NaN" % (got,)
        return None     # infinity / missing objective: outside the finite statement
    if out["err"]:
        return "conversion raised %s on finite results" % out["err"]
    got = dict(out["md"]).get(name)
    if got is None or got != got or abs(F(got) - want) > F(1, 2 ** 40):
        return "objective after conversion is %r, expected mean of best-epoch objectives %s" % (got, want)
    if out["bs"] != want_step:
        return "best step %r, expected %r" % (out["bs"], want_step)
    return None


def emit_result(res, I):
    k = res[0]
    if k == "float":
        return "(RFloat %s)" % fvq(res[1])
    if k == "dict":
        return "(RDict %s)" % emit.cl("(%s, %s)" % (emit.pos(I(n)), fvq(v)) for n, v in res[1])
    if k == "hist":
        return "(RHist %s)" % emit.cl(emit.cl("(%s, %s)" % (emit.pos(I(n)), fvq(v)) for n, v in ep) for ep in res[1])
    return "(RList %s)" % emit.cl(emit_result(x, I) for x in res[1])


def emit_convert(case, out, I):
    o = case["obj"]
    if o[0] == "single":
        ob = "(OSingle %s %s)" % (emit.pos(I(o[1])), emit.b(o[2] == "max"))
    else:
        ob = "(OMulti %s %s)" % (emit.pos(I("multi_objective")), emit.cl("(%s, %s)" % (emit.pos(I(n)), emit.b(d == "max")) for n, d in o[1]))
    if out["err"]:
        exp = "None"
    else:
        exp = "(Some (%s, %s))" % (emit.cl("(%s, %s)" % (emit.pos(I(n)), fvq(v)) for n, v in out["md"]), emit.nat(out["bs"]))
    return "CConvert %s %s %s" % (ob, emit_result(case["res"], I), exp)


HEADER = r'''From Coq Require Import List ZArith QArith Qabs Bool.
Import ListNotations.
From KT Require Import Metrics.
Definition close (x y : fv) : bool := match x, y with
  | FFin a, FFin b => Qle_bool (Qabs (a - b)) (1 # 1099511627776)
  | _, _ => feq x y || (is_nan x && is_nan y) end.
Definition ofv (a b : option fv) := match a, b with None, None => true | Some x, Some y => close x y | _, _ => false end.
Definition oz (a b : option Z) := match a, b with None, None => true | Some x, Some y => Z.eqb x y | _, _ => false end.
Fixpoint leq {X} (e : X -> X -> bool) (a b : list X) := match a, b with [] , [] => true | x :: a, y :: b => e x y && leq e a b | _, _ => false end.
Definition fe (x y : fv) := feq x y || (is_nan x && is_nan y).
Definition expm := option (bool * option fv * option Z * list (Z * list fv)).
Inductive tcase :=
| CTracker (names : list mname) (infer : list (mname * option bool)) (reps : list (mname * option bool * fv * Z)) (exp : list expm)
| CConvert (o : objective) (r : result) (exp : option (mdict * nat)).
Fixpoint ilookup (n : mname) (l : list (mname * option bool)) : option bool :=
  match l with [] => None | (k, v) :: r => if Pos.eqb k n then v else ilookup n r end.
Definition check_metric (t : tracker) (n : mname) (e : expm) : bool :=
  match tlookup n t, e with
  | None, None => true
  | Some (d, o), Some (d', bv, bs, h) =>
      Bool.eqb d d' && ofv (best_value d o) bv && oz (best_step d o) bs
      && leq (fun p q => Z.eqb (fst p) (fst q) && leq fe (snd p) (snd q)) (history o) h
  | _, _ => false end.
Fixpoint check_all (t : tracker) (ns : list mname) (es : list expm) : bool :=
  match ns, es with [], [] => true | n :: ns, e :: es => check_metric t n e && check_all t ns es | _, _ => false end.
(* did the model find an objective value in every epoch it looked at?  (the implementation raises KeyError otherwise) *)
Fixpoint defined (o : objective) (r : result) : bool :=
  match r with
  | RHist eps => forallb (fun e => match obj_value o e with Some _ => true | None => false end) eps && negb (match eps with [] => true | _ => false end)
  | RList l => forallb (defined o) l && negb (match l with [] => true | _ => false end)
  | _ => true end.
Definition check (c : tcase) : bool :=
  match c with
  | CTracker names infer reps exp =>
      let t := fold_left (fun t r => let '(n, d, v, s) := r in tupdate (fun m => ilookup m infer) n d v s t) reps [] in
      check_all t names exp
  | CConvert o r exp =>
      match exp with
      | None => negb (defined o r)
      | Some (md, bs) => defined o r && leq (fun p q => Pos.eqb (fst p) (fst q) && close (snd p) (snd q)) (convert o r) md
                         && Nat.eqb (result_best_step o r) bs
      end
  end.
Definition cases : list tcase := [
'''
FOOTER = "\n].\nEval vm_compute in (map check cases).\n"


def run(ctx):
    rng = ctx.rng
    n = ctx.n(1200, 12000)
    cases = []; terms = []; outs = []
    stats = dict(tracker=0, convert=0, nan_reports=0, ties=0, lists=0, hist=0, multi=0, impl_errors=0)
    seen = set(); nontrivial = 0
    for i in range(n):
        I = emit.Intern()
        if i % 2 == 0:
            c = gen_tracker_case(rng)
            infer, out = run_tracker_impl(c)
            terms.append(emit_tracker(c, infer, out, I)); outs.append((infer, out))
            stats["tracker"] += 1
            stats["nan_reports"] += sum(1 for r in c["reps"] if r[1] != r[1])
            key = repr(c)
            nt = len(c["reps"]) >= 3 and len({r[2] for r in c["reps"]}) >= 2
        else:
            c = gen_convert_case(rng)
            out = run_convert_impl(c)
            terms.append(emit_convert(c, out, I)); outs.append(out)
            stats["convert"] += 1
            stats["impl_errors"] += 1 if out["err"] else 0
            stats["lists"] += 1 if c["res"][0] == "list" else 0
            stats["hist"] += 1 if c["res"][0] == "hist" else 0
            stats["multi"] += 1 if c["obj"][0] == "multi" else 0
            key = repr(c)
            nt = c["res"][0] in ("list", "hist") and not out["err"]
        cases.append(c)
        if nt and key not in seen:
            nontrivial += 1
        seen.add(key)
    verdicts, errors, wall = runcoq.run_cases(ctx.workdir, HEADER, terms, FOOTER, chunk=300)
    failures = []
    for path, rc, err in errors:
        failures.append(Failure("harness", "C18/coqc", "coqc failed on generated cases %s: %s" % (path, err[-400:]), {"correspondence": "C18", "file": path}))
    ndiff = 0
    for i, v in enumerate(verdicts):
        c = cases[i]
        # spec on the implementation's own output, for every case (cheap)
        msg = spec_tracker(c, *outs[i]) if c["kind"] == "tracker" else spec_convert(c, outs[i])
        if msg:
            failures.append(Failure("violation", "C18/spec-" + c["kind"], msg, {"case": c, "impl": outs[i]}))
        if v != "true":
            ndiff += 1
            if not msg:
                failures.append(Failure("diff", "C18/model-vs-impl-" + c["kind"],
                                        "Metrics.v and the implementation disagree on a generated case (verdict %s)" % v,
                                        {"correspondence": "Metrics.v vs metrics_tracking/tuner_utils", "case": c, "impl": outs[i]}))
    stats["diffs"] = ndiff; stats["coqc_wall_s"] = round(wall, 1)
    samples = [dict(case=cases[0], impl=outs[0][1]), dict(case=cases[1], impl=outs[1])]
    return dict(evaluations=n, distinct_nontrivial=nontrivial, traces_validated=n - ndiff - len(errors),
                rule="alternating (a) MetricsTracker report sequences (1-4 metrics, 0-14 reports at steps from {-1,0,1,2,3,7}, NaN/inf mixes, "
                     "objective direction passed or inferred) and (b) results of run_trial (float / dict / History / nested lists, single and "
                     "multi objective); non-trivial = distinct case with >=3 reports over >=2 steps, or a History/list result that converts without error",
                samples=samples, failures=failures, stats=stats)


def replay(ctx, doc):
    c = doc["replay"]["case"]
    if c["kind"] == "tracker":
        c["reps"] = [tuple(r) for r in c["reps"]]
        infer, out = run_tracker_impl(c)
        msg = spec_tracker(c, infer, out)
    else:
        def fix(r):
            return (r[0], [fix(x) for x in r[1]]) if r[0] == "list" else (r[0], [[tuple(kv) for kv in ep] for ep in r[1]]) if r[0] == "hist" \
                else (r[0], [tuple(kv) for kv in r[1]]) if r[0] == "dict" else tuple(r)
        c["res"] = fix(c["res"]); c["obj"] = tuple(c["obj"])
        out = run_convert_impl(c)
        msg = spec_convert(c, out)
    fs = [Failure("violation", "C18/spec-" + c["kind"], msg, {"case": c})] if msg else []
    return dict(evaluations=1, distinct_nontrivial=1, failures=fs, samples=[c], rule="replay")
