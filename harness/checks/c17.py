"""C17 - oracle operations are mutually exclusive, linearizable and never wedge.

Tie to the source: the AST translator (ktverif/translate_sync.py) regenerates coq/gen/Gen_sync.v from
keras_tuner/engine/oracle.py (synchronized.wrapped_func, the lock tables, the decorator lists) on every run; Props/C17.v
then has to re-prove well_structured Gen_sync.wrapper = true.
Search for a failing schedule on the real code: real threads under sys.settrace; thread A is parked before the k-th
line it executes inside the synchronisation wrapper (and the table helpers) for every k, thread B runs meanwhile; bodies
are instrumented to detect overlap; a third thread checks that the oracle is not wedged; calls that raise are included."""
import os, sys, threading, time, tempfile, shutil, warnings
from ktverif.framework import Failure, COQ

TRUSTED = ["AST translator harness/ktverif/translate_sync.py (fail-closed: unrecognised statements become Unknown)",
           "the step granularity of Sync.v (one step per statement of the wrapper) is at least as fine as CPython's line events; validated by the line-level schedule sweep, not proved",
           "distinct threads have distinct names (the wrapper identifies the owner by thread name)"]
ASSUMPTIONS = ["threading.Lock is a correct mutex"]
COQ_TARGETS = ["Props/C17.vo"]


def pre_build(ctx):
    from ktverif import translate_sync
    text, prog, dec = translate_sync.main(os.environ.get("KT_REPO", "/repo"))
    os.makedirs(os.path.join(COQ, "gen"), exist_ok=True)
    path = os.path.join(COQ, "gen", "Gen_sync.v")
    old = open(path).read() if os.path.exists(path) else ""
    if old != text:
        open(path, "w").write(text)
    ctx.notes.append(dict(wrapper=prog, decorated=dec))


# ------------------------------------------------------------------------------------------------ schedule sweep
def make_oracle(kind, d):
    import keras_tuner as kt
    from keras_tuner.engine import hyperparameters as hpm
    from keras_tuner.tuners import randomsearch, gridsearch
    hps = hpm.HyperParameters(); hps.Int("x", 0, 5)
    if kind == "grid":
        o = gridsearch.GridSearchOracle(objective=kt.Objective("score", "min"), hyperparameters=hps)
    else:
        o = randomsearch.RandomSearchOracle(objective=kt.Objective("score", "min"), max_trials=50, seed=3, hyperparameters=hps)
    o._set_project_dir(d, "p"); o._display.verbose = 0
    return o


class Probe:
    """detects overlapping bodies of synchronized methods on one oracle"""
    def __init__(self):
        self.inside = 0; self.max_inside = 0; self.lock = threading.Lock(); self.slow = 0.002

    def wrap(self, o, names):
        for n in names:
            orig = getattr(o, n)
            def f(*a, _orig=orig, **k):
                with self.lock:
                    self.inside += 1; self.max_inside = max(self.max_inside, self.inside)
                try:
                    # thread B dwells in its body when asked to, so that it is still inside when A is resumed
                    time.sleep(self.slow if threading.current_thread().name == "KT-B" else 0.002)
                    return _orig(*a, **k)
                finally:
                    with self.lock:
                        self.inside -= 1
            setattr(o, n, f)


def sync_files():
    import keras_tuner.engine.oracle as om
    return om.__file__


def run_schedule(kind, scenario, k, fresh=False, slow_bodies=False):
    """A is parked before its k-th line event inside the wrapper / table helpers; B runs; A resumes.
    Returns (lines_seen_by_A, problem or None)."""
    warnings.filterwarnings("ignore")
    import keras_tuner.engine.oracle as om
    d = tempfile.mkdtemp(prefix="ktv17_")
    try:
        o = make_oracle(kind, d)
        # bodies = the undecorated methods reached through the wrapper: instrument populate_space / _save_trial / _retry (inside the bodies)
        probe = Probe(); probe.slow = 0.7 if (fresh or slow_bodies) else 0.002
        probe.wrap(o, ["populate_space", "_save_trial"])
        # prepare trials so that end/update are possible without racing on set-up
        # unless `fresh`: the first concurrent use of a new oracle, whose lock / owner entries do not exist yet
        pre = pre2 = None
        if not fresh:
            pre = o.create_trial("setup0"); pre2 = o.create_trial("setup1")
        probe.max_inside = 0
        fname = om.__file__
        park = threading.Event(); resume = threading.Event(); count = [0]; parked_at = [None]
        code_names = {"wrapped_func", "_get_lock", "<lambda>"}

        def tracer(frame, event, arg):
            if frame.f_code.co_filename != fname or frame.f_code.co_name not in code_names:
                return None
            def local(frame, event, arg):
                if event == "line":
                    count[0] += 1
                    if count[0] == k:
                        parked_at[0] = "%s:%d" % (frame.f_code.co_name, frame.f_lineno)
                        park.set(); resume.wait(5)
                return local
            return local
        errors = []

        # thread B is parked once on entering the body of GridSearchOracle.end_trial, i.e. between acquiring the lock in the outer
        # wrapper and the nested synchronized call to Oracle.end_trial; it is released after A has been resumed
        import keras_tuner.tuners.gridsearch as gm
        b_park = threading.Event(); b_resume = threading.Event(); b_done = [False]

        def tracer_b(frame, event, arg):
            if frame.f_code.co_filename == gm.__file__ and frame.f_code.co_name == "end_trial" and not b_done[0]:
                b_done[0] = True; b_park.set(); b_resume.wait(5)
            return None

        def call(fn, trace=False, name=None):
            def run():
                if trace == "b":
                    sys.settrace(tracer_b)
                elif trace:
                    sys.settrace(tracer)
                try:
                    fn()
                except KeyError:
                    pass            # scripted: update_trial of an unknown trial raises inside the synchronized call
                except Exception as e:
                    errors.append("%s: %s" % (type(e).__name__, str(e)[:100]))
                finally:
                    sys.settrace(None)
            t = threading.Thread(target=run, daemon=True, name=name); t.start(); return t
        def raise_then_create():
            # a call that raises inside the synchronized method, then the same thread's next call: the first must leave nothing behind
            try: o.update_trial("nope", {"score": 1.0})
            except KeyError: pass
            o.create_trial("A")
        a_ops = {"create": lambda: o.create_trial("A"), "raise": lambda: o.update_trial("nope", {"score": 1.0}), "raise_then_create": raise_then_create,
                 "end": lambda: (setattr(pre, "status", "COMPLETED"), o.update_trial(pre.trial_id, {"score": 1.0}), o.end_trial(pre))}
        b_ops = {"create": lambda: o.create_trial("B"), "end": lambda: (setattr(pre2, "status", "COMPLETED"), o.update_trial(pre2.trial_id, {"score": 2.0}), o.end_trial(pre2)),
                 "raise": lambda: o.update_trial("nope", {"score": 1.0})}
        fa, fb = a_ops[scenario[0]], b_ops[scenario[1]]
        ta = call(fa, trace=True, name="KT-A")
        reached = park.wait(1.0)
        tb = call(fb, trace="b" if kind == "grid" and scenario[1] == "end" else False, name="KT-B")
        if kind == "grid" and scenario[1] == "end":
            b_park.wait(0.4)
        else:
            tb.join(0.4)
        resume.set()
        if kind == "grid" and scenario[1] == "end":
            ta.join(0.5)
            b_resume.set()
        ta.join(3.0); tb.join(3.0)
        if ta.is_alive() or tb.is_alive():
            ta.join(25.0); tb.join(25.0)      # a loaded machine is slow, a deadlock stays
        problem = None
        if ta.is_alive() or tb.is_alive():
            problem = ("wedged", "thread %s never returned (A parked before line %d = %s, then resumed)" % ("A" if ta.is_alive() else "B", k, parked_at[0]))
        elif probe.max_inside > 1:
            problem = ("overlap", "two synchronized bodies ran at the same time (A parked before line %d = %s)" % (k, parked_at[0]))
        elif errors:
            problem = ("error", "unexpected exception: %s (A parked before line %d = %s)" % (errors[0], k, parked_at[0]))
        else:
            # afterwards the oracle must be usable from a third thread
            done = []
            tc = threading.Thread(target=lambda: done.append(o.create_trial("C").status), daemon=True); tc.start(); tc.join(2.0)
            if tc.is_alive():
                tc.join(25.0)
            if tc.is_alive():
                problem = ("locked-after", "after both calls finished%s a third thread's create_trial blocks forever (A parked before line %d = %s)" % (
                    " (one of them raised)" if "raise" in scenario else "", k, parked_at[0]))
        return count[0], bool(reached), problem
    finally:
        shutil.rmtree(d, ignore_errors=True)


def different_oracles_independent():
    """a call blocked inside oracle 1 does not delay a call on oracle 2"""
    d1 = tempfile.mkdtemp(prefix="ktv17_"); d2 = tempfile.mkdtemp(prefix="ktv17_")
    try:
        o1 = make_oracle("random", d1); o2 = make_oracle("random", d2)
        gate = threading.Event(); orig = o1.populate_space
        o1.populate_space = lambda tid: (gate.wait(40), orig(tid))[1]
        t1 = threading.Thread(target=lambda: o1.create_trial("a"), daemon=True); t1.start(); time.sleep(0.05)
        out = []
        t2 = threading.Thread(target=lambda: out.append(o2.create_trial("b").status), daemon=True); t2.start(); t2.join(1.0)
        if t2.is_alive():
            t2.join(20.0)
        ok = not t2.is_alive()
        gate.set(); t1.join(30)
        return None if ok else ("cross-oracle-block", "create_trial on one oracle waited for a call in progress on another oracle")
    finally:
        shutil.rmtree(d1, ignore_errors=True); shutil.rmtree(d2, ignore_errors=True)


def run(ctx):
    failures = []; stats = dict(schedules=0, parked=0, by_scenario={}, lines_in_wrapper=0)
    tr = ctx.notes[-1] if ctx.notes else {}
    scenarios = [("slow", ("raise_then_create", "create")), ("fresh", ("create", "create")), ("fresh", ("create", "raise")), ("random", ("create", "create")), ("random", ("raise", "create")), ("random", ("create", "raise")), ("grid", ("end", "end")), ("grid", ("create", "end")), ("grid", ("raise", "end"))]
    if not ctx.quick:
        scenarios += [("grid", ("end", "create")), ("random", ("end", "end")), ("random", ("raise", "raise")), ("grid", ("create", "create"))]
    samples = []
    for kind, sc in scenarios:
        fresh = kind == "fresh"; slow = kind == "slow"; okind = "random" if fresh or slow else kind
        n_lines, _, _ = run_schedule(okind, sc, 10 ** 6, fresh, slow)       # no parking: count the line events of A
        stats["lines_in_wrapper"] = max(stats["lines_in_wrapper"], n_lines)
        ks = list(range(1, n_lines + 1))
        for k in ks:
            cnt, reached, problem = run_schedule(okind, sc, k, fresh, slow)
            stats["schedules"] += 1; stats["parked"] += bool(reached)
            stats["by_scenario"]["%s:%s/%s" % (kind, sc[0], sc[1])] = stats["by_scenario"].get("%s:%s/%s" % (kind, sc[0], sc[1]), 0) + 1
            if problem:
                failures.append(Failure("violation", "C17/%s" % problem[0], "%s oracle, A=%s B=%s: %s" % (kind, sc[0], sc[1], problem[1]),
                                        {"oracle": okind, "fresh": fresh, "slow": slow, "A": sc[0], "B": sc[1], "park_A_before_line_event": k}))
                break
        if len(samples) < 3:
            samples.append(dict(oracle=kind, A=sc[0], B=sc[1], preemption_points=n_lines))
    p = different_oracles_independent()
    if p:
        failures.append(Failure("violation", "C17/" + p[0], p[1], {"scenario": "two oracles"}))
    dec = dict(tr.get("decorated", []))
    if dec and not all(dec.values()):
        failures.append(Failure("violation", "C17/undecorated", "methods without @synchronized: %r" % [k for k, v in dec.items() if not v], {"decorated": dec}))
    return dict(evaluations=stats["schedules"] + 1, distinct_nontrivial=stats["parked"], traces_validated=stats["schedules"],
                rule="for each scenario (oracle kind; call(s) of thread A - one of them a raising call followed by a second call of the same thread, with slow bodies; call of thread B; calls that raise inside the synchronized method included; grid's end_trial is a nested "
                     "synchronized call) and each k up to the number of line events A executes inside the wrapper and the lock-table helpers: park A before its k-th line, "
                     "let B run, resume A; detect overlapping bodies, threads that never return, errors and an oracle left locked; plus independence of two oracles; "
                     "non-trivial = schedules in which A was actually parked",
                samples=samples + [dict(translated_wrapper=tr.get("wrapper"))], failures=failures, stats=stats, extra=dict(exhaustive=False))


def replay(ctx, doc):
    r = doc["replay"]
    fs = []
    if "park_A_before_line_event" in r:
        _, _, problem = run_schedule(r["oracle"], (r["A"], r["B"]), r["park_A_before_line_event"], r.get("fresh", False), r.get("slow", False))
        if problem:
            fs.append(Failure("violation", "C17/" + problem[0], problem[1], r))
    return dict(evaluations=1, distinct_nontrivial=1, failures=fs, samples=[r], rule="replay of one schedule")
