"""C19 - the search loop ends each started trial once, maps errors, and resumes."""
import math, random, tempfile, shutil, warnings
from ktverif import emit, runcoq, lifecycle as lc
from ktverif.framework import Failure

TRUSTED = ["run_trial is a script of per-attempt behaviours; results are floats/dicts/lists whose conversion is C18's subject",
           "populate_space of each real oracle enters the model as a recorded table",
           "an interruption is a KeyboardInterrupt raised inside run_trial; restart = new tuner object on the same directory"]
ASSUMPTIONS = ["single worker (tuner0), as BaseTuner.search runs in one process"]

ATT = ["float", "dict", "list", "nan", "raise", "failed", "fatal", "interrupt"]
W = dict(float=30, dict=12, list=10, nan=8, raise_=0)


class ScriptEnd(BaseException):
    pass


def gen_case(rng):
    cfg = lc.gen_config(rng, max_trials_choices=(1, 2, 3, 4, 5))
    if cfg["kind"] == "bayes":
        cfg["max_trials"] = rng.choice([2, 3, 4])
    if rng.random() < 0.3:
        cfg["seed"] = None
    nsess = rng.randint(1, 3)
    sessions = []
    for k in range(nsess):
        kind = "first" if k == 0 else ("overwrite" if rng.random() < 0.2 else "resume")
        script = []
        for _ in range(rng.randint(0, 9)):
            a = rng.choices(ATT, weights=[30, 10, 10, 8, 16, 10, 4, 8])[0]
            v = float(60 * rng.randint(-5, 5))
            script.append((a, v))
        sessions.append((kind, script))
    cfg["sessions"] = sessions
    return cfg


def run_impl(cfg):
    """Returns dict(sessions=[(events, outcome, snapshot)], table, attempts_used)"""
    warnings.filterwarnings("ignore")
    import keras_tuner as kt
    from keras_tuner.engine import base_tuner
    from keras_tuner import errors
    from keras_tuner import config as _cfgmod
    _cfgmod.DEBUG = False
    d = tempfile.mkdtemp(prefix="ktv19_")
    table = []
    out = []
    try:
        for kind, script in cfg["sessions"]:
            events = []; script = list(script); used = []
            o = lc.make_oracle(cfg, d)
            orig_pop = o.populate_space
            def rec(trial_id, _orig=orig_pop):
                try:
                    r = _orig(trial_id)
                except Exception as e:
                    raise lc.PopulateError(repr(e))
                table.append([r["status"], None]); return r
            o.populate_space = rec
            orig_create = o.create_trial; orig_end = o.end_trial

            class T(base_tuner.BaseTuner):
                def run_trial(self, trial, *a, **k):
                    if not script:
                        raise ScriptEnd()
                    att, v = script.pop(0); used.append((att, v))
                    events.append(("run", int(trial.trial_id)))
                    if att == "float": return v
                    if att == "dict": return {"score": v, "other": 1.0}
                    if att == "list": return [v, v + 120.0, v - 120.0]
                    if att == "nan": return float("nan")
                    if att == "raise": raise ValueError("scripted")
                    if att == "failed": raise errors.FailedTrialError("scripted")
                    if att == "fatal": raise errors.FatalValueError("scripted")
                    raise KeyboardInterrupt()
            try:
                t = T(oracle=o, directory=d, project_name="p", overwrite=(kind == "overwrite"))
            except lc.PopulateError:
                out.append(([], "ctor-error", None)); break
            ora = t.oracle
            def create(tuner_id, _c=ora.create_trial):
                before = len(table)
                tr = _c(tuner_id)
                tk = lc.token(tr.hyperparameters.values)
                if len(table) > before:
                    table[-1][1] = tk if tr.status == "RUNNING" else 0
                events.append(("resp", int(tr.trial_id), tr.status, tk))
                return tr
            def end(trial, _e=ora.end_trial):
                events.append(("end", int(trial.trial_id), trial.status))
                return _e(trial)
            ora.create_trial = create; ora.end_trial = end
            ora._display.verbose = 0
            try:
                t.search()
                outcome = "Done"
            except errors.FatalError:
                outcome = "Fatal"
            except KeyboardInterrupt:
                outcome = "Interrupted"
            except ScriptEnd:
                outcome = "ScriptEnd"
            except lc.PopulateError as e:
                outcome = "populate-error"
            except RuntimeError as e:
                outcome = "Aborted" if "consecutive failures" in str(e) else "error:" + str(e)[:100]
            lc._release(ora)
            snap = lc.snapshot(ora, d)
            out.append((events, outcome, snap, used))
            if outcome in ("populate-error",) or outcome.startswith("error"):
                break
        return dict(sessions=out, table=[tuple(x) for x in table])
    finally:
        shutil.rmtree(d, ignore_errors=True)


ESN = {"COMPLETED": 1, "INVALID": 2, "FAILED": 3}
OUTN = {"Done": 1, "Fatal": 2, "Interrupted": 3, "Aborted": 4, "OutOfFuel": 5, "ScriptEnd": 6}


def flat_session(sess):
    events, outcome, snap, used = sess
    ev = []
    for e in events:
        if e[0] == "resp":
            ev += [1, e[1], lc.STN[e[2]]]
        elif e[0] == "run":
            ev += [2, e[1]]
        else:
            ev += [3, e[1], ESN.get(e[2], 9)]
    full = lc.flat(("none",), snap)[1:]      # drop the response marker: flat_state only
    return [len(ev)] + ev + [OUTN.get(outcome, 0)] + full


def emit_case(cfg, res):
    ss = []
    for (kind, script), sess in zip(cfg["sessions"], res["sessions"]):
        k = {"first": "SFirst", "resume": "SResume", "overwrite": "SOverwrite"}[kind]
        atts = []
        for att, v in script:
            if att == "float" or att == "dict":
                atts.append("AReturn (rep %s 0)" % lc.fvq(v))
            elif att == "list":
                atts.append("AReturn (rep %s 0)" % lc.fvq(v))       # mean of [v, v+120, v-120]
            elif att == "nan":
                atts.append("AReturn (rep FNaN 0)")
            elif att == "raise":
                atts.append("ARaise")
            elif att == "failed":
                atts.append("ARaiseFailed")
            elif att == "fatal":
                atts.append("AFatal")
            else:
                atts.append("AInterrupt")
        ss.append("(%s, %s)" % (k, emit.cl(atts)))
    tb = emit.cl("(%s, %s)" % (st, emit.z(tk or 0)) for st, tk in res["table"])
    exp = emit.cl(emit.u63(emit.digest(flat_session(s))) for s in res["sessions"])
    return "(%s, %s, %s, %s, %s)" % (lc.emit_cfg(cfg), emit.b(cfg["direction"] == "max"), tb, emit.cl(ss[: len(res["sessions"])]), exp)


def spec_c19(cfg, res):
    """C19 stated on the implementation's event log."""
    prev_interrupted = None; prev_snap = None
    for si, ((kind, script), sess) in enumerate(zip(cfg["sessions"], res["sessions"])):
        if len(sess) < 4:
            return si, "exception", "tuner construction failed"
        events, outcome, snap, used = sess
        if outcome.startswith("error") or outcome == "populate-error":
            return None
        i = 0; ai = 0
        while i < len(events):
            e = events[i]
            if e[0] != "resp":
                return si, "log-shape", "unexpected event %r at position %d" % (e, i)
            if e[2] == "STOPPED":
                if i != len(events) - 1 or outcome != "Done":
                    return si, "stop", "search went on after STOPPED (outcome %s)" % outcome
                break
            if e[2] != "RUNNING":
                i += 1; continue
            if i + 1 >= len(events):
                if outcome != "ScriptEnd":
                    return si, "run-missing", "RUNNING trial %d was never run (outcome %s)" % (e[1], outcome)
                break
            r = events[i + 1]
            if r != ("run", e[1]):
                return si, "run-missing", "after RUNNING trial %d came %r" % (e[1], r)
            att = used[ai][0]; ai += 1
            want = {"float": "COMPLETED", "dict": "COMPLETED", "list": "COMPLETED", "nan": "COMPLETED", "raise": "INVALID", "failed": "FAILED"}.get(att)
            if want is None:
                if i + 2 != len(events) or outcome != ("Fatal" if att == "fatal" else "Interrupted"):
                    return si, "fatal-propagates", "attempt %s on trial %d: following events %r, outcome %s" % (att, e[1], events[i + 2:], outcome)
                break
            if i + 2 >= len(events) or events[i + 2] != ("end", e[1], want):
                return si, "end-once", "attempt %s on trial %d should be ended once as %s; next event %r" % (att, e[1], want, events[i + 2] if i + 2 < len(events) else None)
            i += 3
            if i == len(events) and outcome not in ("Aborted",):
                return si, "loop-continues", "log ends after end_trial with outcome %s" % outcome
        if outcome == "Done":
            for ti, st in enumerate(snap["st"]):
                if st not in ("COMPLETED", "FAILED"):
                    return si, "left-unfinished", "the search loop was told STOPPED while trial %d is still %s (retry queue %r)" % (ti, st, snap["rq"])
        # resume clauses
        if kind == "resume" and prev_snap is not None:
            first_running = next((e for e in events if e[0] == "resp" and e[2] == "RUNNING"), None)
            if prev_interrupted is not None and first_running is not None:
                pid, ptok = prev_interrupted
                if first_running[1] != pid or first_running[3] != ptok:
                    return si, "resume-interrupted-trial", "interrupted trial %d (values token %d) should be re-run first with the same id and values; got trial %d token %d" % (
                        pid, ptok, first_running[1], first_running[3])
            N = cfg["max_trials"]
            if N and len(snap["st"]) < len(prev_snap["st"]) - (1 if prev_interrupted else 0):
                return si, "resume-budget", "resumed search forgot trials: %d before, %d after" % (len(prev_snap["st"]), len(snap["st"]))
        if kind == "resume" and prev_snap is not None:
            for e in events:
                if e[0] == "resp" and e[2] == "RUNNING" and e[1] < len(prev_snap["st"]) and prev_snap["st"][e[1]] in ("COMPLETED", "FAILED"):
                    return si, "resume-reruns-final", "trial %d had ended %s before the restart and was handed out again by the resumed search" % (e[1], prev_snap["st"][e[1]])
        if kind == "overwrite":
            ids = [e[1] for e in events if e[0] == "resp" and e[2] == "RUNNING"]
            if ids and ids[0] != 0:
                return si, "overwrite", "overwrite=True did not start from nothing: first trial id %d" % ids[0]
        prev_interrupted = None
        if outcome in ("Interrupted", "Fatal"):
            last = [e for e in events if e[0] == "resp" and e[2] == "RUNNING"][-1]
            prev_interrupted = (last[1], last[3])
        prev_snap = snap
    return None


HEADER = """From Coq Require Import List ZArith QArith Bool Uint63.
Import ListNotations.
From KT Require Import Metrics Lifecycle LifeCorr Tuner TunerCorr.
Definition cases : list tcase := [
"""
FOOTER = "\n].\nEval vm_compute in (map check_tcase cases).\n"


def run(ctx):
    import glob, json, re
    n = ctx.n(160, 2500)
    corpus = [json.load(open(f))["cfg"] for f in sorted(glob.glob("/verif/corpus/C19/*.json"))]
    cases = []; terms = []; results = []
    stats = dict(sessions=0, attempts={}, outcomes={}, by_kind={}, resume=0, overwrite=0, seed_none=0, corpus_cases=len(corpus))
    seen = set(); distinct = 0
    for i in range(n):
        cfg = corpus[i] if i < len(corpus) else gen_case(ctx.rng)
        if i < len(corpus):
            cfg["sessions"] = [(k, [tuple(a) for a in s]) for k, s in cfg["sessions"]]
        res = run_impl(cfg)
        cases.append(cfg); results.append(res); terms.append(emit_case(cfg, res))
        stats["by_kind"][cfg["kind"]] = stats["by_kind"].get(cfg["kind"], 0) + 1
        stats["seed_none"] += cfg["seed"] is None
        for (kind, script), sess in zip(cfg["sessions"], res["sessions"]):
            stats["sessions"] += 1; stats["resume"] += kind == "resume"; stats["overwrite"] += kind == "overwrite"
            stats["outcomes"][sess[1]] = stats["outcomes"].get(sess[1], 0) + 1
            for a, _ in (sess[3] if len(sess) > 3 else []):
                stats["attempts"][a] = stats["attempts"].get(a, 0) + 1
        key = repr(cfg["sessions"]) + cfg["kind"]
        if key not in seen and sum(len(s[3]) for s in res["sessions"] if len(s) > 3) >= 3:
            distinct += 1
        seen.add(key)
    verdicts, errors, wall = runcoq.run_cases(ctx.workdir, HEADER, terms, FOOTER, chunk=100)
    failures = []
    for path, rc, err in errors:
        failures.append(Failure("harness", "C19/coqc", "coqc failed on %s: %s" % (path, err[-300:]), {"correspondence": "C19", "file": path}))
    ndiff = 0; shown = 0
    for i, v in enumerate(verdicts):
        cfg, res = cases[i], results[i]
        if any(len(s) < 4 or s[1] == "populate-error" for s in res["sessions"]):
            stats["populate_exceptions"] = stats.get("populate_exceptions", 0) + 1
            continue
        bad = spec_c19(cfg, res)
        if bad:
            si, clause, msg = bad
            failures.append(Failure("violation", "C19/" + clause, "session %d (%s oracle, seed %r): %s" % (si, cfg["kind"], cfg["seed"], msg),
                                    {"cfg": cfg, "session": si, "events": [s[0] for s in res["sessions"]][: si + 1], "outcomes": [s[1] for s in res["sessions"]]}))
        if v != "None":
            ndiff += 1
            if not bad and shown < 3:
                shown += 1
                m = re.search(r"\d+", v); k = int(m.group(0)) if m and v != "ERROR" else -1
                hdr = HEADER.replace("Definition cases : list tcase := [\n", "")
                detail = runcoq.eval_term(ctx.workdir, hdr, "tobs_at (%s) %s" % (terms[i], emit.nat(max(k, 0))), name="probe19_%d" % i) if k >= 0 else ""
                failures.append(Failure("diff", "C19/model-vs-impl", "search-loop model and BaseTuner.search disagree in session %d of a %s case" % (k, cfg["kind"]),
                                        {"correspondence": "TunerCorr.v (Tuner.v) vs BaseTuner.search", "cfg": cfg, "session": k,
                                         "impl_flat": flat_session(res["sessions"][k]) if 0 <= k < len(res["sessions"]) else None,
                                         "impl_events": res["sessions"][k][0] if 0 <= k < len(res["sessions"]) else None, "model_flat": detail[-1500:]}))
    stats["diffs"] = ndiff; stats["coqc_wall_s"] = round(wall, 1)
    return dict(evaluations=n, distinct_nontrivial=distinct, traces_validated=n - ndiff,
                rule="1-3 sessions of BaseTuner.search (first / resume with overwrite=False / overwrite=True) on the real random, grid, Hyperband and "
                     "Bayesian oracles with a scripted run_trial: per attempt return float | dict | list | NaN, raise ValueError | FailedTrialError | "
                     "FatalValueError | KeyboardInterrupt; max_trials 1-5, retries 0-2, failure limit 1-9, 30% of cases with seed=None; event log "
                     "(create responses, run_trial calls, end_trial calls) and the oracle's bookkeeping at the end of every session are compared with the "
                     "model; non-trivial = distinct case with >= 3 attempts consumed",
                samples=[dict(cfg=cases[0], events=[s[0] for s in results[0]["sessions"]], outcomes=[s[1] for s in results[0]["sessions"]])],
                failures=failures, stats=stats)


def replay(ctx, doc):
    cfg = doc["replay"]["cfg"]
    cfg["sessions"] = [(k, [tuple(a) for a in s]) for k, s in cfg["sessions"]]
    res = run_impl(cfg)
    bad = spec_c19(cfg, res)
    fs = [Failure("violation", "C19/" + bad[1], "session %d: %s" % (bad[0], bad[2]), {"cfg": cfg})] if bad else []
    return dict(evaluations=1, distinct_nontrivial=1, failures=fs, samples=[cfg], rule="replay")
