#!/usr/bin/env python3
"""Regenerate /verif/MANIFEST.json from the table below (one entry per claimed property)."""
import json, os

CLAIMED = {
    "C16": ("Coq proof on ProtoHp.v (decoded search space is a permutation of the encoded one and parents-first for every space a build program produces) + implementation-level differential through serialised protocol-buffer messages and an in-process client/servicer pair",
            "C16_nothing_lost_or_added, C16_parents_first (stable sort on the number of conditions after the by-kind grouping of the schema), C16_program_space (every container built by a program satisfies the depth hypothesis). "
            "PARTIAL: the rest is checked on the implementation with every request and response serialised and parsed: spaces+values and trials (status, id, values exact and untyped-changed, scores/metrics up to single precision) round trip; "
            "one request sequence applied to an oracle directly and through OracleClient->OracleServicer gives the same lifecycle on all four oracle kinds, the same values while the chief knows the space, a parents-first chief space and "
            "exactly-active trials on the chief when sub-spaces are declared on the worker; exit_chief iff nothing ongoing and no tuner id left.",
            "Trusted: Coq kernel/vm_compute; python harness; protobuf wire format (exercised, sockets/gRPC not); container model tied to the code by C13.", "DESIGN.md section 6 C16"),
    "C15": ("Coq proof of the round trips visible in the models (MetricHistory codec, trial file, oracle state, container copy) + implementation-level round trips through real JSON text for every serialisable type",
            "C15_metric_history_roundtrip: for every history built by reports (steps distinct: C15_reports_keep_steps_distinct) from_config(get_config(h)) keeps for every step exactly its executions, lists them in step order, and is "
            "a fixed point of a second round trip; C15_trial_file_roundtrip; C15_oracle_state_roundtrip (with C07). PARTIAL: per-kind hyperparameter configs, Trial fields, tracker directions and JSON itself are not modelled - they are checked "
            "on generated instances through json.dumps/loads: equality of every observable field, idempotence of the JSON text, independence of copy(), oracle get_state/set_state on states reached by schedules of the four oracle kinds.",
            "Trusted: Coq kernel/vm_compute; python harness; json module; the list of observables stated in the evidence.", "DESIGN.md section 6 C15"),
    "C20": ("Coq proof on Checkpoint.v (the shared SaveBestEpoch callback keeps the first epoch attaining the best value over all executions; it agrees with the History post-processing for one execution) + end-to-end searches with the real tuners, callbacks and checkpoint files",
            "C20_callback_keeps_first_best (for every finite curve, direction, number of executions: the last save is the first epoch attaining the best value in execution-major order), C20_selectors_agree (for one execution the kept epoch is the "
            "epoch whose value and index are reported to the oracle), C20_first_best_unique; also over integers. PARTIAL by nature: that Keras save_weights/load_weights restore the arrays and that fit honours initial_epoch are observed, not proved: "
            "the real RandomSearch/GridSearch/BayesianOptimization/Hyperband tuners run end to end with a hypermodel whose fit replays generated curves through the real callbacks on a real one-weight model, stamping the weight per (trial, execution, epoch); "
            "every trial's checkpoint and get_best_models are loaded for real; a promoted Hyperband trial must start from its parent's kept stamp and train exactly [initial_epoch, epochs).",
            "Trusted: Coq kernel/vm_compute; python harness; Keras checkpoint I/O and fit's epoch protocol (scripted fit follows it); finite curves only.", "DESIGN.md section 6 C20"),
    "C17": ("Coq proof on Sync.v (interleaving semantics of the synchronisation wrapper: invariant, mutual exclusion, re-entrancy, exception safety, no wedge) tied to the source by an AST translator regenerating Gen_sync.v on every run + line-level schedule sweep on real threads",
            "The fail-closed translator turns synchronized.wrapped_func, the lock-table helpers and the decorator lists of oracle.py / gridsearch.py / oracle_chief.py into an instruction list; C17_source_shape re-proves on every run that it has "
            "the shape the semantics is about (owner read creates nothing; atomic lock lookup; acquire before set-owner; call inside try; finally clears the owner and THEN releases) and C17_all_decorated that the five operations carry the decorator. "
            "For every reachable configuration of any number of threads, nesting depth and bodies that return or raise at any point: C17_mutual_exclusion (whoever is in a body holds the lock; bodies never overlap, hence linearizable in "
            "acquisition order), C17_reentrant_never_waits, C17_exception_releases, C17_no_wedge. When the shape obligation fails, or always as a search, real threads are driven under sys.settrace: A parked before each of its line events in "
            "the wrapper, B run meanwhile (parked before its nested call for grid), overlap / wedge / locked-after detected.",
            "Trusted: Coq kernel; the translator; that the IR step granularity is at least as fine as CPython line events (validated by the sweep); distinct thread names; one lock per oracle means different oracles are independent instances.", "DESIGN.md section 6 C17"),
    "C10": ("Coq proof on HB.v (schedule theorem for populate_space, bracket invariant BOK in every reachable state of the lifecycle core instantiated with Hyperband, promoted-is-winner) + differential correspondence with HyperbandOracle",
            "C10_schedule: every trial populate_space issues carries the bracket it is placed in, its round, epochs = ceil(max_epochs/factor^(bracket-round)), initial epoch 0 in round 0 and the previous round's epochs otherwise, "
            "a parent iff round > 0. C10_invariant: in EVERY reachable state (any number of tuners, finishing orders, score ties, failures, retries, reloads) every live or archived bracket satisfies BOK: no round above capacity, ids "
            "and parents distinct, every promoted entry continues a COMPLETED trial of the previous round of its bracket. C10_promoted_is_winner: fewer trials of that round score strictly better than the parent than the next round has "
            "places. Tie: HB.v evaluated inside Coq on the same multi-worker histories as the real oracle (size table read from _get_size), all tuner/* entries and lifecycle bookkeeping compared; plus the property checked directly "
            "on the implementation's bracket book at every promotion and at the end.",
            "Trusted: Coq kernel/vm_compute; python harness; round sizes as a table with sizes b 0 >= 1; huge search space so that sampling never collides; 'identical values' of a promoted trial is checked on the implementation.", "DESIGN.md section 6 C10"),
    "C11": ("Coq proof (IDLE only if ongoing for every populate with that contract + the contract for the Hyperband/grid/random models; run-count invariant; termination of the sequential loop; STOPPED reasons) + fair-schedule exploration on the four real oracles",
            "C11_idle_only_if_busy + C11_hyperband_idle/C11_grid_idle/C11_random_idle; C11_runs_bounded(_step): run counters <= max_retries+1 in every reachable state incl. reloads, hence at most (max_retries+1)*#trials runs; "
            "C11_search_terminates; C11_stopped_reason + C11_hyperband_stopped/C11_random_stopped (and C09_stopped_complete for grid): STOPPED only when the budget is used up, the Hyperband sweep is at bracket 0 of the last iteration with no "
            "open bracket able to take/promote a trial, the sampling loop gave up, or every grid combination was tried; C11_bayes_idle / C11_bayes_stopped: the Bayesian glue (BayesSym.v) never answers IDLE itself and stops only when its warm-up sampler gives up. Fair termination with several workers follows from these and is exercised on the real oracles: fair worker pools "
            "run to global STOPPED under a step cap (all-fail / all-invalid patterns, spaces declared only inside trials), checking IDLE-only-with-ongoing, the run bound and a reason for every STOPPED.",
            "Trusted: Coq kernel; the oracle models are tied to the code by the correspondences of C01/C06/C09/C10 (Bayesian glue: C04/C05 correspondences; its Gaussian process is uninterpreted); fairness realised by the harness.", "DESIGN.md section 6 C11"),
    "C09": ("Coq proof chain on the grid model (G3/G4/GP/GQ/GR/GT2: successor, compare = rank order, oracle invariant over all runs, STOPPED => permutation of all combinations) + differential correspondence with GridSearchOracle",
            "C09_successor: _get_next_combination is the successor function of the lexicographic enumeration `combos` of the valid assignments (conditions nested to any depth); C09_compare: _compare is the order of positions; "
            "C09_invariant: the invariant GInv (ordered list strictly increasing in rank from rank 0, every element closed / pending / ongoing) holds in every state of every run - any number of tuners, any finishing order, "
            "INVALID/FAILED/retry patterns; C09_stopped_complete: whenever populate_space answers STOPPED the trials' values are a permutation of all combinations (each exactly once; the first is all-defaults); C09_invariant_reload: the same invariant with save+reload at any point of the run (linked list and pending queue persisted, payloads back from the trial files: LSync.DSync). PARTIAL: spaces discovered "
            "while trials run are explored on the implementation (exactly-once at STOPPED over the final space; end_trial also called with reconstructed trial copies), not proved.",
            "Trusted: Coq kernel/vm_compute; python harness; values interned as positions in [default]+values; static well-ordered space with distinct names; max_trials=None, failure limit not reached.", "DESIGN.md section 6 C09"),
    "C06": ("Coq proof on Rand.v (sampling loop, tried set, re-hash at end_trial; invariant TInv and run-level pairwise distinctness for static spaces; bounded effort) + differential correspondence with RandomSearchOracle",
            "C06_sample_is_fresh: what _random_values returns is not in the tried set; C06_step: the invariant 'every stored trial is in the tried set under its id' is preserved and a newly created trial differs from every stored one; "
            "C06_distinct_run: in every reachable state of any run over a static space (tuners hand back the values they got, no reload) stored trials carry pairwise different values, for any seeded sample table, any number of tuners, "
            "retries and failures; C06_bounded_effort: at most fuel*|space| seeded draws per request, then STOPPED. C06_distinct_run_reload: the same with save+reload at any point (tried set and id->hash table are saved state; values come back from the trial files, LSync.DSyncP). PARTIAL: growth of the space during the search is covered by the correspondence and by the "
            "implementation-level duplicate check (random, Hyperband first rounds, Bayesian warm-up), not by the theorem.",
            "Trusted: Coq kernel/vm_compute; python harness; sha256 modelled as identity on the values map (collision free, unambiguous k=v string); seeded samples enter as a recomputed table.", "DESIGN.md section 6 C06"),
    "C05": ("Coq proof of exact coverage by ensure_active_values on the container model (Cover.v) + domain theorems of C14 + implementation-level check of every issued trial on the four real oracles",
            "C05_exactly_active: for any search space in which parents precede children and names are distinct (C13_parents_first shows build programs produce such spaces) and ANY input values, after "
            "ensure_active_values - which Oracle._record_values applies to every new trial of every oracle kind - a name has a value iff its entry is active; names outside the space (tuner/*) are untouched. "
            "Per oracle: C05_random_values_exactly_active (whatever _random_values returns - random search, Hyperband first rounds, Bayesian warm-up - is valued on exactly the active entries, for every sample table, "
            "tried set and seed); C05_grid_combination_valid + C05_grid_trials_valid (every combination of the grid enumeration, hence - by the invariant of C09_invariant(_reload) - every trial the grid oracle holds in "
            "any state of any run, carries a value for exactly the active entries, each taken from [default]+values, and none for a name outside the space). Domain membership of what prob_to_value produces: C14. "
            "C05_bayes_vector_provenance / C05_bayes_inactive_entry_skips: for ANY space (shared names allowed) and vector, every value _vector_to_values returns was assigned by an entry of that very name and is that entry's own "
            "prob_to_value of its own component, its fixed value or its default; an entry inactive at its turn changes nothing (BayesVec.v, compared with the real method on generated spaces and vectors on every run). "
            "C05_hyperband_promotion_exactly_active / _other_entries / C05_hyperband_tuner_entries / C05_hyperband_hash_view (HBValues.v): a promoted Hyperband trial carries its parent's values plus the five tuner/* entries of the "
            "schedule, so for a space without tuner/* names every entry keeps the parent's value and activity at any promotion depth, and _compute_values_hash sees the parent plus tuner/trial_id; "
            "compared on every run with every trial a real HyperbandOracle issues on generated multi-worker histories (round 0 and promotions), evaluated in Coq. "
            "PARTIAL: the Gaussian-process side of the Bayesian oracle is not modelled: on every run each trial issued by the real "
            "random/grid/Hyperband/Bayesian oracles over generated spaces (all kinds, conditions to depth 4, names shared between exclusive branches with equal or different domains, spaces growing during the search) is checked for exact coverage and domain.",
            "Trusted: Coq kernel; the container model is tied to HyperParameters by the C13 correspondence; distinct names assumed; Bayesian oracle runs the real GP.", "DESIGN.md section 6 C05"),
    "C12": ("differential replay in fresh interpreters (different PYTHONHASHSEED and global seeds) + the models being functions of the seeded sample table only",
            "Every scenario (seeded worker-pool histories on the four real oracles with hyperparameters discovered inside trials, Hyperband promotions after the space grew, tuner constructions over "
            "declaration trees with sibling conditional scopes) is replayed in three fresh interpreters; issued ids, values (exact float bits) and the discovered space must coincide. On the Coq side the oracle models "
            "(LifeCorr/Rand/Discover) are total functions whose only random input is the seeded table samp(seed_state): after the repair of ensure_active_values there is no unseeded stream left in the model "
            "(Discover.populate_initial is instantiated with draw := default), so determinism is definitional; the correspondences of C06/C13 show the implementation is that function.",
            "Trusted: python harness; two/three runs can miss a dependence that happens to coincide; Bayesian oracle uses the real seeded GP (two-run comparison only).", "DESIGN.md section 6 C12"),
    "C13": ("Coq proof on the container model Space.v/Discover.v (lookup semantics, parents-first invariant over all build programs, new-entry flags) + differential correspondence with HyperParameters and BaseTuner construction",
            "C13_declare_* / C13_get / C13_contains: what declaring and reading return (assigned value if known and active, default if unknown, None if the conditions do not hold; ValueError vs KeyError). "
            "C13_parents_first(_inv): in every container any build program produces - name scopes and conditional scopes nested to any depth, eager or if-guarded - each entry's condition parents are registered earlier. "
            "C13_new_entries: tune_new_entries / allow_new_entries. C13_discovery_partial_correctness: for EVERY build program, when _populate_initial_space returns, every conditional scope opened in any of its builds was active in at least one of them and (allow/tune_new_entries = True) everything any build registered is in the oracle's space. PARTIAL: termination of _populate_initial_space is not proved; the real tuner constructor is compared with Discover.v (discovered space, "
            "values, number of builds, outcome) on generated programs incl. shared names, under all four flag settings.",
            "Trusted: Coq kernel/vm_compute; python harness; raw names contain no '/'; kinds enter the model through name, conditions and default only.", "DESIGN.md section 6 C13"),
    "C14": ("Coq proof: exact layer (Z/Q) + IEEE-754 binary64 layer over Flocq (FloatIndex.v, HpFloat.v) + bit-exact correspondence; libm-dependent kinds checked on the implementation only",
            "C14_float_index_range / C14_float_index_roundtrip: for EVERY finite binary64 probability in [0,1) and 1 <= n < 2^53 the float computation floor(p / fl(1/n)) clamped lies in [0,n), and the bucket centre "
            "(i+0.5)*fl(1/n) maps back to i (n < 2^50). Hence at the float level: Int with linear sampling and any step always yields a lattice point min+i*step within [min,max] (C14_int_in_domain), every lattice value "
            "round-trips (C14_int_roundtrip), the enumerated values are exactly the lattice incl. max iff step | max-min (C14_int_values, C14_max_on_lattice); Choice and Boolean likewise. Exact-layer versions without "
            "bounds. C14_int_nostep_in_range / C14_float_in_range: the return expressions of Int.prob_to_value (no step) and Float.prob_to_value (all paths), re-read from the source by a fail-closed AST translator on every run "
            "(gen/Gen_hp.v), are max(min_value, min(E, max_value)) and therefore lie in [min_value, max_value] whatever libm returned for E. PARTIAL: lattice membership and round trips of Float and log/reverse_log "
            "sampling go through libm pow/log and are checked on the implementation only (exact range on sampled values incl. a sweep of ~4000 (min,max) pairs x samplings x steps at probabilities next to 0 and 1, lattice "
            "enumeration, round trip on every enumerated value, determinism of random_sample). Tie: HpFloat.v evaluated inside Coq on 0, 1-2^-53, k/n +- 1 ulp, denormals, compared bit for bit; translator for the clamps.",
            "Trusted: Coq kernel/vm_compute; axioms of the standard library's real numbers used by Flocq (sig_forall_dec, sig_not_dec, functional_extensionality_dep, classic); CPython floats are IEEE binary64 RNE; libm not modelled; translate_hp.py (Python ast -> HpIR expressions; unknown syntax becomes EUnknown, which no proof accepts).", "DESIGN.md section 6 C14"),
    "C08": ("Coq proof over Crash.v (write-level protocol + restart procedure) + crash injection at write k on the real code with model correspondence of every write and every rebuilt state",
            "C08_any_crash_point: for EVERY search (any oracle, any op sequence), a crash after ANY number of writes, and any number of further restart/search/crash generations, the restart either finds no tuner file "
            "(fresh search) or rebuilds a state satisfying the lifecycle invariant Inv with nothing handed out - so every trial has ended or is queued to run again, ids are 0..n-1, and every C01/C02/C03/C07/C11 theorem "
            "that starts from an Inv state applies to the resumed search; proved via a directory-level invariant DirOK preserved by every single write (CrashAll.v). C08_budget: the rebuilt state never holds more than "
            "max_trials trials. C08_restart_spec: from ANY directory content every kept trial has exactly the status/score/payload of its file (a durably recorded end never changes), orphan files are ignored, handed-out "
            "trials are queued unless their file says they ended. C08_boundary, C08_end_images, C08_end_window as before. Not a theorem: termination of the resumed tuner loop is C19_search_terminates applied from the "
            "rebuilt state; it is exercised by running every resumed search to the end. Tie: save_json interception; order and content of all writes and the rebuilt state after k writes compared with the model.",
            "Trusted: Coq kernel; python harness; each save_json is atomic; crash = BaseException before write k+1; single worker.", "DESIGN.md section 6 C08"),
    "C07": ("Coq proof over LReload.v (reload on the lifecycle core) + differential: reloaded oracle vs uninterrupted oracle on the same continuation",
            "C07_reload_shape / C07_ended_preserved / C07_waiting_requeued: for every reachable state (invariant Inv) save+reload keeps orders, retry bookkeeping and trial files, restores every ended trial "
            "exactly, restores every unfinished trial from its file with its run counter and queues it; C07_reload_is_requeue: when the algorithm state survives get_state/set_state the reloaded oracle IS the "
            "uninterrupted one with running trials re-queued, so continuations coincide. Tie: (i) Reload operations inside the C01 correspondence histories (model = code after every reload, four oracle kinds); "
            "(ii) at a save point of generated histories the directory is copied and reloaded into a fresh oracle, which is compared field by field with the live oracle and then driven through the same continuation: "
            "identical issued trials for random/grid/Hyperband, valid in-budget trials for Bayesian.",
            "Trusted: Coq kernel; python harness; 'requeue' applied to the live oracle object is the reference; saving at operation boundaries only (crash points are C08).", "DESIGN.md section 6 C07"),
    "C19": ("Coq proof over Tuner.v (search loop on the lifecycle core, scripted run_trial): log well-formedness, resume theorem, termination bound + differential correspondence with BaseTuner.search",
            "C19_search_log: for every oracle (populate), script and configuration the event log of the loop satisfies check_log (each RUNNING response -> run_trial -> exactly one end_trial with COMPLETED / INVALID / "
            "FAILED mapped from returned / ordinary exception / FailedTrialError; fatal errors and interruptions propagate with no end_trial; IDLE -> ask again; STOPPED -> leave). C19_resume: after an interruption the reloaded "
            "oracle re-issues the interrupted trial first with its id and stored values, consuming no budget. C19_search_terminates: at most (max_retries+1)*max_trials runs. Tie: sessions of the real BaseTuner.search "
            "(first / resume / overwrite) with scripted run_trial on the four real oracles; event logs and end-of-session bookkeeping compared with the model.",
            "Trusted: Coq kernel/vm_compute; python harness; run_trial is a script; populate_space as recorded table; interruption = KeyboardInterrupt in run_trial; single worker.", "DESIGN.md section 6 C19"),
    "C04": ("Coq proof over Best.v (stable sort model of get_best_trials) and HBSym.v + differential correspondence + two-run symmetry monitor",
            "C04_completed_first / C04_sorted / C04_left_out / C04_length: for every trial multiset, direction and n the result is the n best COMPLETED trials in the objective's order with no "
            "non-completed trial ahead of a completed one; C04_ranking_symmetric: maximising s ranks exactly like minimising -s, ties included; C04_hyperband_symmetric: Hyperband's promotion "
            "issues the same trial under (flip direction, negate scores); C04_search_symmetric: for the generic lifecycle core two oracles whose score functions differ by the sign of the objective and whose populate_space cannot tell them apart answer EVERY request of ANY history identically (any number of tuners, retries, aborts, reloads), and C04_hyperband_search_symmetric instantiates it for Hyperband (the random and grid models carry no scores at all). Tie: get_best_trials of a real oracle vs the model on generated trial sets (tie order included); the same seeded history "
            "run on all four real oracles with (max, s) and (min, -s) must issue identical trials and rankings. C04_bayes_populate_symmetric / C04_bayes_search_symmetric: the Bayesian oracle's glue (populate_space / _vectorize_trials: which trials enter the training set, order, sign, "
            "estimates of ongoing trials by the model fitted last, end of the warm-up) modelled in BayesSym.v with value_to_prob / GP fit / predict / the seeded optimiser as uninterpreted functions of their inputs: the minimising oracle on negated scores hands the GP the training set of the maximising one, "
            "so every request of every history is answered identically; BayesSym.vectorize is compared on every run with the real _vectorize_trials (stubbed GP) on states reached by worker-pool histories.",
            "Trusted: Coq kernel/vm_compute; python harness; Python sorted() stable; numpy / scikit-learn / scipy are deterministic functions of their inputs and seeds (the Bayesian theorem is modulo that; the two-run monitor exercises it with the real GP).", "DESIGN.md section 6 C04"),
    "C01": ("Coq proof (invariant by induction over all operation sequences, for every populate_space) + differential correspondence of the lifecycle core with the four real oracles",
            "C01_lifecycle proves the invariant Inv (unique ids in start order; ongoing injective and RUNNING; ongoing / retry queue / end_order disjoint; every trial handed out, queued or ended; "
            "end_order only ended trials; COMPLETED has a non-NaN score; trial files agree) and C01_listed + C01_exactly_one that every ended trial is in end_order (exact three-way partition) in every reachable state for every history of create/update/end/reload, every "
            "number of tuners and EVERY populate_space (the proof never unfolds the algorithm); C01_same_trial, C01_never_reissue_final and C01_never_reissue_ended cover the responses. The core is tied to "
            "the code on every run: each generated history is executed on the real random/grid/Hyperband/Bayesian oracles and the model reproduces the complete bookkeeping after every call.",
            "Trusted: Coq kernel/vm_compute; python harness; populate_space enters as a recorded table; sha256 token identifies a values dict; inadmissible calls (ending a trial "
            "not handed out) are outside the property.", "DESIGN.md section 6 C01"),
    "C02": ("Coq proof (budget invariant over all histories incl. save/reload, every populate_space) + differential correspondence",
            "C02_budget: length trials <= N in every reachable state; C02_retry_reuses_trial: a retry re-issues an existing trial; C02_stopped: at the budget with no retry pending the answer is STOPPED "
            "and nothing changes. Tie: same lifecycle correspondence on random/grid/Bayesian oracles with N in 1..6, remaining_trials() compared after every call; plus resumed projects whose new oracle has max_trials <= the number of trials already held (every request STOPPED, no new trial; implementation-level clause, the model keeps N fixed).",
            "Trusted: as C01.", "DESIGN.md section 6 C02"),
    "C03": ("Coq proof (end_trial outcome theorem, absorbing final states over all runs, abort iff streak) + differential correspondence",
            "C03_end_outcome (INVALID re-queued while runs <= max_retries, FAILED afterwards, COMPLETED carries the score of the payload sent), C03_retry_first, C03_reissue_same_values (same values, fresh metrics), "
            "C03_final_absorbing (status and score of COMPLETED/FAILED trials never change again, under every operation), C03_abort_iff + C03_streak_spec (abort raised exactly on K consecutive FAILED in finishing order). "
            "Tie: lifecycle correspondence with a retry-heavy outcome mix; the implementation trace is also checked directly against 'score of a normal retry = that run's score'.",
            "Trusted: as C01; scores modelled over exact rationals (reports are multiples of 60 so per-step means are exact).", "DESIGN.md section 6 C03"),
    # id: (technique, level text, level note, design ref)
    "C18": ("Coq proof over Metrics.v (exact rationals + NaN/inf) + differential correspondence with metrics_tracking/tuner_utils",
            "Theorems C18_* (Props/C18.v) prove for all report sequences / results: per-step recording, nanmin/nanmax best value, first best "
            "step, sorted permutation history, conversion of float/dict/History/list results, objective of a list = mean of per-execution "
            "best-epoch objectives, best epoch = first epoch attaining the optimum, multi-objective = sum(min) - sum(max). The model is tied to "
            "the code on every run by evaluating it inside Coq on the same generated inputs as the implementation and comparing all outputs.",
            "Trusted: Coq kernel/vm_compute; python harness; numpy mean/nanmin/nanmax modelled over exact rationals (inputs kept dyadic so float "
            "and rational comparisons agree); History objects built by hand.", "DESIGN.md section 6 C18"),
}
PENDING_REASON = "check not yet built in this revision of /verif (work in progress; see DESIGN.md section 6 for the planned theorem and tie)"


def main():
    ids = [json.loads(l)["id"] for l in open("/verif/properties.jsonl")]
    checks = []
    for pid in ids:
        if pid not in CLAIMED:
            continue
        tech, text, note, ref = CLAIMED[pid]
        checks.append(dict(property_id=pid, quick_cmd="bin/check %s --tier quick" % pid, thorough_cmd="bin/check %s --tier thorough" % pid,
                           evidence_file="/verif/evidence/%s.json" % pid, replay_cmd_template="bin/check %s --replay {path}" % pid,
                           engine="coq-kt", level_claimed=dict(category="proof", text=text, design_ref=ref), level_note=note, technique=tech))
    m = dict(version=1, setup_cmd="bin/setup",
             hooks=dict(guard="KERAS_TUNER_VERIF", enable="no source hooks: the harness monkeypatches module attributes from its own process; "
                        "bin/check exports KERAS_TUNER_VERIF=1 for uniformity", baseline_off_cmd="cd /repo && /venv/bin/python -m pytest -q -p no:cacheprovider --timeout=900 keras_tuner",
                        source_commits=[], add_only=True),
             engines=[dict(name="coq-kt", path="/verif/coq", serves_properties=sorted(CLAIMED), kind_free_text="Coq 8.16.1 development (logical root KT) + python correspondence harness /verif/harness driven by bin/check")],
             checks=checks,
             notes="Machine-checked proof in Coq over executable models of the KerasTuner code; models tied to /repo on every run by differential correspondence (and AST translation for C17). See DESIGN.md.",
             not_applicable=[dict(property_id=p, reason=PENDING_REASON) for p in ids if p not in CLAIMED])
    json.dump(m, open("/verif/MANIFEST.json", "w"), indent=1)


if __name__ == "__main__":
    main()
