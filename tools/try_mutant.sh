#!/bin/bash
# tools/try_mutant.sh <seeded-id> <check ids...> : apply seeded/<id>/patch.diff to /repo, run checks, undo.
id=$1; shift
cd /repo || exit 2
if ! git diff --quiet; then echo "repo dirty"; exit 2; fi
if ! patch -p1 --no-backup-if-mismatch -s < /verif/seeded/$id/patch.diff; then echo "PATCH FAILED"; git checkout -- .; exit 2; fi
cd /verif
for c in "$@"; do
  VERIF_EVIDENCE_DIR=/verif/build/mutant_evidence VERIF_SEED=${VERIF_SEED:-777} bin/check $c --no-build 2>&1 | grep -E "^VIOLATION|^KNOWN|^  C[0-9]+/|quick:|thorough:" | cut -c1-300
done
git -C /repo checkout -- . ; git -C /repo status --short | head -3
