#!/bin/bash
# tools/try_mutant_wt.sh <worktree-with-the-change-applied> <check ids...> : quick triage of a seeded change WITHOUT touching /repo:
# the checks read the package from the given worktree (KT_REPO). Not for C14/C17 (their translators regenerate shared files);
# the record in seeded/REGRESSION.txt always comes from tools/all_mutants.sh, which applies the change to /repo itself.
wt=$1; shift
for c in "$@"; do
  KT_REPO=$wt VERIF_EVIDENCE_DIR=/verif/build/mutant_evidence VERIF_SEED=${VERIF_SEED:-777} /verif/bin/check $c --no-build 2>&1 | grep -E "^VIOLATION|^KNOWN|^  C[0-9]+/|quick:|thorough:" | cut -c1-300
done
