#!/bin/bash
# independent re-check of every compiled Props file (and everything it depends on) with coqchk; lists the axioms relied on
cd /verif/coq || exit 2
mods=$(ls Props/*.v | sed 's|Props/\(.*\)\.v|KT.Props.\1|')
( ulimit -s unlimited; timeout 7200 coqchk -silent -o -Q . KT $mods ) > /verif/evidence/coqchk.txt 2>&1
echo "exit $?" >> /verif/evidence/coqchk.txt
tail -30 /verif/evidence/coqchk.txt
