#!/usr/bin/env python3
"""Print the sub-agent prompt for one property (only the property text + a worktree path)."""
import json, sys
pid = sys.argv[1]
wt = sys.argv[2] if len(sys.argv) > 2 else f"/tmp/wt/{pid}"
avoid = sys.argv[3] if len(sys.argv) > 3 else ""
for l in open('/verif/properties.jsonl'):
    p = json.loads(l)
    if p['id'] == pid:
        break
else:
    sys.exit('no such property')
print(f"""You are helping to evaluate a verification effort by writing a realistic *bug injection* for the Python library keras-team/keras-tuner (KerasTuner, a hyperparameter search library).

Your private scratch copy of the repository is the git worktree {wt} (work ONLY there; never touch /repo or /verif, and do not read anything under /verif). Run python as: `cd {wt} && PYTHONPATH={wt} TF_CPP_MIN_LOG_LEVEL=3 /venv/bin/python ...` and first confirm with `python -c "import keras_tuner; print(keras_tuner.__file__)"` that the worktree copy is the one imported (import takes ~7 s). There is no network.

The semantic property to break:

  Title: {p['title']}
  Statement: {p['statement']}
  Quantified over: {p['quantifier']['text']}
  Relevant files: {', '.join(p['anchors']['files'])}

Task: make ONE small, realistic source change (the kind of slip or well-meant "optimisation"/refactor a maintainer could really commit; 1-15 changed lines, not a comment, not test code) under {wt}/keras_tuner/ that makes this property FALSE for some inputs/schedules/histories, while the package still imports and the EXISTING test-suite still passes. The change must NOT be one that ordinary use would expose at once: it should need something specific to manifest - a particular interleaving of requests from several tuner ids, a crash/fault/exception at a particular point, a multi-step sequence of operations, an unusual input (boundary value, tie, NaN, nesting, particular step/min/max), or two cooperating sites that each look fine alone. Prefer a change in the mechanism the property is anchored in (the relevant files above), not in unrelated helpers.{(" AVOID: " + avoid) if avoid else ""}

Deliver, inside {wt}:
  1. the source change itself (leave it applied in the worktree, uncommitted);
  2. `{wt}/demo_{pid}.py`: a small self-contained program (plain python, exit code 0 = property holds, exit code 1 = property violated, printing what went wrong) that exercises the public API only (oracles / tuners / hyperparameters; temp directories; no network; no sleeping longer than a second or two) and that FAILS (exit 1) with your change and PASSES (exit 0) on the unmodified code. Verify both: run it with your change, then save and revert your change with `git diff > {wt}.patch && git apply -R {wt}.patch`, run the demo again, and re-apply with `git apply {wt}.patch`. NEVER use `git stash` (the stash is shared with other worktrees of this repository).
  3. Confirm that the existing tests still pass with your change: run the test files of the modules you touched plus the obviously related ones, e.g. `cd {wt} && PYTHONPATH={wt} /venv/bin/python -m pytest -q -p no:cacheprovider -x keras_tuner/engine/oracle_test.py ...`; then run the whole suite once: `cd {wt} && PYTHONPATH={wt} /venv/bin/python -m pytest -q -p no:cacheprovider -n 4 --timeout=900 keras_tuner --deselect keras_tuner/applications/efficientnet_test.py 2>&1 | tail -15` (takes 10-20 minutes; 7 efficientnet tests and `end_to_end_test` are known to fail/flake offline and do not count). If a test fails because of your change, pick a different change.

Finally reply with: (a) the output of `git -C {wt} diff` (b) a two-sentence explanation of what the change breaks and exactly what is needed for it to manifest (c) the commands you ran and their pass/fail outcome with and without the change. Do not commit anything. Do not remove the worktree.""")
