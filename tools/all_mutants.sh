#!/bin/bash
# regression of the checks against every kept seeded change: apply, run the check(s) of its property, undo. Nothing may run
# against /repo in parallel. Output: seeded/REGRESSION.txt
cd /verif
out=seeded/REGRESSION.txt; : > $out
for d in seeded/*/; do
  id=$(basename $d); [ -f $d/patch.diff ] || continue
  prop=$(python3 -c "import json;print(json.load(open('$d/meta.json'))['property'])")
  res=$(tools/try_mutant.sh $id $prop 2>&1)
  n=$(echo "$res" | grep -c "^VIOLATION")
  echo "$id $prop violations=$n $(echo "$res" | grep -E '^  C[0-9]+/' | head -1 | cut -c1-150)" | tee -a $out
done
