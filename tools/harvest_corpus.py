#!/usr/bin/env python3
"""For every kept seeded change whose property's check reads a corpus: apply the change, run the check, take the concrete
failing case of the first `violation` replay and store it under corpus/<prop>/mut_<id>.json, so that the case that exposed the
change runs first on every later run (whatever the seed). Nothing else may use /repo meanwhile."""
import json, os, re, subprocess, sys, glob
KEY = {"C01": "cfg", "C02": "cfg", "C03": "cfg", "C05": "cfg", "C07": "cfg", "C08": "cfg", "C11": "cfg", "C16": "cfg", "C19": "cfg", "C12": "scenario", "C10": "case", "C06": "seed", "C09": "case", "C13": "case13", "C20": "cfg", "C04": "cfg"}
only = set(sys.argv[1:])
for d in sorted(glob.glob("/verif/seeded/*/")):
    mid = os.path.basename(d.rstrip("/"))
    if only and mid not in only: continue
    if not os.path.exists(d + "meta.json"): continue
    prop = json.load(open(d + "meta.json"))["property"]
    if prop not in KEY: continue
    out = "/verif/corpus/%s/mut_%s.json" % (prop, mid)
    if os.path.exists(out): continue
    r = subprocess.run(["/verif/tools/try_mutant.sh", mid, prop], capture_output=True, text=True).stdout
    got = None
    for m in re.finditer(r"replay=(\S+)", r):
        doc = json.load(open(m.group(1)))
        if doc.get("kind") not in ("violation", "diff"): continue
        rp = doc["replay"]
        k = KEY[prop]
        if prop == "C06":
            if isinstance(rp.get("case"), dict) and "seed" in rp["case"]: got = {"seed": rp["case"]["seed"]}
        elif prop == "C10":
            c = rp.get("case")
            if isinstance(c, dict) and all(x in c for x in ("cfg", "W", "nsteps", "seed")): got = {"case": {x: c[x] for x in ("cfg", "W", "nsteps", "seed")}}
        elif prop == "C09":
            c = rp.get("case")
            if isinstance(c, dict) and "seed" in c: got = {"case": {"seed": c["seed"], "dynamic": c.get("dynamic", False), "family": c.get("family")}}
        elif prop == "C13":
            c = rp.get("case")
            if isinstance(c, dict) and "seed" in c and "kind" in c:
                got = {"kind": c["kind"], "seed": c["seed"], "allow": c.get("allow", True), "tune": c.get("tune", True), "predeclare": c.get("predeclare", False)}
            elif "seed" in rp and "program" in rp:
                got = {"kind": "discovery" if "allow" in rp else "container", "seed": rp["seed"], "allow": rp.get("allow", True), "tune": rp.get("tune", True), "predeclare": False}
        elif prop == "C12":
            if "scenario" in rp:
                sc = dict(rp["scenario"]); sc.pop("dir", None); got = {"scenario": sc}
        elif k in rp:
            got = {k: rp[k]}
        if got: break
    if got:
        os.makedirs(os.path.dirname(out), exist_ok=True)
        got["note"] = "case that exposed seeded change %s" % mid
        json.dump(got, open(out, "w"))
        print(mid, prop, "->", out)
    else:
        print(mid, prop, "no concrete replay with a reusable case")
