(* BayesianOptimizationOracle.populate_space / _vectorize_trials on the generic lifecycle core, with the numerical machinery
   (value_to_prob, GaussianProcessRegressor.fit / predict, the L-BFGS-B restarts, numpy's RandomState) as uninterpreted
   FUNCTIONS of their inputs: what is modelled is the glue - which trials enter the training set, with which sign, when the
   warm-up ends - and what is proved is that this glue is direction-symmetric (C04): the oracle that maximises s and the
   oracle that minimises -s hand identical training sets to the Gaussian process, hence issue identical trials. *)
From Coq Require Import List ZArith Bool Lia PeanoNat.
Import ListNotations.
From KT Require Import Lifecycle LSym LIdle.

Section Bayes.
Context {V Sc R GP RS Vec : Type}.
Variable neg : Sc -> Sc.
Notation trial := (trial V Sc).
Variable vdef : V.
Variable vecof : R -> V -> Vec.                 (* value_to_prob of each non-fixed entry (default for inactive / unknown ones) *)
Variable veclen : Vec -> nat.
Variable nfeat : GP -> option nat.              (* n_features_in_ of the model fitted last (None: never fitted) *)
Variable pess : GP -> Vec -> scored Sc.         (* predict: mean + std, the pessimistic estimate of an ongoing trial *)
Variable fit : list (Vec * scored Sc) -> GP.    (* nan_to_num, then GaussianProcessRegressor.fit (seeded) *)
Variable optimize : GP -> RS -> Vec * RS.       (* 50 seeded restarts of L-BFGS-B on the acquisition function *)
Variable v2v : R -> Vec -> V.                   (* _vector_to_values: BayesVec.v *)
Variable nip : R -> nat.                        (* num_initial_points or max(3 * dimensions, 3) *)
Variable rpop : R -> tid -> R * status * V.     (* _random_populate_space: never looks at a score (Rand.v) *)

Definition bstate := (R * GP * RS)%type.

(* the sign convention: scipy minimises, so a maximised objective enters negated *)
Definition yval (maximize : bool) (t : trial) : scored Sc :=
  match t_score t with
  | Some sc => if maximize then sneg neg sc else sc
  | None => SNaN
  end.

Fixpoint vectorize (maximize : bool) (r : R) (gp : GP) (ts : list trial) : list (Vec * scored Sc) :=
  match ts with
  | [] => []
  | t :: rest =>
      let vec := vecof r (t_data t) in
      match t_status t with
      | RUNNING =>      (* an ongoing trial: estimated by the model fitted last, unless that model predates the space *)
          match nfeat gp with
          | Some n => if Nat.eqb n (veclen vec) then (vec, pess gp vec) :: vectorize maximize r gp rest
                      else vectorize maximize r gp rest
          | None => (vec, pess gp vec) :: vectorize maximize r gp rest
          end
      | COMPLETED => (vec, yval maximize t) :: vectorize maximize r gp rest
      | _ => vectorize maximize r gp rest          (* FAILED / INVALID trials are skipped *)
      end
  end.

Definition ncompleted (ts : list trial) : nat := length (filter (fun t => status_eqb (t_status t) COMPLETED) ts).

Definition bpopulate (maximize : bool) (a : bstate) (ts : list trial) (ongoing_nonempty : bool) (id : tid) : bstate * status * V :=
  let '(r, gp, rs) := a in
  if Nat.ltb (ncompleted ts) (nip r) then
    let '(r', st, v) := rpop r id in ((r', gp, rs), st, v)
  else
    let gp' := fit (vectorize maximize r gp ts) in
    let '(vec, rs') := optimize gp' rs in
    ((r, gp', rs'), RUNNING, v2v r vec).

(* ---- symmetry *)
Notation ntr := (ntr neg).

Lemma ncompleted_ntr ts : ncompleted (map ntr ts) = ncompleted ts.
Proof. unfold ncompleted. induction ts as [|t r IH]; simpl; [reflexivity|]. destruct (status_eqb (t_status t) COMPLETED); simpl; now rewrite IH. Qed.

Lemma yval_sym t : yval false (ntr t) = yval true t.
Proof. unfold yval. simpl. destruct (t_score t); reflexivity. Qed.

Lemma vectorize_sym r gp ts : vectorize false r gp (map ntr ts) = vectorize true r gp ts.
Proof.
  induction ts as [|t rest IH]; simpl; [reflexivity|].
  destruct (t_status t); rewrite ?IH; try reflexivity.
  now rewrite yval_sym.
Qed.

(* the minimising oracle looking at the negated scores does exactly what the maximising oracle does *)
Theorem bpopulate_sym a ts b id : bpopulate false a (map ntr ts) b id = bpopulate true a ts b id.
Proof.
  unfold bpopulate. destruct a as [[r gp] rs]. rewrite ncompleted_ntr.
  destruct (Nat.ltb (ncompleted ts) (nip r)); [reflexivity|]. now rewrite vectorize_sym.
Qed.

(* ---- the whole search: every response to every request is identical *)
Variable score_fn : V -> scored Sc.
Variable hook_end hook_end_abort : bstate -> tid -> V -> bstate.
Variable hook_reload : bstate -> bstate.
Variable reissue : V -> V.

Theorem bayes_search_sym c (a : bstate) ops :
  map fst (run vdef (fun v => sneg neg (score_fn v)) (bpopulate false) hook_end hook_end_abort hook_reload reissue c (init a) ops)
  = map fst (run vdef score_fn (bpopulate true) hook_end hook_end_abort hook_reload reissue c (init a) ops).
Proof.
  apply (search_sym vdef neg score_fn (fun v => sneg neg (score_fn v))); [reflexivity|].
  intros s ts b id. apply bpopulate_sym.
Qed.

(* training-set facts used by the correspondence check: one row per COMPLETED trial and per estimable ongoing trial, in
   trial order; nothing for FAILED / INVALID ones *)
Lemma vectorize_length_le mx r gp ts : length (vectorize mx r gp ts) <= length ts.
Proof.
  induction ts as [|t rest IH]; simpl; [lia|].
  destruct (t_status t); simpl; try lia.
  destruct (nfeat gp) as [n|]; [destruct (Nat.eqb n _)|]; simpl; lia.
Qed.

(* ---- C11: the Bayesian oracle never answers IDLE by itself, and its own STOPPED is the warm-up sampler giving up *)
Theorem bpopulate_idle mx : (forall r id, snd (fst (rpop r id)) <> IDLE) -> idle_only_if_busy (bpopulate mx).
Proof.
  intros Hr a ts busy id. unfold bpopulate. destruct a as [[r gp] rs].
  destruct (Nat.ltb (ncompleted ts) (nip r)).
  - pose proof (Hr r id) as H. destruct (rpop r id) as [[r' st] v]. simpl in *. intros E. now elim H.
  - destruct (optimize _ rs). simpl. discriminate.
Qed.
Theorem bpopulate_stopped mx a ts busy id : snd (fst (bpopulate mx a ts busy id)) = STOPPED ->
  let '(r, _, _) := a in ncompleted ts < nip r /\ snd (fst (rpop r id)) = STOPPED.
Proof.
  unfold bpopulate. destruct a as [[r gp] rs].
  destruct (Nat.ltb (ncompleted ts) (nip r)) eqn:E.
  - apply Nat.ltb_lt in E. destruct (rpop r id) as [[r' st] v]. simpl. auto.
  - destruct (optimize _ rs). simpl. discriminate.
Qed.
End Bayes.
Print Assumptions bayes_search_sym.
