(* Concrete instance of the lifecycle core used by the correspondence harness (C01, C02, C03, C11, C19):
   payload = (token of the hyperparameter values dict, observations of the objective metric);
   populate_space is table driven: the algorithm state is the list of responses the real populate_space
   gave (every theorem about the core holds for every populate, hence for this one);
   `flat` lists every observable the harness compares, `digest` folds it into one 63-bit number. *)
From Coq Require Import List ZArith QArith Bool PeanoNat Uint63.
Import ListNotations.
From KT Require Import Metrics Lifecycle.

Record pay := { p_vals : Z; p_obs : obs }.
Definition pdef : pay := {| p_vals := 0; p_obs := [] |}.
Definition rep (v : fv) (step : Z) (p : pay) : pay := {| p_vals := p_vals p; p_obs := update (p_obs p) v step |}.
Definition setvals (z : Z) (p : pay) : pay := {| p_vals := z; p_obs := p_obs p |}.
(* create_trial on a queued trial: same values, fresh metrics *)
Definition fresh (p : pay) : pay := {| p_vals := p_vals p; p_obs := [] |}.
Definition keep (p : pay) : pay := p.
Definition pscore (mx : bool) (p : pay) : scored fv :=
  match best_value mx (p_obs p) with
  | Some v => if is_nan v then SNaN else SVal v
  | None => SNaN
  end.
Definition table := list (status * Z).
Definition tpop (a : table) (ts : list (trial pay fv)) (busy : bool) (id : tid) : table * status * pay :=
  match a with
  | [] => ([], STOPPED, pdef)
  | (st, z) :: r => (r, st, setvals z pdef)
  end.
Definition hk (a : table) (id : tid) (v : pay) : table := a.

Definition lstate := @ostate table pay fv.
Definition lop := @op pay.
Definition lrun (mx : bool) (reset : bool) (c : cfg) (tb : table) (ops : list lop) : list (@resp pay * lstate) :=
  run pdef (pscore mx) tpop hk hk (fun a => a) (if reset then fresh else keep) c (init tb) ops.

(* ---- flattening --------------------------------------------------------------------------------- *)
Definition stn (s : status) : Z := match s with RUNNING => 1 | IDLE => 2 | INVALID => 3 | STOPPED => 4 | COMPLETED => 5 | FAILED => 6 end%Z.
Definition L (xs : list Z) : list Z := Z.of_nat (length xs) :: xs.
Definition N := Z.of_nat.
Definition flat_fv (a : fv) : list Z :=
  match a with
  | FNaN => [0] | FNInf => [1] | FPInf => [2]
  | FFin q => let r := Qred q in [3; Qnum r; Zpos (Qden r)]
  end%Z.
Definition flat_score (s : option (scored fv)) : list Z :=
  match s with None => [9] | Some SNaN => [8] | Some (SVal v) => 7 :: flat_fv v end%Z.
Definition sorted_ins := fix ins (x : nat) (l : list nat) := match l with [] => [x] | y :: r => if Nat.leb x y then x :: l else y :: ins x r end.
Definition sortn (l : list nat) := fold_right sorted_ins [] l.

Definition flat_resp (r : @resp pay) : list Z :=
  match r with
  | RTrial i st v => [1; N i; stn st; p_vals v]
  | RNone => [2] | RAbort => [3] | RRejected => [4]
  end%Z.
Definition flat_state (s : lstate) : list Z :=
  L (map (fun t => stn (t_status t)) (trials s))
  ++ L (flat_map (fun t => flat_score (t_score t)) (trials s))
  ++ L (map (fun t => N (t_runs t)) (trials s))
  ++ L (map (fun t => p_vals (t_data t)) (trials s))
  ++ L (map (fun d => stn (d_status d)) (disk s))
  ++ L (flat_map (fun d => flat_score (d_score d)) (disk s))
  ++ L (map (fun d => p_vals (d_data d)) (disk s))
  ++ L (flat_map (fun p => [N (fst p); N (snd p)]) (ongoing s))
  ++ L (map N (start_order s)) ++ L (map N (end_order s)) ++ L (map N (retryq s)) ++ L (map N (sortn (tuner_ids s))).
Definition flat (rs : @resp pay * lstate) : list Z := flat_resp (fst rs) ++ flat_state (snd rs).

Definition digest (zs : list Z) : int := fold_left (fun acc z => (acc * 1000003 + Uint63.of_Z z + 12345)%uint63) zs 7%uint63.
Definition dig_of (mx reset : bool) (c : cfg) (tb : table) (ops : list lop) : list int :=
  map (fun rs => digest (flat rs)) (lrun mx reset c tb ops).
Fixpoint first_diff (n : nat) (a b : list int) : option nat :=
  match a, b with
  | [], [] => None
  | x :: a, y :: b => if Uint63.eqb x y then first_diff (S n) a b else Some n
  | _, _ => Some n
  end.
(* one case: configuration, direction, populate table, operations, expected digests -> first differing step *)
Definition lcase := (cfg * bool * bool * table * list lop * list int)%type.
Definition check_case (k : lcase) : option nat :=
  let '(c, mx, reset, tb, ops, exp) := k in first_diff 0 (dig_of mx reset c tb ops) exp.
(* for replay files: the model's full observation at one step *)
Definition obs_at (k : lcase) (n : nat) : option (list Z) :=
  let '(c, mx, reset, tb, ops, exp) := k in option_map flat (nth_error (lrun mx reset c tb ops) n).
