(* BayesianOptimizationOracle._vector_to_values: the glue between the vector the acquisition optimiser returns and the values
   of the trial. `p2v i j` stands for space[i].prob_to_value(vector[j]) (float arithmetic: C14); Fixed entries consume no
   component of the vector. No hypothesis on the space: names may be shared between entries. *)
From stdpp Require Import gmap list.
From Coq Require Import ZArith.
From KT Require Import Space Discover.

Section v2v.
Variable fixed : hp → bool.              (* isinstance(hp, Fixed) *)
Variable p2v : nat → nat → value.

Fixpoint v2v (sp : list hp) (idx vi : nat) (s : hps) : hps :=
  match sp with
  | [] => s
  | h :: rest =>
      let s1 := match register s h true with Ok (s', _) => s' | Err _ => s end in     (* hps.merge([hp]) *)
      let value := if fixed h then h_default h else p2v idx vi in
      let vi' := if fixed h then vi else S vi in
      if is_active s1 h then v2v rest (S idx) vi' (set_values s1 (<[h_name h := value]> (s_values s1)))
      else v2v rest (S idx) vi' s1
  end.
Definition vector_to_values (sp : list hp) : vals := s_values (v2v sp 0 0 empty_hps).

(* number of vector components consumed by a prefix of the space *)
Definition nf (l : list hp) : nat := length (filter (λ h, negb (fixed h)) l).
Definition ent_val (all : list hp) (i : nat) (h : hp) : value := if fixed h then h_default h else p2v i (nf (take i all)).

(* where a value comes from: an entry of that name, which was active when the value was assigned; the value is that entry's
   own prob_to_value of its own component (or its fixed value, or its default) *)
Definition Prov (all : list hp) (v : vals) : Prop :=
  ∀ n x, v !! n = Some x → ∃ i h, all !! i = Some h ∧ h_name h = n ∧ (x = ent_val all i h ∨ x = h_default h).

Lemma register_values s h s' r : register s h true = Ok (s', r) →
  s_values s' = s_values s ∨ s_values s' = <[h_name h := h_default h]> (s_values s).
Proof.
  unfold register. destruct (existsb _ (s_conds s)); [done|].
  destruct (is_active _ h); intros H; inversion H; subst; cbn; [by right|by left].
Qed.

Lemma nf_snoc l h : nf (l ++ [h]) = if fixed h then nf l else S (nf l).
Proof. unfold nf. rewrite filter_app, app_length. rewrite filter_cons, filter_nil. destruct (fixed h); cbn; [|destruct (decide _) as [_|Hn]; [cbn; lia|by destruct Hn]]. destruct (decide _) as [Hn|_]; [by destruct Hn|cbn; lia]. Qed.

Lemma v2v_prov all sp : ∀ pre idx vi s, all = pre ++ sp → idx = length pre → vi = nf pre →
  Prov all (s_values s) → Prov all (s_values (v2v sp idx vi s)).
Proof.
  induction sp as [|h rest IH]; intros pre idx vi s Hall Hidx Hvi HP; cbn [v2v]; [done|].
  assert (Hlk : all !! idx = Some h).
  { subst. rewrite lookup_app_r; [|lia]. by rewrite Nat.sub_diag. }
  assert (Htk : take idx all = pre). { subst. by rewrite take_app. }
  set (s1 := match register s h true with Ok (s', _) => s' | Err _ => s end).
  assert (HP1 : Prov all (s_values s1)).
  { subst s1. destruct (register s h true) as [[s' r]|e] eqn:Er; [|done].
    destruct (register_values _ _ _ _ Er) as [->| ->]; [done|].
    intros n x Hx. destruct (decide (n = h_name h)) as [->|Hne].
    - rewrite lookup_insert in Hx. inversion Hx; subst. exists (length pre), h. auto.
    - rewrite lookup_insert_ne in Hx; [by apply HP|done]. }
  assert (Hnext : all = (pre ++ [h]) ++ rest) by (by rewrite <- app_assoc).
  assert (Hlen : S idx = length (pre ++ [h])) by (rewrite app_length; cbn; lia).
  assert (Hvi' : (if fixed h then vi else S vi) = nf (pre ++ [h])) by (rewrite nf_snoc; by subst).
  destruct (is_active s1 h).
  - eapply IH; [exact Hnext|exact Hlen|exact Hvi'|]. cbn.
    intros n x Hx. destruct (decide (n = h_name h)) as [->|Hne].
    + rewrite lookup_insert in Hx. inversion Hx; subst x. exists idx, h. split; [done|]. split; [done|]. left.
      unfold ent_val. rewrite Htk. by subst vi.
    + rewrite lookup_insert_ne in Hx; [by apply HP1|done].
  - eapply IH; [exact Hnext|exact Hlen|exact Hvi'|done].
Qed.

Theorem vector_to_values_provenance sp : Prov sp (vector_to_values sp).
Proof.
  unfold vector_to_values. eapply (v2v_prov sp sp [] 0 0); [done|done|done|].
  intros n x Hx. cbn in Hx. by rewrite lookup_empty in Hx.
Qed.

(* an entry that is not active at its turn changes nothing: it neither assigns its name nor removes a value *)
Lemma v2v_inactive_skips h rest idx vi s : s_conds s = [] → conds_active (s_values s) (h_conds h) = false →
  v2v (h :: rest) idx vi s =
  v2v rest (S idx) (if fixed h then vi else S vi)
      {| s_scopes := s_scopes s; s_conds := s_conds s; s_space := s_space s ++ [h]; s_values := s_values s;
         s_active := s_active s; s_inactive := s_inactive s |}.
Proof.
  intros Hc Hina. cbn [v2v]. unfold register. rewrite Hc. cbn [existsb].
  unfold is_active. cbn [s_values]. rewrite Hina. cbn [s_values]. by rewrite Hina.
Qed.
End v2v.
Print Assumptions vector_to_values_provenance.
