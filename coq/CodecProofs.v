(* C15: the round trips that are visible in the lifecycle / container models *)
From Coq Require Import List ZArith Bool.
Import ListNotations.
From KT Require Import Lifecycle.

(* Trial.get_state / set_state: everything but the run counter (which lives in oracle.json) goes to the trial file and back *)
Lemma trial_file_roundtrip {V Sc} (ts : list (trial V Sc)) : from_disk ts (map (@to_disk V Sc) ts) = ts.
Proof. induction ts as [|t r IH]; simpl; [reflexivity|]. rewrite IH. destruct t; reflexivity. Qed.
