(* Oracle.update_space, HyperParameters.merge / ensure_active_values / copy,
   BaseTuner._populate_initial_space / _activate_all_conditions *)
From stdpp Require Import gmap list.
From Coq Require Import ZArith.
From KT Require Import Space.

Definition copy_hps (s : hps) : hps :=
  {| s_scopes := []; s_conds := []; s_space := s_space s; s_values := s_values s; s_active := []; s_inactive := [] |}.

(* merge(list of hp, overwrite=True) into a container with an empty condition stack *)
Definition merge_list (s : hps) (l : list hp) : hps :=
  fold_left (fun s h => match register s h true with Ok (s', _) => s' | Err _ => s end) l s.

Inductive us_res := UsOk (s : hps) | UsNotAllowed.
Definition update_space (allow tune : bool) (osp : hps) (hp : hps) : us_res :=
  let new := filter (fun h => negb (exists_ osp (h_name h) (h_conds h))) (s_space hp) in
  if negb allow && negb (Nat.eqb (length new) 0) then UsNotAllowed
  else if negb tune then UsOk osp
  else UsOk (merge_list osp new).

(* ensure_active_values; `draw k h` is the k-th unseeded random_sample(), taken for entry h *)
Section ensure.
Variable draw : nat -> hp -> value.
(* reference version without the same-name guard (what ensure_active_values does when names are distinct) *)
Fixpoint ensure_go0 (sp : list hp) (v : vals) (k : nat) : vals * nat :=
  match sp with
  | [] => (v, k)
  | h :: rest =>
      if conds_active v (h_conds h) then
        match v !! h_name h with
        | Some _ => ensure_go0 rest v k
        | None => ensure_go0 rest (<[h_name h := draw k h]> v) (S k)
        end
      else ensure_go0 rest (delete (h_name h) v) k
  end.
(* HyperParameters.is_active(name): some entry of that name is active *)
Definition name_active (all : list hp) (v : vals) (n : name) : bool :=
  existsb (fun h' => bool_decide (h_name h' = n) && conds_active v (h_conds h')) all.
(* the source: an inactive entry drops the value of its name only if no other entry of that name is active *)
Fixpoint ensure_go (all sp : list hp) (v : vals) (k : nat) : vals * nat :=
  match sp with
  | [] => (v, k)
  | h :: rest =>
      if conds_active v (h_conds h) then
        match v !! h_name h with
        | Some _ => ensure_go all rest v k
        | None => ensure_go all rest (<[h_name h := draw k h]> v) (S k)
        end
      else if name_active all v (h_name h) then ensure_go all rest v k
      else ensure_go all rest (delete (h_name h) v) k
  end.
Definition ensure_active (s : hps) (k : nat) : hps * nat :=
  let '(v, k') := ensure_go (s_space s) (s_space s) (s_values s) k in (set_values s v, k').

Definition scope_in (c : list cond) (l : list (list cond)) : bool := existsb (conds_eqb c) l.
Fixpoint remove_first (c : list cond) (l : list (list cond)) : list (list cond) :=
  match l with [] => [] | x :: r => if conds_eqb c x then r else x :: remove_first c r end.

Definition note_active (st : list (list cond) * list (list cond)) (c : list cond) :=
  let '(never, once) := st in
  let once' := if scope_in c once then once else once ++ [c] in
  let never' := if scope_in c never then remove_first c never else never in
  (never', once').
Definition note_inactive (st : list (list cond) * list (list cond)) (c : list cond) :=
  let '(never, once) := st in
  if scope_in c once then (never, once) else (never ++ [c], once).

Variable build : list stmt.
Variables allow tune : bool.

Inductive act_res := ActDone (osp : hps) (k : nat) (builds : nat) | ActError | ActFuel.

Fixpoint activate (fuel : nat) (osp : hps) (hp : hps) (never once : list (list cond)) (k builds : nat) : act_res :=
  match fuel with
  | O => ActFuel
  | S fuel =>
      let '(hp', _, raised) := exec 2000 hp build [] in
      if raised then ActError else
      match update_space allow tune osp hp' with
      | UsNotAllowed => ActError
      | UsOk osp' =>
          let '(never1, once1) := fold_left note_active (s_active hp') (never, once) in
          let '(never2, once2) := fold_left note_inactive (s_inactive hp') (never1, once1) in
          match never2 with
          | [] => ActDone osp' k (S builds)
          | chain :: _ =>
              let hp0 := copy_hps osp' in
              let v := fold_left (fun v c => match c_values c with x :: _ => <[c_name c := x]> v | [] => v end) chain (s_values hp0) in
              let '(hp1, k') := ensure_active (set_values hp0 v) k in
              activate fuel osp' hp1 never2 once2 k' (S builds)
          end
      end
  end.

(* _populate_initial_space: declare_hyperparameters is a no-op for a plain build function *)
Definition populate_initial (fuel : nat) (osp : hps) : act_res :=
  activate fuel osp (copy_hps osp) [] [] 0 0.
End ensure.
