(* C14, IEEE-754 layer: the transforms of Int (linear sampling, with step), Choice and Boolean computed in binary64
   exactly as hp_utils.prob_to_index / index_to_prob do (1 / n, prob / ele_prob, floor, clamp; (i + 0.5) * ele_prob),
   on top of the Flocq development FloatIndex.v. The integer lattice arithmetic of Int is Python int arithmetic (exact). *)
From Coq Require Import ZArith Reals Lia List Bool.
From Flocq Require Import Core BinarySingleNaN.
From KT Require Import FloatIndex HpExact.
Import ListNotations.
Local Open Scope Z_scope.

(* Int(min, max, step, sampling="linear") *)
Definition int_p2v (l : ilat) (p : b64) : Z := value_at l (idx p (n_values l)).
Definition int_v2p (l : ilat) (v : Z) : b64 := FloatIndex.index_to_prob (value_to_index l v) (n_values l).

Theorem int_p2v_on_lattice l p :
  wf l -> n_values l < 2 ^ 53 -> is_finite p = true -> (0 <= B2R p < 1)%R -> on_lattice l (int_p2v l p).
Proof.
  intros Hwf Hn Hf Hp. exists (idx p (n_values l)). split; [|reflexivity].
  apply idx_range; auto. pose proof (n_values_pos l Hwf). lia.
Qed.
Corollary int_p2v_in_range l p :
  wf l -> n_values l < 2 ^ 53 -> is_finite p = true -> (0 <= B2R p < 1)%R -> lo l <= int_p2v l p <= hi l.
Proof. intros. apply lattice_in_range; auto. now apply int_p2v_on_lattice. Qed.

Theorem int_roundtrip l v :
  wf l -> n_values l < 2 ^ 50 -> on_lattice l v -> int_p2v l (int_v2p l v) = v.
Proof.
  intros Hwf Hn (i & Hi & ->). pose proof Hwf as [H1 H2]. unfold int_p2v, int_v2p, value_to_index, value_at.
  replace (lo l + i * step l - lo l) with (i * step l) by lia. rewrite Z.div_mul by lia.
  now rewrite idx_roundtrip.
Qed.

(* the enumerated values of the stepped Int: exactly min, min+step, ... up to the largest one <= max *)
Definition int_values (l : ilat) : list Z := map (fun i => value_at l (Z.of_nat i)) (seq 0 (Z.to_nat (n_values l))).
Theorem int_values_spec l v : wf l -> (In v (int_values l) <-> on_lattice l v).
Proof.
  intros Hwf. pose proof (n_values_pos l Hwf). unfold int_values. rewrite in_map_iff. split.
  - intros (i & <- & Hi). apply in_seq in Hi. exists (Z.of_nat i). split; [lia|reflexivity].
  - intros (i & Hi & ->). exists (Z.to_nat i). split; [f_equal; lia|]. apply in_seq. lia.
Qed.

(* Choice(values): index computed in binary64 *)
Definition choice_p2v {X} (vals : list X) (p : b64) : option X := nth_error vals (Z.to_nat (idx p (Z.of_nat (length vals)))).
Definition choice_v2p (i : nat) (n : nat) : b64 := FloatIndex.index_to_prob (Z.of_nat i) (Z.of_nat n).

Theorem choice_p2v_member {X} (vals : list X) p :
  vals <> [] -> Z.of_nat (length vals) < 2 ^ 53 -> is_finite p = true -> (0 <= B2R p < 1)%R ->
  exists x, choice_p2v vals p = Some x /\ In x vals.
Proof.
  intros Hne Hn Hf Hp. unfold choice_p2v.
  assert (Hl : 1 <= Z.of_nat (length vals)) by (destruct vals; [congruence|simpl; lia]).
  pose proof (idx_range p (Z.of_nat (length vals)) Hf Hp (conj Hl Hn)) as Hi.
  destruct (nth_error vals (Z.to_nat (idx p (Z.of_nat (length vals))))) as [x|] eqn:E.
  - exists x. split; [reflexivity|]. eapply nth_error_In; eauto.
  - apply nth_error_None in E. lia.
Qed.
Theorem choice_roundtrip {X} (vals : list X) i x :
  Z.of_nat (length vals) < 2 ^ 50 -> nth_error vals i = Some x ->
  choice_p2v vals (choice_v2p i (length vals)) = Some x.
Proof.
  intros Hn Hx. unfold choice_p2v, choice_v2p.
  assert (i < length vals)%nat by (apply nth_error_Some; congruence).
  rewrite idx_roundtrip by lia. now rewrite Nat2Z.id.
Qed.

(* Boolean: prob >= 0.5 ; value_to_prob = 0.75 / 0.25 *)
Definition b_half : b64 := binary_normalize prec emax Hprec Hmax mode_NE 1 (-1) false.
Definition b_q1 : b64 := binary_normalize prec emax Hprec Hmax mode_NE 1 (-2) false.
Definition b_q3 : b64 := binary_normalize prec emax Hprec Hmax mode_NE 3 (-2) false.
Definition fge (x y : b64) : bool := match Bcompare x y with Some Gt | Some Eq => true | _ => false end.
Definition bool_p2v (p : b64) : bool := fge p b_half.
Definition bool_v2p (v : bool) : b64 := if v then b_q3 else b_q1.
Theorem bool_roundtrip v : bool_p2v (bool_v2p v) = v.
Proof. destruct v; vm_compute; reflexivity. Qed.
