(* C09 on the generic lifecycle core: static space, any tuners, any finishing order, retries; no abort, no reload *)
From stdpp Require Import gmap list.
From KT Require Import Lifecycle LInv LSync G3 GR G4 GP GQ.
Set Default Proof Using "All".

Section top.
Variable sp : list hp.
Hypothesis Hwo : wo [] sp.
Notation V := (gmap name value).
Notation C := (combos sp ∅).
Notation ost := (@ostate gstate V unit).
Variable c : cfg.
Hypothesis Hmax : max_trials c = None.
Variable score_fn : V → scored unit.
Definition habort (g : gstate) (id : nat) (v : V) : gstate := g.   (* the subclass tail is skipped when end_trial raises *)
Notation stepg := (step (∅ : V) score_fn (gpopulate sp) gend habort (λ g, g) (λ v, v) c).

Definition waiting_ids (s : ost) : list nat := map snd (ongoing s) ++ retryq s.
Definition GInv (s : ost) : Prop :=
  GI sp (length (trials s)) (val (trials s)) (ordered (algo s)) (pending (algo s)) (waiting_ids s).

Lemma val_upd ts id (f : trial V unit → trial V unit) j : (∀ t, t_data (f t) = t_data t) → val (upd id f ts) j = val ts j.
Proof.
  intros Hf. unfold val. destruct (decide (id = j)) as [->|Hne].
  - rewrite nth_upd_same. destruct (nth_error ts j); cbn; [apply Hf|done].
  - by rewrite nth_upd_other.
Qed.
Lemma val_app_old ts (t : trial V unit) j : j < length ts → val (ts ++ [t]) j = val ts j.
Proof. intros Hj. unfold val. by rewrite nth_error_app1. Qed.
Lemma val_app_new ts (t : trial V unit) : val (ts ++ [t]) (length ts) = t_data t.
Proof. unfold val. rewrite nth_error_app2 by lia. by rewrite Nat.sub_diag. Qed.

Lemma ginv_init : GInv (init ginit).
Proof.
  constructor; cbn.
  - intros id Hid. lia.
  - intros id. split; [intros H; by apply elem_of_nil in H|lia].
  - done.
  - intros id r [=].
  - intros id H. by apply elem_of_nil in H.
  - intros id H. by apply elem_of_nil in H.
Qed.

Theorem ginv_create s tu : GInv s → GInv (fst (do_create (∅ : V) (gpopulate sp) (λ v, v) c s tu)).
Proof.
  intros HG. unfold do_create.
  destruct (alookup tu (ongoing s)) as [id0|] eqn:Elk.
  { destruct (trial_view (∅ : V) (trials s) id0). exact HG. }
  destruct (rev (retryq s)) as [|id rq'] eqn:Erq.
  - rewrite Hmax. unfold gpopulate.
    destruct (trials s) as [|t0 ts0] eqn:Ets.
    + cbn. unfold GInv, waiting_ids. cbn. rewrite map_app. cbn.
      unfold GInv in HG. rewrite Ets in HG. cbn in HG.
      eapply (GI_first sp Hwo _ _ _ _ HG); [done|].
      apply elem_of_app. left. apply elem_of_app. right. by left.
    + rewrite <-Ets.
      assert (Hp : ∀ p, p ∈ pending (algo s) → p < length (trials s)) by apply (G_pend _ _ _ _ _ _ HG).
      pose proof (scan_spec sp Hwo (trials s) (ordered (algo s)) (pending (algo s)) (waiting_ids s) HG (pending (algo s)) Hp) as Hsc.
      destruct (scan sp (trials s) (ordered (algo s)) (pending (algo s))) as [rest old nv| |]; [| |done].
      * destruct Hsc as (sk & Hpend & Hsk & Hold & Hnext & Hlt).
        cbn. unfold GInv, waiting_ids. cbn. rewrite app_length. cbn. rewrite Nat.add_1_r. rewrite map_app. cbn.
        eapply (GI_found sp Hwo); eauto.
        -- intros j Hj. by apply val_app_old.
        -- by rewrite val_app_new.
        -- intros x Hx. unfold waiting_ids in Hx. apply elem_of_app in Hx as [Hx|Hx]; apply elem_of_app; [left; apply elem_of_app; by left|by right].
        -- apply elem_of_app. left. apply elem_of_app. right. by left.
      * assert (HG' : GI sp (length (trials s)) (val (trials s)) (ordered (algo s)) [] (waiting_ids s)) by (eapply (GI_none sp Hwo); eauto).
        destruct (negb (length (ongoing s) =? 0)); cbn; exact HG'.
  - (* retry: the trial moves from the queue to ongoing *)
    cbn. unfold GInv, waiting_ids. cbn. rewrite length_upd, map_app. cbn.
    pose proof (rev_cons_inv _ _ _ Erq) as Hrq.
    eapply (GI_ext sp Hwo); [exact HG| |].
    + intros j Hj. symmetry. by apply val_upd.
    + intros x Hx. unfold waiting_ids in Hx. rewrite Hrq in Hx.
      apply elem_of_app in Hx as [Hx|Hx].
      * apply elem_of_app. left. apply elem_of_app. by left.
      * apply elem_of_app in Hx as [Hx|Hx]; [apply elem_of_app; by right|].
        apply elem_of_list_singleton in Hx as ->. apply elem_of_app. left. apply elem_of_app. right. by left.
Qed.

Lemma val_upd_const ts id (t0 t' : trial V unit) j : nth_error ts id = Some t0 → t_data t' = t_data t0 →
  val (upd id (λ _, t') ts) j = val ts j.
Proof.
  intros Ht Hi. unfold val. destruct (decide (id = j)) as [->|Hne].
  - rewrite nth_upd_same, Ht. cbn. done.
  - by rewrite nth_upd_other.
Qed.

Theorem ginv_update s id f : (∀ v, f v = v) → GInv s → GInv (fst (do_update s id f)).
Proof.
  intros Hf HG. unfold do_update. destruct (nth_error (trials s) id) as [t|] eqn:Et; [|exact HG].
  cbn. unfold GInv, waiting_ids. cbn. rewrite length_upd.
  eapply (GI_ext sp Hwo); [exact HG| |done].
  intros j Hj. symmetry. eapply val_upd_const; [exact Et|]. cbn. apply Hf.
Qed.

(* after a normally returning end_trial: the trial left `ongoing`, may have entered the retry queue, and is pending *)
Lemma ginv_end_shape s id (t0 t' : trial V unit) eo rq dk tids :
  GInv s → id < length (trials s) → nth_error (trials s) id = Some t0 → t_data t' = t_data t0 →
  (∀ x, x ∈ retryq s → x ∈ rq) →
  GInv {| trials := upd id (λ _, t') (trials s); ongoing := remove_first_by_id id (ongoing s);
          start_order := start_order s; end_order := eo; retryq := rq; tuner_ids := tids;
          algo := gend (algo s) id (t_data t0); disk := dk |}.
Proof.
  intros HG Hlt Ht Hi Hrq. unfold GInv. cbn. rewrite length_upd.
  assert (H1 : GI sp (length (trials s)) (val (trials s)) (ordered (algo s)) (pending (algo s) ++ [id])
                 (map snd (remove_first_by_id id (ongoing s)) ++ rq)).
  { eapply (GI_end sp Hwo); [exact HG|exact Hlt|].
    intros x Hx Hne. unfold waiting_ids in Hx. apply elem_of_app in Hx as [Hx|Hx]; apply elem_of_app; [left|right; auto].
    apply elem_of_list_In in Hx. apply elem_of_list_In. by apply rfb_snd_keeps. }
  eapply (GI_ext sp Hwo); [exact H1| |done].
  intros j Hj. symmetry. by eapply val_upd_const.
Qed.

Theorem ginv_end s id es f : (∀ v, f v = v) → GInv s →
  snd (do_end score_fn gend habort c s id es f) ≠ RAbort → GInv (fst (do_end score_fn gend habort c s id es f)).
Proof.
  intros Hf HG. unfold do_end.
  destruct (existsb (fun kv => snd kv =? id) (ongoing s)) eqn:Eex; cbn [negb]; [|done].
  destruct (nth_error (trials s) id) as [t0|] eqn:Et0; [|done].
  assert (Hlt : id < length (trials s)). { apply nth_error_Some. by rewrite Et0. }
  rewrite Hf.
  destruct es; cbn.
  all: repeat match goal with
       | |- context [match score_fn ?x with SNaN => _ | SVal _ => _ end] => destruct (score_fn x); cbn
       | |- context [Nat.leb ?a ?b] => destruct (Nat.leb a b); cbn
       | |- context [if streak ?a ?b ?d ?e then _ else _] => destruct (streak a b d e); cbn
       | |- context [if abort_early ?cc then _ else _] => destruct (abort_early cc); cbn
       end.
  all: try (intros Hne; exfalso; by apply Hne).
  all: intros _; eapply (ginv_end_shape s id t0); [exact HG|exact Hlt|exact Et0|reflexivity|].
  all: intros y Hy; try done; apply elem_of_app; by left.
Qed.

(* a run without abort and without reload, in which the tuners return the values they were given *)
Definition static_op (o : @op V) : Prop :=
  match o with Create _ => True | Update _ f => ∀ v, f v = v | End _ _ f => ∀ v, f v = v | Reload => False end.

Fixpoint no_abort (tr : list (@resp V * ost)) : Prop :=
  match tr with [] => True | (r, _) :: rest => r ≠ RAbort ∧ no_abort rest end.

Lemma run_ginv ops : ∀ s, GInv s → Forall static_op ops →
  no_abort (run (∅ : V) score_fn (gpopulate sp) gend habort (λ g, g) (λ v, v) c s ops) →
  Forall (λ rs, GInv (snd rs)) (run (∅ : V) score_fn (gpopulate sp) gend habort (λ g, g) (λ v, v) c s ops).
Proof.
  induction ops as [|o r IH]; intros s HG Hst Hna; cbn; [constructor|].
  apply Forall_cons in Hst as [Ho Hst]. cbn in Hna.
  destruct (stepg s o) as [s' rs] eqn:Es. destruct Hna as [Hr Hna].
  assert (HG' : GInv s').
  { destruct o as [tu|id f|id es f|]; cbn in Es.
    - pose proof (ginv_create s tu HG) as H. by rewrite Es in H.
    - pose proof (ginv_update s id f Ho HG) as H. by rewrite Es in H.
    - pose proof (ginv_end s id es f Ho HG) as H. rewrite Es in H. by apply H.
    - done. }
  constructor; [done|]. by apply IH.
Qed.

(* ---- save+reload: the linked list and the pending queue are persisted (get_state/set_state), payloads come back from the
   trial files, running trials are queued again *)
Theorem ginv_reload s : Inv s → DSync s → GInv s → GInv (fst (do_reload (λ g : gstate, g) s)).
Proof.
  intros HI HD HG. unfold GInv in *. cbn [do_reload fst trials algo].
  assert (Hlen : length (from_disk (trials s) (disk s)) = length (trials s)) by (apply from_disk_length, (I_disk_len _ HI)).
  assert (Hval : ∀ j, val (from_disk (trials s) (disk s)) j = val (trials s) j).
  { intros j. pose proof (reload_data (λ g : gstate, g) s j HI HD) as H. cbn [do_reload fst trials] in H. unfold val.
    destruct (nth_error (from_disk (trials s) (disk s)) j), (nth_error (trials s) j); cbn in *; congruence. }
  rewrite Hlen. eapply (GI_ext sp Hwo); [exact HG|intros j _; by rewrite Hval|].
  intros x Hx. unfold waiting_ids in *. cbn [ongoing retryq map app]. rewrite elem_of_app in Hx. rewrite elem_of_app. tauto.
Qed.

Definition static_op_r (o : @op V) : Prop :=
  match o with Create _ => True | Update _ f => ∀ v, f v = v | End _ _ f => ∀ v, f v = v | Reload => True end.

(* the invariant in every state of every run, reloads included *)
Lemma run_ginv_reload ops : abort_early c = false → ∀ s, Inv s → DSync s → GInv s → Forall static_op_r ops →
  no_abort (run (∅ : V) score_fn (gpopulate sp) gend habort (λ g, g) (λ v, v) c s ops) →
  Forall (λ rs, GInv (snd rs)) (run (∅ : V) score_fn (gpopulate sp) gend habort (λ g, g) (λ v, v) c s ops).
Proof.
  intros Hab. induction ops as [|o r IH]; intros s HI HD HG Hst Hna; cbn; [constructor|].
  apply Forall_cons in Hst as [Ho Hst]. cbn in Hna.
  destruct (stepg s o) as [s' rs] eqn:Es. destruct Hna as [Hr Hna].
  assert (HI' : Inv s').
  { destruct o as [tu|id f|id es f|]; cbn in Es.
    - pose proof (inv_create (∅ : V) (gpopulate sp) (λ v, v) c s tu HI) as H. by rewrite Es in H.
    - pose proof (inv_update s id f HI) as H. by rewrite Es in H.
    - pose proof (inv_end score_fn gend habort c s id es f Hab HI) as H. by rewrite Es in H.
    - pose proof (inv_reload (λ g : gstate, g) s HI) as H. by rewrite Es in H. }
  assert (HD' : DSync s').
  { pose proof (dsync_step (∅ : V) score_fn (gpopulate sp) gend habort (λ g, g) (λ v, v) (λ v, eq_refl) c s o Hab HI HD) as H. by rewrite Es in H. }
  assert (HG' : GInv s').
  { destruct o as [tu|id f|id es f|]; cbn in Es.
    - pose proof (ginv_create s tu HG) as H. by rewrite Es in H.
    - pose proof (ginv_update s id f Ho HG) as H. by rewrite Es in H.
    - pose proof (ginv_end s id es f Ho HG) as H. rewrite Es in H. by apply H.
    - pose proof (ginv_reload s HI HD HG) as H. by rewrite Es in H. }
  constructor; [done|]. by apply IH.
Qed.

(* C09: when the grid itself answers STOPPED, every combination has been tried exactly once *)
Theorem grid_stopped_complete s tu s' id v : GInv s → Inv s →
  do_create (∅ : V) (gpopulate sp) (λ v, v) c s tu = (s', RTrial id STOPPED v) →
  map (@t_data V unit) (trials s') ≡ₚ C.
Proof.
  intros HG HI Hstep.
  pose proof (ginv_create s tu HG) as HG'. rewrite Hstep in HG'. cbn in HG'.
  unfold do_create in Hstep.
  destruct (alookup tu (ongoing s)) as [id0|] eqn:Elk.
  { (* a tuner holding a trial gets it back with status RUNNING *)
    unfold trial_view in Hstep. pose proof (alookup_some _ _ _ Elk) as Hin.
    assert (Hon : In id0 (onids s)) by (apply in_map_iff; by exists (tu, id0)).
    pose proof (I_on_run _ HI _ Hon) as Hrun. unfold stat in Hrun.
    destruct (nth_error (trials s) id0); cbn in Hrun; [|done]. inversion Hstep; subst. congruence. }
  destruct (rev (retryq s)) as [|idr rq'] eqn:Erq; [|by inversion Hstep].
  assert (Hrq : retryq s = []). { destruct (retryq s) as [|x l]; [done|]. cbn in Erq. by destruct (rev l). }
  rewrite Hmax in Hstep. unfold gpopulate in Hstep.
  destruct (trials s) as [|t0 ts0] eqn:Ets; [by inversion Hstep|]. rewrite <-Ets in *.
  destruct (scan sp (trials s) (ordered (algo s)) (pending (algo s))) as [rest old nv| |] eqn:Esc; [by inversion Hstep| |by inversion Hstep].
  destruct (negb (length (ongoing s) =? 0)) eqn:Eon; [by inversion Hstep|].
  inversion Hstep; subst s'; clear Hstep. cbn in *.
  assert (Hnil : ongoing s = []). { destruct (ongoing s); [done|]. cbn in Eon. done. }
  unfold GInv, waiting_ids in HG'. cbn in HG'. rewrite Hnil, Hrq in HG'. cbn in HG'.
  assert (Hn : 0 < length (trials s)). { rewrite Ets. cbn. lia. }
  pose proof (GI_final sp Hwo _ _ _ HG' Hn) as Hfin.
  pose proof (GI_nodup sp Hwo _ _ _ _ _ HG') as Hnd.
  rewrite <-Hfin.
  assert (Hperm : ordered (algo s) ≡ₚ seq 0 (length (trials s))).
  { apply NoDup_Permutation; [done|apply NoDup_seq|]. intros x. rewrite (G_elems _ _ _ _ _ _ HG' x), elem_of_seq. lia. }
  rewrite Hperm.
  clear. generalize (trials s). intros ts.
  assert (H : ∀ k (l : list (trial V unit)), map (val (k ++ l)) (seq (length k) (length l)) = map (@t_data V unit) l).
  { intros k l. revert k. induction l as [|t l IH]; intros k; cbn; [done|].
    f_equal.
    - unfold val. rewrite nth_error_app2 by lia. by rewrite Nat.sub_diag.
    - specialize (IH (k ++ [t])). rewrite <-app_assoc, app_length in IH. cbn in IH. by rewrite Nat.add_1_r in IH. }
  specialize (H [] ts). cbn in H. by rewrite H.
Qed.
End top.
Print Assumptions grid_stopped_complete.
Print Assumptions run_ginv.
