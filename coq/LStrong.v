(* C01, the part of the invariant that holds only when no crash tore end_trial's two writes apart:
   every trial whose status is COMPLETED or FAILED is listed in end_order (Listed). Inv alone (which also holds for the
   states a restart rebuilds after a crash at any point, CrashAll.v) says: handed out, queued, or ended.
   Also: a trial that has ended is never handed out again, listed or not. *)
From Coq Require Import List ZArith Bool Lia PeanoNat.
Import ListNotations.
From KT Require Import Lifecycle LInv.

Section Strong.
Context {A V Sc : Type}.
Variable vdef : V.
Notation trial := (trial V Sc).
Variable score_fn : V -> scored Sc.
Variable populate : A -> list trial -> bool -> tid -> A * status * V.
Variable hook_end hook_end_abort : A -> tid -> V -> A.
Variable hook_reload : A -> A.
Variable reissue : V -> V.
Notation ost := (@ostate A V Sc).
Notation stepf := (step vdef score_fn populate hook_end hook_end_abort hook_reload reissue).

Definition Listed (s : ost) : Prop := forall id, finalat s id -> In id (end_order s).

Lemma listed_init (a : A) : Listed (init a : ost).
Proof. intros [|id] (st & Hs & _); discriminate. Qed.

Lemma finalat_upd_other (s : ost) ts' id j : (forall k, k <> id -> nth_error ts' k = nth_error (trials s) k) -> j <> id ->
  (exists st, option_map t_status (nth_error ts' j) = Some st /\ final st) -> finalat s j.
Proof. intros H Hne (st & Hs & Hf). exists st. split; [|exact Hf]. unfold stat. now rewrite <- H. Qed.

Theorem listed_step c (s : ost) o : abort_early c = false -> Inv s -> Listed s -> Listed (fst (stepf c s o)).
Proof.
  intros Hab HI HL. destruct o as [tu|id f|id es f|]; cbn [step].
  - unfold do_create. destruct (alookup tu (ongoing s)); [destruct (trial_view vdef (trials s) t); exact HL|].
    destruct (rev (retryq s)) as [|idr rq'] eqn:Erq.
    + match goal with |- context [match ?X with (_, _) => _ end] => destruct X as [[a' st] v] end.
      destruct st; cbn [fst]; try exact HL.
      intros j (st & Hs & Hf). unfold stat in Hs. cbn [trials end_order] in *.
      destruct (Nat.lt_ge_cases j (length (trials s))) as [Hlt|Hge].
      * rewrite nth_error_app1 in Hs by exact Hlt. apply HL. exists st. auto.
      * rewrite nth_error_app2 in Hs by lia. destruct (j - length (trials s)) as [|[|k]]; simpl in Hs; try discriminate.
        inversion Hs; subst. destruct Hf; discriminate.
    + cbn [fst]. intros j (st & Hs & Hf). unfold stat in Hs. cbn [trials end_order] in *.
      destruct (Nat.eq_dec j idr) as [->|Hne].
      * rewrite nth_upd_same in Hs. destruct (nth_error (trials s) idr); simpl in Hs; [|discriminate]. inversion Hs; subst. destruct Hf; discriminate.
      * rewrite nth_upd_other in Hs by congruence. apply HL. exists st. auto.
  - unfold do_update. destruct (nth_error (trials s) id) as [t|] eqn:Et; cbn [fst]; [|exact HL].
    intros j (st & Hs & Hf). unfold stat in Hs. cbn [trials end_order] in *. apply HL. exists st. split; [|exact Hf]. unfold stat.
    destruct (Nat.eq_dec id j) as [->|Hne]; [|now rewrite nth_upd_other in Hs].
    rewrite nth_upd_same, Et in Hs. rewrite Et. exact Hs.
  - unfold do_end. destruct (existsb (fun kv => snd kv =? id) (ongoing s)) eqn:Eex; cbn [negb]; [|exact HL].
    destruct (nth_error (trials s) id) as [t0|] eqn:Et0; [|exact HL].
    rewrite Hab.
    assert (Hfinish : forall t' og tids a' dk, Listed {| trials := upd id (fun _ => t') (trials s); ongoing := og; start_order := start_order s;
                         end_order := end_order s ++ [id]; retryq := retryq s; tuner_ids := tids; algo := a'; disk := dk |}).
    { intros t' og tids a' dk j (st & Hs & Hf). unfold stat in Hs. cbn [trials end_order] in *.
      destruct (Nat.eq_dec j id) as [->|Hne]; [apply in_or_app; right; now left|].
      rewrite nth_upd_other in Hs by congruence. apply in_or_app. left. apply HL. exists st. auto. }
    assert (Hrequeue : forall t' og rq tids a' dk, t_status t' = INVALID ->
              Listed {| trials := upd id (fun _ => t') (trials s); ongoing := og; start_order := start_order s;
                         end_order := end_order s; retryq := rq; tuner_ids := tids; algo := a'; disk := dk |}).
    { intros t' og rq tids a' dk Hst j (st & Hs & Hf). unfold stat in Hs. cbn [trials end_order] in *.
      destruct (Nat.eq_dec j id) as [->|Hne].
      - rewrite nth_upd_same, Et0 in Hs. simpl in Hs. rewrite Hst in Hs. inversion Hs; subst. destruct Hf; discriminate.
      - rewrite nth_upd_other in Hs by congruence. apply HL. exists st. auto. }
    repeat match goal with
    | |- context [match ?X with ECompleted => _ | EInvalid => _ | EFailed => _ end] => destruct X
    | |- context [match score_fn ?x with SNaN => _ | SVal _ => _ end] => destruct (score_fn x)
    | |- context [Nat.leb ?a ?b] => destruct (Nat.leb a b)
    | |- context [if streak ?a ?b ?d ?e then _ else _] => destruct (streak a b d e)
    end; cbn [fst]; first [apply Hfinish|apply Hrequeue; reflexivity].
  - (* reload: a trial that is final in its file was final in memory *)
    cbn [do_reload fst]. intros j Hj. cbn [end_order]. apply HL.
    pose proof Hj as (st & Hs & Hf). unfold stat in Hs. cbn [trials] in Hs.
    assert (Hlt : j < length (trials s)).
    { rewrite <- (from_disk_length (trials s) (disk s) (I_disk_len _ HI)). apply nth_error_Some. destruct (nth_error (from_disk (trials s) (disk s)) j); [discriminate|discriminate]. }
    destruct (nth_error (trials s) j) as [t|] eqn:Et; [|apply nth_error_None in Et; lia].
    destruct (nth_error (disk s) j) as [d|] eqn:Ed; [|apply nth_error_None in Ed; rewrite (I_disk_len _ HI) in Ed; lia].
    rewrite (from_disk_nth _ _ _ _ _ Et Ed) in Hs. simpl in Hs. inversion Hs; subst st.
    destruct (I_cover _ HI j Hlt) as [H|[H|H]]; [| |exact H].
    + exfalso. eapply waiting_not_final; [eapply (I_d_wait _ HI j d (or_introl H) Ed)|exact Hf].
    + exfalso. eapply waiting_not_final; [eapply (I_d_wait _ HI j d (or_intror H) Ed)|exact Hf].
Qed.

Theorem listed_run c (a : A) ops : abort_early c = false ->
  Forall (fun rs => Listed (snd rs)) (run vdef score_fn populate hook_end hook_end_abort hook_reload reissue c (init a) ops).
Proof.
  intros Hab.
  assert (H : forall s, Inv s -> Listed s -> Forall (fun rs => Listed (snd rs)) (run vdef score_fn populate hook_end hook_end_abort hook_reload reissue c s ops)).
  { induction ops as [|o r IH]; intros s HI HL; simpl; [constructor|].
    destruct (stepf c s o) as [s' rs] eqn:Es.
    pose proof (listed_step c s o Hab HI HL) as HL'. rewrite Es in HL'. cbn [fst] in HL'.
    assert (HI' : Inv s').
    { destruct o as [tu|id f|id es f|]; cbn [step] in Es.
      - pose proof (inv_create vdef populate reissue c s tu HI) as H. now rewrite Es in H.
      - pose proof (inv_update s id f HI) as H. now rewrite Es in H.
      - pose proof (inv_end score_fn hook_end hook_end_abort c s id es f Hab HI) as H. now rewrite Es in H.
      - pose proof (inv_reload hook_reload s HI) as H. now rewrite Es in H. }
    constructor; [exact HL'|now apply IH]. }
  apply H; [apply (inv_init vdef score_fn populate hook_end hook_end_abort hook_reload reissue)|apply listed_init].
Qed.

(* with Listed, every trial is in exactly one of ongoing / retry queue / end_order (exclusivity is I_part) *)
Theorem cover3 (s : ost) id : Inv s -> Listed s -> id < length (trials s) -> In id (onids s) \/ In id (retryq s) \/ In id (end_order s).
Proof. intros HI HL Hlt. destruct (I_cover _ HI id Hlt) as [H|[H|H]]; auto. Qed.

(* whatever Create hands out as RUNNING has not ended - whether or not end_order lists it *)
Theorem never_reissue_ended c (s s' : ost) tu id v : Inv s ->
  do_create vdef populate reissue c s tu = (s', RTrial id RUNNING v) -> ~ finalat s id.
Proof.
  intros HI. unfold do_create.
  destruct (alookup tu (ongoing s)) as [id0|] eqn:Elk.
  - destruct (trial_view vdef (trials s) id0) as [st0 v0] eqn:Ev. intros H; injection H as _ Hid _ _; subst id0.
    apply alookup_some in Elk. assert (Hon : In id (onids s)) by (unfold onids; apply in_map_iff; exists (tu, id); auto).
    intros (st & Hs & Hf). pose proof (I_on_run _ HI _ Hon) as Hr. rewrite Hs in Hr. inversion Hr; subst. destruct Hf; discriminate.
  - destruct (rev (retryq s)) as [|idq rq'] eqn:Erq.
    + match goal with |- context [match ?X with (_, _) => _ end] => destruct X as [[a' st] v0] end.
      destruct st; intros H; try discriminate H; injection H as _ Hid _; subst id.
      intros (st & Hs & _). apply stat_lt in Hs. lia.
    + intros H; injection H as _ Hid _; subst idq. apply rev_cons_inv in Erq.
      intros (st & Hs & Hf). destruct (I_rq_wait _ HI id) as (st' & Hs' & Hw); [rewrite Erq; apply in_or_app; right; now left|].
      rewrite Hs in Hs'. inversion Hs'; subst. eapply waiting_not_final; eauto.
Qed.
End Strong.
