(* C07 on the generic core: what save + reload (into a fresh oracle) does to a reachable state. *)
From Coq Require Import List ZArith Bool Lia PeanoNat.
Import ListNotations.
From KT Require Import Lifecycle LInv.

Section Reload.
Context {A V Sc : Type}.
Notation trial := (trial V Sc).
Variable hook_reload : A -> A.
Notation ost := (@ostate A V Sc).

(* the running trials are queued to be run again; nothing else moves *)
Definition requeue (s : ost) : ost :=
  {| trials := trials s; ongoing := []; start_order := start_order s; end_order := end_order s;
     retryq := retryq s ++ map snd (ongoing s); tuner_ids := []; algo := algo s; disk := disk s |}.

Theorem reload_shape (s : ost) : Inv s ->
  let s' := fst (do_reload hook_reload s) in
  ongoing s' = [] /\ retryq s' = retryq s ++ map snd (ongoing s) /\ start_order s' = start_order s /\
  end_order s' = end_order s /\ disk s' = disk s /\ algo s' = hook_reload (algo s) /\
  length (trials s') = length (trials s).
Proof. intros HI. cbn. repeat split. apply from_disk_length, (I_disk_len _ HI). Qed.

(* every trial that has ended comes back exactly as it was: status, score, run counter, values and metrics *)
Theorem reload_ended_preserved (s : ost) id : Inv s -> In id (end_order s) ->
  nth_error (trials (fst (do_reload hook_reload s))) id = nth_error (trials s) id.
Proof.
  intros HI He. pose proof (I_d_fin _ HI _ (eo_finalat _ _ HI He)) as Hd. cbn.
  destruct (nth_error (trials s) id) as [t|] eqn:Et.
  - simpl in Hd. rewrite (from_disk_nth _ _ _ _ _ Et (eq_sym Hd)). destruct t; reflexivity.
  - assert (Hlen : length (from_disk (trials s) (disk s)) = length (trials s)) by (apply from_disk_length, (I_disk_len _ HI)).
    apply nth_error_None. rewrite Hlen. now apply nth_error_None.
Qed.

(* a trial that was running or waiting for retry comes back with its run counter and with what its trial file holds,
   labelled RUNNING or INVALID (both mean: waiting to be run), and is in the retry queue *)
Theorem reload_waiting (s : ost) id : Inv s -> In id (onids s) \/ In id (retryq s) ->
  exists t d, nth_error (trials s) id = Some t /\ nth_error (disk s) id = Some d /\
    nth_error (trials (fst (do_reload hook_reload s))) id =
      Some {| t_status := d_status d; t_score := d_score d; t_runs := t_runs t; t_data := d_data d |} /\
    waiting (d_status d) /\ In id (retryq (fst (do_reload hook_reload s))).
Proof.
  intros HI Hw.
  assert (Hlt : id < length (trials s)).
  { destruct Hw as [H|H]; [apply (on_facts _ _ HI H)|]. destruct (I_rq_wait _ HI _ H) as (st & Hs & _). eapply stat_lt; eauto. }
  destruct (nth_error (trials s) id) as [t|] eqn:Et; [|apply nth_error_None in Et; lia].
  destruct (nth_error (disk s) id) as [d|] eqn:Ed; [|apply nth_error_None in Ed; rewrite (I_disk_len _ HI) in Ed; lia].
  exists t, d. split; [reflexivity|]. split; [reflexivity|]. split; [cbn; apply (from_disk_nth _ _ _ _ _ Et Ed)|].
  split; [apply (I_d_wait _ HI id d Hw Ed)|].
  cbn. apply in_or_app. destruct Hw as [H|H]; [right; exact H|left; exact H].
Qed.

(* when the algorithm state survives its own get_state/set_state and the trial files are up to date, reload IS requeue,
   so every continuation from the reloaded oracle equals the continuation of the uninterrupted one *)
Theorem reload_is_requeue (s : ost) :
  hook_reload (algo s) = algo s -> from_disk (trials s) (disk s) = trials s ->
  fst (do_reload hook_reload s) = requeue s.
Proof. intros Ha Hd. unfold do_reload, requeue. cbn [fst]. now rewrite Ha, Hd. Qed.
End Reload.
