(* Correspondence instance for C19: sessions of BaseTuner.search over the LifeCorr payload. *)
From Coq Require Import List ZArith QArith Bool PeanoNat Uint63.
Import ListNotations.
From KT Require Import Metrics Lifecycle LifeCorr Tuner.
Local Close Scope Q_scope.

Inductive skind := SFirst | SResume | SOverwrite.
Definition FUEL : nat := 400.

Definition lsearch (mx : bool) (c : cfg) (s : lstate) (script : list (@attempt pay)) :=
  search pdef (pscore mx) tpop hk hk fresh FUEL c s script.

Fixpoint sessions (mx : bool) (c : cfg) (s : lstate) (ss : list (skind * list (@attempt pay)))
  : list (list ev * outcome * lstate) :=
  match ss with
  | [] => []
  | (k, script) :: rest =>
      let s0 := match k with
                | SFirst => s
                | SResume => fst (do_reload (fun a => a) s)
                | SOverwrite => init (algo s)
                end in
      let '(s1, l, o, _) := lsearch mx c s0 script in
      (l, o, s1) :: sessions mx c s1 rest
  end.

Definition esn (e : endst) : Z := match e with ECompleted => 1 | EInvalid => 2 | EFailed => 3 end%Z.
Definition flat_ev (e : ev) : list Z :=
  match e with
  | EvResp id st => [1; N id; stn st]
  | EvRun id => [2; N id]
  | EvEnd id es => [3; N id; esn es]
  end%Z.
Definition outn (o : outcome) : Z :=
  match o with Done => 1 | Fatal => 2 | Interrupted => 3 | Aborted => 4 | OutOfFuel => 5 | ScriptEnd => 6 end%Z.
Definition flat_session (x : list ev * outcome * lstate) : list Z :=
  let '(l, o, s) := x in L (flat_map flat_ev l) ++ [outn o] ++ flat_state s.

Definition tcase := (cfg * bool * table * list (skind * list (@attempt pay)) * list int)%type.
Definition check_tcase (k : tcase) : option nat :=
  let '(c, mx, tb, ss, exp) := k in
  first_diff 0 (map (fun x => digest (flat_session x)) (sessions mx c (init tb) ss)) exp.
Definition tobs_at (k : tcase) (n : nat) : option (list Z) :=
  let '(c, mx, tb, ss, exp) := k in option_map flat_session (nth_error (sessions mx c (init tb) ss) n).
