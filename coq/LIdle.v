(* C11 on the generic core: IDLE is only ever answered while something is in flight; STOPPED comes from the budget or from
   the algorithm. *)
From Coq Require Import List ZArith Bool Lia PeanoNat.
Import ListNotations.
From KT Require Import Lifecycle.

Section Idle.
Context {A V Sc : Type}.
Variable vdef : V.
Notation trial := (trial V Sc).
Variable populate : A -> list trial -> bool -> tid -> A * status * V.
Variable reissue : V -> V.
Notation ost := (@ostate A V Sc).

(* what the search algorithms guarantee (proved for the grid and Hyperband models below, true by construction for
   random search): populate_space says IDLE only when told that trials are ongoing *)
Definition idle_only_if_busy : Prop := forall a ts busy id, snd (fst (populate a ts busy id)) = IDLE -> busy = true.

Theorem create_idle_busy c (s : ost) tu s' id v :
  idle_only_if_busy -> do_create vdef populate reissue c s tu = (s', RTrial id IDLE v) -> ongoing s <> [].
Proof.
  intros Hp. unfold do_create. destruct (alookup tu (ongoing s)) as [id0|] eqn:Elk.
  - destruct (trial_view vdef (trials s) id0). intros _. destruct (ongoing s); discriminate.
  - destruct (rev (retryq s)) as [|idr rq'] eqn:Erq; [|intros H; inversion H].
    assert (Hidle : forall a' st v0, populate (algo s) (trials s) (negb (length (ongoing s) =? 0)) (length (trials s)) = (a', st, v0) -> st = IDLE -> ongoing s <> []).
    { intros a' st v0 Hpop Hst. pose proof (Hp (algo s) (trials s) (negb (length (ongoing s) =? 0)) (length (trials s))) as Hb. rewrite Hpop in Hb. cbn in Hb.
      specialize (Hb Hst). destruct (ongoing s); discriminate. }
    destruct (max_trials c) as [n|].
    + destruct (Nat.leb n (length (trials s))); [intros H; inversion H|].
      destruct (populate (algo s) (trials s) (negb (length (ongoing s) =? 0)) (length (trials s))) as [[a' st] v0] eqn:Ep.
      destruct st; intros H; inversion H; subst. eapply Hidle; eauto.
    + destruct (populate (algo s) (trials s) (negb (length (ongoing s) =? 0)) (length (trials s))) as [[a' st] v0] eqn:Ep.
      destruct st; intros H; inversion H; subst. eapply Hidle; eauto.
Qed.

(* STOPPED is answered only when the budget is used up or populate_space itself says so *)
Theorem create_stopped_reason c (s : ost) tu s' id v :
  do_create vdef populate reissue c s tu = (s', RTrial id STOPPED v) ->
  (exists id0, alookup tu (ongoing s) = Some id0) \/
  (retryq s = [] /\
   ((exists n, max_trials c = Some n /\ n <= length (trials s)) \/
    snd (fst (populate (algo s) (trials s) (negb (length (ongoing s) =? 0)) (length (trials s)))) = STOPPED)).
Proof.
  unfold do_create. destruct (alookup tu (ongoing s)) as [id0|] eqn:Elk; [destruct (trial_view vdef (trials s) id0); intros _; left; eauto|].
  destruct (rev (retryq s)) as [|idr rq'] eqn:Erq; [|intros H; inversion H].
  assert (Hrq : retryq s = []). { destruct (retryq s) as [|x l]; [reflexivity|]. apply (f_equal (@length _)) in Erq. rewrite rev_length in Erq. discriminate. }
  destruct (max_trials c) as [n|].
  - destruct (Nat.leb_spec n (length (trials s))); [intros _; right; split; [exact Hrq|]; left; eauto|].
    destruct (populate (algo s) (trials s) (negb (length (ongoing s) =? 0)) (length (trials s))) as [[a' st] v0].
    destruct st; intros H0; inversion H0. right. split; [exact Hrq|]. right. reflexivity.
  - destruct (populate (algo s) (trials s) (negb (length (ongoing s) =? 0)) (length (trials s))) as [[a' st] v0].
    destruct st; intros H0; inversion H0. right. split; [exact Hrq|]. right. reflexivity.
Qed.
End Idle.
