(* C16: HyperParameters.to_proto / from_proto as far as the ORDER of the search space is concerned.
   The schema has one repeated field per kind, so the encoding groups the space by kind (Fixed, Float, Int, Choice, Boolean is
   the order in which from_proto reads the fields) and the relative order of entries of different kinds is lost on the wire.
   from_proto restores a parents-first order by a stable sort on the number of conditions: a conditional child always carries
   its parent's conditions plus one. *)
From stdpp Require Import gmap list sorting.
From Coq Require Import ZArith.
From KT Require Import Space Discover SpaceProofs.
Set Default Proof Using "Type".

(* h_tag: 1 Fixed, 2 Float, 3 Int, 4 Choice, 5 Boolean *)
Definition kind_order : list positive := [1; 2; 3; 4; 5]%positive.
Definition group_by_kind (sp : list hp) : list hp :=
  flat_map (λ k, filter (λ h, h_tag h = k) sp) kind_order.

Definition depth (h : hp) : nat := length (h_conds h).
Fixpoint dins (x : hp) (l : list hp) : list hp :=
  match l with
  | [] => [x]
  | y :: r => if decide (depth x ≤ depth y) then x :: l else y :: dins x r
  end.
Definition depth_sort (l : list hp) : list hp := foldr dins [] l.
Definition decoded_space (sp : list hp) : list hp := depth_sort (group_by_kind sp).

(* ---- nothing lost, nothing added ------------------------------------------------------------------------------ *)
Lemma dins_perm x l : dins x l ≡ₚ x :: l.
Proof. induction l as [|y r IH]; cbn; [done|]. case_decide; [done|]. rewrite IH. apply Permutation_swap. Qed.
Lemma depth_sort_perm l : depth_sort l ≡ₚ l.
Proof. induction l as [|x r IH]; cbn; [done|]. by rewrite dins_perm, IH. Qed.

Definition known_kind (h : hp) : Prop := h_tag h ∈ kind_order.
Lemma filter_tag_split (k : positive) (ks : list positive) (sp : list hp) : k ∉ ks →
  filter (λ h, h_tag h ∈ k :: ks) sp ≡ₚ filter (λ h, h_tag h = k) sp ++ filter (λ h, h_tag h ∈ ks) sp.
Proof.
  intros Hk. induction sp as [|h r IH]; [done|]. rewrite !filter_cons.
  destruct (decide (h_tag h = k)) as [E|E].
  - rewrite decide_True by (rewrite E; by left). rewrite decide_False by (rewrite E; done). cbn. by rewrite IH.
  - destruct (decide (h_tag h ∈ ks)) as [E2|E2].
    + rewrite decide_True by (by right). rewrite IH. by rewrite Permutation_middle.
    + rewrite decide_False; [done|]. intros Hin. apply elem_of_cons in Hin as [?|?]; done.
Qed.
Lemma flat_map_filter_tags (ks : list positive) (sp : list hp) : NoDup ks →
  flat_map (λ k, filter (λ h, h_tag h = k) sp) ks ≡ₚ filter (λ h, h_tag h ∈ ks) sp.
Proof.
  induction ks as [|k ks IH]; intros Hnd; cbn.
  - induction sp as [|h r IHr]; [done|]. rewrite filter_cons. rewrite decide_False; [done|]. intros H. by apply elem_of_nil in H.
  - apply NoDup_cons in Hnd as [Hk Hnd]. rewrite IH by done. symmetry. by apply filter_tag_split.
Qed.
Lemma group_by_kind_perm sp : Forall known_kind sp → group_by_kind sp ≡ₚ sp.
Proof.
  intros Hk. unfold group_by_kind. rewrite flat_map_filter_tags.
  - induction sp as [|h r IH]; [done|]. inversion Hk; subst. rewrite filter_cons. rewrite decide_True by done. f_equiv. by apply IH.
  - unfold kind_order. repeat (apply NoDup_cons; split; [set_solver|]). apply NoDup_nil_2.
Qed.
Theorem decoded_space_perm sp : Forall known_kind sp → decoded_space sp ≡ₚ sp.
Proof. intros H. unfold decoded_space. rewrite depth_sort_perm. by apply group_by_kind_perm. Qed.

(* ---- parents first ------------------------------------------------------------------------------------------------ *)
(* every condition of an entry names an entry of the space with strictly fewer conditions *)
Definition depth_ok (sp : list hp) : Prop :=
  ∀ h c, h ∈ sp → c ∈ h_conds h → ∃ h', h' ∈ sp ∧ h_name h' = c_name c ∧ depth h' < depth h.

Lemma dins_sorted x l : Sorted (λ a b, depth a ≤ depth b) l → Sorted (λ a b, depth a ≤ depth b) (dins x l).
Proof.
  induction l as [|y r IH]; intros Hs; cbn; [repeat constructor|].
  case_decide as E.
  - constructor; [done|]. by constructor.
  - inversion Hs as [|? ? Hs' Hh]; subst. constructor; [by apply IH|].
    destruct r as [|z r']; cbn; [constructor; lia|]. case_decide; constructor; try lia. by inversion Hh.
Qed.
Lemma depth_sort_sorted l : Sorted (λ a b, depth a ≤ depth b) (depth_sort l).
Proof. induction l as [|x r IH]; cbn; [constructor|]. by apply dins_sorted. Qed.

Lemma sorted_take_smaller (l : list hp) i h h' :
  Sorted (λ a b, depth a ≤ depth b) l → l !! i = Some h → h' ∈ l → depth h' < depth h → h' ∈ take i l.
Proof.
  intros Hs Hi Hin Hlt.
  assert (Hss : StronglySorted (λ a b, depth a ≤ depth b) l).
  { apply Sorted_StronglySorted; [|done]. intros a b c ??. lia. }
  apply elem_of_list_lookup in Hin as [j Hj].
  destruct (decide (j < i)) as [Hji|Hji].
  - apply elem_of_list_lookup. exists j. by rewrite lookup_take.
  - exfalso. destruct (decide (j = i)) as [->|Hne]; [rewrite Hi in Hj; inversion Hj; subst; lia|].
    assert (i < j) by lia.
    (* h at i precedes h' at j in a sorted list: depth h <= depth h' *)
    clear Hji Hne Hs. revert i j Hi Hj H. induction Hss as [|a r Hr IH Hall]; intros i j Hi Hj Hij; [done|].
    destruct i as [|i]; cbn in Hi.
    + inversion Hi; subst a. destruct j as [|j]; [lia|]. cbn in Hj. rewrite Forall_forall in Hall.
      assert (depth h ≤ depth h') by (apply Hall; by eapply elem_of_list_lookup_2). lia.
    + destruct j as [|j]; [lia|]. cbn in Hj. apply (IH i j); [done|done|lia].
Qed.

Theorem decoded_parents_first sp : Forall known_kind sp → depth_ok sp → wo_list (decoded_space sp).
Proof.
  intros Hk Hd i h Hi c Hc.
  assert (Hperm : decoded_space sp ≡ₚ sp) by (by apply decoded_space_perm).
  assert (Hin : h ∈ sp). { rewrite <-Hperm. by eapply elem_of_list_lookup_2. }
  destruct (Hd h c Hin Hc) as (h' & Hh' & Hn & Hlt).
  exists h'. split; [|done].
  eapply sorted_take_smaller; [apply depth_sort_sorted|exact Hi| |exact Hlt]. by rewrite Hperm.
Qed.

(* ---- every search space a build program produces satisfies depth_ok ------------------------------------------------ *)
Definition DInv (s : hps) : Prop :=
  depth_ok (s_space s) ∧
  (∀ i c, s_conds s !! i = Some c → ∃ h', h' ∈ s_space s ∧ h_name h' = c_name c ∧ depth h' = i).

Lemma conds_eqb_length a : ∀ b, conds_eqb a b = true → length a = length b.
Proof. induction a as [|x a IH]; intros [|y b] H; cbn in *; try done. apply andb_true_iff in H as [_ H]. f_equal. by apply IH. Qed.
Lemma exists_depth s n cs : exists_ s n cs = true → ∃ h', h' ∈ s_space s ∧ h_name h' = n ∧ depth h' = length cs.
Proof.
  unfold exists_. intros H. apply existsb_exists in H as (h' & Hin & Hb). apply andb_true_iff in Hb as [Hn Hc].
  apply bool_decide_eq_true in Hn. exists h'. split; [by apply elem_of_list_In|]. split; [done|]. by apply conds_eqb_length.
Qed.
Lemma depth_ok_snoc sp h : depth_ok sp →
  (∀ c, c ∈ h_conds h → ∃ h', h' ∈ sp ∧ h_name h' = c_name c ∧ depth h' < depth h) → depth_ok (sp ++ [h]).
Proof.
  intros Hd Hh x c Hx Hc. apply elem_of_app in Hx as [Hx|Hx].
  - destruct (Hd x c Hx Hc) as (h' & ? & ? & ?). exists h'. split; [apply elem_of_app; by left|done].
  - apply elem_of_list_singleton in Hx. subst x. destruct (Hh c Hc) as (h' & ? & ? & ?). exists h'. split; [apply elem_of_app; by left|done].
Qed.
Lemma dinv_stack_mono s (sp' : list hp) : (∀ x, x ∈ s_space s → x ∈ sp') →
  (∀ i c, s_conds s !! i = Some c → ∃ h', h' ∈ s_space s ∧ h_name h' = c_name c ∧ depth h' = i) →
  (∀ i c, s_conds s !! i = Some c → ∃ h', h' ∈ sp' ∧ h_name h' = c_name c ∧ depth h' = i).
Proof. intros Hsub H i c Hi. destruct (H i c Hi) as (h' & ? & ? & ?). exists h'. auto. Qed.

Lemma dinv_register s h ov s' r : DInv s → h_conds h = s_conds s → register s h ov = Ok (s', r) → DInv s'.
Proof.
  intros [Hd Hst] Hc. unfold register. destruct (existsb _ (s_conds s)); [done|]. unfold is_active. cbn [s_values s_space].
  assert (Hnew : depth_ok (s_space s ++ [h])).
  { apply depth_ok_snoc; [done|]. intros c Hcin. rewrite Hc in Hcin. apply elem_of_list_lookup in Hcin as [i Hi].
    destruct (Hst i c Hi) as (h' & ? & ? & Hdep). exists h'. split; [done|]. split; [done|].
    unfold depth at 2. rewrite Hc. apply lookup_lt_Some in Hi. lia. }
  assert (Hst' : ∀ i c, s_conds s !! i = Some c → ∃ h', h' ∈ s_space s ++ [h] ∧ h_name h' = c_name c ∧ depth h' = i).
  { apply dinv_stack_mono; [|done]. intros x Hx. apply elem_of_app. by left. }
  destruct (conds_active (s_values s) (h_conds h)); intros H; inversion H; subst; split; done.
Qed.
Lemma dinv_declare s n d t s' r : DInv s → declare s n d t = Ok (s', r) → DInv s'.
Proof.
  intros HI. unfold declare, retrieve. cbn [h_name h_conds].
  destruct (exists_ s (get_name s n) (s_conds s)).
  - destruct (is_active s _); [destruct (s_values s !! get_name s n)|]; intros H; inversion H; by subst.
  - intros H. eapply dinv_register; [done| |done]. done.
Qed.
Lemma dinv_enter s p vs s' : DInv s → enter_cond s p vs = Ok s' → DInv s'.
Proof.
  intros [Hd Hst]. unfold enter_cond. destruct (exists_ s (get_name s p) (s_conds s)) eqn:Ee; [|done].
  destruct (exists_depth _ _ _ Ee) as (hp0 & Hin & Hn & Hdep).
  assert (Hst' : ∀ i c, (s_conds s ++ [{| c_name := get_name s p; c_values := standardize vs |}]) !! i = Some c →
                        ∃ h', h' ∈ s_space s ∧ h_name h' = c_name c ∧ depth h' = i).
  { intros i c Hi. destruct (decide (i < length (s_conds s))) as [Hlt|Hge].
    - rewrite lookup_app_l in Hi by done. by apply Hst.
    - rewrite lookup_app_r in Hi by lia. destruct (i - length (s_conds s)) as [|k] eqn:Ek; cbn in Hi; [|done].
      inversion Hi; subst c. cbn. exists hp0. split; [done|]. split; [done|]. lia. }
  destruct (cond_active _ _); intros H; inversion H; subst; split; done.
Qed.
Lemma dinv_exit s : DInv s → DInv (exit_cond s).
Proof.
  intros [Hd Hst]. split; [done|]. cbn. intros i c Hi. apply Hst.
  clear -Hi. revert i Hi. induction (s_conds s) as [|x r IH]; intros i Hi; [done|].
  destruct r as [|y r']; [done|]. destruct i as [|i]; cbn in *; [done|]. by apply IH.
Qed.
Theorem exec_dinv fuel : ∀ s p log, DInv s → DInv (exec fuel s p log).1.1.
Proof.
  induction fuel as [|fuel IH]; intros s p log HI; [done|]. cbn [exec].
  destruct p as [|st rest]; [done|].
  destruct st as [n d t|n|n|n body|eager parent vs body].
  - destruct (declare s n d t) as [[s' v]|e] eqn:Ed; [|done]. apply IH. by eapply dinv_declare.
  - destruct (get s n); by apply IH.
  - by apply IH.
  - assert (Hp : DInv (push_scope s n)) by (by destruct HI).
    pose proof (IH (push_scope s n) body log Hp) as H1.
    destruct (exec fuel (push_scope s n) body log) as [[s1 log1] r]. cbn in H1.
    assert (Hq : DInv (pop_scope s1)) by (by destruct H1).
    destruct r; [done|]. by apply IH.
  - destruct (enter_cond s parent vs) as [s0|e] eqn:Ee; [|done].
    pose proof (dinv_enter s parent vs s0 HI Ee) as HI0.
    destruct (eager || cond_active (s_values s0) _).
    + pose proof (IH s0 body log HI0) as H1. destruct (exec fuel s0 body log) as [[s1 log1] r]. cbn in H1.
      destruct r; [by apply dinv_exit|]. apply IH. by apply dinv_exit.
    + apply IH. by apply dinv_exit.
Qed.
Corollary exec_depth_ok fuel p : depth_ok (s_space (exec fuel empty_hps p []).1.1).
Proof.
  apply (exec_dinv fuel empty_hps p []). split; [intros h c Hh; by apply elem_of_nil in Hh|intros i c Hi; done].
Qed.
(* hence: the space of any build program, sent through the protocol buffers, is decoded parents-first *)
Corollary program_space_decodes_parents_first fuel p :
  Forall known_kind (s_space (exec fuel empty_hps p []).1.1) → wo_list (decoded_space (s_space (exec fuel empty_hps p []).1.1)).
Proof. intros Hk. apply decoded_parents_first; [done|apply exec_depth_ok]. Qed.
