(* HyperbandOracle: the values a trial is issued with (hyperband.py, _populate_space / _random_trial):
     promotion   values = best_trial.hyperparameters.values.copy(); values["tuner/trial_id"] = best_trial.trial_id;
                 values["tuner/epochs"], ["tuner/initial_epoch"], ["tuner/bracket"], ["tuner/round"] = ...
     round 0     values = self._random_values(); the four entries without tuner/trial_id
   and the view _compute_values_hash takes of them (the four schedule entries popped, tuner/trial_id kept).
   The five names are parameters: all that is used is that they are pairwise distinct and not names of the search space. *)
From stdpp Require Import gmap list.
From Coq Require Import ZArith.
From KT Require Import Space Discover Cover HB.
Set Default Proof Using "Type".

Record tnames := { n_trial_id : name; n_epochs : name; n_initial : name; n_bracket : name; n_round : name }.
Definition tuner_names (t : tnames) : list name := [n_trial_id t; n_epochs t; n_initial t; n_bracket t; n_round t].

Definition sched_entries (t : tnames) (i : hinfo) (v : vals) : vals :=
  <[n_round t := VInt (Z.of_nat (i_round i))]> (<[n_bracket t := VInt (Z.of_nat (i_label i))]>
    (<[n_initial t := VInt (i_initial i)]> (<[n_epochs t := VInt (i_epochs i)]> v))).
Definition promote_values (t : tnames) (parent : vals) (pid : value) (i : hinfo) : vals :=
  sched_entries t i (<[n_trial_id t := pid]> parent).
Definition fresh_values (t : tnames) (sample : vals) (i : hinfo) : vals := sched_entries t i sample.

(* the payload function HB.hpopulate is parameterised by: parents' values and ids are looked up in the trial table *)
Definition hb_payload (t : tnames) (pvals : nat → vals) (pid : nat → value) (sample : vals) (i : hinfo) : vals :=
  match i_parent i with
  | Some q => promote_values t (pvals q) (pid q) i
  | None => fresh_values t sample i
  end.

(* _compute_values_hash: the schedule entries do not count *)
Definition hash_view (t : tnames) (v : vals) : vals :=
  delete (n_round t) (delete (n_bracket t) (delete (n_initial t) (delete (n_epochs t) v))).

Lemma wo_cnames_pre sp : ∀ pre, wo pre sp → ∀ h', h' ∈ sp → cnames h' ⊆ pre ++ hnames sp.
Proof.
  induction sp as [|a r IH]; intros pre Hw h' Hh'; [by apply elem_of_nil in Hh'|].
  destruct Hw as (Ha & _ & Hw). apply elem_of_cons in Hh' as [->|Hh'].
  - set_solver.
  - specialize (IH _ Hw _ Hh'). cbn. set_solver.
Qed.
Lemma wo_cnames sp : wo [] sp → ∀ h', h' ∈ sp → cnames h' ⊆ hnames sp.
Proof. intros Hwo h' Hh'. pose proof (wo_cnames_pre sp [] Hwo h' Hh') as G. by rewrite app_nil_l in G. Qed.

Section facts.
Variable t : tnames.

Definition tdistinct : Prop :=
  n_trial_id t ≠ n_epochs t ∧ n_trial_id t ≠ n_initial t ∧ n_trial_id t ≠ n_bracket t ∧ n_trial_id t ≠ n_round t ∧
  n_epochs t ≠ n_initial t ∧ n_epochs t ≠ n_bracket t ∧ n_epochs t ≠ n_round t ∧
  n_initial t ≠ n_bracket t ∧ n_initial t ≠ n_round t ∧ n_bracket t ≠ n_round t.
Lemma tn_distinct : NoDup (tuner_names t) → tdistinct.
Proof.
  unfold tuner_names, tdistinct. intros Hnd.
  apply NoDup_cons in Hnd as [H1 Hnd]. apply NoDup_cons in Hnd as [H2 Hnd]. apply NoDup_cons in Hnd as [H3 Hnd].
  apply NoDup_cons in Hnd as [H4 _].
  repeat split; intros E; first [apply H1; rewrite E; set_solver|apply H2; rewrite E; set_solver|apply H3; rewrite E; set_solver|apply H4; rewrite E; set_solver].
Qed.
Ltac tdist H := apply tn_distinct in H; destruct H as (?&?&?&?&?&?&?&?&?&?).

Lemma sched_other i v n : n ∉ [n_epochs t; n_initial t; n_bracket t; n_round t] → sched_entries t i v !! n = v !! n.
Proof.
  intros Hn. unfold sched_entries.
  rewrite !lookup_insert_ne; [done|..]; intros <-; apply Hn; set_solver.
Qed.

(* every entry that is not one of the five tuner/* names is the parent's *)
Theorem promote_other parent pid i n : n ∉ tuner_names t → promote_values t parent pid i !! n = parent !! n.
Proof.
  intros Hn. unfold promote_values. rewrite sched_other.
  - rewrite lookup_insert_ne; [done|]. intros <-. apply Hn. set_solver.
  - intros H. apply Hn. unfold tuner_names. set_solver.
Qed.
Theorem fresh_other sample i n : n ∉ tuner_names t → fresh_values t sample i !! n = sample !! n.
Proof. intros Hn. apply sched_other. intros H. apply Hn. unfold tuner_names. set_solver. Qed.

(* what the tuner reads back *)
Theorem promote_entries parent pid i : NoDup (tuner_names t) →
  let v := promote_values t parent pid i in
  v !! n_trial_id t = Some pid ∧ v !! n_epochs t = Some (VInt (i_epochs i)) ∧ v !! n_initial t = Some (VInt (i_initial i)) ∧
  v !! n_bracket t = Some (VInt (Z.of_nat (i_label i))) ∧ v !! n_round t = Some (VInt (Z.of_nat (i_round i))).
Proof.
  intros Hnd. tdist Hnd. cbn. unfold promote_values, sched_entries.
  repeat split; rewrite ?lookup_insert_ne by done; by rewrite lookup_insert.
Qed.
Theorem fresh_entries sample i : NoDup (tuner_names t) → sample !! n_trial_id t = None →
  let v := fresh_values t sample i in
  v !! n_trial_id t = None ∧ v !! n_epochs t = Some (VInt (i_epochs i)) ∧ v !! n_initial t = Some (VInt (i_initial i)) ∧
  v !! n_bracket t = Some (VInt (Z.of_nat (i_label i))) ∧ v !! n_round t = Some (VInt (Z.of_nat (i_round i))).
Proof.
  intros Hnd Hs. tdist Hnd. cbn. unfold fresh_values, sched_entries.
  repeat split; rewrite ?lookup_insert_ne by done; [done|by rewrite lookup_insert..].
Qed.

(* C05 for the copy step: a space none of whose names is a tuner/* name (its conditions mention names of the space only:
   wo) is valued by the promoted trial on exactly the entries the parent valued, and the activity of every entry is the same -
   so "exactly the active entries" carries over from the parent (Cover.ensure_covers / EnsureIdem for a sampled parent) *)
Theorem promote_exactly_active sp parent pid i :
  wo [] sp → (∀ n, n ∈ hnames sp → n ∉ tuner_names t) →
  (∀ h, h ∈ sp → (is_Some (parent !! h_name h) ↔ conds_active parent (h_conds h) = true)) →
  let v := promote_values t parent pid i in
  ∀ h, h ∈ sp → (is_Some (v !! h_name h) ↔ conds_active v (h_conds h) = true) ∧ v !! h_name h = parent !! h_name h.
Proof.
  intros Hwo Hdisj Hpar v h Hin.
  pose proof (wo_cnames sp Hwo) as Hcn.
  assert (Hv : v !! h_name h = parent !! h_name h).
  { apply promote_other. apply Hdisj. unfold hnames. by apply elem_of_list_fmap_1. }
  split; [|done]. rewrite Hv.
  rewrite (conds_active_agree v parent); [by apply Hpar|].
  intros c Hc. apply promote_other. apply Hdisj. apply (Hcn h Hin). unfold cnames. by apply elem_of_list_fmap_1.
Qed.

(* _compute_values_hash: a promoted trial is hashed as its parent plus tuner/trial_id, a round-0 trial as its bare sample *)
Lemma hash_view_sched i v : NoDup [n_epochs t; n_initial t; n_bracket t; n_round t] →
  hash_view t (sched_entries t i v) = hash_view t v.
Proof.
  intros Hnd. apply NoDup_cons in Hnd as [H2 Hnd]. apply NoDup_cons in Hnd as [H3 Hnd]. apply NoDup_cons in Hnd as [H4 _].
  assert (n_epochs t ≠ n_initial t) by (intros E; apply H2; rewrite E; set_solver).
  assert (n_epochs t ≠ n_bracket t) by (intros E; apply H2; rewrite E; set_solver).
  assert (n_epochs t ≠ n_round t) by (intros E; apply H2; rewrite E; set_solver).
  assert (n_initial t ≠ n_bracket t) by (intros E; apply H3; rewrite E; set_solver).
  assert (n_initial t ≠ n_round t) by (intros E; apply H3; rewrite E; set_solver).
  assert (n_bracket t ≠ n_round t) by (intros E; apply H4; rewrite E; set_solver).
  apply map_eq. intros n. unfold hash_view, sched_entries.
  destruct (decide (n = n_round t)) as [->|?]; [by rewrite !lookup_delete|rewrite !(lookup_delete_ne _ (n_round t)) by done].
  destruct (decide (n = n_bracket t)) as [->|?]; [by rewrite !lookup_delete|rewrite !(lookup_delete_ne _ (n_bracket t)) by done].
  destruct (decide (n = n_initial t)) as [->|?]; [by rewrite !lookup_delete|rewrite !(lookup_delete_ne _ (n_initial t)) by done].
  destruct (decide (n = n_epochs t)) as [->|?]; [by rewrite !lookup_delete|rewrite !(lookup_delete_ne _ (n_epochs t)) by done].
  by rewrite !lookup_insert_ne by done.
Qed.
Theorem hash_view_fresh sample i : NoDup (tuner_names t) → hash_view t (fresh_values t sample i) = hash_view t sample.
Proof. intros Hnd. apply NoDup_cons in Hnd as [_ Hnd]. by apply hash_view_sched. Qed.
Theorem hash_view_promote parent pid i : NoDup (tuner_names t) →
  hash_view t (promote_values t parent pid i) = <[n_trial_id t := pid]> (hash_view t parent).
Proof.
  intros Hnd. pose proof Hnd as Hnd'. apply NoDup_cons in Hnd' as [H1 Hnd']. unfold promote_values.
  rewrite hash_view_sched by done. unfold hash_view.
  rewrite !delete_insert_ne; [done|..]; intros E; apply H1; rewrite <- E; set_solver.
Qed.
(* hence a promoted trial never collides with its own parent in the tried-so-far table unless the parent already pointed at
   the same trial *)
Corollary promote_hash_differs parent pid i : NoDup (tuner_names t) → parent !! n_trial_id t ≠ Some pid →
  hash_view t (promote_values t parent pid i) ≠ hash_view t parent.
Proof.
  intros Hnd Hp E. rewrite hash_view_promote in E by done.
  pose proof Hnd as Hnd'. apply NoDup_cons in Hnd' as [H1 _].
  assert (L : hash_view t parent !! n_trial_id t = parent !! n_trial_id t).
  { unfold hash_view. rewrite !lookup_delete_ne; [done|..]; intros E'; apply H1; rewrite <- E'; set_solver. }
  apply Hp. rewrite <- L, <- E. by rewrite lookup_insert.
Qed.
End facts.
