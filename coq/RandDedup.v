(* C06 (static space): a trial created by random sampling never repeats the values of an existing trial *)
From stdpp Require Import gmap list.
From Coq Require Import ZArith.
From KT Require Import Lifecycle LInv Space Discover Rand.
Set Default Proof Using "Type".

Section dedup.
Variable samp : nat → Z → value.
Variable draw : nat → hp → value.
Variables allow tune : bool.
Variable max_collisions : nat.
Variable c : cfg.
Notation ost := (@ostate rstate tdata unit).
Notation rstepf := (rstep samp draw allow tune max_collisions c).

Definition idh (a : rstate) : gmap nat vals := list_to_map (a_idhash a).
Definition vals_of (s : ost) (id : nat) : option vals := option_map (λ t, tv_values (t_data t)) (nth_error (trials s) id).

(* every stored trial is known to the de-duplication set under its current values *)
Record TInv (s : ost) : Prop := {
  T_tried : ∀ id v, vals_of s id = Some v → v ∈ a_tried (algo s);
  T_idh : ∀ id v, vals_of s id = Some v → idh (algo s) !! id = Some v;
  T_dom : ∀ id, is_Some (idh (algo s) !! id) → id < length (trials s)
}.

Lemma random_values_fresh fuel sp tried seed col v seed' :
  random_values samp draw max_collisions fuel sp tried seed col = (Some v, seed') → v ∉ tried.
Proof.
  revert seed col. induction fuel as [|fuel IH]; intros seed col H; simpl in H; [by inversion H|].
  destruct (sample_pass samp sp 0 empty_hps seed) as [s sd] eqn:Es.
  cbv zeta in H. set (v0 := (ensure_go draw sp sp (s_values s) 0).1) in H.
  unfold duplicate, hash_of in H. destruct (bool_decide (v0 ∈ tried)) eqn:Ed.
  - destruct (Nat.ltb max_collisions (S col)); [done|]. by eapply IH.
  - inversion H; subst. by apply bool_decide_eq_false in Ed.
Qed.

Lemma record_spec a id v k' :
  idh a !! id = None ∨ idh a !! id = Some v →
  let a' := record a id v k' in
  v ∈ a_tried a' ∧ (∀ w, w ∈ a_tried a → w ∈ a_tried a') ∧ idh a' !! id = Some v ∧ (∀ j, j ≠ id → idh a' !! j = idh a !! j) ∧
  (∀ w, w ∈ a_tried a' → w = v ∨ w ∈ a_tried a) ∧ a_osp a' = a_osp a.
Proof.
  intros Hold. unfold record, hash_of. fold (idh a).
  set (tried1 := if bool_decide (v ∈ a_tried a) then a_tried a else a_tried a ++ [v]).
  assert (H1 : v ∈ tried1). { unfold tried1. case_bool_decide; [done|]. apply elem_of_app. right. by left. }
  assert (H2 : ∀ w, w ∈ a_tried a → w ∈ tried1). { intros w Hw. unfold tried1. case_bool_decide; [done|]. apply elem_of_app. by left. }
  assert (H3 : ∀ w, w ∈ tried1 → w = v ∨ w ∈ a_tried a).
  { intros w Hw. unfold tried1 in Hw. case_bool_decide; [by right|]. apply elem_of_app in Hw as [?|Hw]; [by right|]. apply elem_of_list_singleton in Hw. by left. }
  destruct Hold as [Hn|Hs].
  - rewrite Hn. rewrite bool_decide_eq_false_2 by done. cbn. unfold idh. cbn.
    split_and!; [done|done|by rewrite lookup_insert|intros j Hj; by rewrite lookup_insert_ne|done|done].
  - rewrite Hs. rewrite bool_decide_eq_true_2 by done. cbn. unfold idh. cbn. fold (idh a).
    split_and!; [done|done|done|done|done|done].
Qed.

(* tuners hand back what they were given: the static-space setting of this theorem *)
Definition static_end (s : ost) (o : rop) : Prop :=
  match o with
  | REnd id st sp v => ∃ t, nth_error (trials s) id = Some t ∧
        (ensure_go draw sp sp (list_to_map v) (a_k (algo s))).1 = tv_values (t_data t)
  | RReload => False
  | _ => True
  end.
(* what the sampling loop returns has been through ensure_active_values already (Rand.random_values, mirroring the repaired
   Oracle._random_values): the hypothesis says that running it a second time, as create_trial -> _record_values does, changes
   nothing (idempotence of the fill-in on its own output) *)
Definition sample_complete (s : ost) : Prop :=
  ∀ v seed seed' k, random_values samp draw max_collisions (S (S max_collisions)) (s_space (a_osp (algo s))) (a_tried (algo s)) seed 0 = (Some v, seed') →
     (ensure_go draw (s_space (a_osp (algo s))) (s_space (a_osp (algo s))) v k).1 = v.

Lemma vals_of_upd (s : ost) ts' id t0 t' j :
  ts' = upd id (λ _, t') (trials s) →
  nth_error (trials s) id = Some t0 → tv_values (t_data t') = tv_values (t_data t0) →
  option_map (λ t, tv_values (t_data t)) (nth_error ts' j) = vals_of s j.
Proof.
  intros -> Ht Hv. unfold vals_of. destruct (decide (id = j)) as [->|Hne].
  - rewrite nth_upd_same, Ht. cbn. by rewrite Hv.
  - by rewrite nth_upd_other.
Qed.

(* an end_trial (or update) that leaves every trial's values alone and re-records the same hash *)
Lemma tinv_same_vals (s s' : ost) :
  TInv s → length (trials s') = length (trials s) →
  (∀ j, vals_of s' j = vals_of s j) →
  (∀ w, w ∈ a_tried (algo s) → w ∈ a_tried (algo s')) →
  (∀ j, idh (algo s') !! j = idh (algo s) !! j) →
  TInv s'.
Proof.
  intros [H1 H2 H3] Hlen Hv Ht Hi. constructor.
  - intros id v Hs. apply Ht. eapply H1. by rewrite <-Hv.
  - intros id v Hs. rewrite Hi. eapply H2. by rewrite <-Hv.
  - intros id Hs. rewrite Hlen. apply H3. by rewrite <-Hi.
Qed.

Theorem tinv_step s o : TInv s → static_end s o → sample_complete s →
  TInv (fst (rstepf s o)) ∧
  (∀ t_new, trials (fst (rstepf s o)) = trials s ++ [t_new] →
     ∀ j v, vals_of s j = Some v → tv_values (t_data t_new) ≠ v).
Proof.
  intros HT Hst Hsc. destruct o as [tu|id x|id st sp v|]; cbn [rstep].
  - (* create *)
    cbn [step]. unfold do_create.
    destruct (alookup tu (ongoing s)) as [id0|] eqn:Elk.
    { destruct (trial_view vdef (trials s) id0). cbn. split; [done|].
      intros tn Htn. exfalso. apply (f_equal length) in Htn. rewrite app_length in Htn. cbn in Htn. lia. }
    destruct (rev (retryq s)) as [|idr rq'] eqn:Erq.
    + (* populate *)
      assert (Hstop : ∀ tids, TInv {| trials := trials s; ongoing := ongoing s; start_order := start_order s; end_order := end_order s;
                 retryq := retryq s; tuner_ids := tids; algo := algo s; disk := disk s |}) by (intros; by destruct HT).
      set (id := length (trials s)).
      assert (Hpop : let '(a', st, d) := rpopulate samp draw max_collisions (algo s) (trials s) (negb (length (ongoing s) =? 0)) id in
                match st with
                | RUNNING => TInv {| trials := trials s ++ [{| t_status := RUNNING; t_score := None; t_runs := 0; t_data := d |}];
                                     ongoing := ongoing s ++ [(tu, id)]; start_order := start_order s ++ [id]; end_order := end_order s;
                                     retryq := retryq s; tuner_ids := add_set tu (tuner_ids s); algo := a';
                                     disk := disk s ++ [to_disk {| t_status := RUNNING; t_score := None; t_runs := 0; t_data := d |}] |}
                             ∧ (∀ j w, vals_of s j = Some w → tv_values d ≠ w)
                | _ => ∀ tids, TInv {| trials := trials s; ongoing := ongoing s; start_order := start_order s; end_order := end_order s;
                                       retryq := retryq s; tuner_ids := tids; algo := a'; disk := disk s |}
                end).
      { unfold rpopulate.
        destruct (random_values samp draw max_collisions (S (S max_collisions)) (s_space (a_osp (algo s))) (a_tried (algo s)) (a_seed (algo s)) 0) as [[v0|] seed'] eqn:Erv.
        - pose proof (random_values_fresh _ _ _ _ _ _ _ Erv) as Hfresh.
          pose proof (Hsc v0 _ _ (a_k (algo s)) Erv) as Hens.
          destruct (ensure_go draw (s_space (a_osp (algo s))) (s_space (a_osp (algo s))) v0 (a_k (algo s))) as [v' k'] eqn:Ee. cbn in Hens. subst v'.
          set (a1 := {| a_osp := a_osp (algo s); a_seed := seed'; a_tried := a_tried (algo s); a_idhash := a_idhash (algo s); a_k := a_k (algo s) |}).
          assert (Hnone : idh a1 !! id = None).
          { destruct (idh a1 !! id) eqn:E; [|done]. exfalso. assert (id < length (trials s)); [|unfold id in *; lia].
            apply (T_dom _ HT). unfold idh in *. cbn in E. by rewrite E. }
          destruct (record_spec a1 id v0 k' (or_introl Hnone)) as (R1 & R2 & R3 & R4 & R5 & R6).
          split.
          + constructor; cbn.
            * intros j w Hj. unfold vals_of in Hj. cbn in Hj.
              destruct (decide (j < length (trials s))) as [Hlt|Hge].
              -- rewrite nth_error_app1 in Hj by done. apply R2. cbn. eapply (T_tried _ HT). exact Hj.
              -- rewrite nth_error_app2 in Hj by lia. destruct (j - length (trials s)) as [|m]; cbn in Hj; [|by destruct m].
                 inversion Hj; subst. exact R1.
            * intros j w Hj. unfold vals_of in Hj. cbn in Hj.
              destruct (decide (j < length (trials s))) as [Hlt|Hge].
              -- rewrite nth_error_app1 in Hj by done. rewrite R4 by (unfold id; lia). eapply (T_idh _ HT). exact Hj.
              -- rewrite nth_error_app2 in Hj by lia. destruct (j - length (trials s)) as [|m] eqn:Ej; cbn in Hj; [|by destruct m].
                 inversion Hj; subst. assert (j = id) as -> by (unfold id; lia). exact R3.
            * intros j Hj. rewrite app_length. cbn. destruct (decide (j = id)) as [->|Hne]; [unfold id; lia|].
              rewrite R4 in Hj by done. pose proof (T_dom _ HT j Hj). lia.
          + intros j w Hj Heq. apply Hfresh. cbn in Heq. subst w. eapply (T_tried _ HT). exact Hj.
        - intros tids. destruct HT as [H1 H2 H3]. constructor; cbn; auto. }
      subst id.
      match goal with |- context [match ?X with (_, _) => _ end] =>
        assert (Hcases : X = (algo s, STOPPED, vdef) ∨
                         X = rpopulate samp draw max_collisions (algo s) (trials s) (negb (length (ongoing s) =? 0)) (length (trials s)))
          by (destruct (max_trials c) as [n|]; [destruct (Nat.leb n (length (trials s)))|]; auto);
        destruct X as [[a' st'] d] eqn:EX
      end.
      destruct Hcases as [Hc|Hc].
      * inversion Hc; subst. cbn. split; [apply Hstop|].
        intros tn Htn. exfalso. apply (f_equal length) in Htn. rewrite app_length in Htn. cbn in Htn. lia.
      * rewrite <-Hc in Hpop.
        destruct st'; cbn; try (split; [apply Hpop|intros tn Htn; exfalso; apply (f_equal length) in Htn; rewrite app_length in Htn; cbn in Htn; lia]).
        destruct Hpop as [Hp1 Hp2]. split; [exact Hp1|]. intros tn Htn. apply app_inj_tail in Htn as [_ <-]. exact Hp2.
    + (* re-issued from the retry queue *)
      cbn. split.
      * eapply tinv_same_vals; [exact HT|cbn; by rewrite length_upd| |done|done].
        intros j. unfold vals_of. cbn. destruct (decide (idr = j)) as [->|Hne]; [|by rewrite nth_upd_other].
        rewrite nth_upd_same. by destruct (nth_error (trials s) j).
      * intros tn Htn. exfalso. apply (f_equal length) in Htn. rewrite length_upd, app_length in Htn. cbn in Htn. lia.
  - (* update *)
    cbn [step]. unfold do_update. destruct (nth_error (trials s) id) as [t|] eqn:Et; cbn.
    + split.
      * eapply tinv_same_vals; [exact HT|cbn; by rewrite length_upd| |done|done].
        intros j. cbn. eapply (vals_of_upd s _ id t); [reflexivity|exact Et|reflexivity].
      * intros t' Ht. exfalso. apply (f_equal length) in Ht. rewrite length_upd, app_length in Ht. cbn in Ht. lia.
    + split; [done|]. intros t' Ht. exfalso. apply (f_equal length) in Ht. rewrite app_length in Ht. cbn in Ht. lia.
  - (* end, with the tuner returning the values it was given *)
    destruct Hst as (t0 & Et0 & Hv).
    destruct (ensure_go draw sp sp (list_to_map v) (a_k (algo s))) as [v' k'] eqn:Ee. cbn in Hv. subst v'.
    cbn [step]. unfold do_end.
    destruct (negb (existsb (λ kv, kv.2 =? id) (ongoing s))) eqn:Eex; cbn.
    { split; [by destruct HT|]. intros t' Ht. exfalso. apply (f_equal length) in Ht. rewrite app_length in Ht. cbn in Ht. lia. }
    rewrite Et0.
    (* whatever branch is taken: same values everywhere, same hash re-recorded *)
    assert (Hrec : ∀ a1, a_tried a1 = a_tried (algo s) → a_idhash a1 = a_idhash (algo s) →
               let a' := record a1 id (tv_values (t_data t0)) (a_k (algo s)) in
               (∀ w, w ∈ a_tried (algo s) → w ∈ a_tried a') ∧ (∀ j, idh a' !! j = idh (algo s) !! j)).
    { intros a1 Ht1 Hi1.
      assert (Hs : idh a1 !! id = Some (tv_values (t_data t0))).
      { unfold idh. rewrite Hi1. eapply (T_idh _ HT). unfold vals_of. by rewrite Et0. }
      destruct (record_spec a1 id (tv_values (t_data t0)) (a_k (algo s)) (or_intror Hs)) as (R1 & R2 & R3 & R4 & R5 & R6).
      split.
      - intros w Hw. apply R2. by rewrite Ht1.
      - intros j. destruct (decide (j = id)) as [->|Hne]; [rewrite R3; unfold idh in Hs; by rewrite Hi1 in Hs|].
        rewrite R4 by done. unfold idh. by rewrite Hi1. }
    repeat match goal with
    | |- context [match ?X with ECompleted => _ | EInvalid => _ | EFailed => _ end] => destruct X; cbn
    | |- context [match rscore ?x with SNaN => _ | SVal _ => _ end] => destruct (rscore x); cbn
    | |- context [Nat.leb ?a ?b] => destruct (Nat.leb a b); cbn
    | |- context [if streak ?a ?b ?d ?e then _ else _] => destruct (streak a b d e); cbn
    | |- context [if abort_early ?cc then _ else _] => destruct (abort_early cc); cbn
    end.
    all: split; [|intros t' Ht; exfalso; apply (f_equal length) in Ht; rewrite length_upd, app_length in Ht; cbn in Ht; lia].
    all: unfold rhook_end; cbn [tv_values tv_space tv_obs].
    all: match goal with |- context [record ?a1 ?i _ _] => pose proof (Hrec a1 eq_refl eq_refl) as Hr end.
    all: cbv zeta in Hr; destruct Hr as [Hr1 Hr2].
    all: eapply tinv_same_vals; [exact HT|cbn; by rewrite length_upd| |exact Hr1|exact Hr2].
    all: intros j; cbn; eapply (vals_of_upd s _ id t0); [reflexivity|exact Et0|reflexivity].
  - done.
Qed.
End dedup.
Print Assumptions tinv_step.
