(* C13: lookup semantics of the define-by-run container and the registration-order invariant *)
From stdpp Require Import gmap list.
From Coq Require Import ZArith.
From KT Require Import Space Discover.
Set Default Proof Using "Type".

(* ---- (a) declaring / getting -------------------------------------------------------------------------------- *)
(* a known entry whose conditions hold returns the assigned value and changes nothing *)
Theorem retrieve_known_active s h v :
  exists_ s (h_name h) (h_conds h) = true → is_active s h = true → s_values s !! h_name h = Some v →
  retrieve s h = Ok (s, Some v).
Proof. intros He Ha Hv. unfold retrieve. by rewrite He, Ha, Hv. Qed.
(* a known entry whose conditions do not hold returns None and changes nothing *)
Theorem retrieve_known_inactive s h :
  exists_ s (h_name h) (h_conds h) = true → is_active s h = false → retrieve s h = Ok (s, None).
Proof. intros He Ha. unfold retrieve. by rewrite He, Ha. Qed.
(* an unknown entry is registered (appended); if its conditions hold it returns the value already assigned to its name,
   else its default, which is recorded; if they do not hold it returns None *)
Theorem retrieve_unknown s h :
  exists_ s (h_name h) (h_conds h) = false → existsb (λ c, bool_decide (c_name c = h_name h)) (s_conds s) = false →
  ∃ s' r, retrieve s h = Ok (s', r) ∧ s_space s' = s_space s ++ [h] ∧
    (conds_active (s_values s) (h_conds h) = true →
       r = Some (default (h_default h) (s_values s !! h_name h)) ∧
       s_values s' = match s_values s !! h_name h with Some _ => s_values s | None => <[h_name h := h_default h]> (s_values s) end) ∧
    (conds_active (s_values s) (h_conds h) = false → r = None ∧ s_values s' = s_values s).
Proof.
  intros He Hv. unfold retrieve, register. rewrite He, Hv. unfold is_active. cbn [s_values].
  destruct (conds_active (s_values s) (h_conds h)) eqn:Ea.
  - eexists _, _. split; [done|]. split; [done|]. split; [|done]. intros _.
    destruct (s_values s !! h_name h) as [x|] eqn:Ex; cbn; [by rewrite Ex|by rewrite lookup_insert].
  - eexists _, _. split; [done|]. split; [done|]. split; [done|]. intros _. done.
Qed.
(* reading by name: the value if there is one, ValueError if the name is known but has no value (inactive), KeyError if unknown *)
Theorem get_spec s n :
  match get s n with
  | Ok v => s_values s !! get_name s n = Some v
  | Err EValueError => s_values s !! get_name s n = None ∧ known s (get_name s n) = true
  | Err EKeyError => s_values s !! get_name s n = None ∧ known s (get_name s n) = false
  end.
Proof. unfold get. destruct (s_values s !! get_name s n); [done|]. by destruct (known s (get_name s n)). Qed.
Theorem contains_spec s n : contains s n = true ↔ is_Some (s_values s !! get_name s n).
Proof.
  unfold contains, get. destruct (s_values s !! get_name s n); [split; [by eexists|done]|].
  destruct (known s (get_name s n)); split; try done; by intros [? ?].
Qed.

(* ---- (d) new entries ---------------------------------------------------------------------------------------- *)
Theorem update_space_spec allow tune osp hp :
  let new := filter (λ h, negb (exists_ osp (h_name h) (h_conds h))) (s_space hp) in
  (allow = false → new ≠ [] → update_space allow tune osp hp = UsNotAllowed) ∧
  ((allow = true ∨ new = []) → tune = false → update_space allow tune osp hp = UsOk osp) ∧
  ((allow = true ∨ new = []) → tune = true → update_space allow tune osp hp = UsOk (merge_list osp new)).
Proof.
  intros new. unfold update_space. fold new. repeat split.
  - intros Ha Hne. rewrite Ha. destruct new; [done|]. done.
  - intros [Ha|Hn] Ht; rewrite Ht; [by rewrite Ha|]. rewrite Hn. by destruct allow.
  - intros [Ha|Hn] Ht; rewrite Ht; [by rewrite Ha|]. rewrite Hn. by destruct allow.
Qed.

(* ---- (b) parents are registered before their children -------------------------------------------------------- *)
Definition parents_known (sp : list hp) (cs : list cond) : Prop := ∀ c, c ∈ cs → ∃ h', h' ∈ sp ∧ h_name h' = c_name c.
Definition wo_list (sp : list hp) : Prop := ∀ i h, sp !! i = Some h → parents_known (take i sp) (h_conds h).
Definition SInv (s : hps) : Prop := wo_list (s_space s) ∧ parents_known (s_space s) (s_conds s).

Lemma parents_known_app sp x cs : parents_known sp cs → parents_known (sp ++ x) cs.
Proof. intros H c Hc. destruct (H c Hc) as (h' & Hh & Hn). exists h'. split; [|done]. apply elem_of_app. by left. Qed.
Lemma wo_list_snoc sp h : wo_list sp → parents_known sp (h_conds h) → wo_list (sp ++ [h]).
Proof.
  intros Hw Hp i x Hi. destruct (decide (i < length sp)) as [Hlt|Hge].
  - rewrite lookup_app_l in Hi by done. rewrite take_app_le by lia. by apply Hw.
  - assert (i = length sp) as ->.
    { apply lookup_lt_Some in Hi. rewrite app_length in Hi. cbn in Hi. lia. }
    rewrite lookup_app_r in Hi by lia. rewrite Nat.sub_diag in Hi. cbn in Hi. inversion Hi; subst x.
    rewrite take_app_le by lia. by rewrite firstn_all.
Qed.

Lemma sinv_register s h ov s' r : SInv s → h_conds h = s_conds s → register s h ov = Ok (s', r) → SInv s'.
Proof.
  intros [Hw Hp] Hc. unfold register.
  destruct (existsb _ (s_conds s)); [done|]. unfold is_active. cbn [s_values s_space].
  assert (Hnew : wo_list (s_space s ++ [h])) by (apply wo_list_snoc; [done|by rewrite Hc]).
  destruct (conds_active (s_values s) (h_conds h)); intros H; inversion H; subst; split; cbn; try done; by apply parents_known_app.
Qed.
Lemma sinv_declare s n d t s' r : SInv s → declare s n d t = Ok (s', r) → SInv s'.
Proof.
  intros HI. unfold declare, retrieve. cbn [h_name h_conds].
  destruct (exists_ s (get_name s n) (s_conds s)).
  - destruct (is_active s _); [destruct (s_values s !! get_name s n)|]; intros H; inversion H; by subst.
  - intros H. eapply sinv_register; [done| |done]. done.
Qed.
Lemma exists_elem s n cs : exists_ s n cs = true → ∃ h', h' ∈ s_space s ∧ h_name h' = n.
Proof.
  unfold exists_. intros H. apply existsb_exists in H as (h' & Hin & Hb). apply andb_true_iff in Hb as [Hn _].
  apply bool_decide_eq_true in Hn. exists h'. split; [by apply elem_of_list_In|done].
Qed.
Lemma sinv_enter s p vs s' : SInv s → enter_cond s p vs = Ok s' → SInv s'.
Proof.
  intros [Hw Hp]. unfold enter_cond. destruct (exists_ s (get_name s p) (s_conds s)) eqn:Ee; [|done].
  assert (Hk : parents_known (s_space s) (s_conds s ++ [{| c_name := get_name s p; c_values := standardize vs |}])).
  { intros c Hc. apply elem_of_app in Hc as [Hc|Hc]; [by apply Hp|]. apply elem_of_list_singleton in Hc. subst c. cbn. by eapply exists_elem. }
  destruct (cond_active _ _); intros H; inversion H; subst; split; done.
Qed.
Lemma sinv_exit s : SInv s → SInv (exit_cond s).
Proof.
  intros [Hw Hp]. split; [done|]. cbn. intros c Hc. apply Hp.
  clear -Hc. induction (s_conds s) as [|x r IH]; [done|]. destruct r as [|y r']; [by apply elem_of_nil in Hc|].
  cbn in Hc. apply elem_of_cons in Hc as [->|Hc]; [by left|right; by apply IH].
Qed.
Lemma sinv_push s n : SInv s → SInv (push_scope s n). Proof. by intros [? ?]. Qed.
Lemma sinv_pop s : SInv s → SInv (pop_scope s). Proof. by intros [? ?]. Qed.

(* every container reachable by running a build program keeps parents registered before their children *)
Theorem exec_sinv fuel : ∀ s p log, SInv s → SInv (exec fuel s p log).1.1.
Proof.
  induction fuel as [|fuel IH]; intros s p log HI; [done|]. cbn [exec].
  destruct p as [|st rest]; [done|].
  destruct st as [n d t|n|n|n body|eager parent vs body].
  - destruct (declare s n d t) as [[s' v]|e] eqn:Ed; [|done]. apply IH. by eapply sinv_declare.
  - destruct (get s n); by apply IH.
  - by apply IH.
  - pose proof (IH (push_scope s n) body log (sinv_push s n HI)) as H1.
    destruct (exec fuel (push_scope s n) body log) as [[s1 log1] r]. cbn in H1.
    destruct r; [by apply sinv_pop|]. apply IH. by apply sinv_pop.
  - destruct (enter_cond s parent vs) as [s0|e] eqn:Ee; [|done].
    pose proof (sinv_enter s parent vs s0 HI Ee) as HI0.
    destruct (eager || cond_active (s_values s0) _).
    + pose proof (IH s0 body log HI0) as H1. destruct (exec fuel s0 body log) as [[s1 log1] r]. cbn in H1.
      destruct r; [by apply sinv_exit|]. apply IH. by apply sinv_exit.
    + apply IH. by apply sinv_exit.
Qed.
Corollary exec_parents_first fuel p : wo_list (s_space (exec fuel empty_hps p []).1.1).
Proof. apply (exec_sinv fuel empty_hps p []). split; [intros i h Hi; done|intros c Hc; by apply elem_of_nil in Hc]. Qed.
