From Coq Require Import List ZArith Bool Lia PeanoNat.
Import ListNotations.
From KT Require Import Lifecycle.

(* ---------- list helpers ---------- *)
Lemma length_upd {X} n (f : X -> X) l : length (upd n f l) = length l.
Proof. revert n; induction l as [|x r IH]; intros [|n]; simpl; auto. Qed.
Lemma nth_upd_same {X} n (f : X -> X) l : nth_error (upd n f l) n = option_map f (nth_error l n).
Proof. revert n; induction l as [|x r IH]; intros [|n]; simpl; auto. Qed.
Lemma nth_upd_other {X} n m (f : X -> X) l : n <> m -> nth_error (upd n f l) m = nth_error l m.
Proof. revert n m; induction l as [|x r IH]; intros [|n] [|m] H; simpl; auto; try congruence. Qed.

Lemma alookup_none tu l : alookup tu l = None -> ~ In tu (map fst l).
Proof.
  induction l as [|[k v] r IH]; simpl; [tauto|].
  destruct (Nat.eqb_spec k tu); [discriminate|]. intros H [E|Hin]; [congruence|]. now apply IH.
Qed.
Lemma alookup_some tu l id : alookup tu l = Some id -> In (tu, id) l.
Proof.
  induction l as [|[k v] r IH]; simpl; [discriminate|].
  destruct (Nat.eqb_spec k tu); [intros [= <-]; subst; now left|]. intros H. right. now apply IH.
Qed.
Lemma rfb_in id l p : In p (remove_first_by_id id l) -> In p l.
Proof.
  induction l as [|[k v] r IH]; simpl; [tauto|].
  destruct (Nat.eqb_spec v id); [now right|]. intros [E|H]; [now left|right; now apply IH].
Qed.
Lemma rfb_notin id l : NoDup (map snd l) -> ~ In id (map snd (remove_first_by_id id l)).
Proof.
  induction l as [|[k v] r IH]; simpl; [tauto|]. intros Hnd. inversion Hnd as [|? ? Hv Hnd']; subst.
  destruct (Nat.eqb_spec v id); [subst; exact Hv|]. simpl. intros [E|H]; [congruence|]. now apply IH.
Qed.
Lemma rfb_keeps id l tu i : In (tu, i) l -> i <> id -> In (tu, i) (remove_first_by_id id l).
Proof.
  induction l as [|[k v] r IH]; simpl; [tauto|]. intros [E|H] Hne.
  - inversion E; subst. destruct (Nat.eqb_spec i id); [congruence|now left].
  - destruct (Nat.eqb_spec v id); [exact H|right; now apply IH].
Qed.
Lemma rfb_snd_in id l i : In i (map snd (remove_first_by_id id l)) -> In i (map snd l).
Proof. intros H. apply in_map_iff in H as (p & E & Hp). apply in_map_iff. exists p. split; [exact E|]. eapply rfb_in; eauto. Qed.
Lemma rfb_snd_keeps id l i : In i (map snd l) -> i <> id -> In i (map snd (remove_first_by_id id l)).
Proof.
  intros H Hne. apply in_map_iff in H as ([a b] & E & Hp). simpl in E; subst.
  apply in_map_iff. exists (a, i). split; [reflexivity|]. now apply rfb_keeps.
Qed.
Lemma rfb_nodup_fst id l : NoDup (map fst l) -> NoDup (map fst (remove_first_by_id id l)).
Proof.
  induction l as [|[k v] r IH]; simpl; [auto|]. intros Hnd. inversion Hnd as [|? ? Hk Hnd']; subst.
  destruct (Nat.eqb_spec v id); [exact Hnd'|]. simpl. constructor; [|now apply IH].
  intros Hin. apply Hk. apply in_map_iff in Hin as ([a b] & E & Hin). simpl in E; subst.
  apply in_map_iff. exists (k, b). split; [reflexivity|]. eapply rfb_in; eauto.
Qed.
Lemma rfb_nodup_snd id l : NoDup (map snd l) -> NoDup (map snd (remove_first_by_id id l)).
Proof.
  induction l as [|[k v] r IH]; simpl; [auto|]. intros Hnd. inversion Hnd as [|? ? Hk Hnd']; subst.
  destruct (Nat.eqb_spec v id); [exact Hnd'|]. simpl. constructor; [|now apply IH].
  intros Hin. apply Hk. now apply rfb_snd_in in Hin.
Qed.
Lemma rev_cons_inv {X} (l : list X) x r : rev l = x :: r -> l = rev r ++ [x].
Proof. intros H. rewrite <- (rev_involutive l), H. reflexivity. Qed.
Lemma existsb_snd id (l : list (nat * nat)) : existsb (fun kv => Nat.eqb (snd kv) id) l = true <-> In id (map snd l).
Proof.
  rewrite existsb_exists. split.
  - intros ([a b] & Hin & E). simpl in E. apply Nat.eqb_eq in E. subst. apply in_map_iff. now exists (a, id).
  - intros Hin. apply in_map_iff in Hin as ([a b] & E & Hin). simpl in E; subst. exists (a, id). split; [auto|apply Nat.eqb_refl].
Qed.
Lemma NoDup_app_snoc {X} (l : list X) x : NoDup l -> ~ In x l -> NoDup (l ++ [x]).
Proof.
  intros Hnd Hx. induction l as [|y r IH]; simpl; [constructor; [tauto|constructor]|].
  inversion Hnd; subst. constructor.
  - intros H. apply in_app_or in H as [H|[H|[]]]; [contradiction|]. subst. apply Hx. now left.
  - apply IH; [assumption|]. intros H. apply Hx. now right.
Qed.

(* NoDup of a three-way concatenation, as a usable record *)
Definition part3 (a b c : list nat) : Prop :=
  NoDup a /\ NoDup b /\ NoDup c /\
  (forall x, In x a -> ~ In x b) /\ (forall x, In x a -> ~ In x c) /\ (forall x, In x b -> ~ In x c).


Lemma part3_add_a a b c x : part3 a b c -> ~ In x a -> ~ In x b -> ~ In x c -> part3 (a ++ [x]) b c.
Proof.
  intros (Ha & Hb & Hc & Hab & Hac & Hbc) Hxa Hxb Hxc. repeat split; auto.
  - now apply NoDup_app_snoc.
  - intros y Hy. apply in_app_or in Hy as [Hy|[<-|[]]]; auto.
  - intros y Hy. apply in_app_or in Hy as [Hy|[<-|[]]]; auto.
Qed.

Lemma part3_b_to_a a b c x : part3 a (b ++ [x]) c -> part3 (a ++ [x]) b c.
Proof.
  intros (Ha & Hb & Hc & Hab & Hac & Hbc).
  assert (Hxb : ~ In x b). { apply NoDup_remove_2 in Hb. now rewrite app_nil_r in Hb. }
  assert (Hb' : NoDup b). { apply NoDup_remove_1 in Hb. now rewrite app_nil_r in Hb. }
  assert (Hxa : ~ In x a). { intros H. apply (Hab x H). apply in_or_app. right. now left. }
  assert (Hxc : ~ In x c). { apply Hbc. apply in_or_app. right. now left. }
  repeat split; auto.
  - now apply NoDup_app_snoc.
  - intros y Hy Hyb. apply in_app_or in Hy as [Hy|[<-|[]]]; [|contradiction].
    apply (Hab y Hy). apply in_or_app. now left.
  - intros y Hy. apply in_app_or in Hy as [Hy|[<-|[]]]; auto.
  - intros y Hy. apply Hbc. apply in_or_app. now left.
Qed.

Lemma part3_reload a b c : part3 a b c -> part3 [] (b ++ a) c.
Proof.
  intros (Ha & Hb & Hc & Hab & Hac & Hbc). repeat split; auto; try constructor; try (intros ? []).
  - clear -Ha Hb Hab. induction b as [|y r IH]; simpl; [exact Ha|]. inversion Hb; subst. constructor.
    + intros H. apply in_app_or in H as [H|H]; [contradiction|]. apply (Hab y H). now left.
    + apply IH; [assumption|]. intros x Hx Hr. apply (Hab x Hx). now right.
  - intros y Hy. apply in_app_or in Hy as [Hy|Hy]; auto.
Qed.

Lemma part3_move_b (og : list (nat * nat)) b c id :
  part3 (map snd og) b c -> In id (map snd og) ->
  part3 (map snd (remove_first_by_id id og)) (b ++ [id]) c.
Proof.
  intros (Ha & Hb & Hc & Hab & Hac & Hbc) Hin.
  pose proof (rfb_nodup_snd id og Ha) as Ha'.
  pose proof (rfb_notin id og Ha) as Hnot.
  unfold part3. split; [exact Ha'|]. split; [apply NoDup_app_snoc; auto|]. split; [exact Hc|].
  split; [|split].
  - intros y Hy Hyb. apply in_app_or in Hyb as [Hyb|[<-|[]]]; [|contradiction].
    apply rfb_snd_in in Hy. now apply (Hab y).
  - intros y Hy. apply rfb_snd_in in Hy. now apply Hac.
  - intros y Hy. apply in_app_or in Hy as [Hy|[<-|[]]]; auto.
Qed.

Lemma part3_move_c (og : list (nat * nat)) b c id :
  part3 (map snd og) b c -> In id (map snd og) ->
  part3 (map snd (remove_first_by_id id og)) b (c ++ [id]).
Proof.
  intros (Ha & Hb & Hc & Hab & Hac & Hbc) Hin.
  pose proof (rfb_nodup_snd id og Ha) as Ha'.
  pose proof (rfb_notin id og Ha) as Hnot.
  unfold part3. split; [exact Ha'|]. split; [exact Hb|]. split; [apply NoDup_app_snoc; auto|].
  split; [|split].
  - intros y Hy. apply rfb_snd_in in Hy. now apply Hab.
  - intros y Hy Hyc. apply in_app_or in Hyc as [Hyc|[<-|[]]]; [|contradiction].
    apply rfb_snd_in in Hy. now apply (Hac y).
  - intros y Hy Hyc. apply in_app_or in Hyc as [Hyc|[E|[]]]; [now apply (Hbc y)|]. subst y. now apply (Hab id).
Qed.

Section Inv.
Context {A V Sc : Type}.
Variable vdef : V.
Notation trial := (trial V Sc).
Notation dtrial := (dtrial V Sc).
Variable score_fn : V -> scored Sc.
Variable populate : A -> list trial -> bool -> tid -> A * status * V.
Variable hook_end : A -> tid -> V -> A.
Variable hook_end_abort : A -> tid -> V -> A.
Variable hook_reload : A -> A.
Variable reissue : V -> V.
Notation ost := (@ostate A V Sc).

Definition stat (s : ost) (id : nat) : option status := option_map t_status (nth_error (trials s) id).
Definition onids (s : ost) : list nat := map snd (ongoing s).
Definition waiting (st : status) : Prop := st = RUNNING \/ st = INVALID.
Definition final (st : status) : Prop := st = COMPLETED \/ st = FAILED.
Definition finalat (s : ost) (id : nat) : Prop := exists st, stat s id = Some st /\ final st.

Record Inv (s : ost) : Prop := {
  I_start : start_order s = seq 0 (length (trials s));
  I_disk_len : length (disk s) = length (trials s);
  I_on_t : NoDup (map fst (ongoing s));
  I_part : part3 (onids s) (retryq s) (end_order s);
  I_on_run : forall id, In id (onids s) -> stat s id = Some RUNNING;
  I_rq_wait : forall id, In id (retryq s) -> exists st, stat s id = Some st /\ waiting st;
  I_eo_fin : forall id, In id (end_order s) -> exists st, stat s id = Some st /\ final st;
  (* a trial is handed out, queued, or has ended. (After a crash between the two writes of end_trial the restart can know an
     ended trial that end_order does not list; without a crash every ended trial is in end_order: LStrong.v.) *)
  I_cover : forall id, id < length (trials s) -> In id (onids s) \/ In id (retryq s) \/ finalat s id;
  I_score : forall id t, nth_error (trials s) id = Some t -> t_status t = COMPLETED -> exists x, t_score t = Some (SVal x);
  I_d_fin : forall id, finalat s id -> option_map (@to_disk V Sc) (nth_error (trials s) id) = nth_error (disk s) id;
  I_d_wait : forall id d, In id (onids s) \/ In id (retryq s) -> nth_error (disk s) id = Some d -> waiting (d_status d)
}.

Lemma inv_init a : Inv (init a).
Proof.
  constructor; simpl.
  - reflexivity.
  - reflexivity.
  - constructor.
  - unfold part3. simpl. repeat split; try constructor; tauto.
  - tauto.
  - tauto.
  - tauto.
  - intros id H. lia.
  - intros [|id] t H; discriminate.
  - intros [|id] (st & Hs & _); discriminate.
  - intros id d [[]|[]].
Qed.

Lemma stat_lt s id st : stat s id = Some st -> id < length (trials s).
Proof.
  unfold stat. intros H. destruct (nth_error (trials s) id) eqn:E; [|discriminate].
  apply nth_error_Some. congruence.
Qed.

Lemma waiting_not_final st : waiting st -> final st -> False.
Proof. intros [->| ->] [H|H]; discriminate. Qed.

Lemma finalat_same (s s' : ost) j : stat s' j = stat s j -> finalat s j -> finalat s' j.
Proof. intros E (st & Hs & Hf). exists st. split; [now rewrite E|exact Hf]. Qed.
Lemma eo_finalat s id : Inv s -> In id (end_order s) -> finalat s id.
Proof. intros HI H. exact (I_eo_fin _ HI _ H). Qed.

(* facts every proof needs about an id that is currently handed out *)
Lemma on_facts s id : Inv s -> In id (onids s) ->
  id < length (trials s) /\ ~ In id (retryq s) /\ ~ In id (end_order s).
Proof.
  intros HI H. destruct (I_part _ HI) as (_ & _ & _ & H1 & H2 & _).
  split; [eapply stat_lt, (I_on_run _ HI); eauto|]. split; [now apply H1|now apply H2].
Qed.

(* ---------------- update_trial ---------------- *)
Theorem inv_update s id f : Inv s -> Inv (fst (do_update s id f)).
Proof.
  intros HI. unfold do_update. destruct (nth_error (trials s) id) as [t|] eqn:Et; [|exact HI]. simpl.
  assert (Hlt : id < length (trials s)). { apply nth_error_Some. congruence. }
  set (t' := map_data f t).
  assert (Hst : forall j, option_map t_status (nth_error (upd id (fun _ => t') (trials s)) j) = stat s j).
  { intros j. unfold stat. destruct (Nat.eq_dec id j) as [->|Hne].
    - rewrite nth_upd_same, Et. reflexivity.
    - now rewrite nth_upd_other. }
  constructor; simpl.
  - rewrite length_upd. apply (I_start _ HI).
  - rewrite !length_upd. apply (I_disk_len _ HI).
  - apply (I_on_t _ HI).
  - apply (I_part _ HI).
  - intros j Hj. unfold stat. simpl. rewrite Hst. now apply (I_on_run _ HI).
  - intros j Hj. unfold stat. simpl. rewrite Hst. now apply (I_rq_wait _ HI).
  - intros j Hj. unfold stat. simpl. rewrite Hst. now apply (I_eo_fin _ HI).
  - intros j Hj. rewrite length_upd in Hj. destruct (I_cover _ HI j Hj) as [H|[H|H]]; auto.
    right. right. revert H. apply finalat_same. unfold stat. simpl. apply Hst.
  - intros j u Hn Hc. destruct (Nat.eq_dec id j) as [->|Hne].
    + rewrite nth_upd_same, Et in Hn. simpl in Hn. inversion Hn; subst. simpl in *.
      apply (I_score _ HI j t Et Hc).
    + rewrite nth_upd_other in Hn by assumption. eapply (I_score _ HI); eauto.
  - intros j Hj. assert (Hj' : finalat s j). { revert Hj. apply finalat_same. unfold stat. simpl. symmetry. apply Hst. }
    destruct (Nat.eq_dec id j) as [->|Hne].
    + rewrite !nth_upd_same, Et. simpl.
      assert (j < length (disk s)) by (rewrite (I_disk_len _ HI); exact Hlt).
      destruct (nth_error (disk s) j) eqn:Ed; [reflexivity|]. apply nth_error_None in Ed. lia.
    + rewrite !nth_upd_other by assumption. now apply (I_d_fin _ HI).
  - intros j d Hj Hd. destruct (Nat.eq_dec id j) as [->|Hne].
    + rewrite nth_upd_same in Hd. destruct (nth_error (disk s) j); [|discriminate]. simpl in Hd. inversion Hd; subst. simpl.
      destruct Hj as [Hj|Hj].
      * pose proof (I_on_run _ HI _ Hj) as H. unfold stat in H. rewrite Et in H. simpl in H. inversion H. now left.
      * destruct (I_rq_wait _ HI _ Hj) as (st & H & Hw). unfold stat in H. rewrite Et in H. simpl in H. inversion H; subst. exact Hw.
    + rewrite nth_upd_other in Hd by assumption. eapply (I_d_wait _ HI); eauto.
Qed.

(* ---------------- create_trial ---------------- *)
Theorem inv_create c s tu : Inv s -> Inv (fst (do_create vdef populate reissue c s tu)).
Proof.
  intros HI. unfold do_create.
  destruct (alookup tu (ongoing s)) as [id0|] eqn:Elk.
  { destruct (trial_view vdef (trials s) id0). exact HI. }
  pose proof (alookup_none _ _ Elk) as Htu.
  destruct (rev (retryq s)) as [|id rq'] eqn:Erq.
  - (* populate *)
    set (id := length (trials s)).
    match goal with |- context [match ?X with (_, _) => _ end] => destruct X as [[a' st] v] end.
    assert (Hsame : forall tids, Inv {| trials := trials s; ongoing := ongoing s; start_order := start_order s;
              end_order := end_order s; retryq := retryq s; tuner_ids := tids; algo := a'; disk := disk s |}).
    { intros tids. destruct HI. constructor; simpl; auto. }
    destruct st; simpl; try apply Hsame.
    (* RUNNING: a new trial *)
    set (t := {| t_status := RUNNING; t_score := None; t_runs := 0; t_data := v |}).
    assert (Hfresh : ~ In id (onids s) /\ ~ In id (retryq s) /\ ~ In id (end_order s)).
    { repeat split; intros H.
      - pose proof (stat_lt _ _ _ (I_on_run _ HI _ H)). unfold id in *. lia.
      - destruct (I_rq_wait _ HI _ H) as (st & Hs & _). pose proof (stat_lt _ _ _ Hs). unfold id in *. lia.
      - destruct (I_eo_fin _ HI _ H) as (st & Hs & _). pose proof (stat_lt _ _ _ Hs). unfold id in *. lia. }
    destruct Hfresh as (Hf1 & Hf2 & Hf3).
    assert (Hold : forall j, j < length (trials s) -> nth_error (trials s ++ [t]) j = nth_error (trials s) j).
    { intros j Hj. now rewrite nth_error_app1. }
    assert (Hnew : nth_error (trials s ++ [t]) id = Some t).
    { unfold id. rewrite nth_error_app2 by lia. now rewrite Nat.sub_diag. }
    assert (Hdold : forall j, j < length (trials s) -> nth_error (disk s ++ [to_disk t]) j = nth_error (disk s) j).
    { intros j Hj. rewrite nth_error_app1; [reflexivity|]. now rewrite (I_disk_len _ HI). }
    assert (Hdnew : nth_error (disk s ++ [to_disk t]) id = Some (to_disk t)).
    { unfold id. rewrite nth_error_app2 by (rewrite (I_disk_len _ HI); lia). now rewrite (I_disk_len _ HI), Nat.sub_diag. }
    assert (Hstold : forall j st, stat s j = Some st -> option_map t_status (nth_error (trials s ++ [t]) j) = Some st).
    { intros j st Hs. rewrite Hold; [exact Hs|]. eapply stat_lt; eauto. }
    constructor; simpl.
    + rewrite app_length. simpl. rewrite (I_start _ HI). replace (length (trials s) + 1) with (S (length (trials s))) by lia.
      now rewrite seq_S.
    + rewrite !app_length. simpl. now rewrite (I_disk_len _ HI).
    + rewrite map_app. simpl. apply NoDup_app_snoc; [apply (I_on_t _ HI)|exact Htu].
    + unfold onids. simpl. rewrite map_app. simpl. apply part3_add_a; auto. apply (I_part _ HI).
    + intros j Hj. unfold onids in Hj. simpl in Hj. rewrite map_app in Hj. apply in_app_or in Hj as [Hj|[<-|[]]].
      * unfold stat. simpl. apply Hstold. now apply (I_on_run _ HI).
      * unfold stat. simpl. now rewrite Hnew.
    + intros j Hj. destruct (I_rq_wait _ HI _ Hj) as (st & Hs & Hw). exists st. split; [|exact Hw].
      unfold stat. simpl. now apply Hstold.
    + intros j Hj. destruct (I_eo_fin _ HI _ Hj) as (st & Hs & Hw). exists st. split; [|exact Hw].
      unfold stat. simpl. now apply Hstold.
    + intros j Hj. rewrite app_length in Hj. simpl in Hj. unfold onids. simpl. rewrite map_app. simpl.
      destruct (Nat.eq_dec j id) as [->|Hne].
      * left. apply in_or_app. right. now left.
      * assert (j < length (trials s)) by (unfold id in *; lia).
        destruct (I_cover _ HI j H) as [H1|[H1|H1]]; auto; [left; apply in_or_app; now left|].
        right. right. destruct H1 as (st & Hs & Hf). exists st. split; [|exact Hf]. unfold stat. simpl. now apply Hstold.
    + intros j u Hn Hc. destruct (Nat.lt_ge_cases j (length (trials s))) as [Hlt|Hge].
      * rewrite Hold in Hn by exact Hlt. eapply (I_score _ HI); eauto.
      * rewrite nth_error_app2 in Hn by lia. destruct (j - length (trials s)) as [|[|k]]; simpl in Hn; try discriminate.
        inversion Hn; subst. discriminate.
    + intros j (st & Hs & Hf). unfold stat in Hs. simpl in Hs.
      destruct (Nat.lt_ge_cases j (length (trials s))) as [Hlt|Hge].
      * rewrite Hold, Hdold by exact Hlt. apply (I_d_fin _ HI). exists st. split; [|exact Hf]. unfold stat. now rewrite <- Hold.
      * rewrite nth_error_app2 in Hs by lia. destruct (j - length (trials s)) as [|[|k]]; simpl in Hs; try discriminate.
        inversion Hs; subst. destruct Hf; discriminate.
    + intros j d Hj Hd. unfold onids in Hj. simpl in Hj. rewrite map_app in Hj.
      destruct (Nat.eq_dec j id) as [->|Hne].
      * rewrite Hdnew in Hd. inversion Hd; subst. simpl. now left.
      * assert (Hj' : In j (onids s) \/ In j (retryq s)).
        { destruct Hj as [Hj|Hj]; [|now right]. apply in_app_or in Hj as [Hj|[E|[]]]; [now left|]. exfalso. apply Hne. symmetry. exact E. }
        assert (j < length (trials s)).
        { destruct Hj' as [H|H]; [eapply stat_lt, (I_on_run _ HI); eauto|].
          destruct (I_rq_wait _ HI _ H) as (st & Hs & _). eapply stat_lt; eauto. }
        rewrite Hdold in Hd by assumption. eapply (I_d_wait _ HI); eauto.
  - (* retry *)
    pose proof (rev_cons_inv _ _ _ Erq) as Hrq.
    assert (Hin : In id (retryq s)). { rewrite Hrq. apply in_or_app. right. now left. }
    destruct (I_rq_wait _ HI _ Hin) as (st0 & Hst0 & Hw0).
    pose proof (stat_lt _ _ _ Hst0) as Hlt.
    pose proof (I_part _ HI) as Hp. rewrite Hrq in Hp. apply part3_b_to_a in Hp.
    simpl.
    assert (Hother : forall j, j <> id -> nth_error (upd id (reissue_trial reissue) (trials s)) j = nth_error (trials s) j).
    { intros j Hj. apply nth_upd_other. congruence. }
    assert (Hself : option_map t_status (nth_error (upd id (reissue_trial reissue) (trials s)) id) = Some RUNNING).
    { rewrite nth_upd_same. unfold stat in Hst0. destruct (nth_error (trials s) id); [reflexivity|discriminate]. }
    assert (Hnotin : ~ In id (rev rq')). { destruct Hp as (Ha & _ & _ & Hab & _). apply Hab. apply in_or_app. right. now left. }
    constructor; simpl.
    + rewrite length_upd. apply (I_start _ HI).
    + rewrite length_upd. apply (I_disk_len _ HI).
    + rewrite map_app. simpl. apply NoDup_app_snoc; [apply (I_on_t _ HI)|exact Htu].
    + unfold onids. simpl. rewrite map_app. exact Hp.
    + intros j Hj. unfold onids in Hj. simpl in Hj. rewrite map_app in Hj. apply in_app_or in Hj as [Hj|[<-|[]]].
      * unfold stat. simpl. rewrite Hother; [now apply (I_on_run _ HI)|].
        intros ->. destruct (I_part _ HI) as (_ & _ & _ & Hab & _). now apply (Hab id).
      * exact Hself.
    + intros j Hj. assert (j <> id) by (intros ->; contradiction).
      unfold stat. simpl. rewrite Hother by assumption. apply (I_rq_wait _ HI). rewrite Hrq. apply in_or_app. now left.
    + intros j Hj. assert (j <> id).
      { intros ->. destruct (I_part _ HI) as (_ & _ & _ & _ & _ & Hbc). now apply (Hbc id). }
      unfold stat. simpl. rewrite Hother by assumption. now apply (I_eo_fin _ HI).
    + intros j Hj. rewrite length_upd in Hj. unfold onids. simpl. rewrite map_app. simpl.
      destruct (Nat.eq_dec j id) as [->|Hne].
      * left. apply in_or_app. right. now left.
      * destruct (I_cover _ HI j Hj) as [H1|[H1|H1]].
        -- left. apply in_or_app. now left.
        -- right. left. rewrite Hrq in H1. apply in_app_or in H1 as [H1|[E|[]]]; [exact H1|congruence].
        -- right. right. revert H1. apply finalat_same. unfold stat. simpl. now rewrite Hother.
    + intros j u Hn Hc. destruct (Nat.eq_dec j id) as [->|Hne].
      * rewrite nth_upd_same in Hn. destruct (nth_error (trials s) id); simpl in Hn; [|discriminate].
        inversion Hn; subst. discriminate.
      * rewrite Hother in Hn by exact Hne. eapply (I_score _ HI); eauto.
    + intros j Hj. assert (j <> id).
      { intros ->. destruct Hj as (st & Hs & Hf). unfold stat in Hs. simpl in Hs. rewrite Hself in Hs. inversion Hs; subst. destruct Hf; discriminate. }
      rewrite Hother by assumption. apply (I_d_fin _ HI). revert Hj. apply finalat_same. unfold stat. simpl. now rewrite Hother.
    + intros j d Hj Hd. eapply (I_d_wait _ HI); [|exact Hd].
      unfold onids in Hj. simpl in Hj. rewrite map_app in Hj. destruct Hj as [Hj|Hj].
      * apply in_app_or in Hj as [Hj|[<-|[]]]; [now left|now right].
      * right. rewrite Hrq. apply in_or_app. now left.
Qed.

(* ---------------- end_trial ---------------- *)
Section end_shapes.
Variables (s : ost) (id : tid) (t' : trial) (a' : A) (tids : list tuner).
Hypothesis HI : Inv s.
Hypothesis Hon : In id (onids s).

Let Hlt : id < length (trials s). Proof. eapply stat_lt, (I_on_run _ HI); eauto. Qed.
Let ts' := upd id (fun _ => t') (trials s).
Let dk' := upd id (fun _ => to_disk t') (disk s).

Lemma es_other j : j <> id -> nth_error ts' j = nth_error (trials s) j.
Proof. intros H. apply nth_upd_other. congruence. Qed.
Lemma es_same : nth_error ts' id = Some t'.
Proof.
  unfold ts'. rewrite nth_upd_same. pose proof Hlt as H. apply nth_error_Some in H.
  destruct (nth_error (trials s) id); [reflexivity|congruence].
Qed.
Lemma es_dother j : j <> id -> nth_error dk' j = nth_error (disk s) j.
Proof. intros H. apply nth_upd_other. congruence. Qed.
Lemma es_dsame : nth_error dk' id = Some (to_disk t').
Proof.
  unfold dk'. rewrite nth_upd_same. assert (H : id < length (disk s)) by (rewrite (I_disk_len _ HI); exact Hlt).
  apply nth_error_Some in H. destruct (nth_error (disk s) id); [reflexivity|congruence].
Qed.

Lemma inv_requeue : t_status t' = INVALID ->
  Inv {| trials := ts'; ongoing := remove_first_by_id id (ongoing s);
         start_order := start_order s; end_order := end_order s; retryq := retryq s ++ [id];
         tuner_ids := tids; algo := a'; disk := dk' |}.
Proof.
  intros Hst. destruct (on_facts _ _ HI Hon) as (_ & Hnrq & Hneo).
  pose proof (I_part _ HI) as Hp.
  assert (Hnot : ~ In id (map snd (remove_first_by_id id (ongoing s)))).
  { apply rfb_notin. destruct Hp as (Ha & _). exact Ha. }
  constructor; simpl.
  - unfold ts'. rewrite length_upd. apply (I_start _ HI).
  - unfold ts', dk'. rewrite !length_upd. apply (I_disk_len _ HI).
  - apply rfb_nodup_fst, (I_on_t _ HI).
  - unfold onids. simpl. now apply part3_move_b.
  - intros j Hj. unfold onids in Hj. simpl in Hj. assert (j <> id) by (intros ->; contradiction).
    unfold stat. simpl. rewrite es_other by assumption. apply (I_on_run _ HI). now apply rfb_snd_in in Hj.
  - intros j Hj. apply in_app_or in Hj as [Hj|[<-|[]]].
    + assert (j <> id) by (intros ->; contradiction). unfold stat. simpl. rewrite es_other by assumption. now apply (I_rq_wait _ HI).
    + exists INVALID. split; [|now right]. unfold stat. simpl. rewrite es_same. simpl. now rewrite Hst.
  - intros j Hj. assert (j <> id) by (intros ->; contradiction). unfold stat. simpl. rewrite es_other by assumption. now apply (I_eo_fin _ HI).
  - intros j Hj. unfold ts' in Hj. rewrite length_upd in Hj. unfold onids. simpl. destruct (Nat.eq_dec j id) as [->|Hne].
    + right. left. apply in_or_app. right. now left.
    + destruct (I_cover _ HI j Hj) as [H1|[H1|H1]].
      * left. now apply rfb_snd_keeps.
      * right. left. apply in_or_app. now left.
      * right. right. revert H1. apply finalat_same. unfold stat. simpl. now rewrite es_other.
  - intros j u Hn Hc. destruct (Nat.eq_dec j id) as [->|Hne].
    + rewrite es_same in Hn. inversion Hn; subst. congruence.
    + rewrite es_other in Hn by exact Hne. eapply (I_score _ HI); eauto.
  - intros j Hj. assert (j <> id).
    { intros ->. destruct Hj as (st & Hs & Hf). unfold stat in Hs. simpl in Hs. rewrite es_same in Hs. simpl in Hs. rewrite Hst in Hs. inversion Hs; subst. destruct Hf; discriminate. }
    rewrite es_other, es_dother by assumption. apply (I_d_fin _ HI). revert Hj. apply finalat_same. unfold stat. simpl. now rewrite es_other.
  - intros j d Hj Hd. unfold onids in Hj. simpl in Hj. destruct (Nat.eq_dec j id) as [->|Hne].
    + rewrite es_dsame in Hd. inversion Hd; subst. simpl. rewrite Hst. now right.
    + rewrite es_dother in Hd by exact Hne. eapply (I_d_wait _ HI); [|exact Hd].
      destruct Hj as [Hj|Hj]; [left; now apply rfb_snd_in in Hj|].
      apply in_app_or in Hj as [Hj|[E|[]]]; [now right|congruence].
Qed.

Lemma inv_finish : (t_status t' = COMPLETED /\ (exists x, t_score t' = Some (SVal x)) \/ t_status t' = FAILED) ->
  Inv {| trials := ts'; ongoing := remove_first_by_id id (ongoing s);
         start_order := start_order s; end_order := end_order s ++ [id]; retryq := retryq s;
         tuner_ids := tids; algo := a'; disk := dk' |}.
Proof.
  intros Hst. destruct (on_facts _ _ HI Hon) as (_ & Hnrq & Hneo).
  pose proof (I_part _ HI) as Hp.
  assert (Hnot : ~ In id (map snd (remove_first_by_id id (ongoing s)))).
  { apply rfb_notin. destruct Hp as (Ha & _). exact Ha. }
  assert (Hfin : final (t_status t')). { destruct Hst as [[-> _]| ->]; [now left|now right]. }
  constructor; simpl.
  - unfold ts'. rewrite length_upd. apply (I_start _ HI).
  - unfold ts', dk'. rewrite !length_upd. apply (I_disk_len _ HI).
  - apply rfb_nodup_fst, (I_on_t _ HI).
  - unfold onids. simpl. now apply part3_move_c.
  - intros j Hj. unfold onids in Hj. simpl in Hj. assert (j <> id) by (intros ->; contradiction).
    unfold stat. simpl. rewrite es_other by assumption. apply (I_on_run _ HI). now apply rfb_snd_in in Hj.
  - intros j Hj. assert (j <> id) by (intros ->; contradiction). unfold stat. simpl. rewrite es_other by assumption. now apply (I_rq_wait _ HI).
  - intros j Hj. apply in_app_or in Hj as [Hj|[<-|[]]].
    + assert (j <> id) by (intros ->; contradiction). unfold stat. simpl. rewrite es_other by assumption. now apply (I_eo_fin _ HI).
    + exists (t_status t'). split; [|exact Hfin]. unfold stat. simpl. now rewrite es_same.
  - intros j Hj. unfold ts' in Hj. rewrite length_upd in Hj. unfold onids. simpl. destruct (Nat.eq_dec j id) as [->|Hne].
    + right. right. exists (t_status t'). split; [unfold stat; simpl; now rewrite es_same|exact Hfin].
    + destruct (I_cover _ HI j Hj) as [H1|[H1|H1]]; auto.
      * left. now apply rfb_snd_keeps.
      * right. right. revert H1. apply finalat_same. unfold stat. simpl. now rewrite es_other.
  - intros j u Hn Hc. destruct (Nat.eq_dec j id) as [->|Hne].
    + rewrite es_same in Hn. inversion Hn; subst. destruct Hst as [[_ H]|H]; [exact H|congruence].
    + rewrite es_other in Hn by exact Hne. eapply (I_score _ HI); eauto.
  - intros j Hj. destruct (Nat.eq_dec j id) as [->|Hne].
    + now rewrite es_same, es_dsame.
    + rewrite es_other, es_dother by assumption. apply (I_d_fin _ HI). revert Hj. apply finalat_same. unfold stat. simpl. now rewrite es_other.
  - intros j d Hj Hd. unfold onids in Hj. simpl in Hj.
    assert (j <> id). { intros ->. destruct Hj as [Hj|Hj]; contradiction. }
    rewrite es_dother in Hd by assumption. eapply (I_d_wait _ HI); [|exact Hd].
    destruct Hj as [Hj|Hj]; [left; now apply rfb_snd_in in Hj|now right].
Qed.
End end_shapes.

Theorem inv_end c s id es f : abort_early c = false -> Inv s ->
  Inv (fst (do_end score_fn hook_end hook_end_abort c s id es f)).
Proof.
  intros Hab HI. unfold do_end.
  destruct (existsb (fun kv => snd kv =? id) (ongoing s)) eqn:Eex; simpl; [|exact HI].
  apply existsb_snd in Eex.
  destruct (nth_error (trials s) id) as [t0|] eqn:Et0; [|exact HI].
  rewrite Hab.
  destruct es; simpl.
  - destruct (score_fn (f (t_data t0))) as [|x]; simpl.
    + match goal with |- context [Nat.leb ?a ?b] => destruct (Nat.leb a b) end; simpl.
      * match goal with |- context [if streak ?a ?b ?d ?e then _ else _] => destruct (streak a b d e) end; simpl;
          apply inv_finish; auto.
      * apply inv_requeue; auto.
    + match goal with |- context [if streak ?a ?b ?d ?e then _ else _] => destruct (streak a b d e) end; simpl;
        apply inv_finish; auto; left; simpl; split; eauto.
  - match goal with |- context [Nat.leb ?a ?b] => destruct (Nat.leb a b) end; simpl.
    + match goal with |- context [if streak ?a ?b ?d ?e then _ else _] => destruct (streak a b d e) end; simpl;
        apply inv_finish; auto.
    + apply inv_requeue; auto.
  - match goal with |- context [if streak ?a ?b ?d ?e then _ else _] => destruct (streak a b d e) end; simpl;
      apply inv_finish; auto.
Qed.

(* ---------------- save + reload ---------------- *)
Lemma from_disk_nth (ts : list trial) (ds : list dtrial) j t d :
  nth_error ts j = Some t -> nth_error ds j = Some d ->
  nth_error (from_disk ts ds) j = Some {| t_status := d_status d; t_score := d_score d; t_runs := t_runs t; t_data := d_data d |}.
Proof.
  revert ds j. induction ts as [|x r IH]; intros [|y ds] [|j]; simpl; try discriminate.
  - intros [= ->] [= ->]. reflexivity.
  - apply IH.
Qed.
Lemma from_disk_length (ts : list trial) (ds : list dtrial) : length ds = length ts -> length (from_disk ts ds) = length ts.
Proof. revert ds. induction ts as [|x r IH]; intros [|y ds]; simpl; try discriminate; auto. Qed.

Theorem inv_reload s : Inv s -> Inv (fst (do_reload hook_reload s)).
Proof.
  intros HI. unfold do_reload. simpl.
  pose proof (from_disk_length _ _ (I_disk_len _ HI)) as Hlen.
  assert (Hnth : forall j, j < length (trials s) -> exists t d, nth_error (trials s) j = Some t /\ nth_error (disk s) j = Some d /\
            nth_error (from_disk (trials s) (disk s)) j = Some {| t_status := d_status d; t_score := d_score d; t_runs := t_runs t; t_data := d_data d |}).
  { intros j Hj. destruct (nth_error (trials s) j) as [t|] eqn:Et; [|apply nth_error_None in Et; lia].
    destruct (nth_error (disk s) j) as [d|] eqn:Ed; [|apply nth_error_None in Ed; rewrite (I_disk_len _ HI) in Ed; lia].
    exists t, d. repeat split. now apply from_disk_nth. }
  assert (Hwait : forall j, In j (onids s) \/ In j (retryq s) -> exists st, stat {| trials := from_disk (trials s) (disk s); ongoing := []; start_order := start_order s;
            end_order := end_order s; retryq := retryq s ++ map snd (ongoing s); tuner_ids := []; algo := hook_reload (algo s); disk := disk s |} j = Some st /\ waiting st).
  { intros j Hj. assert (Hlt : j < length (trials s)).
    { destruct Hj as [H|H]; [eapply stat_lt, (I_on_run _ HI); eauto|]. destruct (I_rq_wait _ HI _ H) as (st & Hs & _). eapply stat_lt; eauto. }
    destruct (Hnth j Hlt) as (t & d & Et & Ed & En). exists (d_status d). split; [unfold stat; simpl; now rewrite En|].
    eapply (I_d_wait _ HI); eauto. }
  assert (Hfin : forall j, finalat s j -> exists t, nth_error (trials s) j = Some t /\ nth_error (from_disk (trials s) (disk s)) j = Some t /\ final (t_status t)).
  { intros j Hj. pose proof Hj as (st & Hs & Hf). pose proof (stat_lt _ _ _ Hs) as Hlt.
    destruct (Hnth j Hlt) as (t & d & Et & Ed & En). pose proof (I_d_fin _ HI _ Hj) as Hd. rewrite Et, Ed in Hd. simpl in Hd.
    inversion Hd; subst d. exists t. repeat split; auto.
    - rewrite En. destruct t; reflexivity.
    - unfold stat in Hs. rewrite Et in Hs. simpl in Hs. now inversion Hs; subst. }
  constructor; simpl.
  - rewrite Hlen. apply (I_start _ HI).
  - rewrite Hlen. apply (I_disk_len _ HI).
  - constructor.
  - unfold onids. simpl. apply part3_reload, (I_part _ HI).
  - intros j [].
  - intros j Hj. apply Hwait. apply in_app_or in Hj as [Hj|Hj]; [now right|now left].
  - intros j Hj. destruct (Hfin j (eo_finalat _ _ HI Hj)) as (t & Et & En & Hf). exists (t_status t). split; [unfold stat; simpl; now rewrite En|exact Hf].
  - intros j Hj. rewrite Hlen in Hj. unfold onids. simpl. destruct (I_cover _ HI j Hj) as [H|[H|H]].
    + right. left. apply in_or_app. now right.
    + right. left. apply in_or_app. now left.
    + right. right. destruct (Hfin j H) as (t & Et & En & Hf). exists (t_status t). split; [unfold stat; simpl; now rewrite En|exact Hf].
  - intros j u Hn Hc. assert (Hlt : j < length (trials s)). { rewrite <- Hlen. apply nth_error_Some. congruence. }
    destruct (I_cover _ HI j Hlt) as [H|[H|H]].
    + destruct (Hwait j (or_introl H)) as (st & Hs & Hw). unfold stat in Hs. simpl in Hs. rewrite Hn in Hs. simpl in Hs.
      inversion Hs; subst. rewrite Hc in Hw. destruct Hw; discriminate.
    + destruct (Hwait j (or_intror H)) as (st & Hs & Hw). unfold stat in Hs. simpl in Hs. rewrite Hn in Hs. simpl in Hs.
      inversion Hs; subst. rewrite Hc in Hw. destruct Hw; discriminate.
    + destruct (Hfin j H) as (t & Et & En & Hf). rewrite En in Hn. inversion Hn; subst. eapply (I_score _ HI); eauto.
  - intros j Hj. assert (Hj' : finalat s j).
    { pose proof Hj as (st & Hs & Hf). assert (Hlt : j < length (trials s)). { rewrite <- Hlen. eapply (stat_lt _ _ _ Hs). }
      destruct (I_cover _ HI j Hlt) as [H|[H|H]]; [| |exact H].
      - destruct (Hwait j (or_introl H)) as (st' & Hs' & Hw). rewrite Hs in Hs'. inversion Hs'; subst. exfalso. eapply waiting_not_final; eauto.
      - destruct (Hwait j (or_intror H)) as (st' & Hs' & Hw). rewrite Hs in Hs'. inversion Hs'; subst. exfalso. eapply waiting_not_final; eauto. }
    destruct (Hfin j Hj') as (t & Et & En & Hf). rewrite En, <- Et. now apply (I_d_fin _ HI).
  - intros j d Hj Hd. eapply (I_d_wait _ HI); [|exact Hd]. destruct Hj as [[]|Hj].
    apply in_app_or in Hj as [Hj|Hj]; [now right|now left].
Qed.

Theorem C01_lifecycle c a ops : abort_early c = false ->
  Forall (fun rs => Inv (snd rs)) (run vdef score_fn populate hook_end hook_end_abort hook_reload reissue c (init a) ops).
Proof.
  intros Hab. assert (H : forall s, Inv s -> Forall (fun rs => Inv (snd rs)) (run vdef score_fn populate hook_end hook_end_abort hook_reload reissue c s ops)).
  { induction ops as [|o r IH]; intros s HI; simpl; [constructor|].
    destruct (step vdef score_fn populate hook_end hook_end_abort hook_reload reissue c s o) as [s' rs] eqn:Es.
    assert (HI' : Inv s').
    { destruct o as [tu|id f|id es f|]; simpl in Es.
      - pose proof (inv_create c s tu HI) as H. now rewrite Es in H.
      - pose proof (inv_update s id f HI) as H. now rewrite Es in H.
      - pose proof (inv_end c s id es f Hab HI) as H. now rewrite Es in H.
      - pose proof (inv_reload s HI) as H. now rewrite Es in H. }
    constructor; [exact HI'|apply IH; exact HI']. }
  apply H, inv_init.
Qed.
End Inv.
Print Assumptions C01_lifecycle.
