From stdpp Require Import gmap list.
Set Default Proof Using "Type".

Definition name := positive.
Definition value := positive.
Notation vals := (gmap name value).

Record hp := { hname : name; hconds : list (name * list value); hall : list value }.

Definition cond_active (v : vals) (c : name * list value) : bool :=
  match v !! c.1 with Some x => bool_decide (x ∈ c.2) | None => false end.
Definition active (v : vals) (h : hp) : bool := forallb (cond_active v) (hconds h).
Definition hdefault (h : hp) : value := hd 1%positive (hall h).

Fixpoint succ_in (x : value) (l : list value) : option value :=
  match l with
  | [] => None
  | y :: r => if decide (x = y) then head r else succ_in x r
  end.

Fixpoint bump (sp : list hp) (v : vals) : vals * bool :=
  match sp with
  | [] => (v, false)
  | h :: rest =>
      let '(v1, b) := bump rest v in
      if b then (v1, true)
      else if active v1 h then
        match v1 !! hname h with
        | Some x =>
            if decide (Some x = last (hall h)) then (<[hname h := hdefault h]> v1, false)
            else match succ_in x (hall h) with
                 | Some y => (<[hname h := y]> v1, true)
                 | None => (v1, false)
                 end
        | None => (v1, false)
        end
      else (<[hname h := hdefault h]> v1, false)
  end.

Fixpoint ensure (sp : list hp) (v : vals) : vals :=
  match sp with
  | [] => v
  | h :: rest =>
      if active v h then
        match v !! hname h with
        | Some _ => ensure rest v
        | None => ensure rest (<[hname h := hdefault h]> v)
        end
      else ensure rest (delete (hname h) v)
  end.

Fixpoint combos (sp : list hp) (dn : vals) : list vals :=
  match sp with
  | [] => [dn]
  | h :: rest =>
      if active dn h then
        flat_map (fun x => combos rest (<[hname h := x]> dn)) (hall h)
      else combos rest dn
  end.

(* reset every name of sp to its default *)
Fixpoint resetall (sp : list hp) (v : vals) : vals :=
  match sp with
  | [] => v
  | h :: rest => <[hname h := hdefault h]> (resetall rest v)
  end.

Definition pnames (h : hp) : list name := map fst (hconds h).

Fixpoint wo (pre : list name) (sp : list hp) : Prop :=
  match sp with
  | [] => True
  | h :: r => pnames h ⊆ pre ∧ hname h ∉ pre ∧ hall h ≠ [] ∧ NoDup (hall h)
              ∧ wo (hname h :: pre) r
  end.


Definition names (sp : list hp) : list name := map hname sp.

Lemma active_agree v w h :
  (∀ n, n ∈ pnames h → v !! n = w !! n) → active v h = active w h.
Proof.
  unfold active, pnames. induction (hconds h) as [|c cs IH]; intros Ha; [done|].
  cbn [forallb]. rewrite IH.
  - f_equal. unfold cond_active. rewrite (Ha c.1); [done|]. cbn. left.
  - intros n Hn. apply Ha. cbn. right. done.
Qed.

Lemma bump_other sp : ∀ v v1 b, bump sp v = (v1, b) → ∀ n, n ∉ names sp → v1 !! n = v !! n.
Proof.
  induction sp as [|h rest IH]; intros v v1 b Hb n Hn; cbn in Hb.
  - by inversion Hb.
  - destruct (bump rest v) as [u b'] eqn:E.
    assert (Hu : u !! n = v !! n).
    { eapply IH; [done|]. intros ?. apply Hn. cbn. by right. }
    assert (Hne : hname h ≠ n). { intros <-. apply Hn. cbn. by left. }
    destruct b'.
    { inversion Hb; subst. done. }
    destruct (active u h).
    + destruct (u !! hname h) as [x|].
      2:{ inversion Hb; subst. done. }
      destruct (decide _).
      { inversion Hb; subst. rewrite lookup_insert_ne; done. }
      destruct (succ_in x (hall h)); inversion Hb; subst.
      * rewrite lookup_insert_ne; done.
      * done.
    + inversion Hb; subst. rewrite lookup_insert_ne; done.
Qed.

Lemma combos_other sp : ∀ dn v, v ∈ combos sp dn → ∀ n, n ∉ names sp → v !! n = dn !! n.
Proof.
  induction sp as [|h rest IH]; intros dn v Hv n Hn; cbn in Hv.
  - apply elem_of_list_singleton in Hv. by subst.
  - assert (Hn' : n ∉ names rest). { intros ?. apply Hn. cbn. by right. }
    assert (Hne : hname h ≠ n). { intros <-. apply Hn. cbn. by left. }
    destruct (active dn h).
    + apply elem_of_list_In, in_flat_map in Hv as (x & _ & Hv). apply elem_of_list_In in Hv.
      rewrite (IH _ _ Hv n Hn'). by rewrite lookup_insert_ne.
    + by apply IH.
Qed.

Lemma combos_nonempty sp : ∀ pre dn, wo pre sp → combos sp dn ≠ [].
Proof.
  induction sp as [|h rest IH]; intros pre dn Hwo; cbn; [done|].
  destruct Hwo as (_ & _ & Hne & _ & Hwo).
  destruct (active dn h); [|by eapply IH].
  destruct (hall h) as [|x xs]; [done|]. cbn.
  intros Heq. apply app_eq_nil in Heq as [Heq _]. by eapply IH.
Qed.

Lemma wo_names sp : ∀ pre, wo pre sp → (∀ n, n ∈ names sp → n ∉ pre) ∧ NoDup (names sp).
Proof.
  induction sp as [|h rest IH]; intros pre Hwo; cbn.
  - split; [intros n Hn; by apply elem_of_nil in Hn | constructor].
  - destruct Hwo as (_ & Hh & _ & _ & Hwo). destruct (IH _ Hwo) as [H1 H2]. split.
    + intros n Hn. apply elem_of_cons in Hn as [->|Hn]; [done|].
      intros Hp. apply (H1 n Hn). by right.
    + constructor; [|done]. intros Hin. apply (H1 _ Hin). by left.
Qed.

(* ---------- list decomposition of flat_map with non-empty blocks ---------- *)
Section fm.
Context {A B : Type} (g : A → list B).

Lemma fm_last xs : (∀ x, x ∈ xs → g x ≠ []) → ∀ l1 v, flat_map g xs = l1 ++ [v] →
  ∃ xs' xl m, xs = xs' ++ [xl] ∧ g xl = m ++ [v].
Proof.
  induction xs as [|x xs IH]; intros Hne l1 v Heq; cbn in Heq.
  - by destruct l1.
  - destruct xs as [|y ys].
    + cbn in Heq. rewrite app_nil_r in Heq. exists [], x, l1. done.
    + assert (Hne' : ∀ z, z ∈ y :: ys → g z ≠ []). { intros z Hz. apply Hne. by right. }
      assert (Hfm : flat_map g (y :: ys) ≠ []).
      { cbn. intros H. apply app_eq_nil in H as [H _]. apply (Hne' y); [by left|done]. }
      destruct (exists_last Hfm) as (l' & b & Hl').
      rewrite Hl' in Heq. rewrite app_assoc in Heq.
      apply app_inj_tail in Heq as [Heq1 ->].
      destruct (IH Hne' l' v Hl') as (xs' & xl & m & -> & Hm).
      exists (x :: xs'), xl, m. rewrite Hm. split; [|done]. by rewrite <-app_comm_cons.
Qed.

Lemma fm_adj xs : (∀ x, x ∈ xs → g x ≠ []) → ∀ l1 v w l2, flat_map g xs = l1 ++ v :: w :: l2 →
  (∃ xs1 x xs2 m1 m2, xs = xs1 ++ x :: xs2 ∧ g x = m1 ++ v :: w :: m2) ∨
  (∃ xs1 x x' xs2 m1 m2, xs = xs1 ++ x :: x' :: xs2 ∧ g x = m1 ++ [v] ∧ g x' = w :: m2).
Proof.
  induction xs as [|x xs IH]; intros Hne l1 v w l2 Heq; cbn in Heq.
  - by destruct l1.
  - assert (Hne' : ∀ z, z ∈ xs → g z ≠ []). { intros z Hz. apply Hne. by right. }
    apply app_eq_app in Heq as [l [[Hl1 Hrest]|[Hgx Hrest]]].
    + (* g x = l1 ++ l ; v::w::l2 = l ++ flat_map xs *)
      destruct l as [|a l].
      * (* g x = l1, rest starts with v w *)
        cbn in Hrest. rewrite app_nil_r in Hl1.
        destruct (IH Hne' [] v w l2) as [(xs1&y&xs2&m1&m2&->&Hy)|(xs1&y&y'&xs2&m1&m2&->&Hy&Hy')]; [by symmetry|..].
        -- left. exists (x :: xs1), y, xs2, m1, m2. done.
        -- right. exists (x :: xs1), y, y', xs2, m1, m2. done.
      * cbn in Hrest. inversion Hrest as [[Ha Hr]]. subst a.
        destruct l as [|b l].
        -- (* g x = l1 ++ [v]; flat_map xs = w :: l2 *)
           cbn in Hr. destruct xs as [|y ys]; [done|]. cbn in Hr.
           assert (Hy : g y ≠ []). { apply Hne'. by left. }
           destruct (g y) as [|c cs] eqn:Egy; [done|]. cbn in Hr. inversion Hr; subst.
           right. exists [], x, y, ys, l1, cs. done.
        -- cbn in Hr. inversion Hr; subst. left. exists [], x, xs, l1, l. done.
    + (* l1 = g x ++ l ; flat_map xs = l ++ v::w::l2 *)
      destruct (IH Hne' l v w l2 Hrest) as [(xs1&y&xs2&m1&m2&->&Hy)|(xs1&y&y'&xs2&m1&m2&->&Hy&Hy')].
      * left. exists (x :: xs1), y, xs2, m1, m2. done.
      * right. exists (x :: xs1), y, y', xs2, m1, m2. done.
Qed.
End fm.

Lemma ensure_reset_first sp : ∀ pre dn u, wo pre sp →
  (∀ n, n ∈ names sp → dn !! n = None) →
  (∀ n, n ∉ names sp → u !! n = dn !! n) →
  (∀ h, h ∈ sp → u !! hname h = Some (hdefault h)) →
  head (combos sp dn) = Some (ensure sp u).
Proof.
  induction sp as [|h rest IH]; intros pre dn u Hwo Hfresh Hout Hdef; cbn.
  - f_equal. apply map_eq. intros n. symmetry. apply Hout. apply not_elem_of_nil.
  - pose proof (wo_names _ _ Hwo) as [Hpre Hnd].
    destruct Hwo as (Hpn & Hh & Hne & Hndv & Hwo).
    cbn in Hnd. apply NoDup_cons in Hnd as [Hhn Hnd].
    assert (Hact : active u h = active dn h).
    { apply active_agree. intros n Hn. apply Hout. intros Hin. apply (Hpre n Hin). by apply Hpn. }
    rewrite Hact.
    assert (Hfresh' : ∀ x n, n ∈ names rest → (<[hname h:=x]> dn) !! n = None).
    { intros x n Hn. rewrite lookup_insert_ne; [apply Hfresh; by right|]. intros <-. done. }
    destruct (active dn h).
    + rewrite (Hdef h); [|by left].
      destruct (hall h) as [|d xs] eqn:Eh; [done|]. cbn.
      assert (Hd : hdefault h = d). { unfold hdefault. by rewrite Eh. }
      assert (Hne2 : combos rest (<[hname h:=d]> dn) ≠ []) by by eapply combos_nonempty.
      destruct (combos rest (<[hname h:=d]> dn)) as [|c cs] eqn:Ec; [done|]. cbn.
      rewrite <-(IH (hname h :: pre) (<[hname h:=d]> dn) u); [by rewrite Ec|done|by apply Hfresh'|..].
      * intros n Hn. destruct (decide (n = hname h)) as [->|Hneq].
        -- rewrite lookup_insert, <-Hd. apply Hdef. by left.
        -- rewrite lookup_insert_ne; [|done]. apply Hout. cbn. intros [->|?]%elem_of_cons; done.
      * intros h' Hh'. apply Hdef. by right.
    + apply (IH (hname h :: pre)); [done|..].
      * intros n Hn. apply Hfresh. by right.
      * intros n Hn. destruct (decide (n = hname h)) as [->|Hneq].
        -- rewrite lookup_delete. symmetry. apply Hfresh. by left.
        -- rewrite lookup_delete_ne; [|done]. apply Hout. cbn. intros [->|?]%elem_of_cons; done.
      * intros h' Hh'. rewrite lookup_delete_ne; [apply Hdef; by right|].
        intros Heq. apply Hhn. rewrite Heq. unfold names. by apply elem_of_list_fmap_1.
Qed.

Lemma succ_in_mid xs1 x x' xs2 : NoDup (xs1 ++ x :: x' :: xs2) → succ_in x (xs1 ++ x :: x' :: xs2) = Some x'.
Proof.
  induction xs1 as [|y ys IH]; intros Hnd; cbn.
  - by rewrite decide_True.
  - apply NoDup_cons in Hnd as [Hy Hnd]. rewrite decide_False; [by apply IH|].
    intros ->. apply Hy. apply elem_of_app. right. by left.
Qed.

Lemma last_mid_ne xs1 (x x' : value) xs2 : NoDup (xs1 ++ x :: x' :: xs2) → Some x ≠ last (xs1 ++ x :: x' :: xs2).
Proof.
  intros Hnd Heq. rewrite last_app, last_cons_cons in Heq.
  apply NoDup_app in Hnd as (_ & _ & Hnd). apply NoDup_cons in Hnd as [Hx _].
  destruct (last (x' :: xs2)) as [z|] eqn:El.
  - inversion Heq; subst. apply Hx. by apply last_Some_elem_of.
  - rewrite last_cons in El. by destruct (last xs2).
Qed.

Lemma resetall_other sp v n : n ∉ names sp → resetall sp v !! n = v !! n.
Proof.
  induction sp as [|h r IH]; intros Hn; cbn; [done|].
  rewrite lookup_insert_ne; [apply IH|]; intros ?; apply Hn; cbn; [by right|subst; by left].
Qed.

Lemma resetall_in sp v h : h ∈ sp → NoDup (names sp) → resetall sp v !! hname h = Some (hdefault h).
Proof.
  induction sp as [|k r IH]; intros Hin Hnd; [by apply elem_of_nil in Hin|].
  cbn in *. apply NoDup_cons in Hnd as [Hk Hnd].
  apply elem_of_cons in Hin as [->|Hin]; [by rewrite lookup_insert|].
  destruct (decide (hname k = hname h)) as [Heq|Hne]; [|rewrite lookup_insert_ne; [by apply IH|done]].
  exfalso. apply Hk. rewrite Heq. unfold names. by apply elem_of_list_fmap_1.
Qed.

Lemma main sp : ∀ pre dn, wo pre sp → (∀ n, n ∈ names sp → dn !! n = None) →
  (∀ v l1, combos sp dn = l1 ++ [v] → bump sp v = (resetall sp v, false)) ∧
  (∀ v w l1 l2, combos sp dn = l1 ++ v :: w :: l2 → ∃ v1, bump sp v = (v1, true) ∧ ensure sp v1 = w).
Proof.
  induction sp as [|h rest IH]; intros pre dn Hwo Hfresh.
  { split; [done|]. intros v w l1 l2 Heq. cbn in Heq. by destruct l1 as [|? [|]]. }
  pose proof (wo_names _ _ Hwo) as [Hpre Hnd].
  destruct Hwo as (Hpn & Hh & Hne & Hndv & Hwo).
  cbn in Hnd. apply NoDup_cons in Hnd as [Hhn Hnd].
  assert (Hfresh' : ∀ x n, n ∈ names rest → (<[hname h:=x]> dn) !! n = None).
  { intros x n Hn. rewrite lookup_insert_ne; [apply Hfresh; by right|]. by intros <-. }
  assert (Hfresh0 : ∀ n, n ∈ names rest → dn !! n = None).
  { intros n Hn. apply Hfresh. by right. }
  (* activity of h under anything agreeing with dn outside names (h::rest) *)
  assert (Hact : ∀ u, (∀ n, n ∉ names (h :: rest) → u !! n = dn !! n) → active u h = active dn h).
  { intros u Hu. apply active_agree. intros n Hn. apply Hu. intros Hin. apply (Hpre n Hin). by apply Hpn. }
  (* facts for an element v of a block *)
  assert (Hblk : ∀ d v u b, v ∈ combos rest d → (∀ n, n ∉ names (h::rest) → d !! n = dn !! n) →
             bump rest v = (u, b) → (∀ n, n ∉ names (h :: rest) → u !! n = dn !! n) ∧ u !! hname h = d !! hname h).
  { intros d v u b Hv Hd Hb. split.
    - intros n Hn. rewrite (bump_other _ _ _ _ Hb); [|intros ?; apply Hn; by right].
      rewrite (combos_other _ _ _ Hv); [by apply Hd|intros ?; apply Hn; by right].
    - rewrite (bump_other _ _ _ _ Hb); [|done]. by rewrite (combos_other _ _ _ Hv). }
  cbn [combos bump ensure resetall].
  destruct (active dn h) eqn:Ea.
  - (* h active *)
    set (g := fun x => combos rest (<[hname h:=x]> dn)).
    assert (Hgne : ∀ x, x ∈ hall h → g x ≠ []). { intros x _. by eapply combos_nonempty. }
    assert (Hd : ∀ x n, n ∉ names (h :: rest) → (<[hname h:=x]> dn) !! n = dn !! n).
    { intros x n Hn. rewrite lookup_insert_ne; [done|]. intros <-. apply Hn. by left. }
    split.
    + intros v l1 Heq.
      destruct (fm_last g _ Hgne _ _ Heq) as (xs' & xl & m & Hxs & Hm).
      destruct (IH (hname h :: pre) (<[hname h:=xl]> dn) Hwo (Hfresh' xl)) as [IHa _].
      specialize (IHa v m Hm). rewrite IHa.
      assert (Hv : v ∈ g xl). { rewrite Hm. apply elem_of_app. right. by left. }
      destruct (Hblk _ _ _ _ Hv (Hd xl) IHa) as [Hu Hx].
      rewrite (Hact _ Hu), Hx, lookup_insert.
      rewrite decide_True; [done|]. by rewrite Hxs, last_snoc.
    + intros v w l1 l2 Heq.
      destruct (fm_adj g _ Hgne _ _ _ _ Heq) as [(xs1&x&xs2&m1&m2&Hxs&Hm)|(xs1&x&x'&xs2&m1&m2&Hxs&Hm&Hm')].
      * destruct (IH (hname h :: pre) (<[hname h:=x]> dn) Hwo (Hfresh' x)) as [_ IHb].
        destruct (IHb v w m1 m2 Hm) as (v1 & Hb & He). rewrite Hb. exists v1. split; [done|].
        assert (Hv : v ∈ g x). { rewrite Hm. apply elem_of_app. right. by left. }
        destruct (Hblk _ _ _ _ Hv (Hd x) Hb) as [Hu Hx].
        by rewrite (Hact _ Hu), Hx, lookup_insert.
      * destruct (IH (hname h :: pre) (<[hname h:=x]> dn) Hwo (Hfresh' x)) as [IHa _].
        specialize (IHa v m1 Hm). rewrite IHa.
        assert (Hv : v ∈ g x). { rewrite Hm. apply elem_of_app. right. by left. }
        destruct (Hblk _ _ _ _ Hv (Hd x) IHa) as [Hu Hx].
        rewrite (Hact _ Hu), Hx, lookup_insert.
        rewrite Hxs in Hndv |- *.
        rewrite decide_False; [|by apply last_mid_ne].
        rewrite succ_in_mid; [|done].
        eexists. split; [done|].
        (* ensure (h::rest) of the bumped map *)
        assert (Hu' : ∀ n, n ∉ names (h :: rest) → <[hname h:=x']> (resetall rest v) !! n = dn !! n).
        { intros n Hn. rewrite lookup_insert_ne; [by apply Hu|]. intros <-. apply Hn. by left. }
        rewrite (Hact _ Hu'), lookup_insert.
        assert (Hhead : head (g x') = Some w) by by rewrite Hm'.
        unfold g in Hhead.
        rewrite (ensure_reset_first rest (hname h :: pre) (<[hname h:=x']> dn) (<[hname h:=x']> (resetall rest v))) in Hhead;
          [by inversion Hhead|done|by apply Hfresh'|..].
        -- intros n Hn. destruct (decide (n = hname h)) as [->|Hneq]; [by rewrite !lookup_insert|].
           rewrite !lookup_insert_ne by done. apply Hu. cbn. intros [->|?]%elem_of_cons; done.
        -- intros k Hk. rewrite lookup_insert_ne; [by apply resetall_in|].
           intros Heq'. apply Hhn. rewrite Heq'. unfold names. by apply elem_of_list_fmap_1.
  - (* h inactive: combos (h::rest) dn = combos rest dn *)
    destruct (IH (hname h :: pre) dn Hwo Hfresh0) as [IHa IHb].
    assert (Hd : ∀ n, n ∉ names (h :: rest) → dn !! n = dn !! n) by done.
    split.
    + intros v l1 Heq. specialize (IHa v l1 Heq). rewrite IHa.
      assert (Hv : v ∈ combos rest dn). { rewrite Heq. apply elem_of_app. right. by left. }
      destruct (Hblk _ _ _ _ Hv Hd IHa) as [Hu Hx].
      by rewrite (Hact _ Hu).
    + intros v w l1 l2 Heq. destruct (IHb v w l1 l2 Heq) as (v1 & Hb & He). rewrite Hb.
      exists v1. split; [done|].
      assert (Hv : v ∈ combos rest dn). { rewrite Heq. apply elem_of_app. right. by left. }
      destruct (Hblk _ _ _ _ Hv Hd Hb) as [Hu Hx].
      rewrite (Hact _ Hu). rewrite delete_notin; [done|].
      rewrite Hx. apply Hfresh. by left.
Qed.

Definition next_comb (sp : list hp) (v : vals) : option vals :=
  let '(v1, b) := bump sp v in if b then Some (ensure sp v1) else None.

Theorem next_comb_successor sp : wo [] sp →
  (∀ v l1, combos sp ∅ = l1 ++ [v] → next_comb sp v = None) ∧
  (∀ v w l1 l2, combos sp ∅ = l1 ++ v :: w :: l2 → next_comb sp v = Some w).
Proof.
  intros Hwo. destruct (main sp [] ∅ Hwo) as [Ha Hb]; [intros; apply lookup_empty|].
  split.
  - intros v l1 Heq. unfold next_comb. by rewrite (Ha v l1 Heq).
  - intros v w l1 l2 Heq. unfold next_comb. destruct (Hb v w l1 l2 Heq) as (v1 & -> & <-). done.
Qed.
Print Assumptions next_comb_successor.
