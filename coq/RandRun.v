(* C06 at the level of whole runs (static search space, tuners hand back the values they were given, no reload):
   in every reachable state the stored trials carry pairwise different values. *)
From stdpp Require Import gmap list.
From Coq Require Import ZArith.
From KT Require Import Lifecycle LInv LData Space Discover Rand RandDedup.
Set Default Proof Using "Type".

Section run.
Variable samp : nat → Z → value.
Variable draw : nat → hp → value.
Variables allow tune : bool.
Variable max_collisions : nat.
Variable c : cfg.
Notation ost := (@ostate rstate tdata unit).
Notation rstepf := (rstep samp draw allow tune max_collisions c).
Notation vals_of := (@vals_of).

Definition Distinct (s : ost) : Prop :=
  ∀ i j vi vj, i ≠ j → RandDedup.vals_of s i = Some vi → RandDedup.vals_of s j = Some vj → vi ≠ vj.

Definition core_op (s : ost) (o : rop) : @op tdata :=
  match o with
  | RCreate tu => Create tu
  | RUpdate id x => Update id (λ d, {| tv_space := tv_space d; tv_values := tv_values d; tv_obs := tv_obs d ++ [x] |})
  | REnd id st sp v => End id st (λ d, {| tv_space := sp; tv_values := (ensure_go draw sp sp (list_to_map v) (a_k (algo s))).1; tv_obs := tv_obs d |})
  | RReload => Reload
  end.

Lemma rstep_trials s o :
  trials (rstepf s o).1 = trials (step vdef rscore (rpopulate samp draw max_collisions) (rhook_end allow tune) (rhook_end allow tune) (λ a, a) rfresh c s (core_op s o)).1.
Proof.
  destruct o as [tu|id x|id st sp v|]; cbn [rstep core_op]; try done.
  destruct (ensure_go draw sp sp (list_to_map v) (a_k (algo s))) as [v' k'] eqn:Ee. cbn [fst].
  destruct (step _ _ _ _ _ _ _ c s _) as [s1 r]. done.
Qed.

Lemma vals_stable s o j v : static_end draw s o → RandDedup.vals_of s j = Some v → RandDedup.vals_of (rstepf s o).1 j = Some v.
Proof.
  intros Hst Hv. unfold RandDedup.vals_of in *. rewrite rstep_trials.
  destruct (nth_error (trials s) j) as [t|] eqn:Et; [|done]. cbn in Hv. inversion Hv; subst v.
  assert (Hnr : core_op s o ≠ Reload). { destruct o; try done. }
  destruct (step_data vdef rscore (rpopulate samp draw max_collisions) (rhook_end allow tune) (rhook_end allow tune) (λ a, a) rfresh c s (core_op s o) j t Et Hnr)
    as (t' & Ht' & Hd).
  rewrite Ht'. cbn. f_equal.
  destruct Hd as [Hd|[(f & Hof & Hd)|Hd]]; [by rewrite Hd| |by rewrite Hd].
  rewrite Hd. destruct o as [tu|id x|id st sp vv|]; cbn [core_op] in Hof.
  - destruct Hof as [?|[? ?]]; done.
  - destruct Hof as [Hof|[? ?]]; [|done]. inversion Hof; subst. done.
  - destruct Hof as [?|[es Hof]]; [done|]. inversion Hof; subst. cbn.
    cbn in Hst. destruct Hst as (t0 & Ht0 & He). rewrite Et in Ht0. inversion Ht0; subst t0. exact He.
  - done.
Qed.

Theorem distinct_step s o : TInv s → Distinct s → static_end draw s o → sample_complete samp draw max_collisions s →
  TInv (rstepf s o).1 ∧ Distinct (rstepf s o).1.
Proof.
  intros HT HD Hst Hsc. destruct (tinv_step samp draw allow tune max_collisions c s o HT Hst Hsc) as [HT' Hnew].
  split; [exact HT'|].
  assert (Hnr : core_op s o ≠ Reload). { destruct o; try done. }
  pose proof (step_grow vdef rscore (rpopulate samp draw max_collisions) (rhook_end allow tune) (rhook_end allow tune) (λ a, a) rfresh c s (core_op s o) Hnr) as Hg.
  rewrite <-rstep_trials in Hg.
  assert (Hold : ∀ j v, j < length (trials s) → RandDedup.vals_of (rstepf s o).1 j = Some v → RandDedup.vals_of s j = Some v).
  { intros j v Hj Hv. destruct (RandDedup.vals_of s j) as [w|] eqn:Ew.
    - rewrite (vals_stable s o j w Hst Ew) in Hv. done.
    - unfold RandDedup.vals_of in Ew. destruct (nth_error (trials s) j) eqn:E; [done|]. apply nth_error_None in E. lia. }
  intros i j vi vj Hij Hi Hj.
  assert (Hlt : ∀ k w, RandDedup.vals_of (rstepf s o).1 k = Some w → k < length (trials (rstepf s o).1)).
  { intros k w Hk. unfold RandDedup.vals_of in Hk. destruct (nth_error (trials (rstepf s o).1) k) eqn:E; [|done]. apply nth_error_Some. congruence. }
  destruct Hg as [Hlen|(tn & Happ)].
  - apply (HD i j vi vj Hij); apply Hold; try done; rewrite <-Hlen; eauto.
  - pose proof (Hnew tn Happ) as Hfresh.
    assert (Hl : length (trials (rstepf s o).1) = S (length (trials s))) by (rewrite Happ, app_length; cbn; lia).
    assert (Hlast : ∀ w, RandDedup.vals_of (rstepf s o).1 (length (trials s)) = Some w → w = tv_values (t_data tn)).
    { intros w Hw. unfold RandDedup.vals_of in Hw. rewrite Happ, nth_error_app2, Nat.sub_diag in Hw by lia. cbn in Hw. by inversion Hw. }
    pose proof (Hlt i vi Hi) as Hi'. pose proof (Hlt j vj Hj) as Hj'. rewrite Hl in Hi', Hj'.
    destruct (decide (i = length (trials s))) as [->|Hni]; destruct (decide (j = length (trials s))) as [->|Hnj]; [done| | |].
    + rewrite (Hlast vi Hi). intros He. apply (Hfresh j vj); [apply Hold; [lia|done]|done].
    + rewrite (Hlast vj Hj). intros He. apply (Hfresh i vi); [apply Hold; [lia|done]|done].
    + apply (HD i j vi vj Hij); apply Hold; try done; lia.
Qed.

(* runs in which every step satisfies the static-space conditions *)
Fixpoint good_run (s : ost) (ops : list rop) : Prop :=
  match ops with
  | [] => True
  | o :: r => static_end draw s o ∧ sample_complete samp draw max_collisions s ∧ good_run (rstepf s o).1 r
  end.
Theorem distinct_run ops : ∀ s, TInv s → Distinct s → good_run s ops →
  Forall (λ rs, Distinct rs.2) (rrun samp draw allow tune max_collisions c s ops).
Proof.
  induction ops as [|o r IH]; intros s HT HD Hg; cbn [rrun]; [constructor|].
  destruct Hg as (Hst & Hsc & Hg). destruct (distinct_step s o HT HD Hst Hsc) as [HT' HD'].
  destruct (rstepf s o) as [s' rs] eqn:Es. cbn in *. constructor; [exact HD'|]. by apply IH.
Qed.
End run.
Print Assumptions distinct_run.

(* bounded effort: one request runs the sampling loop at most max_collisions + 1 times, each pass drawing at most one seeded
   sample per entry of the space, and then gives up (STOPPED) - it never loops *)
Section effort.
Variable samp : nat → Z → value.
Variable draw : nat → hp → value.
Variable mc : nat.
Lemma sample_pass_seed sp : ∀ idx s seed, (seed ≤ (sample_pass samp sp idx s seed).2 ≤ seed + Z.of_nat (length sp))%Z.
Proof.
  induction sp as [|h r IH]; intros idx s seed; cbn [sample_pass length]; [cbn; lia|].
  destruct (is_active _ h); [specialize (IH (S idx) (set_values (match register s h true with Ok (s', _) => s' | Err _ => s end)
      (<[h_name h := samp idx seed]> (s_values (match register s h true with Ok (s', _) => s' | Err _ => s end)))) (seed + 1)%Z)
    |specialize (IH (S idx) (match register s h true with Ok (s', _) => s' | Err _ => s end) seed)]; lia.
Qed.
Theorem random_values_effort fuel sp tried : ∀ seed col r seed',
  random_values samp draw mc fuel sp tried seed col = (r, seed') →
  (seed ≤ seed' ≤ seed + Z.of_nat fuel * Z.of_nat (length sp))%Z.
Proof.
  induction fuel as [|fuel IH]; intros seed col r seed' H; cbn [random_values] in H; [inversion H; lia|].
  pose proof (sample_pass_seed sp 0 empty_hps seed) as Hp.
  destruct (sample_pass samp sp 0 empty_hps seed) as [s sd] eqn:Es. cbn in Hp.
  cbv zeta in H. destruct (duplicate tried (ensure_go draw sp sp (s_values s) 0).1).
  - destruct (Nat.ltb mc (S col)); [inversion H; subst; nia|]. specialize (IH _ _ _ _ H). nia.
  - inversion H; subst. nia.
Qed.
End effort.
