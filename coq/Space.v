(* Model of keras_tuner.engine.hyperparameters.HyperParameters (container semantics) and conditions.Parent *)
From stdpp Require Import gmap list.
From Coq Require Import ZArith.

(* ---------- values with Python equality ---------- *)
Inductive value := VInt (z : Z) | VFlt (n : Z) (d : positive) (* reduced fraction n/d, the exact value of the float *)
                 | VStr (s : positive) | VBool (b : bool).
Global Instance value_eq_dec : EqDecision value. Proof. solve_decision. Defined.

Definition num_of (v : value) : option (Z * positive) :=
  match v with
  | VInt z => Some (z, 1%positive)
  | VFlt n d => Some (n, d)
  | VBool b => Some (if b then 1%Z else 0%Z, 1%positive)
  | VStr _ => None
  end.
(* Python ==: numeric tower for int/float/bool, strings only equal to strings *)
Definition py_eq (a b : value) : bool :=
  match num_of a, num_of b with
  | Some (n1, d1), Some (n2, d2) => Z.eqb (n1 * Zpos d2) (n2 * Zpos d1)
  | None, None => bool_decide (a = b)
  | _, _ => false
  end.
Definition py_in (v : value) (l : list value) : bool := existsb (py_eq v) l.

(* ---------- names, conditions, hyperparameters ---------- *)
Definition name := list positive.     (* "a/b/c" as its segments; raw names contain no '/' *)
Record cond := { c_name : name; c_values : list value }.
Definition cond_eqb (a b : cond) : bool :=
  bool_decide (c_name a = c_name b) &&
  (Nat.eqb (length (c_values a)) (length (c_values b)) && forallb (fun p => py_eq p.1 p.2) (zip (c_values a) (c_values b))).
Fixpoint conds_eqb (a b : list cond) : bool :=
  match a, b with
  | [], [] => true
  | x :: a', y :: b' => cond_eqb x y && conds_eqb a' b'
  | _, _ => false
  end.

Record hp := { h_name : name; h_conds : list cond; h_default : value; h_tag : positive (* kind + parameters, opaque here *) }.

Notation vals := (gmap name value).

Definition cond_active (v : vals) (c : cond) : bool :=
  match v !! c_name c with Some x => py_in x (c_values c) | None => false end.
Definition conds_active (v : vals) (cs : list cond) : bool := forallb (cond_active v) cs.

Record hps := {
  s_scopes : list positive;          (* name scope stack, outermost first *)
  s_conds : list cond;               (* condition stack, outermost first *)
  s_space : list hp;
  s_values : vals;
  s_active : list (list cond);
  s_inactive : list (list cond)
}.
Definition empty_hps : hps :=
  {| s_scopes := []; s_conds := []; s_space := []; s_values := ∅; s_active := []; s_inactive := [] |}.

Definition get_name (s : hps) (n : positive) : name := s_scopes s ++ [n].
Definition exists_ (s : hps) (n : name) (cs : list cond) : bool :=
  existsb (fun h => bool_decide (h_name h = n) && conds_eqb (h_conds h) cs) (s_space s).
Definition known (s : hps) (n : name) : bool := existsb (fun h => bool_decide (h_name h = n)) (s_space s).
Definition is_active (s : hps) (h : hp) : bool := conds_active (s_values s) (h_conds h).

Inductive err := EValueError | EKeyError.
Inductive res (X : Type) := Ok (x : X) | Err (e : err).
Arguments Ok {X} x. Arguments Err {X} e.

Definition set_values (s : hps) (v : vals) : hps :=
  {| s_scopes := s_scopes s; s_conds := s_conds s; s_space := s_space s; s_values := v;
     s_active := s_active s; s_inactive := s_inactive s |}.

(* _register: validate name, append a copy, give the default to an active entry not yet valued *)
Definition register (s : hps) (h : hp) (overwrite : bool) : res (hps * option value) :=
  if existsb (fun c => bool_decide (c_name c = h_name h)) (s_conds s) then Err EValueError else
  let s1 := {| s_scopes := s_scopes s; s_conds := s_conds s; s_space := s_space s ++ [h]; s_values := s_values s;
               s_active := s_active s; s_inactive := s_inactive s |} in
  if is_active s1 h then
    let v := if overwrite then <[h_name h := h_default h]> (s_values s)
             else match s_values s !! h_name h with Some _ => s_values s | None => <[h_name h := h_default h]> (s_values s) end in
    Ok (set_values s1 v, v !! h_name h)
  else Ok (s1, None).

(* _retrieve *)
Definition retrieve (s : hps) (h : hp) : res (hps * option value) :=
  if exists_ s (h_name h) (h_conds h) then
    if is_active s h then
      match s_values s !! h_name h with
      | Some v => Ok (s, Some v)
      | None => Err EKeyError
      end
    else Ok (s, None)
  else register s h false.

(* hp.Int/Float/Choice/Boolean/Fixed(name, ...) without parent_name *)
Definition declare (s : hps) (n : positive) (dflt : value) (tag : positive) : res (hps * option value) :=
  retrieve s {| h_name := get_name s n; h_conds := s_conds s; h_default := dflt; h_tag := tag |}.

(* hp.get(name) *)
Definition get (s : hps) (n : positive) : res value :=
  let nm := get_name s n in
  match s_values s !! nm with
  | Some v => Ok v
  | None => if known s nm then Err EValueError else Err EKeyError
  end.
Definition contains (s : hps) (n : positive) : bool := match get s n with Ok _ => true | Err _ => false end.

Definition push_scope (s : hps) (n : positive) : hps :=
  {| s_scopes := s_scopes s ++ [n]; s_conds := s_conds s; s_space := s_space s; s_values := s_values s;
     s_active := s_active s; s_inactive := s_inactive s |}.
Definition pop_scope (s : hps) : hps :=
  {| s_scopes := removelast (s_scopes s); s_conds := s_conds s; s_space := s_space s; s_values := s_values s;
     s_active := s_active s; s_inactive := s_inactive s |}.

(* conditions.Parent.__init__: values are standardised on the type of the first one *)
Definition to_int (v : value) : value :=
  match v with
  | VInt z => VInt z
  | VFlt n d => VInt (Z.quot n (Zpos d))      (* int(x) truncates toward zero *)
  | VBool b => VInt (if b then 1 else 0)
  | VStr s => VStr s                           (* int("..") not modelled: generator never mixes *)
  end.
Definition standardize (vs : list value) : list value :=
  match vs with
  | VInt _ :: _ => map to_int vs
  | _ => vs
  end.

(* with hp.conditional_scope(parent, values): enter *)
Definition enter_cond (s : hps) (parent : positive) (vs : list value) : res hps :=
  let pn := get_name s parent in
  if exists_ s pn (s_conds s) then
    let c := {| c_name := pn; c_values := standardize vs |} in
    let cs := s_conds s ++ [c] in
    if cond_active (s_values s) c then
      Ok {| s_scopes := s_scopes s; s_conds := cs; s_space := s_space s; s_values := s_values s;
            s_active := s_active s ++ [cs]; s_inactive := s_inactive s |}
    else
      Ok {| s_scopes := s_scopes s; s_conds := cs; s_space := s_space s; s_values := s_values s;
            s_active := s_active s; s_inactive := s_inactive s ++ [cs] |}
  else Err EValueError.
Definition exit_cond (s : hps) : hps :=
  {| s_scopes := s_scopes s; s_conds := removelast (s_conds s); s_space := s_space s; s_values := s_values s;
     s_active := s_active s; s_inactive := s_inactive s |}.

(* ---------- build programs ---------- *)
Inductive stmt :=
| SDecl (n : positive) (dflt : value) (tag : positive)
| SGet (n : positive)
| SIn (n : positive)
| SScope (n : positive) (body : list stmt)
| SCond (eager : bool) (parent : positive) (vs : list value) (body : list stmt).

Inductive event :=
| EvVal (v : option value) | EvErr (e : err) | EvBool (b : bool).

(* execution stops at the first raised error (as the Python build function would) *)
Fixpoint exec (fuel : nat) (s : hps) (p : list stmt) (log : list event) : hps * list event * bool (* raised *) :=
  match fuel with
  | O => (s, log, true)
  | S fuel =>
    match p with
    | [] => (s, log, false)
    | st :: rest =>
        match st with
        | SDecl n d t =>
            match declare s n d t with
            | Ok (s', v) => exec fuel s' rest (log ++ [EvVal v])
            | Err e => (s, log ++ [EvErr e], true)
            end
        | SGet n =>
            match get s n with
            | Ok v => exec fuel s rest (log ++ [EvVal (Some v)])
            | Err e => exec fuel s rest (log ++ [EvErr e])      (* the harness catches these *)
            end
        | SIn n => exec fuel s rest (log ++ [EvBool (contains s n)])
        | SScope n body =>
            let '(s1, log1, r) := exec fuel (push_scope s n) body log in
            if r then (pop_scope s1, log1, true) else exec fuel (pop_scope s1) rest log1
        | SCond eager parent vs body =>
            match enter_cond s parent vs with
            | Err e => (s, log ++ [EvErr e], true)
            | Ok s0 =>
                let run_body := eager || cond_active (s_values s0) {| c_name := get_name s parent; c_values := vs |} in (* the user's own `if value in vs` on the raw list *)
                let '(s1, log1, r) := if run_body then exec fuel s0 body log else (s0, log, false) in
                if r then (exit_cond s1, log1, true) else exec fuel (exit_cond s1) rest log1
            end
        end
    end
  end.
