(* C05 core: ensure_active_values leaves a value for exactly the active entries (well-ordered space, distinct names) *)
From stdpp Require Import gmap list.
From Coq Require Import ZArith.
From KT Require Import Space Discover.
Set Default Proof Using "Type".

Definition cnames (h : hp) : list name := map c_name (h_conds h).
Definition hnames (sp : list hp) : list name := map h_name sp.

(* parents are declared earlier; names are distinct *)
Fixpoint wo (pre : list name) (sp : list hp) : Prop :=
  match sp with
  | [] => True
  | h :: r => cnames h ⊆ pre ∧ h_name h ∉ pre ∧ wo (h_name h :: pre) r
  end.

Lemma conds_active_agree (v w : vals) cs : (∀ c, c ∈ cs → v !! c_name c = w !! c_name c) → conds_active v cs = conds_active w cs.
Proof.
  unfold conds_active. induction cs as [|c r IH]; intros H; [done|]. cbn [forallb]. rewrite IH.
  - f_equal. unfold cond_active. rewrite (H c); [done|by left].
  - intros c' Hc'. apply H. by right.
Qed.

Lemma wo_names sp : ∀ pre, wo pre sp → (∀ n, n ∈ hnames sp → n ∉ pre) ∧ NoDup (hnames sp).
Proof.
  induction sp as [|h r IH]; intros pre Hwo; cbn.
  - split; [intros n Hn; by apply elem_of_nil in Hn|constructor].
  - destruct Hwo as (_ & Hh & Hwo). destruct (IH _ Hwo) as [H1 H2]. split.
    + intros n Hn. apply elem_of_cons in Hn as [->|Hn]; [done|]. intros Hp. apply (H1 n Hn). by right.
    + constructor; [|done]. intros Hin. apply (H1 _ Hin). by left.
Qed.

Section cover.
Variable draw : nat → hp → value.

Lemma ensure_go_other sp : ∀ v k n, n ∉ hnames sp → (ensure_go0 draw sp v k).1 !! n = v !! n.
Proof.
  induction sp as [|h r IH]; intros v k n Hn; cbn; [done|].
  assert (Hr : n ∉ hnames r). { intros ?. apply Hn. by right. }
  assert (Hne : h_name h ≠ n). { intros <-. apply Hn. by left. }
  destruct (conds_active v (h_conds h)).
  - destruct (v !! h_name h); rewrite IH by done; [done|by rewrite lookup_insert_ne].
  - rewrite IH by done. by rewrite lookup_delete_ne.
Qed.

(* exactly the active entries of the space carry a value afterwards *)
Theorem ensure_covers sp : ∀ pre v k, wo pre sp →
  let v' := (ensure_go0 draw sp v k).1 in
  ∀ h, h ∈ sp → (is_Some (v' !! h_name h) ↔ conds_active v' (h_conds h) = true).
Proof.
  induction sp as [|h r IH]; intros pre v k Hwo v' h0 Hin; [by apply elem_of_nil in Hin|].
  pose proof (wo_names _ _ Hwo) as [Hpre Hnd]. cbn in Hnd. apply NoDup_cons in Hnd as [Hhn Hnd].
  destruct Hwo as (Hpn & Hh & Hwo).
  (* the conditions of h only look at names that later steps do not touch *)
  assert (Hstable : ∀ w kk, conds_active (ensure_go0 draw r w kk).1 (h_conds h) = conds_active w (h_conds h)).
  { intros w kk. apply conds_active_agree. intros c Hc. apply ensure_go_other.
    intros Hinr. destruct (wo_names _ _ Hwo) as [Hr _]. apply (Hr _ Hinr). right. apply Hpn.
    unfold cnames. by apply elem_of_list_fmap_1. }
  apply elem_of_cons in Hin as [->|Hin].
  - (* the head entry itself *)
    subst v'. cbn. destruct (conds_active v (h_conds h)) eqn:Ea.
    + destruct (v !! h_name h) as [x|] eqn:Ev.
      * rewrite Hstable, Ea, ensure_go_other by done. rewrite Ev. split; [done|by eexists].
      * rewrite Hstable, ensure_go_other by done. rewrite lookup_insert.
        rewrite <-Ea. split; [intros _|by eexists].
        apply conds_active_agree. intros c Hc. rewrite lookup_insert_ne; [done|].
        intros Heq. apply Hh. apply Hpn. rewrite Heq. unfold cnames. by apply elem_of_list_fmap_1.
    + rewrite Hstable, ensure_go_other by done. rewrite lookup_delete.
      assert (Hd : conds_active (delete (h_name h) v) (h_conds h) = false).
      { rewrite <-Ea. apply conds_active_agree. intros c Hc. rewrite lookup_delete_ne; [done|].
        intros Heq. apply Hh. apply Hpn. rewrite Heq. unfold cnames. by apply elem_of_list_fmap_1. }
      rewrite Hd. split; [by intros [? ?]|done].
  - (* a later entry: induction hypothesis on whatever map the head step produced *)
    subst v'. cbn. destruct (conds_active v (h_conds h)); [destruct (v !! h_name h)|]; by eapply IH.
Qed.

(* with distinct names the same-name guard of the source never fires: ensure_go = ensure_go0 *)
Lemma name_active_unique all v h : NoDup (hnames all) → h ∈ all → name_active all v (h_name h) = conds_active v (h_conds h).
Proof.
  unfold name_active. induction all as [|x r IH]; intros Hnd Hin; [by apply elem_of_nil in Hin|].
  cbn in Hnd. apply NoDup_cons in Hnd as [Hx Hnd]. cbn [existsb].
  apply elem_of_cons in Hin as [->|Hin].
  - rewrite bool_decide_eq_true_2 by done. cbn. destruct (conds_active v (h_conds x)); [done|]. cbn.
    apply not_true_is_false. intros He. apply existsb_exists in He as (y & Hy & Hyy). apply andb_true_iff in Hyy as [Hn _].
    apply bool_decide_eq_true in Hn. apply Hx. rewrite <-Hn. apply elem_of_list_fmap_1. by apply elem_of_list_In.
  - rewrite bool_decide_eq_false_2; [cbn; by apply IH|]. intros He. apply Hx. rewrite He. by apply elem_of_list_fmap_1.
Qed.
Lemma ensure_go_distinct all sp : NoDup (hnames all) → (∀ h, h ∈ sp → h ∈ all) → ∀ v k, ensure_go draw all sp v k = ensure_go0 draw sp v k.
Proof.
  intros Hnd. induction sp as [|h r IH]; intros Hsub v k; [done|]. cbn.
  assert (Hr : ∀ h', h' ∈ r → h' ∈ all) by (intros h' Hh'; apply Hsub; by right).
  destruct (conds_active v (h_conds h)) eqn:Ea.
  - destruct (v !! h_name h); by rewrite IH.
  - rewrite (name_active_unique all v h Hnd) by (apply Hsub; by left). rewrite Ea. by rewrite IH.
Qed.
Theorem ensure_covers' sp v k : wo [] sp →
  let v' := (ensure_go draw sp sp v k).1 in
  ∀ h, h ∈ sp → (is_Some (v' !! h_name h) ↔ conds_active v' (h_conds h) = true).
Proof.
  intros Hwo. rewrite ensure_go_distinct; [by apply (ensure_covers sp [] v k Hwo)|by apply (wo_names sp [])|done].
Qed.
End cover.
Print Assumptions ensure_covers'.
