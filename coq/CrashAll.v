(* C08, for EVERY crash point: a directory-level invariant DirOK that holds after every prefix of the write sequence of
   every search (and of every resumed search, so of any number of crashes), and from which the restart always rebuilds
   a state satisfying the lifecycle invariant Inv. Everything C01/C02/C03/C07 prove from Inv then applies to the
   resumed search. *)
From Coq Require Import List ZArith Bool Lia PeanoNat.
Import ListNotations.
From KT Require Import Lifecycle LInv LProps Crash CrashProofs.

Section CrashAll.
Context {A V Sc : Type}.
Variable vdef : V.
Notation trial := (trial V Sc).
Notation dtrial := (dtrial V Sc).
Variable score_fn : V -> scored Sc.
Variable populate : A -> list trial -> bool -> tid -> A * status * V.
Variable hook_end hook_end_abort : A -> tid -> V -> A.
Variable hook_reload : A -> A.
Variable reissue : V -> V.
Notation ost := (@ostate A V Sc).
Notation recoverf := (@recover A V Sc hook_reload).
Notation stepf := (step vdef score_fn populate hook_end hook_end_abort hook_reload reissue).
Notation ojson := (@ojson A).
Notation dstate := (@dstate A V Sc).

(* ---- list facts about set_nth / firstn ------------------------------------------------------------------------- *)
Lemma set_nth_length_lt {X} (x : X) : forall l id, id < length l -> length (set_nth id x l) = length l.
Proof. induction l as [|y r IH]; intros [|id] H; simpl in *; try lia. rewrite IH; lia. Qed.
Lemma set_nth_same {X} (x : X) : forall l id, id <= length l -> nth_error (set_nth id x l) id = Some x.
Proof. induction l as [|y r IH]; intros [|id] H; simpl in *; try lia; auto. apply IH. lia. Qed.
Lemma set_nth_other {X} (x : X) : forall l id k, id <= length l -> k <> id -> nth_error (set_nth id x l) k = nth_error l k.
Proof.
  induction l as [|y r IH]; intros [|id] [|k] H Hne; simpl in *; try lia; auto.
  - now destruct k.
  - apply IH; lia.
Qed.
Lemma set_nth_upd {X} (x : X) : forall l id, id < length l -> set_nth id x l = upd id (fun _ => x) l.
Proof. induction l as [|y r IH]; intros [|id] H; simpl in *; try lia; auto. f_equal. apply IH. lia. Qed.
Lemma set_nth_end {X} (x : X) : forall l, set_nth (length l) x l = l ++ [x].
Proof. induction l as [|y r IH]; simpl; auto. now rewrite IH. Qed.
Lemma firstn_set_nth_lt {X} (x : X) : forall l id n, id < n -> id < length l -> firstn n (set_nth id x l) = set_nth id x (firstn n l).
Proof.
  induction l as [|y r IH]; intros [|id] [|n] H1 H2; simpl in *; try lia; auto.
  f_equal. apply IH; lia.
Qed.
Lemma firstn_set_nth_ge {X} (x : X) : forall l id n, n <= id -> id <= length l -> firstn n (set_nth id x l) = firstn n l.
Proof.
  induction l as [|y r IH]; intros [|id] [|n] H1 H2; simpl in *; try lia; auto.
  f_equal. apply IH; lia.
Qed.
Lemma firstn_S_set_nth {X} (x : X) : forall l n, n <= length l -> firstn (S n) (set_nth n x l) = firstn n l ++ [x].
Proof.
  induction l as [|y r IH]; intros [|n] H; simpl in *; try lia; auto.
  f_equal. apply IH. lia.
Qed.
Lemma firstn_le_length {X} (l a : list X) n : firstn n l = a -> length a = n -> n <= length l.
Proof. intros <- H. rewrite firstn_length in H. lia. Qed.

(* ---- the directory invariant -------------------------------------------------------------------------------------- *)
Lemma dfinal_final (f : dtrial) : dfinal f = true <-> final (d_status f).
Proof. unfold dfinal, final. destruct (d_status f); split; intros H; try discriminate; auto; destruct H; discriminate. Qed.

Lemma requeued_in (files : list dtrial) (j : ojson) x : In x (requeued files j) <->
  In x (map snd (j_ongoing j)) /\ exists f, nth_error files x = Some f /\ ~ final (d_status f) /\ ~ In x (j_retryq j).
Proof.
  unfold requeued. rewrite filter_In. split.
  - intros [Hin H]. split; [exact Hin|]. destruct (nth_error files x) as [f|]; [|discriminate]. exists f. split; [reflexivity|].
    apply andb_true_iff in H as [H1 H2]. split.
    + intros Hf. apply dfinal_final in Hf. rewrite Hf in H1. discriminate.
    + intros Hq. apply negb_true_iff in H2. assert (existsb (Nat.eqb x) (j_retryq j) = true); [|congruence].
      apply existsb_exists. exists x. split; [exact Hq|apply Nat.eqb_refl].
  - intros [Hin (f & Hf & Hnf & Hnq)]. split; [exact Hin|]. rewrite Hf. apply andb_true_iff. split.
    + apply negb_true_iff. destruct (dfinal f) eqn:E; [|reflexivity]. exfalso. apply Hnf. now apply dfinal_final.
    + apply negb_true_iff. destruct (existsb (Nat.eqb x) (j_retryq j)) eqn:E; [|reflexivity].
      apply existsb_exists in E as (y & Hy & Hxy). apply Nat.eqb_eq in Hxy. subst. contradiction.
Qed.

Definition dgood (f : dtrial) : Prop :=
  (waiting (d_status f) \/ final (d_status f)) /\ (d_status f = COMPLETED -> exists x, d_score f = Some (SVal x)).

Record JOK (R : nat) (files : list dtrial) (j : ojson) : Prop := {
  J_start : j_start j = seq 0 (length files);
  J_nd_rq : NoDup (j_retryq j);
  J_nd_eo : NoDup (j_end j);
  J_nd_on : NoDup (map snd (j_ongoing j));
  J_rq_eo : forall x, In x (j_retryq j) -> ~ In x (j_end j);
  J_rq : forall x, In x (j_retryq j) -> exists f, nth_error files x = Some f /\ waiting (d_status f);
  J_eo : forall x, In x (j_end j) -> exists f, nth_error files x = Some f /\ final (d_status f);
  (* every trial that was started and whose file does not record an end is queued or recorded as handed out *)
  J_cover : forall x f, nth_error files x = Some f -> final (d_status f) \/ In x (j_retryq j) \/ In x (map snd (j_ongoing j));
  J_good : forall x f, nth_error files x = Some f -> dgood f;
  (* run counters: at most R+1 runs per trial, at most R for a trial that will be run again *)
  J_runs : forall x, nth x (j_runs j) 0 <= S R;
  J_live : forall x, In x (j_retryq j) \/ In x (requeued files j) -> nth x (j_runs j) 0 <= R
}.

Definition DirOK (R : nat) (d : dstate) : Prop :=
  ds_tuner d = true /\ exists j, ds_oracle d = Some j /\ length (j_start j) <= length (ds_trials d) /\
                                 JOK R (firstn (length (j_start j)) (ds_trials d)) j.

Lemma NoDup_filter {X} (p : X -> bool) l : NoDup l -> NoDup (filter p l).
Proof.
  induction l as [|x r IH]; simpl; intros H; [constructor|]. inversion H; subst.
  destruct (p x); auto. constructor; auto. rewrite filter_In. tauto.
Qed.
Lemma NoDup_app_disj {X} (a b : list X) : NoDup a -> NoDup b -> (forall x, In x a -> ~ In x b) -> NoDup (a ++ b).
Proof.
  induction a as [|x r IH]; simpl; intros Ha Hb Hd; [exact Hb|]. inversion Ha; subst. constructor.
  - intros H. apply in_app_or in H as [H|H]; [contradiction|]. apply (Hd x); auto.
  - apply IH; auto; intros y Hy; apply Hd; now right.
Qed.

(* THE RESTART FROM ANY DIRECTORY SATISFYING DirOK YIELDS A STATE SATISFYING THE LIFECYCLE INVARIANT *)
Theorem recover_inv c (d : dstate) : DirOK (max_retries c) d -> exists t : ost, recoverf d = Some t /\ Inv t /\ RInv c t /\ ongoing t = [].
Proof.
  intros (Ht & j & Ho & Hlen & HJ). unfold recover. rewrite Ht, Ho. cbn [negb].
  set (files := firstn (length (j_start j)) (ds_trials d)) in *.
  eexists. split; [reflexivity|].
  set (mk := fun (i : nat) (dt : dtrial) => {| t_status := d_status dt; t_score := d_score dt; t_runs := nth i (j_runs j) 0; t_data := d_data dt |}).
  assert (Hnth : forall x, nth_error (mapi mk 0 files) x = option_map (mk x) (nth_error files x)).
  { intros x. rewrite mapi_nth. reflexivity. }
  assert (Hstat0 : forall (t : ost), trials t = mapi mk 0 files -> forall x f, nth_error files x = Some f -> stat t x = Some (d_status f)).
  { intros t Et x f Hf. unfold stat. rewrite Et, Hnth, Hf. reflexivity. }
  assert (Hstat : forall x f, nth_error files x = Some f -> forall (t : ost), trials t = mapi mk 0 files -> stat t x = Some (d_status f)).
  { intros x f Hf t Et. now apply Hstat0. }
  assert (Hrqw : forall x, In x (j_retryq j ++ requeued files j) -> exists f, nth_error files x = Some f /\ waiting (d_status f)).
  { intros x Hx. apply in_app_or in Hx as [Hx|Hx]; [now apply (J_rq _ _ _ HJ)|].
    apply requeued_in in Hx as (_ & f & Hf & Hnf & _). exists f. split; [exact Hf|].
    destruct (J_good _ _ _ HJ x f Hf) as [[Hw|Hfin] _]; [exact Hw|contradiction]. }
  split; [|split; [constructor; cbn [trials ongoing retryq]|reflexivity]].
  2:{ intros x t Hn. rewrite Hnth in Hn. destruct (nth_error files x) as [f|]; [|discriminate]. inversion Hn; subst t. cbn. apply (J_runs _ _ _ HJ). }
  2:{ intros x t Hn [[]|Hx]. rewrite Hnth in Hn. destruct (nth_error files x) as [f|]; [|discriminate]. inversion Hn; subst t. cbn.
      apply (J_live _ _ _ HJ). apply in_app_or in Hx. exact Hx. }
  constructor; cbn [trials ongoing start_order end_order retryq disk].
  - rewrite mapi_length. apply (J_start _ _ _ HJ).
  - now rewrite mapi_length.
  - constructor.
  - unfold onids. cbn [ongoing map]. unfold part3. repeat split; try constructor; try (intros ? []).
    + apply NoDup_app_disj; [apply (J_nd_rq _ _ _ HJ)|apply NoDup_filter, (J_nd_on _ _ _ HJ)|].
      intros x Hx Hr. apply requeued_in in Hr as (_ & f & _ & _ & Hn). contradiction.
    + apply (J_nd_eo _ _ _ HJ).
    + intros x Hx He. apply in_app_or in Hx as [Hx|Hx]; [now apply (J_rq_eo _ _ _ HJ x)|].
      apply requeued_in in Hx as (_ & f & Hf & Hnf & _). destruct (J_eo _ _ _ HJ x He) as (f' & Hf' & Hfin).
      rewrite Hf in Hf'. inversion Hf'; subst. contradiction.
  - intros x [].
  - intros x Hx. destruct (Hrqw x Hx) as (f & Hf & Hw). exists (d_status f). split; [now apply (Hstat _ _ Hf)|exact Hw].
  - intros x Hx. destruct (J_eo _ _ _ HJ x Hx) as (f & Hf & Hfin). exists (d_status f). split; [now apply (Hstat _ _ Hf)|exact Hfin].
  - intros x Hx. rewrite mapi_length in Hx. unfold onids. cbn [ongoing map].
    destruct (nth_error files x) as [f|] eqn:Hf; [|apply nth_error_None in Hf; lia].
    destruct (J_cover _ _ _ HJ x f Hf) as [Hfin|[Hq|Hon]].
    + right. right. exists (d_status f). split; [now apply (Hstat _ _ Hf)|exact Hfin].
    + right. left. apply in_or_app. now left.
    + destruct (J_good _ _ _ HJ x f Hf) as [[Hw|Hfin] _].
      * right. left. destruct (in_dec Nat.eq_dec x (j_retryq j)) as [Hq|Hnq]; [apply in_or_app; now left|].
        apply in_or_app. right. apply requeued_in. split; [exact Hon|]. exists f. split; [exact Hf|]. split; [|exact Hnq].
        intros Hfin. eapply waiting_not_final; eauto.
      * right. right. exists (d_status f). split; [now apply (Hstat _ _ Hf)|exact Hfin].
  - intros x t Hn Hc. rewrite Hnth in Hn. destruct (nth_error files x) as [f|] eqn:Hf; [|discriminate]. inversion Hn; subst t. cbn in Hc |- *.
    apply (J_good _ _ _ HJ x f Hf). exact Hc.
  - intros x _. rewrite Hnth. destruct (nth_error files x) as [f|]; [|reflexivity]. cbn. destruct f; reflexivity.
  - intros x f [[]|Hx] Hf. destruct (Hrqw x Hx) as (f' & Hf' & Hw). rewrite Hf in Hf'. inversion Hf'; subst. exact Hw.
Qed.

(* ---- how a directory represents an in-memory state ---------------------------------------------------------------- *)
(* oracle.json is a save of s except that it lists og as handed out and may hold an older algorithm state (create_trial
   does not save when it answers IDLE or STOPPED); trial files beyond the known trials are leftovers *)
Definition jrep (j : ojson) (s : ost) (og : list (tuner * tid)) : Prop :=
  j_ongoing j = og /\ j_start j = start_order s /\ j_end j = end_order s /\ j_retryq j = retryq s /\
  j_runs j = map (@t_runs V Sc) (trials s).
Definition RepO (d : dstate) (s : ost) (og : list (tuner * tid)) : Prop :=
  ds_tuner d = true /\ (exists j, ds_oracle d = Some j /\ jrep j s og) /\
  firstn (length (trials s)) (ds_trials d) = disk s.
Definition Rep (d : dstate) (s : ost) : Prop := RepO d s (ongoing s).

Lemma disk_final_of_finalat (s : ost) x : Inv s -> finalat s x -> exists f, nth_error (disk s) x = Some f /\ final (d_status f).
Proof.
  intros HI Hf. pose proof (I_d_fin _ HI _ Hf) as Hd. destruct Hf as (st & Hs & Hfin). unfold stat in Hs.
  destruct (nth_error (trials s) x) as [t|]; [|discriminate]. simpl in *. inversion Hs; subst.
  exists (to_disk t). split; [now rewrite <- Hd|exact Hfin].
Qed.
Lemma disk_waiting (s : ost) x : Inv s -> In x (onids s) \/ In x (retryq s) -> exists f, nth_error (disk s) x = Some f /\ waiting (d_status f).
Proof.
  intros HI Hx. assert (Hlt : x < length (trials s)).
  { destruct Hx as [H|H]; [eapply stat_lt, (I_on_run _ HI); eauto|]. destruct (I_rq_wait _ HI _ H) as (st & Hs & _). eapply stat_lt; eauto. }
  destruct (nth_error (disk s) x) as [f|] eqn:Ef; [|apply nth_error_None in Ef; rewrite (I_disk_len _ HI) in Ef; lia].
  exists f. split; [reflexivity|]. eapply (I_d_wait _ HI); eauto.
Qed.

Lemma nth_map_runs (ts : list trial) x : nth x (map (@t_runs V Sc) ts) 0 = match nth_error ts x with Some t => t_runs t | None => 0 end.
Proof. revert x. induction ts as [|t r IH]; intros [|x]; simpl; auto. Qed.

Lemma jok_of_inv c (s : ost) (j : ojson) og : Inv s -> RInv c s -> jrep j s og -> NoDup (map snd og) ->
  (forall x, In x (onids s) -> In x (map snd og)) ->
  (forall x, In x (map snd og) -> In x (onids s) \/ In x (retryq s) \/ finalat s x) -> JOK (max_retries c) (disk s) j.
Proof.
  intros HI HR (Eo & Es & Ee & Eq & Er) Hnd Hsub Hsup.
  destruct (I_part _ HI) as (Ha & Hb & Hc & Hab & Hac & Hbc).
  assert (Hcase : forall x f, nth_error (disk s) x = Some f ->
            (In x (onids s) \/ In x (retryq s)) /\ waiting (d_status f) \/ finalat s x /\ final (d_status f)).
  { intros x f Hf. assert (Hlt : x < length (trials s)). { rewrite <- (I_disk_len _ HI). apply nth_error_Some. congruence. }
    destruct (I_cover _ HI x Hlt) as [H|[H|H]].
    - left. split; [now left|]. eapply (I_d_wait _ HI); eauto.
    - left. split; [now right|]. eapply (I_d_wait _ HI); eauto.
    - right. split; [exact H|]. destruct (disk_final_of_finalat s x HI H) as (f' & Hf' & Hfin). rewrite Hf in Hf'. now inversion Hf'; subst. }
  constructor.
  - rewrite Es, (I_start _ HI). now rewrite (I_disk_len _ HI).
  - now rewrite Eq.
  - now rewrite Ee.
  - now rewrite Eo.
  - intros x. rewrite Eq, Ee. apply Hbc.
  - intros x. rewrite Eq. intros Hx. apply (disk_waiting s x HI). now right.
  - intros x. rewrite Ee. intros Hx. apply (disk_final_of_finalat s x HI). now apply eo_finalat.
  - intros x f Hf. rewrite Eq, Eo. destruct (Hcase x f Hf) as [[[H|H] _]|[_ H]]; auto.
  - intros x f Hf. split.
    + destruct (Hcase x f Hf) as [[_ H]|[_ H]]; auto.
    + intros Hcm. destruct (Hcase x f Hf) as [[_ [H|H]]|[H _]]; try congruence.
      pose proof (I_d_fin _ HI _ H) as Hd. destruct (nth_error (trials s) x) as [t|] eqn:Et; simpl in Hd; [|congruence].
      rewrite Hf in Hd. inversion Hd; subst f. simpl in *. eapply (I_score _ HI); eauto.
  - intros x. rewrite Er, nth_map_runs. destruct (nth_error (trials s) x) as [t|] eqn:Et; [|lia]. eapply (R_all _ _ HR); eauto.
  - intros x Hx. rewrite Er, nth_map_runs. destruct (nth_error (trials s) x) as [t|] eqn:Et; [|lia].
    apply (R_live _ _ HR x t Et). destruct Hx as [Hx|Hx]; [right; now rewrite <- Eq|].
    apply requeued_in in Hx as (Hin & f & Hf & Hnf & Hnq). rewrite Eo in Hin. destruct (Hsup x Hin) as [H|[H|H]]; auto.
    exfalso. destruct (disk_final_of_finalat s x HI H) as (f' & Hf' & Hfin). rewrite Hf in Hf'. inversion Hf'; subst. contradiction.
Qed.

Lemma repo_dirok c (d : dstate) (s : ost) og : Inv s -> RInv c s -> RepO d s og -> NoDup (map snd og) ->
  (forall x, In x (onids s) -> In x (map snd og)) ->
  (forall x, In x (map snd og) -> In x (onids s) \/ In x (retryq s) \/ finalat s x) -> DirOK (max_retries c) d.
Proof.
  intros HI HR (Ht & (j & Ho & Hj) & Hf) Hnd Hsub Hsup. split; [exact Ht|]. exists j. split; [exact Ho|].
  assert (Hn : length (j_start j) = length (trials s)).
  { destruct Hj as (_ & Es & _). rewrite Es, (I_start _ HI). apply seq_length. }
  rewrite Hn. split.
  - eapply firstn_le_length; [exact Hf|apply (I_disk_len _ HI)].
  - rewrite Hf. eapply jok_of_inv; eauto.
Qed.
Lemma rep_dirok c (d : dstate) (s : ost) : Inv s -> RInv c s -> Rep d s -> DirOK (max_retries c) d.
Proof. intros HI HR HRep. apply (repo_dirok c d s (ongoing s) HI HR HRep); [apply (I_part _ HI)|intros x H; exact H|intros x H; left; exact H]. Qed.

(* the trial file of a handed-out trial is rewritten while oracle.json still describes the state before *)
Lemma jok_patch R (files : list dtrial) (j : ojson) id (d' : dtrial) :
  JOK R files j -> In id (map snd (j_ongoing j)) -> ~ In id (j_retryq j) -> ~ In id (j_end j) -> id < length files -> dgood d' ->
  nth id (j_runs j) 0 <= R -> JOK R (set_nth id d' files) j.
Proof.
  intros HJ Hon Hnq Hne Hlt Hg Hrun.
  assert (Hlen : length (set_nth id d' files) = length files) by now apply set_nth_length_lt.
  assert (Hoth : forall x, x <> id -> nth_error (set_nth id d' files) x = nth_error files x).
  { intros x Hx. apply set_nth_other; [lia|exact Hx]. }
  assert (Hsame : nth_error (set_nth id d' files) id = Some d') by (apply set_nth_same; lia).
  constructor; try apply HJ.
  - rewrite Hlen. apply (J_start _ _ _ HJ).
  - intros x Hx. rewrite Hoth; [now apply (J_rq _ _ _ HJ)|]. intros ->. contradiction.
  - intros x Hx. rewrite Hoth; [now apply (J_eo _ _ _ HJ)|]. intros ->. contradiction.
  - intros x f Hf. destruct (Nat.eq_dec x id) as [->|Hx]; [auto|]. rewrite Hoth in Hf by exact Hx. now apply (J_cover _ _ _ HJ x f).
  - intros x f Hf. destruct (Nat.eq_dec x id) as [->|Hx]; [rewrite Hsame in Hf; now inversion Hf; subst|].
    rewrite Hoth in Hf by exact Hx. now apply (J_good _ _ _ HJ x f).
  - intros x [Hx|Hx]; [apply (J_live _ _ _ HJ); now left|].
    destruct (Nat.eq_dec x id) as [->|Hxne]; [exact Hrun|].
    apply (J_live _ _ _ HJ). right. apply requeued_in in Hx as (Hin & f & Hf & Hr). apply requeued_in. split; [exact Hin|].
    exists f. rewrite Hoth in Hf by exact Hxne. auto.
Qed.

Lemma w1_dirok c (d : dstate) (s : ost) id (d' : dtrial) : Inv s -> RInv c s -> Rep d s -> In id (onids s) -> dgood d' ->
  DirOK (max_retries c) (apply_write d (WTrial id d')).
Proof.
  intros HI HRI HR Hon Hg. pose proof HR as (Ht & (j & Ho & Hj) & Hf).
  destruct (on_facts _ _ HI Hon) as (Hlt & Hnq & Hne).
  assert (Hn : length (j_start j) = length (trials s)).
  { destruct Hj as (_ & Es & _). rewrite Es, (I_start _ HI). apply seq_length. }
  assert (Hle : length (trials s) <= length (ds_trials d)) by (eapply firstn_le_length; [exact Hf|apply (I_disk_len _ HI)]).
  split; [exact Ht|]. exists j. split; [exact Ho|]. cbn [apply_write ds_trials]. rewrite Hn. split.
  - rewrite set_nth_length_lt; lia.
  - rewrite firstn_set_nth_lt by lia. rewrite Hf.
    pose proof Hj as (Eo & Es & Ee & Eq & Er).
    apply jok_patch; auto.
    + apply (jok_of_inv c s j (ongoing s) HI HRI Hj); [apply (I_part _ HI)|intros x H; exact H|intros x H; left; exact H].
    + now rewrite Eo.
    + now rewrite Eq.
    + now rewrite Ee.
    + now rewrite (I_disk_len _ HI).
    + rewrite Er, nth_map_runs. destruct (nth_error (trials s) id) as [t|] eqn:Et; [|lia]. apply (R_live _ _ HRI id t Et). now left.
Qed.

(* ---- the writes of one call, prefix by prefix --------------------------------------------------------------------- *)
Notation foldw := (fold_left (@apply_write A V Sc)).

Lemma rep_same_lists (d : dstate) (s s' : ost) : Rep d s ->
  ongoing s' = ongoing s -> start_order s' = start_order s -> end_order s' = end_order s -> retryq s' = retryq s ->
  trials s' = trials s -> disk s' = disk s -> Rep d s'.
Proof.
  intros (Ht & (j & Ho & Hj) & Hf) E1 E2 E3 E4 E5 E6. unfold Rep, RepO, jrep in *. rewrite E1, E2, E3, E4, E5, E6. eauto.
Qed.

Lemma end_block c (d : dstate) (s s' : ost) id (dt : dtrial) :
  Inv s -> RInv c s -> Rep d s -> In id (onids s) -> Inv s' -> RInv c s' ->
  length (trials s') = length (trials s) -> disk s' = upd id (fun _ => dt) (disk s) ->
  (forall x, In x (onids s') -> In x (onids s)) ->
  (forall x, In x (onids s) -> In x (onids s') \/ In x (retryq s') \/ finalat s' x) -> dgood dt ->
  let B := [WTrial id dt; WOracle (to_json (with_ongoing s' (ongoing s))); WOracle (to_json s'); WTuner] in
  (forall k, DirOK (max_retries c) (foldw (firstn k B) d)) /\ Rep (foldw B d) s'.
Proof.
  intros HI HRI HR Hon HI' HRI' Hlen Hdisk Hsub Hsup Hg B.
  pose proof HR as (Ht & (j & Ho & Hj) & Hf).
  destruct (on_facts _ _ HI Hon) as (Hlt & _ & _).
  assert (Hle : length (trials s) <= length (ds_trials d)) by (eapply firstn_le_length; [exact Hf|apply (I_disk_len _ HI)]).
  assert (Hfiles : firstn (length (trials s')) (set_nth id dt (ds_trials d)) = disk s').
  { rewrite Hlen, firstn_set_nth_lt by lia. rewrite Hf, Hdisk. apply set_nth_upd. now rewrite (I_disk_len _ HI). }
  assert (H2 : RepO (foldw (firstn 2 B) d) s' (ongoing s)).
  { cbn. split; [exact Ht|]. split; [|exact Hfiles]. eexists. split; [reflexivity|]. repeat split. }
  assert (H3 : Rep (foldw (firstn 3 B) d) s').
  { cbn. split; [exact Ht|]. split; [|exact Hfiles]. eexists. split; [reflexivity|]. repeat split. }
  assert (H4 : Rep (foldw B d) s').
  { cbn. split; [reflexivity|]. split; [|exact Hfiles]. eexists. split; [reflexivity|]. repeat split. }
  split; [|exact H4].
  intros [|[|[|[|k]]]].
  - cbn. now apply (rep_dirok c d s).
  - cbn [firstn foldw B]. now apply (w1_dirok c d s).
  - eapply repo_dirok; [exact HI'|exact HRI'|exact H2|apply (I_part _ HI)|exact Hsub|exact Hsup].
  - now apply (rep_dirok c _ s').
  - rewrite firstn_all2 by (unfold B; cbn [length]; lia). now apply (rep_dirok c _ s').
Qed.

Lemma firstn_firstn_min {X} (l : list X) k m : firstn k (firstn m l) = firstn (Nat.min k m) l.
Proof. apply firstn_firstn. Qed.

Definition is_reload (o : @op V) : bool := match o with Reload => true | _ => false end.

Lemma map_runs_upd (ts : list trial) id (t t' : trial) : nth_error ts id = Some t -> t_runs t' = t_runs t ->
  map (@t_runs V Sc) (upd id (fun _ => t') ts) = map (@t_runs V Sc) ts.
Proof. revert id. induction ts as [|x r IH]; intros [|id] Hn H; simpl in *; try discriminate; [inversion Hn; subst; now rewrite H|now rewrite (IH id Hn H)]. Qed.

Lemma block_spec c (d : dstate) (s s' : ost) o r : abort_early c = false -> Inv s -> RInv c s -> Rep d s ->
  stepf c s o = (s', r) -> is_reload o = false ->
  (forall k, DirOK (max_retries c) (foldw (firstn k (writes_of s o s' r)) d)) /\
  (r <> RAbort -> Rep (foldw (writes_of s o s' r) d) s').
Proof.
  intros Hab HI HRI HR Es Hnr.
  pose proof (rinv_step vdef score_fn populate hook_end hook_end_abort hook_reload reissue c s o Hab HI HRI) as HRI'. rewrite Es in HRI'. cbn [fst] in HRI'.
  pose proof HR as (Ht & (j & Ho & Hj) & Hf).
  assert (Hle : length (trials s) <= length (ds_trials d)) by (eapply firstn_le_length; [exact Hf|apply (I_disk_len _ HI)]).
  assert (Hnil : (forall k, DirOK (max_retries c) (foldw (firstn k []) d)) /\ (r <> RAbort -> Rep (foldw [] d) s) ).
  { split; [intros k; rewrite firstn_nil; cbn; now apply (rep_dirok c d s)|intros _; exact HR]. }
  destruct o as [tu|id f|id es f|]; [| | |discriminate]; cbn [stepf] in Es.
  - (* create_trial *)
    pose proof (inv_create vdef populate reissue c s tu HI) as HI'.
    unfold do_create in Es, HI'.
    destruct (alookup tu (ongoing s)) as [id0|] eqn:Elk.
    { destruct (trial_view vdef (trials s) id0) as [st v]. inversion Es; subst s' r. cbn [writes_of].
      destruct st; try exact Hnil. rewrite Nat.ltb_irrefl, Nat.eqb_refl. exact Hnil. }
    destruct (rev (retryq s)) as [|idr rq'] eqn:Erq.
    + match type of Es with context [match ?X with (_, _) => _ end] => destruct X as [[a' st] v] end.
      assert (Hsame : forall (s1 : ost) st1 id1 v1, st1 <> RUNNING ->
                ongoing s1 = ongoing s -> start_order s1 = start_order s -> end_order s1 = end_order s -> retryq s1 = retryq s ->
                trials s1 = trials s -> disk s1 = disk s ->
                (forall k, DirOK (max_retries c) (foldw (firstn k (writes_of s (Create tu) s1 (RTrial id1 st1 v1))) d)) /\
                (RTrial id1 st1 v1 <> RAbort -> Rep (foldw (writes_of s (Create tu) s1 (RTrial id1 st1 v1)) d) s1)).
      { intros s1 st1 id1 v1 Hst E1 E2 E3 E4 E5 E6. cbn [writes_of]. destruct st1; try congruence.
        all: split; [intros k; rewrite firstn_nil; cbn; now apply (rep_dirok c d s)|intros _; cbn; now apply (rep_same_lists d s)]. }
      destruct st; cbn [fst] in *; inversion Es; subst s' r; try (apply Hsame; [discriminate|reflexivity..]).
      (* a new trial *)
      set (t := {| t_status := RUNNING; t_score := None; t_runs := 0; t_data := v |}) in *.
      cbn [writes_of trials disk]. rewrite app_length. cbn [length].
      replace (length (trials s) <? length (trials s) + 1) with true by (symmetry; apply Nat.ltb_lt; lia).
      set (n := length (trials s)) in *.
      assert (Hd : nth_error (disk s ++ [to_disk t]) n = Some (to_disk t)).
      { rewrite nth_error_app2 by (rewrite (I_disk_len _ HI); unfold n; lia). now rewrite (I_disk_len _ HI), Nat.sub_diag. }
      rewrite Hd.
      match goal with |- (forall k, DirOK _ (foldw (firstn k [_; WOracle (to_json ?S')]) d)) /\ _ => set (s2 := S') in * end.
      assert (H1 : Rep (apply_write d (WTrial n (to_disk t))) s).
      { split; [exact Ht|]. split; [exists j; auto|]. cbn [apply_write ds_trials]. rewrite firstn_set_nth_ge by (unfold n; lia). exact Hf. }
      assert (H2 : Rep (foldw [WTrial n (to_disk t); WOracle (to_json s2)] d) s2).
      { cbn. split; [exact Ht|]. split; [eexists; split; [reflexivity|repeat split]|].
        unfold s2. cbn [trials disk ds_trials]. rewrite app_length. cbn [length]. fold n. replace (n + 1) with (S n) by lia.
        rewrite firstn_S_set_nth by (unfold n; lia). now rewrite Hf. }
      split; [|intros _; exact H2].
      intros [|[|k]].
      * cbn. now apply (rep_dirok c d s).
      * cbn. now apply (rep_dirok c _ s).
      * rewrite firstn_all2 by (cbn [length]; lia). now apply (rep_dirok c _ s2).
    + (* re-issued from the retry queue *)
      cbn [fst] in HI'. inversion Es; subst s' r. cbn [writes_of trials ongoing].
      rewrite length_upd, Nat.ltb_irrefl, app_length. cbn [length].
      replace (length (ongoing s) =? length (ongoing s) + 1) with false by (symmetry; apply Nat.eqb_neq; lia).
      match goal with |- (forall k, DirOK _ (foldw (firstn k [WOracle (to_json ?S')]) d)) /\ _ => set (s2 := S') in * end.
      assert (H1 : Rep (foldw [WOracle (to_json s2)] d) s2).
      { cbn. split; [exact Ht|]. split; [eexists; split; [reflexivity|repeat split]|]. unfold s2. cbn [trials disk ds_trials]. rewrite length_upd. exact Hf. }
      split; [|intros _; exact H1].
      intros [|k]; [cbn; now apply (rep_dirok c d s)|].
      rewrite firstn_all2 by (cbn [length]; lia). now apply (rep_dirok c _ s2).
  - (* update_trial *)
    pose proof (inv_update s id f HI) as HI'. unfold do_update in Es, HI'.
    destruct (nth_error (trials s) id) as [t|] eqn:Et.
    2:{ inversion Es; subst s' r. cbn [writes_of]. exact Hnil. }
    cbn [fst] in HI'. inversion Es; subst s' r. cbn [writes_of disk].
    assert (Hlt : id < length (trials s)) by (apply nth_error_Some; congruence).
    assert (Hlt' : id < length (disk s)) by now rewrite (I_disk_len _ HI).
    rewrite nth_upd_same. destruct (nth_error (disk s) id) as [d0|] eqn:Ed0; [|apply nth_error_None in Ed0; lia]. cbn [option_map].
    match goal with |- (forall k, DirOK _ (foldw (firstn k [WTrial id ?DT]) d)) /\ (_ -> Rep _ ?S') => set (dt := DT) in *; set (s2 := S') in * end.
    assert (H1 : Rep (foldw [WTrial id dt] d) s2).
    { cbn. split; [exact Ht|]. split.
      - exists j. split; [exact Ho|]. destruct Hj as (E1 & E2 & E3 & E4 & E5). unfold s2. repeat split; auto. cbn [trials].
        rewrite (map_runs_upd _ _ t); [exact E5|exact Et|reflexivity].
      - unfold s2. cbn [trials disk ds_trials]. rewrite length_upd, firstn_set_nth_lt by lia. rewrite Hf. now apply set_nth_upd. }
    split; [|intros _; exact H1].
    intros [|k]; [cbn; now apply (rep_dirok c d s)|].
    rewrite firstn_all2 by (cbn [length]; lia). now apply (rep_dirok c _ s2).
  - (* end_trial *)
    pose proof (inv_end score_fn hook_end hook_end_abort c s id es f Hab HI) as HI'. unfold do_end in Es, HI'.
    destruct (existsb (fun kv => snd kv =? id) (ongoing s)) eqn:Eex; cbn [negb] in Es, HI'.
    2:{ inversion Es; subst s' r. cbn [writes_of]. exact Hnil. }
    apply existsb_snd in Eex.
    destruct (nth_error (trials s) id) as [t0|] eqn:Et0.
    2:{ inversion Es; subst s' r. cbn [writes_of]. exact Hnil. }
    rewrite Hab in Es, HI'.
    assert (Hlt' : id < length (disk s)).
    { rewrite (I_disk_len _ HI). apply nth_error_Some. congruence. }
    assert (Hds : forall x : dtrial, nth_error (upd id (fun _ => x) (disk s)) id = Some x).
    { intros x. rewrite nth_upd_same. destruct (nth_error (disk s) id) eqn:E; [reflexivity|apply nth_error_None in E; lia]. }
    assert (Hfin : forall (s1 : ost) (dt : dtrial) (abort : bool), Inv s1 -> RInv c s1 ->
              length (trials s1) = length (trials s) -> disk s1 = upd id (fun _ => dt) (disk s) ->
              ongoing s1 = remove_first_by_id id (ongoing s) -> dgood dt ->
              let r1 := if abort then RAbort else RNone in
              (forall k, DirOK (max_retries c) (foldw (firstn k (writes_of s (End id es f) s1 r1)) d)) /\
              (r1 <> RAbort -> Rep (foldw (writes_of s (End id es f) s1 r1) d) s1)).
    { intros s1 dt abort HI1 HRI1 Hl1 Hd1 Ho1 Hg r1.
      assert (Hsub : forall x, In x (onids s1) -> In x (onids s)). { intros x. unfold onids. rewrite Ho1. apply rfb_snd_in. }
      assert (Hsup : forall x, In x (onids s) -> In x (onids s1) \/ In x (retryq s1) \/ finalat s1 x).
      { intros x Hx. destruct (Nat.eq_dec x id) as [->|Hne].
        - assert (Hlt1 : id < length (trials s1)). { rewrite Hl1. apply nth_error_Some. congruence. }
          apply (I_cover _ HI1 id Hlt1).
        - left. unfold onids. rewrite Ho1. now apply rfb_snd_keeps. }
      destruct (end_block c d s s1 id dt HI HRI HR Eex HI1 HRI1 Hl1 Hd1 Hsub Hsup Hg) as [Hk H4].
      destruct abort; subst r1; cbn [writes_of]; rewrite Hd1, Hds.
      - split; [|congruence]. intros k.
        replace (firstn k [WTrial id dt; WOracle (to_json (with_ongoing s1 (ongoing s)))])
          with (firstn (Nat.min k 2) [WTrial id dt; WOracle (to_json (with_ongoing s1 (ongoing s))); WOracle (to_json s1); WTuner]); [apply Hk|].
        destruct k as [|[|[|k]]]; reflexivity.
      - split; [exact Hk|intros _; exact H4]. }
    repeat match type of Es with
    | context [match ?X with ECompleted => _ | EInvalid => _ | EFailed => _ end] => destruct X
    | context [match score_fn ?x with SNaN => _ | SVal _ => _ end] => destruct (score_fn x)
    | context [Nat.leb ?a ?b] => destruct (Nat.leb a b)
    | context [if streak ?a ?b ?d ?e then _ else _] => destruct (streak a b d e)
    end; cbn [fst] in HI'; inversion Es; subst s' r.
    all: match goal with
         | |- _ /\ (RAbort <> RAbort -> _) => eapply (Hfin _ _ true HI' HRI'); cbn [trials disk ongoing to_disk d_status d_score t_status t_score]
         | |- _ => eapply (Hfin _ _ false HI' HRI'); cbn [trials disk ongoing to_disk d_status d_score t_status t_score]
         end.
    all: try (now rewrite length_upd); try reflexivity.
    all: unfold dgood; cbn [d_status d_score]; split; [|intros; try discriminate; eauto].
    all: unfold waiting, final; auto.
    all: cbn; eauto.
Qed.

Lemma inv_step c (s : ost) o : abort_early c = false -> Inv s -> Inv (fst (stepf c s o)).
Proof.
  intros Hab HI. destruct o as [tu|id f|id es f|]; cbn [stepf].
  - now apply inv_create.
  - now apply inv_update.
  - now apply inv_end.
  - now apply inv_reload.
Qed.

Definition no_reload (ops : list (@op V)) : bool := forallb (fun o => negb (is_reload o)) ops.

Lemma fold_prefix_app (B W : list (@write A V Sc)) (d : dstate) k :
  foldw (firstn k (B ++ W)) d = if k <=? length B then foldw (firstn k B) d else foldw (firstn (k - length B) W) (foldw B d).
Proof.
  rewrite firstn_app, fold_left_app. destruct (Nat.leb_spec k (length B)) as [H|H].
  - replace (k - length B) with 0 by lia. reflexivity.
  - rewrite (firstn_all2 B) by lia. reflexivity.
Qed.

Notation all_writesf := (all_writes vdef score_fn populate hook_end hook_end_abort hook_reload reissue).

(* EVERY PREFIX OF THE WRITES OF A RUNNING SEARCH LEAVES A DIRECTORY SATISFYING DirOK *)
Theorem all_prefix_dirok c : abort_early c = false -> forall ops (s : ost) (d : dstate) k,
  no_reload ops = true -> Inv s -> RInv c s -> Rep d s -> DirOK (max_retries c) (foldw (firstn k (all_writesf c s ops)) d).
Proof.
  intros Hab. induction ops as [|o rest IH]; intros s d k Hnr HI HRI HR.
  - cbn. rewrite firstn_nil. cbn. now apply (rep_dirok c d s).
  - cbn [all_writes]. destruct (stepf c s o) as [s' r] eqn:Es.
    cbn in Hnr. apply andb_true_iff in Hnr as [Ho Hrest]. apply negb_true_iff in Ho.
    destruct (block_spec c d s s' o r Hab HI HRI HR Es Ho) as [Hk Hfull].
    assert (HI' : Inv s'). { pose proof (inv_step c s o Hab HI) as H. now rewrite Es in H. }
    assert (HRI' : RInv c s').
    { pose proof (rinv_step vdef score_fn populate hook_end hook_end_abort hook_reload reissue c s o Hab HI HRI) as H. now rewrite Es in H. }
    rewrite fold_prefix_app. destruct (k <=? length (writes_of s o s' r)); [apply Hk|].
    destruct r; try (apply IH; [exact Hrest|exact HI'|exact HRI'|apply Hfull; discriminate]).
    rewrite firstn_nil. cbn [fold_left]. specialize (Hk (length (writes_of s o s' RAbort))). now rewrite firstn_all in Hk.
Qed.

(* ---- generations: a search, a crash anywhere, a restart, a crash anywhere, ... ---------------------------------- *)
Definition fresh_dir (d : dstate) : Prop := ds_tuner d = false /\ ds_trials d = [].

Lemma recover_fresh (d : dstate) : fresh_dir d -> recoverf d = None.
Proof. intros [H _]. unfold recover. now rewrite H. Qed.

(* a search that starts without a tuner file (nothing to reload): BaseTuner.search saves oracle.json and the tuner file,
   then runs the loop *)
Theorem first_run_prefix c (a0 : A) ops (d0 : dstate) k : abort_early c = false -> no_reload ops = true -> fresh_dir d0 ->
  let d := foldw (firstn k ([WOracle (to_json (init a0 : ost)); WTuner] ++ all_writesf c (init a0) ops)) d0 in
  fresh_dir d \/ DirOK (max_retries c) d.
Proof.
  intros Hab Hnr [Hf1 Hf2] d. subst d. destruct k as [|[|k]].
  - left. cbn. split; assumption.
  - left. cbn. split; assumption.
  - right. cbn [app firstn fold_left]. apply all_prefix_dirok; auto; [apply (inv_init vdef score_fn populate hook_end hook_end_abort hook_reload reissue)| |].
    { constructor; intros [|x] t H; discriminate. }
    split; [reflexivity|]. split; [eexists; split; [reflexivity|repeat split]|]. reflexivity.
Qed.

(* a search that reloaded state t from directory d0 *)
Theorem resumed_run_prefix c (d0 : dstate) (t : ost) ops k : abort_early c = false -> no_reload ops = true ->
  DirOK (max_retries c) d0 -> recoverf d0 = Some t ->
  DirOK (max_retries c) (foldw (firstn k ([WOracle (to_json t); WTuner] ++ all_writesf c t ops)) d0).
Proof.
  intros Hab Hnr HD Hr. destruct (recover_inv c d0 HD) as (t' & Hr' & HI & HRI & Hog). rewrite Hr in Hr'. inversion Hr'; subst t'.
  destruct k as [|k]; [exact HD|].
  pose proof HD as (Ht & j & Ho & Hlen & HJ).
  assert (Hrep : forall tun, tun = true -> Rep {| ds_trials := ds_trials d0; ds_oracle := Some (to_json t); ds_tuner := tun |} t).
  { intros tun ->. split; [reflexivity|]. split; [eexists; split; [reflexivity|repeat split]|].
    unfold recover in Hr. rewrite Ht, Ho in Hr. cbn [negb] in Hr. inversion Hr as [Et]. cbn [trials disk ds_trials].
    rewrite mapi_length, firstn_length, Nat.min_l by exact Hlen. reflexivity. }
  destruct k as [|k].
  - cbn. apply (rep_dirok c _ t HI HRI). now apply Hrep.
  - cbn [app firstn fold_left]. apply all_prefix_dirok; auto. cbn. now apply Hrep.
Qed.

Inductive reachable_dir (c : cfg) (a0 : A) : dstate -> Prop :=
| RD_empty : reachable_dir c a0 empty_dir
| RD_fresh d ops k : reachable_dir c a0 d -> recoverf d = None -> no_reload ops = true ->
    reachable_dir c a0 (foldw (firstn k ([WOracle (to_json (init a0 : ost)); WTuner] ++ all_writesf c (init a0) ops)) d)
| RD_resume d t ops k : reachable_dir c a0 d -> recoverf d = Some t -> no_reload ops = true ->
    reachable_dir c a0 (foldw (firstn k ([WOracle (to_json t); WTuner] ++ all_writesf c t ops)) d).

(* ANY NUMBER OF CRASHES, EACH AT ANY POINT *)
Theorem reachable_dir_ok c a0 (d : dstate) : abort_early c = false -> reachable_dir c a0 d -> fresh_dir d \/ DirOK (max_retries c) d.
Proof.
  intros Hab H. induction H as [|d ops k H IH Hr Hnr|d t ops k H IH Hr Hnr].
  - left. split; reflexivity.
  - destruct IH as [IH|IH]; [now apply first_run_prefix|].
    destruct (recover_inv c d IH) as (t & Hr' & _). congruence.
  - destruct IH as [IH|IH]; [rewrite (recover_fresh d IH) in Hr; discriminate|].
    right. now apply resumed_run_prefix.
Qed.

Theorem crash_any_point c a0 (d : dstate) : abort_early c = false -> reachable_dir c a0 d ->
  match recoverf d with
  | None => fresh_dir d                          (* no tuner file yet: the restart begins a new search *)
  | Some t => Inv t /\ RInv c t /\ ongoing t = []     (* consistent, nothing left RUNNING: every trial has ended or is queued *)
  end.
Proof.
  intros Hab H. destruct (reachable_dir_ok c a0 d Hab H) as [Hf|Hd].
  - now rewrite (recover_fresh d Hf).
  - destruct (recover_inv c d Hd) as (t & Hr & HI & HRI & Ho). rewrite Hr. auto.
Qed.

(* the first search, crashed after k writes (Crash.crash_at) *)
Corollary crash_at_ok c a0 ops k : abort_early c = false -> no_reload ops = true ->
  match crash_at vdef score_fn populate hook_end hook_end_abort hook_reload reissue c a0 ops k with
  | None => k < 2
  | Some t => 2 <= k /\ Inv t /\ RInv c t /\ ongoing t = []
  end.
Proof.
  intros Hab Hnr. unfold crash_at, crash_image, search_writes.
  destruct k as [|[|k]]; [cbn; lia|cbn; lia|].
  assert (HD : DirOK (max_retries c) (foldw (firstn (S (S k)) ([WOracle (to_json (init a0 : ost)); WTuner] ++ all_writesf c (init a0) ops)) empty_dir)).
  { destruct (first_run_prefix c a0 ops empty_dir (S (S k)) Hab Hnr) as [[H _]|H]; [split; reflexivity| |exact H].
    cbn [app firstn fold_left] in H. exfalso. revert H. generalize (firstn k (all_writesf c (init a0) ops)).
    assert (Hg : forall (l : list (@write A V Sc)) (d : dstate), ds_tuner d = true -> ds_tuner (foldw l d) = true).
    { induction l as [|w l IHl]; intros d Hd; [exact Hd|]. cbn [fold_left]. apply IHl. destruct w; cbn; auto. }
    intros l H. rewrite Hg in H; [discriminate|reflexivity]. }
  destruct (recover_inv c _ HD) as (t & Hr & HI & HRI & Ho). rewrite Hr. split; [lia|]. split; [assumption|]. split; assumption.
Qed.

(* ---- the budget survives: no oracle.json ever lists more than max_trials started trials -------------------------- *)
Definition DirBud (n : nat) (d : dstate) : Prop := forall j, ds_oracle d = Some j -> length (j_start j) <= n.

Lemma writes_of_start (s s' : ost) o r j : In (WOracle j) (writes_of s o s' r) -> j_start j = start_order s'.
Proof.
  unfold writes_of. destruct o as [tu|id f|id es f|]; destruct r as [id' st v| | |]; try (intros []).
  - destruct st; try (intros []). destruct (_ <? _).
    + destruct (nth_error (disk s') id'); [|intros []]. intros [H|[H|[]]]; [discriminate|]. now inversion H.
    + destruct (_ =? _); [intros []|]. intros [H|[]]. now inversion H.
  - destruct (nth_error (disk s') id); [|intros []]. intros [H|[]]. discriminate.
  - destruct (nth_error (disk s') id); [|intros []]. intros [H|[H|[H|[H|[]]]]]; try discriminate; now inversion H.
  - destruct (nth_error (disk s') id); [|intros []]. intros [H|[H|[]]]; try discriminate; now inversion H.
Qed.

Lemma all_writes_bud c n : abort_early c = false -> max_trials c = Some n -> forall ops (s : ost), Inv s -> length (trials s) <= n ->
  forall j, In (WOracle j) (all_writesf c s ops) -> length (j_start j) <= n.
Proof.
  intros Hab Hn. induction ops as [|o rest IH]; intros s HI Hle j Hin; [destruct Hin|].
  cbn [all_writes] in Hin. destruct (stepf c s o) as [s' r] eqn:Es.
  assert (HI' : Inv s'). { pose proof (inv_step c s o Hab HI) as H. now rewrite Es in H. }
  assert (Hle' : length (trials s') <= n).
  { pose proof (C02_budget_step vdef score_fn populate hook_end hook_end_abort hook_reload reissue c n s o Hn Hle) as H. now rewrite Es in H. }
  apply in_app_or in Hin as [Hin|Hin].
  - rewrite (writes_of_start _ _ _ _ _ Hin), (I_start _ HI'), seq_length. exact Hle'.
  - destruct r; try (eapply IH; eauto). destruct Hin.
Qed.

Lemma fold_bud n (ws : list (@write A V Sc)) : forall d : dstate, DirBud n d -> (forall j, In (WOracle j) ws -> length (j_start j) <= n) ->
  DirBud n (foldw ws d).
Proof.
  induction ws as [|w ws IH]; intros d Hd Hw; [exact Hd|]. cbn [fold_left]. apply IH.
  - destruct w as [id dt|j'|]; cbn; try exact Hd. intros j Hj. inversion Hj; subst. apply Hw. now left.
  - intros j Hj. apply Hw. now right.
Qed.
Lemma in_firstn {X} (x : X) k l : In x (firstn k l) -> In x l.
Proof. revert l. induction k as [|k IH]; intros [|y l] H; simpl in *; try tauto. destruct H; auto. Qed.

Theorem reachable_dir_budget c a0 n (d : dstate) : abort_early c = false -> max_trials c = Some n ->
  reachable_dir c a0 d -> DirBud n d.
Proof.
  intros Hab Hn H. induction H as [|d ops k H IH Hr Hnr|d t ops k H IH Hr Hnr].
  - intros j Hj. discriminate.
  - apply fold_bud; [exact IH|]. intros j Hj. apply in_firstn in Hj. destruct Hj as [Hj|[Hj|Hj]]; try discriminate.
    + inversion Hj; subst. cbn. lia.
    + eapply (all_writes_bud c n Hab Hn ops (init a0)); eauto; [apply (inv_init vdef score_fn populate hook_end hook_end_abort hook_reload reissue)|cbn; lia].
  - assert (Ht : Inv t /\ length (trials t) <= n).
    { destruct (reachable_dir_ok c a0 d Hab H) as [Hf|Hd]; [rewrite (recover_fresh d Hf) in Hr; discriminate|].
      destruct (recover_inv c d Hd) as (t' & Hr' & HI & _). rewrite Hr in Hr'. inversion Hr'; subst t'. split; [exact HI|].
      destruct Hd as (Htu & j & Ho & Hlen & HJ). unfold recover in Hr. rewrite Htu, Ho in Hr. cbn [negb] in Hr. inversion Hr. cbn [trials].
      rewrite mapi_length, firstn_length, Nat.min_l by exact Hlen. now apply IH. }
    destruct Ht as [HI Hle].
    apply fold_bud; [exact IH|]. intros j Hj. apply in_firstn in Hj. destruct Hj as [Hj|[Hj|Hj]]; try discriminate.
    + inversion Hj; subst. cbn. rewrite (I_start _ HI), seq_length. exact Hle.
    + eapply (all_writes_bud c n Hab Hn ops t); eauto.
Qed.

(* the state rebuilt after any number of crashes holds at most max_trials trials *)
Corollary crash_budget c a0 n (d : dstate) (t : ost) : abort_early c = false -> max_trials c = Some n ->
  reachable_dir c a0 d -> recoverf d = Some t -> length (trials t) <= n.
Proof.
  intros Hab Hn H Hr. pose proof (reachable_dir_budget c a0 n d Hab Hn H) as Hb.
  unfold recover in Hr. destruct (negb (ds_tuner d)); [discriminate|]. destruct (ds_oracle d) as [j|] eqn:Ho; [|discriminate].
  inversion Hr. cbn [trials]. rewrite mapi_length, firstn_length. specialize (Hb j Ho). lia.
Qed.
End CrashAll.
