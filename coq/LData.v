(* Generic core fact: how one operation can change the payload of an existing trial. *)
From Coq Require Import List ZArith Bool Lia PeanoNat.
Import ListNotations.
From KT Require Import Lifecycle LInv.

Section Data.
Context {A V Sc : Type}.
Variable vdef : V.
Notation trial := (trial V Sc).
Variable score_fn : V -> scored Sc.
Variable populate : A -> list trial -> bool -> tid -> A * status * V.
Variable hook_end hook_end_abort : A -> tid -> V -> A.
Variable hook_reload : A -> A.
Variable reissue : V -> V.
Notation ost := (@ostate A V Sc).
Notation stepf := (step vdef score_fn populate hook_end hook_end_abort hook_reload reissue).

(* an existing trial keeps its index; its payload is untouched, or transformed by the f of an Update/End addressed to it,
   or re-issued (create from the retry queue) *)
Theorem step_data c (s : ost) o j t :
  nth_error (trials s) j = Some t -> o <> Reload ->
  exists t', nth_error (trials (fst (stepf c s o))) j = Some t' /\
    (t_data t' = t_data t \/
     (exists f, (o = Update j f \/ exists es, o = End j es f) /\ t_data t' = f (t_data t)) \/
     t_data t' = reissue (t_data t)).
Proof.
  intros Ht Hnr. destruct o as [tu|id f|id es f|]; [| | |congruence]; cbn [step].
  - unfold do_create. destruct (alookup tu (ongoing s)); [destruct (trial_view vdef (trials s) t0); cbn; eauto|].
    destruct (rev (retryq s)) as [|idr rq'].
    + match goal with |- context [match ?X with (_, _) => _ end] => destruct X as [[a' st] v] end.
      destruct st; cbn [fst trials]; eauto.
      exists t. split; [|now left]. rewrite nth_error_app1; [exact Ht|]. apply nth_error_Some. congruence.
    + cbn [fst trials]. destruct (Nat.eq_dec idr j) as [->|Hne].
      * rewrite nth_upd_same, Ht. cbn. eexists. split; [reflexivity|]. right. right. reflexivity.
      * rewrite nth_upd_other by exact Hne. eauto.
  - unfold do_update. destruct (nth_error (trials s) id) as [t0|] eqn:Et0; cbn [fst trials]; [|eauto].
    destruct (Nat.eq_dec id j) as [->|Hne].
    + rewrite nth_upd_same, Ht. cbn. eexists. split; [reflexivity|]. right. left. exists f. split; [now left|].
      rewrite Ht in Et0. inversion Et0; subst. reflexivity.
    + rewrite nth_upd_other by exact Hne. eauto.
  - unfold do_end. destruct (negb (existsb (fun kv => snd kv =? id) (ongoing s))); [cbn; eauto|].
    destruct (nth_error (trials s) id) as [t0|] eqn:Et0; [|cbn; eauto].
    assert (Hgen : forall t', t_data t' = f (t_data t0) ->
              exists t'', nth_error (upd id (fun _ => t') (trials s)) j = Some t'' /\
                (t_data t'' = t_data t \/ (exists f0, (End id es f = Update j f0 \/ exists es0, End id es f = End j es0 f0) /\ t_data t'' = f0 (t_data t)) \/
                 t_data t'' = reissue (t_data t))).
    { intros t' Hd. destruct (Nat.eq_dec id j) as [->|Hne].
      - rewrite nth_upd_same, Ht. cbn. eexists. split; [reflexivity|]. right. left. exists f. split; [right; eexists; reflexivity|].
        rewrite Ht in Et0. inversion Et0; subst. exact Hd.
      - rewrite nth_upd_other by exact Hne. eauto. }
    repeat match goal with
    | |- context [match ?X with ECompleted => _ | EInvalid => _ | EFailed => _ end] => destruct X
    | |- context [match score_fn ?x with SNaN => _ | SVal _ => _ end] => destruct (score_fn x)
    | |- context [Nat.leb ?a ?b] => destruct (Nat.leb a b)
    | |- context [if streak ?a ?b ?d ?e then _ else _] => destruct (streak a b d e)
    | |- context [if abort_early ?cc then _ else _] => destruct (abort_early cc)
    end; cbn [fst trials]; apply Hgen; reflexivity.
Qed.

Lemma step_length c (s : ost) o : o <> Reload -> length (trials s) <= length (trials (fst (stepf c s o))).
Proof.
  intros Hnr. destruct (Nat.le_gt_cases (length (trials s)) (length (trials (fst (stepf c s o))))) as [H|H]; [exact H|exfalso].
  destruct (trials s) as [|t r] eqn:E; [cbn in H; lia|].
  assert (Hl : exists t0, nth_error (trials s) (length (trials s) - 1) = Some t0).
  { destruct (nth_error (trials s) (length (trials s) - 1)) eqn:En; [eauto|]. apply nth_error_None in En. rewrite E in *. cbn in *. lia. }
  destruct Hl as (t0 & Ht0). destruct (step_data c s o _ t0 Ht0 Hnr) as (t' & Ht' & _).
  assert (length (trials s) - 1 < length (trials (fst (stepf c s o)))) by (apply nth_error_Some; congruence).
  rewrite E in *. cbn in *. lia.
Qed.

(* the trial list only grows, by at most one trial per operation (a Create that starts a new trial) *)
Lemma step_grow c (s : ost) o : o <> Reload ->
  length (trials (fst (stepf c s o))) = length (trials s) \/ exists t, trials (fst (stepf c s o)) = trials s ++ [t].
Proof.
  intros Hnr. destruct o as [tu|id f|id es f|]; [| | |congruence]; cbn [step].
  - unfold do_create. destruct (alookup tu (ongoing s)); [destruct (trial_view vdef (trials s) t); cbn; auto|].
    destruct (rev (retryq s)) as [|idr rq']; [|cbn; left; apply length_upd].
    match goal with |- context [match ?X with (_, _) => _ end] => destruct X as [[a' st] v] end.
    destruct st; cbn [fst trials]; eauto.
  - unfold do_update. destruct (nth_error (trials s) id); cbn; [left; apply length_upd|auto].
  - unfold do_end. destruct (negb (existsb (fun kv => snd kv =? id) (ongoing s))); [cbn; auto|].
    destruct (nth_error (trials s) id) as [t0|]; [|cbn; auto].
    repeat match goal with
    | |- context [match ?X with ECompleted => _ | EInvalid => _ | EFailed => _ end] => destruct X
    | |- context [match score_fn ?x with SNaN => _ | SVal _ => _ end] => destruct (score_fn x)
    | |- context [Nat.leb ?a ?b] => destruct (Nat.leb a b)
    | |- context [if streak ?a ?b ?d ?e then _ else _] => destruct (streak a b d e)
    | |- context [if abort_early ?cc then _ else _] => destruct (abort_early cc)
    end; cbn [fst trials]; left; apply length_upd.
Qed.
End Data.
