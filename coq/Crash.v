(* C08: write-level view of the persistence protocol and of what a restarted process rebuilds.
   Files: one trial file per trial (trial.json), oracle.json, the tuner file. Every save_json is one atomic write.
   Protocol of the current source:
     search start      : oracle.json, tuner file
     create (new trial): trial file, oracle.json
     create (retry)    : oracle.json
     update_trial      : trial file
     end_trial         : trial file, oracle.json (ended trial still listed as ongoing), then - unless end_trial raised -
                         BaseTuner.on_trial_end saves again: oracle.json, tuner file
   Restart (BaseTuner.__init__, overwrite=False): reload iff the tuner file exists. Oracle.reload reads every trial file,
   then oracle.json; trial files whose id is not in start_order are leftovers of a create_trial that never completed and are
   ignored; ongoing trials are queued for retry unless their file says they ended or they are queued already. *)
From Coq Require Import List ZArith Bool Lia PeanoNat.
Import ListNotations.
From KT Require Import Lifecycle.

Section Crash.
Context {A V Sc : Type}.
Variable vdef : V.
Notation trial := (trial V Sc).
Notation dtrial := (dtrial V Sc).
Variable score_fn : V -> scored Sc.
Variable populate : A -> list trial -> bool -> tid -> A * status * V.
Variable hook_end hook_end_abort : A -> tid -> V -> A.
Variable hook_reload : A -> A.
Variable reissue : V -> V.
Notation ost := (@ostate A V Sc).

(* oracle.json *)
Record ojson := { j_ongoing : list (tuner * tid); j_start : list tid; j_end : list tid; j_retryq : list tid;
                  j_runs : list nat; j_algo : A }.
Definition to_json (s : ost) : ojson :=
  {| j_ongoing := ongoing s; j_start := start_order s; j_end := end_order s; j_retryq := retryq s;
     j_runs := map (@t_runs V Sc) (trials s); j_algo := algo s |}.

Record dstate := { ds_trials : list dtrial; ds_oracle : option ojson; ds_tuner : bool }.
Definition empty_dir : dstate := {| ds_trials := []; ds_oracle := None; ds_tuner := false |}.

Inductive write := WTrial (id : tid) (d : dtrial) | WOracle (j : ojson) | WTuner.

Fixpoint set_nth {X} (n : nat) (x : X) (l : list X) : list X :=
  match l, n with
  | [], O => [x]
  | [], S _ => []          (* files are created in id order; never happens *)
  | _ :: r, O => x :: r
  | y :: r, S n => y :: set_nth n x r
  end.
Definition apply_write (d : dstate) (w : write) : dstate :=
  match w with
  | WTrial id t => {| ds_trials := set_nth id t (ds_trials d); ds_oracle := ds_oracle d; ds_tuner := ds_tuner d |}
  | WOracle j => {| ds_trials := ds_trials d; ds_oracle := Some j; ds_tuner := ds_tuner d |}
  | WTuner => {| ds_trials := ds_trials d; ds_oracle := ds_oracle d; ds_tuner := true |}
  end.

Definition with_ongoing (s : ost) (og : list (tuner * tid)) : ost :=
  {| trials := trials s; ongoing := og; start_order := start_order s; end_order := end_order s;
     retryq := retryq s; tuner_ids := tuner_ids s; algo := algo s; disk := disk s |}.

(* the writes one oracle call (plus the tuner's own save after a normally returning end_trial) performs, in order *)
Definition writes_of (s : ost) (o : @op V) (s' : ost) (r : @resp V) : list write :=
  match o, r with
  | Create _, RTrial id RUNNING _ =>
      if Nat.ltb (length (trials s)) (length (trials s'))
      then match nth_error (disk s') id with Some d => [WTrial id d; WOracle (to_json s')] | None => [] end
      else if Nat.eqb (length (ongoing s)) (length (ongoing s')) then []      (* the tuner already held it *)
      else [WOracle (to_json s')]                                             (* re-issued from the retry queue *)
  | Update id _, RNone => match nth_error (disk s') id with Some d => [WTrial id d] | None => [] end
  | End id _ _, RNone =>
      match nth_error (disk s') id with
      | Some d => [WTrial id d; WOracle (to_json (with_ongoing s' (ongoing s))); WOracle (to_json s'); WTuner]
      | None => []
      end
  | End id _ _, RAbort =>
      match nth_error (disk s') id with
      | Some d => [WTrial id d; WOracle (to_json (with_ongoing s' (ongoing s)))]
      | None => []
      end
  | _, _ => []
  end.

Fixpoint all_writes (c : cfg) (s : ost) (ops : list (@op V)) : list write :=
  match ops with
  | [] => []
  | o :: rest =>
      let '(s', r) := step vdef score_fn populate hook_end hook_end_abort hook_reload reissue c s o in
      writes_of s o s' r ++ match r with RAbort => [] | _ => all_writes c s' rest end   (* the exception ends search() *)
  end.
(* BaseTuner.search saves once before the loop *)
Definition search_writes (c : cfg) (a0 : A) (ops : list (@op V)) : list write :=
  [WOracle (to_json (init a0)); WTuner] ++ all_writes c (init a0) ops.

(* ---- what a restarted process rebuilds ---------------------------------------------------------------------- *)
Fixpoint mapi {X Y} (f : nat -> X -> Y) (i : nat) (l : list X) : list Y :=
  match l with [] => [] | x :: r => f i x :: mapi f (S i) r end.
Definition dfinal (d : dtrial) : bool := match d_status d with COMPLETED | FAILED => true | _ => false end.

Definition requeued (files : list dtrial) (j : ojson) : list tid :=
  filter (fun id => match nth_error files id with
                    | Some d => negb (dfinal d) && negb (existsb (Nat.eqb id) (j_retryq j))
                    | None => false end)
         (map snd (j_ongoing j)).

Definition recover (d : dstate) : option ost :=
  if negb (ds_tuner d) then None          (* no reload: a fresh search over the same directory *)
  else match ds_oracle d with
       | None => None
       | Some j =>
           let files := firstn (length (j_start j)) (ds_trials d) in     (* leftovers of an unfinished create are ignored *)
           Some {| trials := mapi (fun i dt => {| t_status := d_status dt; t_score := d_score dt;
                                                   t_runs := nth i (j_runs j) 0; t_data := d_data dt |}) 0 files;
                   ongoing := []; start_order := j_start j; end_order := j_end j;
                   retryq := j_retryq j ++ requeued files j; tuner_ids := [];
                   algo := hook_reload (j_algo j); disk := files |}
       end.

Definition crash_image (c : cfg) (a0 : A) (ops : list (@op V)) (k : nat) : dstate :=
  fold_left apply_write (firstn k (search_writes c a0 ops)) empty_dir.
Definition crash_at (c : cfg) (a0 : A) (ops : list (@op V)) (k : nat) : option ost := recover (crash_image c a0 ops k).
End Crash.
