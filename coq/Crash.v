(* Write-level view of the two-file protocol (trial file, then oracle.json; the tuner saves again after end_trial)
   and what BaseTuner.__init__ / Oracle.reload rebuild from a directory left by a crash between two writes. *)
From Coq Require Import List ZArith Bool Lia PeanoNat.
Import ListNotations.
From KT Require Import Lifecycle.

Section Crash.
Context {A V Sc : Type}.
Variable vdef : V.
Notation trial := (trial V Sc).
Notation dtrial := (dtrial V Sc).
Variable score_fn : V -> scored Sc.
Variable populate : A -> list trial -> bool -> tid -> A * status * V.
Variable hook_end hook_end_abort : A -> tid -> V -> A.
Variable hook_reload : A -> A.
Variable reissue : V -> V.
Notation ost := (@ostate A V Sc).

(* oracle.json *)
Record ojson := { j_ongoing : list (tuner * tid); j_start : list tid; j_end : list tid; j_retryq : list tid;
                  j_runs : list nat; j_algo : A }.
Definition to_json (s : ost) : ojson :=
  {| j_ongoing := ongoing s; j_start := start_order s; j_end := end_order s; j_retryq := retryq s;
     j_runs := map (@t_runs V Sc) (trials s); j_algo := algo s |}.

Record dstate := { ds_trials : list dtrial; ds_oracle : option ojson; ds_tuner : bool }.

Inductive write := WTrial (id : tid) (d : dtrial) | WOracle (j : ojson) | WTuner.

Fixpoint set_nth {X} (n : nat) (x : X) (l : list X) : list X :=
  match l, n with
  | [], O => [x]
  | [], S _ => []          (* files are created in id order; never happens *)
  | _ :: r, O => x :: r
  | y :: r, S n => y :: set_nth n x r
  end.
Definition apply_write (d : dstate) (w : write) : dstate :=
  match w with
  | WTrial id t => {| ds_trials := set_nth id t (ds_trials d); ds_oracle := ds_oracle d; ds_tuner := ds_tuner d |}
  | WOracle j => {| ds_trials := ds_trials d; ds_oracle := Some j; ds_tuner := ds_tuner d |}
  | WTuner => {| ds_trials := ds_trials d; ds_oracle := ds_oracle d; ds_tuner := true |}
  end.

Variable pop_before_save : bool.    (* false: pinned source *)

(* the writes one call performs, in order, given the state before and after it;
   `tuner_save` adds BaseTuner.on_trial_end's own save() after a normally returning end_trial *)
Definition with_ongoing (s : ost) (og : list (tuner * tid)) : ost :=
  {| trials := trials s; ongoing := og; start_order := start_order s; end_order := end_order s;
     retryq := retryq s; tuner_ids := tuner_ids s; algo := algo s; disk := disk s |}.

Definition writes_of (c : cfg) (s : ost) (o : @op V) (s' : ost) (r : @resp V) : list write :=
  match o, r with
  | Create _, RTrial id RUNNING _ =>
      if Nat.ltb (length (trials s)) (length (trials s'))
      then match nth_error (disk s') id with Some d => [WTrial id d; WOracle (to_json s')] | None => [] end
      else if Nat.eqb (length (ongoing s)) (length (ongoing s')) then []      (* the tuner already held it *)
      else [WOracle (to_json s')]                                             (* re-issued from the retry queue *)
  | Update id _, RNone => match nth_error (disk s') id with Some d => [WTrial id d] | None => [] end
  | End id _ _, RNone =>
      match nth_error (disk s') id with
      | Some d => [WTrial id d; WOracle (to_json (if pop_before_save then s' else with_ongoing s' (ongoing s)));
                   WOracle (to_json s'); WTuner]
      | None => []
      end
  | End id _ _, RAbort =>
      if abort_early c then []
      else match nth_error (disk s') id with Some d => [WTrial id d; WOracle (to_json s')] | None => [] end
  | _, _ => []
  end.

Fixpoint all_writes (c : cfg) (s : ost) (ops : list (@op V)) : list write :=
  match ops with
  | [] => []
  | o :: rest =>
      let '(s', r) := step vdef score_fn populate hook_end hook_end_abort hook_reload reissue c s o in
      writes_of c s o s' r ++ all_writes c s' rest
  end.

(* what a restarted process rebuilds (pinned source): reload only if the tuner file exists *)
Fixpoint mapi {X Y} (f : nat -> X -> Y) (i : nat) (l : list X) : list Y :=
  match l with [] => [] | x :: r => f i x :: mapi f (S i) r end.

Definition recover (a0 : A) (d : dstate) : option ost :=
  if negb (ds_tuner d) then None          (* no reload: a fresh search over the same directory *)
  else match ds_oracle d with
       | None => None
       | Some j =>
           Some {| trials := mapi (fun i dt => {| t_status := d_status dt; t_score := d_score dt;
                                                   t_runs := nth i (j_runs j) 0; t_data := d_data dt |}) 0 (ds_trials d);
                   ongoing := []; start_order := j_start j; end_order := j_end j;
                   retryq := j_retryq j ++ map snd (j_ongoing j); tuner_ids := [];
                   algo := hook_reload (j_algo j); disk := ds_trials d |}
       end.

Definition crash_at (c : cfg) (a0 : A) (ops : list (@op V)) (k : nat) : option ost :=
  recover a0 (fold_left apply_write (firstn k (all_writes c (init a0) ops)) {| ds_trials := []; ds_oracle := None; ds_tuner := false |}).
End Crash.
