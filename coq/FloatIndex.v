From Coq Require Import ZArith Reals Lra Lia Psatz.
From Flocq Require Import Core Relative BinarySingleNaN.
Open Scope R_scope.

Definition prec := 53%Z.
Definition emax := 1024%Z.
Notation b64 := (binary_float prec emax).
Global Instance Hprec : FLX.Prec_gt_0 prec. Proof. reflexivity. Qed.
Global Instance Hmax : Prec_lt_emax prec emax. Proof. reflexivity. Qed.
Definition emin := (3 - emax - prec)%Z.
Notation fexp := (FLT_exp emin prec).
Notation rnd := (round radix2 fexp ZnearestE).

Definition of_Z (n : Z) : b64 := binary_normalize prec emax Hprec Hmax mode_NE n 0 false.
Definition fdiv (x y : b64) : b64 := Bdiv mode_NE x y.
Definition ele (n : Z) : b64 := fdiv (of_Z 1) (of_Z n).
Definition quo (p : b64) (n : Z) : b64 := fdiv p (ele n).
Definition idx (p : b64) (n : Z) : Z :=
  let i := Btrunc (quo p n) in if (i =? n)%Z then (n - 1)%Z else i.


Lemma fexp_eq : SpecFloat.fexp prec emax = fexp. Proof. reflexivity. Qed.

Lemma format_Z (n : Z) : (Z.abs n < 2 ^ 53)%Z -> generic_format radix2 fexp (IZR n).
Proof.
  intros Hn. apply generic_format_FLT. exists (Float radix2 n 0).
  - unfold F2R. simpl. lra.
  - exact Hn.
  - unfold emin, emax, prec. simpl. lia.
Qed.

Lemma bpow_emax_big (x : R) : Rabs x <= IZR (2 ^ 53) -> Rabs x < bpow radix2 emax.
Proof.
  intros H. eapply Rle_lt_trans; [exact H|].
  change (IZR (2 ^ 53)) with (bpow radix2 53). apply bpow_lt. unfold emax. lia.
Qed.

Lemma ofZ_exact (n : Z) : (Z.abs n < 2 ^ 53)%Z -> B2R (of_Z n) = IZR n /\ is_finite (of_Z n) = true.
Proof.
  intros Hn. unfold of_Z.
  pose proof (binary_normalize_correct prec emax Hprec Hmax mode_NE n 0 false) as H.
  cbv zeta in H. rewrite fexp_eq in H.
  assert (Hx : F2R (Float radix2 n 0) = IZR n). { unfold F2R. simpl. lra. }
  rewrite Hx in H. simpl round_mode in H.
  rewrite (round_generic radix2 fexp ZnearestE (IZR n)) in H by (apply format_Z; exact Hn).
  rewrite Rlt_bool_true in H.
  - destruct H as (H1 & H2 & _). split; assumption.
  - apply bpow_emax_big. rewrite <- abs_IZR. apply IZR_le. lia.
Qed.

Definition u := bpow radix2 (-53).
Lemma u_pos : 0 < u. Proof. apply bpow_gt_0. Qed.
Lemma u_small : u < 1 / 4.
Proof. unfold u. apply Rlt_le_trans with (bpow radix2 (-3)). apply bpow_lt; lia. simpl. lra. Qed.

Lemma rel_err (x : R) : bpow radix2 (-1022) <= Rabs x -> Rabs (rnd x - x) <= u * Rabs x.
Proof.
  intros Hx.
  pose proof (relative_error_N_FLT radix2 emin prec eq_refl (fun z => negb (Z.even z)) x) as H.
  change (emin + prec - 1)%Z with (-1022)%Z in H. specialize (H Hx).
  change (- prec + 1)%Z with (-52)%Z in H.
  replace (/ 2 * bpow radix2 (-52)) with u in H; [exact H|].
  unfold u. change (-52)%Z with (-53 + 1)%Z. rewrite bpow_plus. simpl. lra.
Qed.

Lemma ele_spec (n : Z) : (1 <= n < 2 ^ 53)%Z ->
  B2R (ele n) = rnd (1 / IZR n) /\ is_finite (ele n) = true.
Proof.
  intros Hn. unfold ele, fdiv.
  destruct (ofZ_exact 1) as [H1 F1]; [simpl; lia|].
  destruct (ofZ_exact n) as [Hn' Fn]; [lia|].
  assert (Hnpos : 1 <= IZR n) by (apply IZR_le; lia).
  pose proof (Bdiv_correct prec emax Hprec Hmax mode_NE (of_Z 1) (of_Z n)) as H.
  rewrite Hn', H1 in H. rewrite fexp_eq in H. simpl round_mode in H.
  assert (Hne : IZR n <> 0) by lra. specialize (H Hne).
  assert (Hle : Rabs (rnd (1 / IZR n)) <= 1).
  { assert (0 <= 1 / IZR n <= 1).
    { unfold Rdiv. rewrite Rmult_1_l. split.
      - left. apply Rinv_0_lt_compat. lra.
      - rewrite <- Rinv_1. apply Rinv_le_contravar; lra. }
    assert (0 <= rnd (1 / IZR n)).
    { rewrite <- (round_0 radix2 fexp ZnearestE). apply round_le; [apply FLT_exp_valid; reflexivity|apply valid_rnd_N|lra]. }
    assert (rnd (1 / IZR n) <= 1).
    { rewrite <- (round_generic radix2 fexp ZnearestE 1) at 2; [|apply (format_Z 1); simpl; lia].
      apply round_le; [apply FLT_exp_valid; reflexivity|apply valid_rnd_N|lra]. }
    rewrite Rabs_pos_eq; lra. }
  rewrite Rlt_bool_true in H.
  - destruct H as (Ha & Hb & _). split; [exact Ha|]. rewrite Hb. exact F1.
  - apply bpow_emax_big. eapply Rle_trans; [exact Hle|]. apply IZR_le. lia.
Qed.

Global Instance valid_fexp : Valid_exp fexp. Proof. apply FLT_exp_valid. reflexivity. Qed.

Lemma lt1_le_pred (x : R) : generic_format radix2 fexp x -> x < 1 -> x <= 1 - u.
Proof.
  intros Fx Hx.
  assert (F1 : generic_format radix2 fexp 1) by (apply (format_Z 1); simpl; lia).
  pose proof (@pred_ge_gt radix2 fexp valid_fexp x (bpow radix2 0) Fx F1 Hx) as H.
  rewrite pred_bpow in H. exact H.
Qed.

Lemma ele_lower (n : Z) : (1 <= n < 2 ^ 53)%Z -> (1 - u) / IZR n <= rnd (1 / IZR n).
Proof.
  intros Hn.
  assert (Hnpos : 1 <= IZR n) by (apply IZR_le; lia).
  assert (Hnub : IZR n <= IZR (2 ^ 53)) by (apply IZR_le; lia).
  set (x := 1 / IZR n).
  assert (Hx : 0 < x). { unfold x, Rdiv. rewrite Rmult_1_l. apply Rinv_0_lt_compat. lra. }
  assert (Hxl : bpow radix2 (-1022) <= Rabs x).
  { rewrite Rabs_pos_eq by lra. apply Rle_trans with (bpow radix2 (-53)).
    - apply bpow_le. lia.
    - unfold x, Rdiv. rewrite Rmult_1_l. change (bpow radix2 (-53)) with (/ IZR (2 ^ 53)).
      apply Rinv_le_contravar; [lra|]. exact Hnub. }
  pose proof (rel_err x Hxl) as H. rewrite (Rabs_pos_eq x) in H by lra.
  apply Rabs_le_inv in H.
  replace ((1 - u) / IZR n) with (x - u * x) by (unfold x; field; lra).
  lra.
Qed.

Theorem idx_range (p : b64) (n : Z) :
  is_finite p = true -> 0 <= B2R p < 1 -> (1 <= n < 2 ^ 53)%Z -> (0 <= idx p n < n)%Z.
Proof.
  intros Fp [Hp0 Hp1] Hn.
  assert (Hnpos : 1 <= IZR n) by (apply IZR_le; lia).
  destruct (ele_spec n Hn) as [He Fe].
  pose proof (ele_lower n Hn) as Hel. rewrite <- He in Hel.
  pose proof u_pos. pose proof u_small.
  set (e := B2R (ele n)) in *.
  assert (Hepos : 0 < e).
  { eapply Rlt_le_trans; [|exact Hel]. apply Rdiv_lt_0_compat; lra. }
  assert (Hne : IZR n * e >= 1 - u).
  { apply Rle_ge. apply Rmult_le_reg_r with (/ IZR n); [apply Rinv_0_lt_compat; lra|].
    replace (IZR n * e * / IZR n) with e by (field; lra). exact Hel. }
  set (P := B2R p) in *.
  assert (HP : P <= 1 - u). { apply lt1_le_pred; [apply generic_format_B2R|exact Hp1]. }
  assert (Hq : 0 <= P / e <= IZR n).
  { split.
    - apply Rmult_le_pos; [exact Hp0|]. left. apply Rinv_0_lt_compat. exact Hepos.
    - apply Rmult_le_reg_r with e; [exact Hepos|].
      replace (P / e * e) with P by (field; lra). lra. }
  assert (Hr : 0 <= rnd (P / e) <= IZR n).
  { split.
    - rewrite <- (round_0 radix2 fexp ZnearestE). apply round_le; [exact valid_fexp|apply valid_rnd_N|lra].
    - rewrite <- (round_generic radix2 fexp ZnearestE (IZR n)); [|apply format_Z; lia].
      apply round_le; [exact valid_fexp|apply valid_rnd_N|lra]. }
  pose proof (Bdiv_correct prec emax Hprec Hmax mode_NE p (ele n)) as HB.
  fold e P in HB. rewrite fexp_eq in HB. simpl round_mode in HB.
  specialize (HB (Rgt_not_eq _ _ Hepos)).
  rewrite Rlt_bool_true in HB.
  2:{ apply bpow_emax_big. rewrite Rabs_pos_eq by lra. eapply Rle_trans; [apply Hr|]. apply IZR_le. lia. }
  destruct HB as (Hd & _).
  assert (Hi : Btrunc (quo p n) = Zfloor (rnd (P / e))).
  { apply eq_IZR. rewrite (Btrunc_correct prec emax Hmax). rewrite round_FIX_IZR.
    unfold quo, fdiv. rewrite Hd. rewrite Ztrunc_floor by lra. reflexivity. }
  assert (Hf : (0 <= Zfloor (rnd (P / e)) <= n)%Z).
  { split.
    - rewrite <- (Zfloor_IZR 0). apply Zfloor_le. lra.
    - rewrite <- (Zfloor_IZR n). apply Zfloor_le. lra. }
  unfold idx. rewrite Hi.
  destruct (Z.eqb_spec (Zfloor (rnd (P / e))) n); lia.
Qed.
Print Assumptions idx_range.

(* ------------------------------------------------------------------ *)
(* round trip: prob_to_index (index_to_prob i n) n = i                 *)
Definition fmul (x y : b64) : b64 := Bmult mode_NE x y.
(* i + 0.5, exactly: (2i+1) * 2^-1 *)
Definition half_up (i : Z) : b64 := binary_normalize prec emax Hprec Hmax mode_NE (2 * i + 1) (-1) false.
Definition index_to_prob (i n : Z) : b64 := fmul (half_up i) (ele n).

Lemma format_half (i : Z) : (0 <= i < 2 ^ 51)%Z -> generic_format radix2 fexp (IZR (2 * i + 1) / 2).
Proof.
  intros Hi. apply generic_format_FLT. exists (Float radix2 (2 * i + 1) (-1)).
  - unfold F2R. cbn [Fnum Fexp]. change (bpow radix2 (-1)) with (/ 2). lra.
  - cbn [Fnum]. change (radix2 ^ prec)%Z with 9007199254740992%Z. change (2 ^ 51)%Z with 2251799813685248%Z in Hi. lia.
  - cbn [Fexp]. unfold emin, emax, prec. lia.
Qed.

Lemma half_up_exact (i : Z) : (0 <= i < 2 ^ 51)%Z -> B2R (half_up i) = IZR i + / 2 /\ is_finite (half_up i) = true.
Proof.
  intros Hi. unfold half_up.
  pose proof (binary_normalize_correct prec emax Hprec Hmax mode_NE (2 * i + 1) (-1) false) as H.
  cbv zeta in H. rewrite fexp_eq in H.
  assert (Hx : F2R (Float radix2 (2 * i + 1) (-1)) = IZR (2 * i + 1) / 2).
  { unfold F2R. cbn [Fnum Fexp]. change (bpow radix2 (-1)) with (/ 2). lra. }
  rewrite Hx in H. simpl round_mode in H.
  rewrite (round_generic radix2 fexp ZnearestE _ (format_half i Hi)) in H.
  assert (Hv : IZR (2 * i + 1) / 2 = IZR i + / 2). { rewrite plus_IZR, mult_IZR. simpl. lra. }
  rewrite Rlt_bool_true in H.
  - destruct H as (H1 & H2 & _). split; [rewrite H1; exact Hv|exact H2].
  - apply bpow_emax_big. rewrite Hv. assert (0 <= IZR i) by (apply IZR_le; lia).
    assert (IZR i <= IZR (2 ^ 51)) by (apply IZR_le; lia).
    rewrite Rabs_pos_eq by lra. apply Rle_trans with (IZR (2 ^ 51) + 1); [lra|].
    rewrite <- (plus_IZR (2 ^ 51) 1). apply IZR_le. lia.
Qed.

Lemma ele_upper (n : Z) : (1 <= n < 2 ^ 53)%Z -> rnd (1 / IZR n) <= (1 + u) / IZR n.
Proof.
  intros Hn.
  assert (Hnpos : 1 <= IZR n) by (apply IZR_le; lia).
  assert (Hnub : IZR n <= IZR (2 ^ 53)) by (apply IZR_le; lia).
  set (x := 1 / IZR n).
  assert (Hx : 0 < x). { unfold x, Rdiv. rewrite Rmult_1_l. apply Rinv_0_lt_compat. lra. }
  assert (Hxl : bpow radix2 (-1022) <= Rabs x).
  { rewrite Rabs_pos_eq by lra. apply Rle_trans with (bpow radix2 (-53)).
    - apply bpow_le. lia.
    - unfold x, Rdiv. rewrite Rmult_1_l. change (bpow radix2 (-53)) with (/ IZR (2 ^ 53)).
      apply Rinv_le_contravar; [lra|]. exact Hnub. }
  pose proof (rel_err x Hxl) as H. rewrite (Rabs_pos_eq x) in H by lra.
  apply Rabs_le_inv in H.
  replace ((1 + u) / IZR n) with (x + u * x) by (unfold x; field; lra).
  lra.
Qed.

Theorem idx_roundtrip (i n : Z) : (0 <= i < n)%Z -> (n < 2 ^ 50)%Z -> idx (index_to_prob i n) n = i.
Proof.
  intros Hi Hn50.
  assert (Hn : (1 <= n < 2 ^ 53)%Z) by lia.
  assert (Hi51 : (0 <= i < 2 ^ 51)%Z) by lia.
  destruct (ele_spec n Hn) as [He Fe].
  pose proof (ele_lower n Hn) as Hel. pose proof (ele_upper n Hn) as Heu. rewrite <- He in Hel, Heu.
  destruct (half_up_exact i Hi51) as [Hx Fx].
  pose proof u_pos as Hu0. pose proof u_small as Hu1.
  assert (Hu : u <= / IZR (2 ^ 53)). { unfold u. change (bpow radix2 (-53)) with (/ IZR (2 ^ 53)). lra. }
  set (e := B2R (ele n)) in *. set (x := B2R (half_up i)) in *.
  assert (Hnpos : 1 <= IZR n) by (apply IZR_le; lia).
  assert (Hn50r : IZR n <= IZR (2 ^ 50)) by (apply IZR_le; lia).
  assert (Hi0 : 0 <= IZR i) by (apply IZR_le; lia).
  assert (Hin : IZR i + 1 <= IZR n). { rewrite <- (plus_IZR i 1). apply IZR_le. lia. }
  assert (Hepos : 0 < e). { eapply Rlt_le_trans; [|exact Hel]. apply Rdiv_lt_0_compat; lra. }
  assert (Hxpos : / 2 <= x) by lra.
  (* e is at least 2^-51 *)
  assert (Helow : / IZR (2 ^ 51) <= e).
  { eapply Rle_trans; [|exact Hel]. unfold Rdiv.
    assert (Hinv : / IZR (2 ^ 50) <= / IZR n) by (apply Rinv_le_contravar; lra).
    assert (Hc : / IZR (2 ^ 51) = / 2 * / IZR (2 ^ 50)) by (simpl; lra).
    assert (0 < / IZR (2 ^ 50)) by (apply Rinv_0_lt_compat; simpl; lra).
    rewrite Hc. nra. }
  (* p = fl(x*e) *)
  pose proof (Bmult_correct prec emax Hprec Hmax mode_NE (half_up i) (ele n)) as HM.
  fold x e in HM. rewrite fexp_eq in HM. simpl round_mode in HM.
  assert (Hxe_pos : 0 < x * e) by (apply Rmult_lt_0_compat; lra).
  assert (Hxe_ub : x * e <= 2).
  { apply Rle_trans with ((IZR n) * ((1 + u) / IZR n)); [|unfold Rdiv; field_simplify; lra].
    apply Rmult_le_compat; lra. }
  assert (Hxe_lb : bpow radix2 (-1022) <= Rabs (x * e)).
  { rewrite Rabs_pos_eq by lra. apply Rle_trans with (bpow radix2 (-52)); [apply bpow_le; lia|].
    change (bpow radix2 (-52)) with (/ IZR (2 ^ 52)).
    assert (Hc : / IZR (2 ^ 52) = / 2 * / IZR (2 ^ 51)) by (simpl; lra). rewrite Hc.
    assert (0 < / IZR (2 ^ 51)) by (apply Rinv_0_lt_compat; simpl; lra). nra. }
  pose proof (rel_err (x * e) Hxe_lb) as Hr1. rewrite (Rabs_pos_eq (x * e)) in Hr1 by lra. apply Rabs_le_inv in Hr1.
  set (p := rnd (x * e)) in *.
  assert (Hp_pos : 0 < p) by nra.
  rewrite Rlt_bool_true in HM.
  2:{ apply bpow_emax_big. fold p. rewrite Rabs_pos_eq by lra. apply Rle_trans with 3; [nra|]. apply IZR_le. lia. }
  destruct HM as (HMv & HMf & _).
  (* q = fl(p/e) *)
  pose proof (Bdiv_correct prec emax Hprec Hmax mode_NE (index_to_prob i n) (ele n)) as HD.
  unfold index_to_prob, fmul in HD. rewrite HMv in HD. fold p e in HD. rewrite fexp_eq in HD. simpl round_mode in HD.
  specialize (HD (Rgt_not_eq _ _ Hepos)).
  assert (Hpe_pos : 0 < p / e) by (apply Rdiv_lt_0_compat; lra).
  (* p/e is within x(1 ± u) *)
  assert (Hpe : x - u * x <= p / e <= x + u * x).
  { split.
    - apply Rmult_le_reg_r with e; [exact Hepos|]. replace (p / e * e) with p by (field; lra). nra.
    - apply Rmult_le_reg_r with e; [exact Hepos|]. replace (p / e * e) with p by (field; lra). nra. }
  assert (Hx_ub : x <= IZR (2 ^ 50)) by lra.
  assert (Hpe_lb : bpow radix2 (-1022) <= Rabs (p / e)).
  { rewrite Rabs_pos_eq by lra. apply Rle_trans with (/ 4); [|nra].
    apply Rle_trans with (bpow radix2 (-2)); [apply bpow_le; lia|]. simpl. lra. }
  pose proof (rel_err (p / e) Hpe_lb) as Hr2. rewrite (Rabs_pos_eq (p / e)) in Hr2 by lra. apply Rabs_le_inv in Hr2.
  set (q := rnd (p / e)) in *.
  (* x * 3u < 1/2 because x <= 2^50 and u = 2^-53 *)
  assert (Hsmall : x * (3 * u) <= 3 / 8).
  { apply Rle_trans with (IZR (2 ^ 50) * (3 * / IZR (2 ^ 53))).
    - apply Rmult_le_compat; lra.
    - simpl. lra. }
  assert (Hq : IZR i <= q < IZR i + 1).
  { assert (u * u <= u) by nra. split; nra. }
  rewrite Rlt_bool_true in HD.
  2:{ apply bpow_emax_big. fold q. rewrite Rabs_pos_eq by lra. apply Rle_trans with (IZR (2 ^ 50) + 1); [lra|].
      rewrite <- (plus_IZR (2 ^ 50) 1). apply IZR_le. lia. }
  destruct HD as (HDv & _).
  assert (Hbt : Btrunc (quo (index_to_prob i n) n) = i).
  { apply eq_IZR. rewrite (Btrunc_correct prec emax Hmax). rewrite round_FIX_IZR.
    unfold quo, fdiv, index_to_prob, fmul. rewrite HDv. fold q.
    rewrite Ztrunc_floor by lra. f_equal. apply Zfloor_imp. rewrite plus_IZR. simpl. exact Hq. }
  unfold idx. rewrite Hbt. destruct (Z.eqb_spec i n); lia.
Qed.
Print Assumptions idx_roundtrip.
