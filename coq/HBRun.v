(* C10 at the level of whole runs: the bracket invariant holds in every reachable state of the lifecycle core
   instantiated with Hyperband's populate_space (repaired abort order), for any tuners, outcomes, retries, reloads. *)
From Coq Require Import List ZArith Bool Lia PeanoNat.
Import ListNotations.
From KT Require Import Lifecycle LInv HB HBInv.

Section Run.
Context {V : Type}.
Notation trial := (trial V Z).
Variable h : hcfg.
Hypothesis Hsize0 : forall b, 1 <= sizes h b 0.
Variable vdef : V.
Variable mk : hinfo -> V.
Variable score_fn : V -> scored Z.
Variable reissue : V -> V.
Definition hk (a : hstate) (id : tid) (v : V) : hstate := a.
Notation ost := (@ostate hstate V Z).
Notation stepf := (step vdef score_fn (hpopulate h mk vdef) hk hk (fun a => a) reissue).

(* a COMPLETED trial never changes status or score again *)
Lemma step_tle c s o : abort_early c = false -> Inv s -> tle (trials s) (trials (fst (stepf c s o))).
Proof.
  intros Hab HI.
  assert (Hcf : forall id z, cview (trials s) id = Some z -> finalat s id).
  { intros id z Hc. unfold cview in Hc. destruct (nth_error (trials s) id) as [t|] eqn:Et; [|discriminate].
    destruct (t_status t) eqn:Es; try discriminate. exists COMPLETED. split; [unfold stat; rewrite Et; simpl; now rewrite Es|now left]. }
  assert (Hcv : forall id z, cview (trials s) id = Some z -> ~ In id (onids s) /\ ~ In id (retryq s)).
  { intros id z Hc. destruct (Hcf id z Hc) as (st & Hs & Hf). split; intros H.
    - pose proof (I_on_run _ HI _ H) as Hr. rewrite Hs in Hr. inversion Hr; subst. destruct Hf; discriminate.
    - destruct (I_rq_wait _ HI _ H) as (st' & Hs' & Hw). rewrite Hs in Hs'. inversion Hs'; subst. eapply waiting_not_final; eauto. }
  destruct o as [tu|id f|id es f|]; simpl.
  - (* create *)
    unfold do_create. destruct (alookup tu (ongoing s)); [destruct (trial_view vdef (trials s) t); apply tle_refl|].
    destruct (rev (retryq s)) as [|idr rq'] eqn:Erq.
    + match goal with |- context [match ?X with (_, _) => _ end] => destruct X as [[a' st] v] end.
      destruct st; simpl; try apply tle_refl.
      split; [rewrite app_length; lia|]. intros id z Hc. unfold cview in *.
      destruct (nth_error (trials s) id) eqn:E; [|discriminate]. rewrite nth_error_app1; [now rewrite E|].
      apply nth_error_Some. congruence.
    + simpl. split; [now rewrite length_upd|]. intros id z Hc.
      assert (id <> idr).
      { intros ->. pose proof (Hcv _ _ Hc) as [_ He]. pose proof (rev_cons_inv _ _ _ Erq) as Hrq.
        apply He. rewrite Hrq. apply in_or_app. right. now left. }
      unfold cview in *. rewrite nth_upd_other; [exact Hc|congruence].
  - (* update: status and score untouched *)
    unfold do_update. destruct (nth_error (trials s) id) as [t|] eqn:Et; simpl; [|apply tle_refl].
    split; [now rewrite length_upd|]. intros j z Hc. unfold cview in *.
    destruct (Nat.eq_dec id j) as [->|Hne]; [|rewrite nth_upd_other; [exact Hc|exact Hne]].
    rewrite nth_upd_same, Et. simpl. rewrite Et in Hc. exact Hc.
  - (* end: only an ongoing trial, which is not COMPLETED *)
    unfold do_end. destruct (existsb (fun kv => snd kv =? id) (ongoing s)) eqn:Eex; simpl; [|apply tle_refl].
    apply existsb_snd in Eex.
    destruct (nth_error (trials s) id) as [t0|] eqn:Et0; [|apply tle_refl].
    assert (Hgen : forall t', tle (trials s) (upd id (fun _ => t') (trials s))).
    { intros t'. split; [now rewrite length_upd|]. intros j z Hc.
      assert (j <> id). { intros ->. destruct (Hcv _ _ Hc) as [Hne _]. now apply Hne. }
      unfold cview in *. rewrite nth_upd_other; [exact Hc|congruence]. }
    rewrite Hab.
    repeat match goal with
    | |- context [match ?X with ECompleted => _ | EInvalid => _ | EFailed => _ end] => destruct X
    | |- context [match score_fn ?x with SNaN => _ | SVal _ => _ end] => destruct (score_fn x)
    | |- context [Nat.leb ?a ?b] => destruct (Nat.leb a b)
    | |- context [if streak ?a ?b ?d ?e then _ else _] => destruct (streak a b d e)
    end; simpl; apply Hgen.
  - (* reload: what was COMPLETED in memory is identical on disk *)
    split; [rewrite from_disk_length; [lia|apply (I_disk_len _ HI)]|].
    intros id z Hc. pose proof (I_d_fin _ HI _ (Hcf _ _ Hc)) as Hd.
    unfold cview in *. destruct (nth_error (trials s) id) as [t|] eqn:Et; [|discriminate]. simpl in Hd.
    rewrite (from_disk_nth _ _ _ _ _ Et (eq_sym Hd)). simpl. exact Hc.
Qed.

Definition HI (s : ost) : Prop := HInv h (trials s) (algo s).

Lemma hi_step c s o : abort_early c = false -> Inv s -> HI s -> HI (fst (stepf c s o)).
Proof.
  intros Hab HInvs HH. pose proof (step_tle c s o Hab HInvs) as Hle.
  assert (Hmono : algo (fst (stepf c s o)) = algo s -> HI (fst (stepf c s o))).
  { intros Ha. unfold HI. rewrite Ha. eapply Forall_impl; [|exact HH]. intros br. now apply BOK_mono. }
  destruct o as [tu|id f|id es f|]; simpl in *.
  - unfold do_create in *. destruct (alookup tu (ongoing s)) as [id0|] eqn:Elk.
    { destruct (trial_view vdef (trials s) id0). exact HH. }
    destruct (rev (retryq s)) as [|idr rq'] eqn:Erq; [|apply Hmono; reflexivity].
    pose proof (hpopulate_inv' h Hsize0 mk vdef (algo s) (trials s) (negb (length (ongoing s) =? 0)) HH) as Hp.
    assert (Hgoal : forall a' st v, (match st with RUNNING => forall t : trial, t_status t = RUNNING -> HInv h (trials s ++ [t]) a' | _ => HInv h (trials s) a' end) ->
       HI (fst (match st with
        | RUNNING =>
            ({| trials := trials s ++ [{| t_status := RUNNING; t_score := None; t_runs := 0; t_data := v |}];
                ongoing := ongoing s ++ [(tu, length (trials s))];
                start_order := start_order s ++ [length (trials s)]; end_order := end_order s;
                retryq := retryq s; tuner_ids := add_set tu (tuner_ids s); algo := a';
                disk := disk s ++ [to_disk {| t_status := RUNNING; t_score := None; t_runs := 0; t_data := v |}] |},
             RTrial (length (trials s)) RUNNING v)
        | STOPPED =>
            ({| trials := trials s; ongoing := ongoing s; start_order := start_order s;
                end_order := end_order s; retryq := retryq s; tuner_ids := del_set tu (add_set tu (tuner_ids s)); algo := a';
                disk := disk s |}, RTrial (length (trials s)) STOPPED vdef)
        | st0 =>
            ({| trials := trials s; ongoing := ongoing s; start_order := start_order s;
                end_order := end_order s; retryq := retryq s; tuner_ids := add_set tu (tuner_ids s); algo := a';
                disk := disk s |}, RTrial (length (trials s)) st0 vdef)
        end))).
    { intros a' st v Hm. destruct st; simpl; unfold HI; simpl; try exact Hm. apply Hm. reflexivity. }
    destruct (max_trials c) as [n|].
    + destruct (Nat.leb n (length (trials s))); [exact HH|].
      destruct (hpopulate h mk vdef (algo s) (trials s) (negb (length (ongoing s) =? 0)) (length (trials s))) as [[a' st] v].
      apply Hgoal. exact Hp.
    + destruct (hpopulate h mk vdef (algo s) (trials s) (negb (length (ongoing s) =? 0)) (length (trials s))) as [[a' st] v].
      apply Hgoal. exact Hp.
  - apply Hmono. unfold do_update. destruct (nth_error (trials s) id); reflexivity.
  - apply Hmono. unfold do_end. destruct (negb (existsb (fun kv => snd kv =? id) (ongoing s))); [reflexivity|].
    destruct (nth_error (trials s) id); [|reflexivity].
    repeat match goal with
    | |- context [match ?X with ECompleted => _ | EInvalid => _ | EFailed => _ end] => destruct X
    | |- context [match score_fn ?x with SNaN => _ | SVal _ => _ end] => destruct (score_fn x)
    | |- context [Nat.leb ?a ?b] => destruct (Nat.leb a b)
    | |- context [if streak ?a ?b ?d ?e then _ else _] => destruct (streak a b d e)
    | |- context [if abort_early ?cc then _ else _] => destruct (abort_early cc)
    end; reflexivity.
  - apply Hmono. reflexivity.
Qed.

Theorem C10_run c ops : abort_early c = false ->
  Forall (fun rs => HI (snd rs)) (run vdef score_fn (hpopulate h mk vdef) hk hk (fun a => a) reissue c (init (hinit h)) ops).
Proof.
  intros Hab.
  assert (H : forall s, Inv s -> HI s -> Forall (fun rs => HI (snd rs)) (run vdef score_fn (hpopulate h mk vdef) hk hk (fun a => a) reissue c s ops)).
  { induction ops as [|o r IH]; intros s HIv HH; simpl; [constructor|].
    destruct (stepf c s o) as [s' rs] eqn:Es.
    assert (HH' : HI s'). { pose proof (hi_step c s o Hab HIv HH) as H. now rewrite Es in H. }
    assert (HIv' : Inv s').
    { destruct o as [tu|id f|id es f|]; simpl in Es.
      - pose proof (inv_create vdef (hpopulate h mk vdef) reissue c s tu HIv) as H. now rewrite Es in H.
      - pose proof (inv_update s id f HIv) as H. now rewrite Es in H.
      - pose proof (inv_end score_fn hk hk c s id es f Hab HIv) as H. now rewrite Es in H.
      - pose proof (inv_reload (fun a => a) s HIv) as H. now rewrite Es in H. }
    constructor; [exact HH'|now apply IH]. }
  apply (H (init (hinit h))); [apply (inv_init vdef score_fn (hpopulate h mk vdef) hk hk (fun a => a) reissue)|].
  unfold HI, HInv, init, hinit. cbn [trials algo brackets archive app]. constructor; [|constructor].
  (* the first, empty bracket *)
  assert (Hrep : forall k l, nth_error (repeat (@nil entry) (S (nbrackets h - 1))) k = Some l -> l = []).
  { intros k l Hl. apply nth_error_In in Hl. now apply repeat_spec in Hl. }
  constructor; cbn [rounds bnum new_bracket].
  - apply repeat_length.
  - intros r l Hl. rewrite (Hrep _ _ Hl). simpl. lia.
  - intros r l id Hl Hin. rewrite (Hrep _ _ Hl) in Hin. destruct Hin.
  - intros r l Hl. rewrite (Hrep _ _ Hl). constructor.
  - intros r l Hl. rewrite (Hrep _ _ Hl). constructor.
  - intros r prev cur e Hp Hc He. rewrite (Hrep _ _ Hc) in He. destruct He.
Qed.
End Run.
Print Assumptions C10_run.
