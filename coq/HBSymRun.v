(* C04: the whole Hyperband search is direction-symmetric: the oracle that maximises s and the oracle that minimises -s,
   given the same requests, answer every one of them identically (ids, statuses, values incl. tuner/* entries). *)
From Coq Require Import List ZArith Bool Lia PeanoNat.
Import ListNotations.
From KT Require Import Lifecycle HB HBSym LSym HBRun.

Section HBSymRun.
Context {V : Type}.
Variable h : hcfg.
Variable vdef : V.
Variable mk : hinfo -> V.
Variable score_fn : V -> scored Z.
Variable reissue : V -> V.

Lemma neg_trial_ntr (t : trial V Z) : neg_trial t = ntr Z.opp t.
Proof. destruct t as [st [[|z]|] r d]; reflexivity. Qed.

Theorem hyperband_search_sym c (a : hstate) ops :
  map fst (run vdef (fun v => sneg Z.opp (score_fn v)) (hpopulate (flip h) mk vdef) hk hk (fun a => a) reissue c (init a) ops)
  = map fst (run vdef score_fn (hpopulate h mk vdef) hk hk (fun a => a) reissue c (init a) ops).
Proof.
  apply (search_sym vdef Z.opp score_fn (fun v => sneg Z.opp (score_fn v))); [reflexivity|].
  intros s ts b id. replace (map (ntr Z.opp) ts) with (neg_ts ts); [apply hpopulate_sym|].
  unfold neg_ts. apply map_ext. apply neg_trial_ntr.
Qed.
End HBSymRun.
Print Assumptions hyperband_search_sym.
