From stdpp Require Import gmap list.
From KT Require Import Lifecycle G3 GR.
Set Default Proof Using "Type".

(* a occurs strictly before b in l *)
Definition before {X} (l : list X) (a b : X) : Prop := ∃ l1 l2 l3, l = l1 ++ a :: l2 ++ b :: l3.

Lemma before_app_l {X} (l l' : list X) a b : before l a b → before (l ++ l') a b.
Proof. intros (l1&l2&l3&->). exists l1, l2, (l3 ++ l'). rewrite <-app_assoc. cbn. rewrite <-app_assoc. done. Qed.
Lemma before_app_r {X} (l l' : list X) a b : before l a b → before (l' ++ l) a b.
Proof. intros (l1&l2&l3&->). exists (l' ++ l1), l2, l3. first [by rewrite <-app_assoc | by rewrite app_assoc | by rewrite (assoc_L (++))]. Qed.
Lemma before_app_lr {X} (l l' : list X) a b : a ∈ l → b ∈ l' → before (l ++ l') a b.
Proof.
  intros (l1&l2&->)%elem_of_list_split (m1&m2&->)%elem_of_list_split.
  exists l1, (l2 ++ m1), m2. rewrite <-!app_assoc. done.
Qed.

Section fm.
Context {A B : Type} (g : A → list B).
Lemma before_fm_same xs x a b : x ∈ xs → before (g x) a b → before (flat_map g xs) a b.
Proof.
  intros (l1&l2&->)%elem_of_list_split Hb. rewrite flat_map_app. cbn.
  apply before_app_r, before_app_l, Hb.
Qed.
Lemma before_fm_diff xs1 x xs2 y xs3 a b : a ∈ g x → b ∈ g y →
  before (flat_map g (xs1 ++ x :: xs2 ++ y :: xs3)) a b.
Proof.
  intros Ha Hb. rewrite flat_map_app. cbn. apply before_app_r.
  rewrite flat_map_app. cbn. rewrite app_assoc. apply before_app_lr.
  - apply elem_of_app. by left.
  - apply elem_of_app. by left.
Qed.
End fm.

(* index_of and order in a NoDup list *)
Lemma index_of_Some x l n : x ∈ l → ∃ i, index_of x l n = Some i.
Proof.
  revert n. induction l as [|y r IH]; intros n Hx; [by apply elem_of_nil in Hx|]. cbn.
  destruct (decide (x = y)); [eauto|]. apply elem_of_cons in Hx as [?|Hx]; [done|]. by apply IH.
Qed.
Lemma index_of_ge x l n i : index_of x l n = Some i → n ≤ i.
Proof.
  revert n. induction l as [|y r IH]; intros n H; [done|]. cbn in H.
  destruct (decide (x = y)); [inversion H; lia|]. apply IH in H. lia.
Qed.
Lemma index_of_lt_split x y l n i j : NoDup l → index_of x l n = Some i → index_of y l n = Some j → i < j →
  ∃ l1 l2 l3, l = l1 ++ x :: l2 ++ y :: l3.
Proof.
  revert n. induction l as [|z r IH]; intros n Hnd Hi Hj Hlt; [done|]. cbn in Hi, Hj.
  apply NoDup_cons in Hnd as [Hz Hnd].
  destruct (decide (x = z)) as [->|Hxz].
  - inversion Hi; subst. destruct (decide (y = z)) as [->|Hyz]; [inversion Hj; lia|].
    assert (Hy : y ∈ r).
    { clear -Hj. revert Hj. generalize (S i). induction r as [|w r IH]; intros m H; [done|]. cbn in H.
      destruct (decide (y = w)) as [->|]; [by left|]. right. by eapply IH. }
    apply elem_of_list_split in Hy as (m1&m2&->). by exists [], m1, m2.
  - destruct (decide (y = z)) as [->|Hyz].
    + inversion Hj; subst. apply index_of_ge in Hi. lia.
    + destruct (IH (S n) Hnd Hi Hj Hlt) as (l1&l2&l3&->). by exists (z :: l1), l2, l3.
Qed.

Lemma combos_lookup_head h rest dn x v : hname h ∉ names rest → v ∈ combos rest (<[hname h:=x]> dn) → v !! hname h = Some x.
Proof. intros Hn Hv. rewrite (combos_other _ _ _ Hv _ Hn). apply lookup_insert. Qed.

Lemma compare_spec sp : ∀ pre dn, wo pre sp → (∀ n, n ∈ names sp → dn !! n = None) →
  ∀ a b, a ∈ combos sp dn → b ∈ combos sp dn →
    (compare sp a b = Some Eq ∧ a = b) ∨
    (compare sp a b = Some Lt ∧ before (combos sp dn) a b) ∨
    (compare sp a b = Some Gt ∧ before (combos sp dn) b a).
Proof.
  induction sp as [|h rest IH]; intros pre dn Hwo Hfresh a b Ha Hb.
  { cbn in *. apply elem_of_list_singleton in Ha, Hb. subst. by left. }
  pose proof (wo_names _ _ Hwo) as [Hpre Hnd].
  destruct Hwo as (Hpn & Hh & Hne & Hndv & Hwo).
  cbn in Hnd. apply NoDup_cons in Hnd as [Hhn Hnd].
  cbn [combos compare] in *.
  destruct (active dn h) eqn:Ea.
  - apply elem_of_list_In, in_flat_map in Ha as (xa & Hxa & Ha).
    apply elem_of_list_In, in_flat_map in Hb as (xb & Hxb & Hb).
    apply elem_of_list_In in Hxa, Hxb, Ha, Hb.
    rewrite (combos_lookup_head _ _ _ _ _ Hhn Ha), (combos_lookup_head _ _ _ _ _ Hhn Hb).
    assert (Hfresh' : ∀ x n, n ∈ names rest → (<[hname h:=x]> dn) !! n = None).
    { intros x n Hn. rewrite lookup_insert_ne; [apply Hfresh; by right|]. by intros <-. }
    destruct (decide (xa = xb)) as [->|Hne'].
    + destruct (IH (hname h :: pre) _ Hwo (Hfresh' xb) a b Ha Hb) as [[? ?]|[[? ?]|[? ?]]].
      * by left.
      * right. left. split; [done|]. by eapply (before_fm_same (λ x, combos rest (<[hname h:=x]> dn))).
      * right. right. split; [done|]. by eapply (before_fm_same (λ x, combos rest (<[hname h:=x]> dn))).
    + destruct (index_of_Some xa (hall h) 0 Hxa) as [i Hi]. destruct (index_of_Some xb (hall h) 0 Hxb) as [j Hj].
      rewrite Hi, Hj. right.
      destruct (Nat.ltb_spec i j) as [Hlt|Hge].
      * left. split; [done|].
        destruct (index_of_lt_split _ _ _ _ _ _ Hndv Hi Hj Hlt) as (l1&l2&l3&->).
        by apply (before_fm_diff (λ x, combos rest (<[hname h:=x]> dn))).
      * right. split; [done|].
        assert (Hji : j < i).
        { destruct (decide (i = j)) as [->|]; [|lia]. exfalso. apply Hne'.
          clear -Hi Hj. revert Hi Hj. generalize 0. induction (hall h) as [|z r IHr]; intros n Hi Hj; [done|]. cbn in Hi, Hj.
          destruct (decide (xa = z)) as [->|]; destruct (decide (xb = z)) as [->|]; try done.
          - inversion Hi; subst. apply index_of_ge in Hj. lia.
          - inversion Hj; subst. apply index_of_ge in Hi. lia.
          - by eapply IHr. }
        destruct (index_of_lt_split _ _ _ _ _ _ Hndv Hj Hi Hji) as (l1&l2&l3&->).
        by apply (before_fm_diff (λ x, combos rest (<[hname h:=x]> dn))).
  - assert (Hah : a !! hname h = None).
    { rewrite (combos_other _ _ _ Ha _ Hhn). apply Hfresh. by left. }
    rewrite Hah. apply (IH (hname h :: pre)); [done| |done|done].
    intros n Hn. apply Hfresh. by right.
Qed.
Print Assumptions compare_spec.
