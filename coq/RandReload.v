(* C06 at the level of whole runs, save+reload included: the tried set and the id->hash table are part of the saved state, the
   values of every trial come back from its file (LSync.DSyncP), so reloading changes neither the stored values nor what the
   de-duplication knows. *)
From stdpp Require Import gmap list.
From Coq Require Import ZArith.
From KT Require Import Lifecycle LInv LData LSync Space Discover Rand RandDedup RandRun.
Set Default Proof Using "All".

Section run.
Variable samp : nat → Z → value.
Variable draw : nat → hp → value.
Variables allow tune : bool.
Variable max_collisions : nat.
Variable c : cfg.
Hypothesis Hab : abort_early c = false.
Notation ost := (@ostate rstate tdata unit).
Notation rstepf := (rstep samp draw allow tune max_collisions c).
Notation corestep := (step vdef rscore (rpopulate samp draw max_collisions) (rhook_end allow tune) (rhook_end allow tune) (λ a, a) rfresh c).
Notation DS := (DSyncP (A := rstate) (Sc := unit) tv_values).

Lemma inv_ext (s s' : ost) : trials s' = trials s → ongoing s' = ongoing s → start_order s' = start_order s → end_order s' = end_order s →
  retryq s' = retryq s → disk s' = disk s → Inv s → Inv s'.
Proof.
  intros E1 E2 E3 E4 E5 E6 [H1 H2 H3 H4 H5 H6 H7 H8 H9 H10 H11].
  constructor; unfold onids, stat, finalat, stat in *; rewrite ?E1, ?E2, ?E3, ?E4, ?E5, ?E6; auto.
Qed.

(* rstep is the core step up to the algorithm state *)
Lemma rstep_core s o : let s1 := (rstepf s o).1 in let s2 := (corestep s (core_op draw s o)).1 in
  trials s1 = trials s2 ∧ ongoing s1 = ongoing s2 ∧ start_order s1 = start_order s2 ∧ end_order s1 = end_order s2 ∧ retryq s1 = retryq s2 ∧ disk s1 = disk s2.
Proof.
  destruct o as [tu|id x|id st sp v|]; cbn [rstep core_op]; try done.
  destruct (ensure_go draw sp sp (list_to_map v) (a_k (algo s))) as [v' k'] eqn:Ee. cbn [fst].
  destruct (step _ _ _ _ _ _ _ c s _) as [s1 r]. done.
Qed.

Lemma rstep_inv s o : Inv s → Inv (rstepf s o).1.
Proof.
  intros HI. destruct (rstep_core s o) as (E1 & E2 & E3 & E4 & E5 & E6).
  eapply inv_ext; eauto. destruct (core_op draw s o) as [tu|id f|id es f|]; cbn [step].
  - by apply inv_create.
  - by apply inv_update.
  - by apply inv_end.
  - by apply inv_reload.
Qed.

Lemma rstep_sync s o : Inv s → DS s → DS (rstepf s o).1.
Proof.
  intros HI HD. destruct (rstep_core s o) as (E1 & _ & _ & _ & _ & E6).
  pose proof (dsyncp_step vdef rscore (rpopulate samp draw max_collisions) (rhook_end allow tune) (rhook_end allow tune) (λ a, a) tv_values rfresh (λ v, eq_refl)
                c s (core_op draw s o) Hab HI HD) as H.
  unfold DSyncP in *. rewrite E1, E6. exact H.
Qed.

Lemma reload_vals s j : Inv s → DS s → vals_of (rstepf s RReload).1 j = vals_of s j.
Proof.
  intros HI HD. unfold vals_of. cbn [rstep step].
  pose proof (reload_proj (A := rstate) (Sc := unit) (λ a, a) tv_values s j HI HD) as H. exact H.
Qed.

Lemma reload_keeps s : Inv s → DS s → TInv s → Distinct s → TInv (rstepf s RReload).1 ∧ Distinct (rstepf s RReload).1.
Proof.
  intros HI HD [T1 T2 T3] HDi.
  assert (Halgo : algo (rstepf s RReload).1 = algo s) by done.
  assert (Hlen : length (trials (rstepf s RReload).1) = length (trials s)).
  { cbn [rstep step do_reload fst trials]. apply from_disk_length, (I_disk_len _ HI). }
  split.
  - constructor; rewrite ?Halgo.
    + intros id v Hv. rewrite reload_vals in Hv by done. eauto.
    + intros id v Hv. rewrite reload_vals in Hv by done. eauto.
    + intros id Hid. rewrite Hlen. eauto.
  - intros i j vi vj Hij Hi Hj. rewrite reload_vals in Hi, Hj by done. eauto.
Qed.

(* runs in which every step that is not a reload satisfies the static-space conditions *)
Fixpoint good_run_r (s : ost) (ops : list rop) : Prop :=
  match ops with
  | [] => True
  | o :: r => (o = RReload ∨ (static_end draw s o ∧ sample_complete samp draw max_collisions s)) ∧ good_run_r (rstepf s o).1 r
  end.

Theorem distinct_run_reload ops : ∀ s, Inv s → DS s → TInv s → Distinct s → good_run_r s ops →
  Forall (λ rs, Distinct rs.2) (rrun samp draw allow tune max_collisions c s ops).
Proof.
  induction ops as [|o r IH]; intros s HI HS HT HD Hg; cbn [rrun]; [constructor|].
  destruct Hg as (Ho & Hg).
  assert (H : TInv (rstepf s o).1 ∧ Distinct (rstepf s o).1).
  { destruct Ho as [->|[Hst Hsc]]; [by apply reload_keeps|by apply distinct_step]. }
  pose proof (rstep_inv s o HI) as HI'. pose proof (rstep_sync s o HI HS) as HS'.
  destruct H as [HT' HD']. destruct (rstepf s o) as [s' rs] eqn:Es. cbn in *. constructor; [exact HD'|]. by apply IH.
Qed.
End run.
Print Assumptions distinct_run_reload.
