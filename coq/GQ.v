From stdpp Require Import gmap list sorting.
From KT Require Import Lifecycle LInv G3 GR G4 GP.
Set Default Proof Using "All".

(* ---------- linked-list-as-list lemmas ---------- *)
Lemma next_in_split l1 x l2 : x ∉ l1 → next_in (l1 ++ x :: l2) x = head l2.
Proof.
  induction l1 as [|y r IH]; intros Hx; cbn.
  - by rewrite Nat.eqb_refl.
  - destruct (Nat.eqb_spec y x) as [->|Hne]; [exfalso; apply Hx; by left|]. apply IH. intros ?. apply Hx. by right.
Qed.

Lemma insert_after_split l1 x l2 new : x ∉ l1 → insert_after (l1 ++ x :: l2) x new = l1 ++ x :: new :: l2.
Proof.
  induction l1 as [|y r IH]; intros Hx; cbn.
  - by rewrite Nat.eqb_refl.
  - destruct (Nat.eqb_spec y x) as [->|Hne]; [exfalso; apply Hx; by left|]. f_equal. apply IH. intros ?. apply Hx. by right.
Qed.

Lemma next_in_elem l x u : next_in l x = Some u → x ∈ l ∧ u ∈ l.
Proof.
  induction l as [|y r IH]; cbn; [done|].
  destruct (Nat.eqb_spec y x) as [->|Hne].
  - destruct r as [|z r']; cbn; [done|]. intros [= ->]. split; [by left|right; by left].
  - intros H. destruct (IH H). split; by right.
Qed.

(* splitting a NoDup list at an element is unique *)
Lemma nodup_split_unique {X} (l1 l2 m1 m2 : list X) x :
  NoDup (l1 ++ x :: l2) → l1 ++ x :: l2 = m1 ++ x :: m2 → l1 = m1 ∧ l2 = m2.
Proof.
  revert m1. induction l1 as [|y r IH]; intros m1 Hnd Heq.
  - destruct m1 as [|z m1]; cbn in *; [by inversion Heq|].
    inversion Heq; subst. apply NoDup_cons in Hnd as [Hx _]. exfalso. apply Hx. apply elem_of_app. right. by left.
  - destruct m1 as [|z m1]; cbn in *.
    + inversion Heq; subst. apply NoDup_cons in Hnd as [Hx _]. exfalso. apply Hx. apply elem_of_app. right. by left.
    + inversion Heq; subst. apply NoDup_cons in Hnd as [_ Hnd]. destruct (IH m1 Hnd H1) as [-> ->]. done.
Qed.

Lemma next_in_insert_other l1 x l2 new p : NoDup (l1 ++ x :: l2) → new ∉ l1 ++ x :: l2 → p ≠ x → p ≠ new →
  next_in (l1 ++ x :: new :: l2) p = next_in (l1 ++ x :: l2) p.
Proof.
  intros Hnd Hnew Hpx Hpn.
  destruct (decide (p ∈ l1 ++ x :: l2)) as [Hin|Hnin].
  - apply elem_of_app in Hin as [Hin|Hin].
    + apply elem_of_list_split in Hin as (a & b & ->).
      assert (Hpa : p ∉ a). { rewrite <-app_assoc in Hnd. apply NoDup_app in Hnd as (_ & H & _). intros Hi. apply (H p Hi). by left. }
      rewrite <-!app_assoc. cbn. rewrite !next_in_split by done. by destruct b.
    + apply elem_of_cons in Hin as [->|Hin]; [done|].
      apply elem_of_list_split in Hin as (a & b & ->).
      assert (Hp1 : p ∉ l1 ++ x :: new :: a).
      { intros Hi. apply elem_of_app in Hi as [Hi|Hi].
        - apply NoDup_app in Hnd as (_ & H & _). apply (H p Hi). right. apply elem_of_app. right. by left.
        - apply elem_of_cons in Hi as [?|Hi]; [done|]. apply elem_of_cons in Hi as [?|Hi]; [done|].
          apply NoDup_app in Hnd as (_ & _ & Hnd). apply NoDup_cons in Hnd as [_ Hnd].
          apply NoDup_app in Hnd as (_ & H & _). apply (H p Hi). by left. }
      assert (Hp2 : p ∉ l1 ++ x :: a).
      { intros Hi. apply Hp1. apply elem_of_app in Hi as [Hi|Hi]; apply elem_of_app; [by left|right].
        apply elem_of_cons in Hi as [->|Hi]; [by left|]. right. by right. }
      replace (l1 ++ x :: new :: a ++ p :: b) with ((l1 ++ x :: new :: a) ++ p :: b) by (by rewrite <-app_assoc).
      replace (l1 ++ x :: a ++ p :: b) with ((l1 ++ x :: a) ++ p :: b) by (by rewrite <-app_assoc).
      by rewrite !next_in_split.
  - assert (H1 : next_in (l1 ++ x :: l2) p = None).
    { destruct (next_in (l1 ++ x :: l2) p) eqn:E; [|done]. apply next_in_elem in E as [? _]. done. }
    rewrite H1. destruct (next_in (l1 ++ x :: new :: l2) p) eqn:E; [|done].
    apply next_in_elem in E as [Hp _]. exfalso. apply Hnin.
    apply elem_of_app in Hp as [Hp|Hp]; apply elem_of_app; [by left|right].
    apply elem_of_cons in Hp as [->|Hp]; [by left|]. apply elem_of_cons in Hp as [?|Hp]; [done|]. by right.
Qed.

(* strictly increasing lists of naturals *)
Fixpoint incr (l : list nat) : Prop :=
  match l with [] => True | x :: r => (∀ y, y ∈ r → x < y) ∧ incr r end.

Lemma incr_app l1 l2 : incr (l1 ++ l2) ↔ incr l1 ∧ incr l2 ∧ ∀ a b, a ∈ l1 → b ∈ l2 → a < b.
Proof.
  induction l1 as [|x r IH]; cbn.
  - split; [intros H; split_and!; [done|done|]|tauto]. intros a b Ha. by apply elem_of_nil in Ha.
  - rewrite IH. split.
    + intros (Hx & Hr & H2 & Hc). split_and!; [|done|done|].
      * intros y Hy. apply Hx. apply elem_of_app. by left.
      * intros a b Ha Hb. apply elem_of_cons in Ha as [->|Ha]; [apply Hx; apply elem_of_app; by right|by apply Hc].
    + intros ((Hx & Hr) & H2 & Hc). split_and!; [|done|done|].
      * intros y Hy. apply elem_of_app in Hy as [Hy|Hy]; [by apply Hx|]. apply Hc; [by left|done].
      * intros a b Ha Hb. apply Hc; [by right|done].
Qed.

Lemma incr_insert l1 x l2 new : incr (l1 ++ x :: l2) → new = S x → (∀ u, head l2 = Some u → new < u) →
  incr (l1 ++ x :: new :: l2).
Proof.
  intros Hi -> Hn. apply incr_app in Hi as (H1 & (Hx & H2) & Hc). apply incr_app. split_and!; [done| |].
  - cbn. split_and!.
    + intros y Hy. apply elem_of_cons in Hy as [->|Hy]; [lia|by apply Hx].
    + intros y Hy. destruct l2 as [|u l2']; [by apply elem_of_nil in Hy|].
      pose proof (Hn u eq_refl). apply elem_of_cons in Hy as [->|Hy]; [done|].
      destruct H2 as [Hu _]. pose proof (Hu y Hy). lia.
    + done.
  - intros a b Ha Hb. apply elem_of_cons in Hb as [->|Hb]; [apply Hc; [done|by left]|].
    apply elem_of_cons in Hb as [->|Hb]; [|apply Hc; [done|by right]].
    pose proof (Hc a x Ha). ltac:(assert (a < x) by (apply H; by left)). lia.
Qed.

Lemma incr_next (f : nat → nat) l1 x u l2 : incr (map f (l1 ++ x :: u :: l2)) → f x < f u.
Proof.
  rewrite map_app. cbn. intros Hi. apply incr_app in Hi as (_ & (Hx & _) & _). apply Hx. by left.
Qed.

Lemma incr_map_nodup (f : nat → nat) l : incr (map f l) → NoDup l.
Proof.
  induction l as [|x r IH]; cbn; [constructor|]. intros [Hx Hr]. constructor; [|by apply IH].
  intros Hin. pose proof (Hx (f x)). ltac:(assert (f x < f x) by (apply H; by apply elem_of_list_fmap_1)). lia.
Qed.

Section ginv.
Variable sp : list hp.
Hypothesis Hwo : wo [] sp.
Notation V := (gmap name value).
Notation C := (combos sp ∅).
Notation rk v := (rank v C).

Definition closed (vl : nat → V) (ord : list nat) (id : nat) : Prop :=
  S (rk (vl id)) = length C ∨ ∃ u, next_in ord id = Some u ∧ rk (vl u) = S (rk (vl id)).

Record GI (n : nat) (vl : nat → V) (ord pend ong : list nat) : Prop := {
  G_vals : ∀ id, id < n → vl id ∈ C;
  G_elems : ∀ id, id ∈ ord ↔ id < n;
  G_sorted : incr (map (λ id, rk (vl id)) ord);
  G_head : ∀ id r, ord = id :: r → rk (vl id) = 0;
  G_closed : ∀ id, id ∈ ord → closed vl ord id ∨ id ∈ pend ∨ id ∈ ong;
  G_pend : ∀ id, id ∈ pend → id < n
}.

Lemma GI_nodup n vl ord pend ong : GI n vl ord pend ong → NoDup ord.
Proof. intros H. eapply incr_map_nodup, (G_sorted _ _ _ _ _ H). Qed.

Lemma closed_ext vl vl' ord id n : (∀ j, j < n → vl j = vl' j) → (∀ j, j ∈ ord → j < n) → id < n →
  closed vl ord id → closed vl' ord id.
Proof.
  intros Hext Hord Hid [H|(u & Hu & Hr)]; [left; by rewrite <-Hext|right].
  exists u. split; [done|]. apply next_in_elem in Hu as [_ Hu']. rewrite <-!Hext; auto.
Qed.

Lemma GI_ext n vl vl' ord pend ong ong' :
  GI n vl ord pend ong → (∀ j, j < n → vl j = vl' j) → (∀ x, x ∈ ong → x ∈ ong') → GI n vl' ord pend ong'.
Proof.
  intros H Hext Hong. destruct H as [H1 H2 H3 H4 H5 H6].
  assert (Hord : ∀ j, j ∈ ord → j < n) by (intros j; apply H2).
  constructor; auto.
  - intros id Hid. rewrite <-Hext by done. auto.
  - erewrite map_ext_in; [exact H3|]. intros a Ha. cbn. rewrite Hext; [done|]. apply Hord. by apply elem_of_list_In.
  - intros id r Hr. rewrite <-Hext; [eauto|]. apply Hord. rewrite Hr. by left.
  - intros id Hid. destruct (H5 id Hid) as [Hc|[Hp|Ho]]; [left|right; by left|right; right; auto].
    eapply closed_ext; eauto.
Qed.

Lemma GI_end n vl ord pend ong ong' id :
  GI n vl ord pend ong → id < n → (∀ x, x ∈ ong → x ≠ id → x ∈ ong') → GI n vl ord (pend ++ [id]) ong'.
Proof.
  intros [H1 H2 H3 H4 H5 H6] Hid Hong. constructor; auto.
  - intros j Hj. destruct (H5 j Hj) as [Hc|[Hp|Ho]]; [by left|right; left; apply elem_of_app; by left|].
    destruct (decide (j = id)) as [->|Hne]; [right; left; apply elem_of_app; right; by left|right; right; auto].
  - intros j Hj. apply elem_of_app in Hj as [Hj|Hj]; [auto|]. apply elem_of_list_singleton in Hj. by subst.
Qed.

Lemma GI_first vl ord pend ong : GI 0 vl ord pend ong → ∀ vl' ong', vl' 0 = defaults sp → 0 ∈ ong' →
  GI 1 vl' [0] (pend ++ [0]) ong'.
Proof.
  intros H vl' ong' Hv Hong.
  destruct (defaults_in sp Hwo) as [Hd Hr0].
  constructor.
  - intros id Hid. assert (id = 0) as -> by lia. by rewrite Hv.
  - intros id. rewrite elem_of_list_singleton. lia.
  - cbn. split; [|done]. intros y Hy. by apply elem_of_nil in Hy.
  - intros id r [= <- <-]. by rewrite Hv.
  - intros id Hid. apply elem_of_list_singleton in Hid as ->. right. right. done.
  - intros id Hid. apply elem_of_app in Hid as [Hid|Hid].
    + pose proof (G_pend _ _ _ _ _ H id Hid). lia.
    + apply elem_of_list_singleton in Hid. lia.
Qed.

Lemma next_in_Some_split l x u : next_in l x = Some u → ∃ l1 l2, l = l1 ++ x :: u :: l2 ∧ x ∉ l1.
Proof.
  induction l as [|y r IH]; cbn; [done|].
  destruct (Nat.eqb_spec y x) as [->|Hne].
  - destruct r as [|z r']; cbn; [done|]. intros [= ->]. exists [], r'. split; [done|apply not_elem_of_nil].
  - intros H. destruct (IH H) as (l1 & l2 & -> & Hx). exists (y :: l1), l2. split; [done|].
    intros Hin. apply elem_of_cons in Hin as [?|?]; [by subst|done].
Qed.

Definition val (ts : list (trial V unit)) (id : nat) : V :=
  match nth_error ts id with Some t => t_data t | None => ∅ end.

Lemma scan_spec ts ord pend0 ong : GI (length ts) (val ts) ord pend0 ong → ∀ pend, (∀ p, p ∈ pend → p < length ts) →
  match scan sp ts ord pend with
  | SFound rest old nv => ∃ skipped, pend = skipped ++ old :: rest ∧ (∀ p, p ∈ skipped → closed (val ts) ord p) ∧
        old < length ts ∧ next_comb sp (val ts old) = Some nv ∧ (∀ nid, next_in ord old = Some nid → rk nv < rk (val ts nid))
  | SNone => ∀ p, p ∈ pend → closed (val ts) ord p
  | SError => False
  end.
Proof.
  intros HG. induction pend as [|old rest IH]; intros Hp; cbn.
  { intros p Hpin. by apply elem_of_nil in Hpin. }
  assert (Hold : old < length ts) by (apply Hp; by left).
  assert (Hrest : ∀ p, p ∈ rest → p < length ts) by (intros p Hin; apply Hp; by right).
  specialize (IH Hrest).
  destruct (nth_error ts old) as [t|] eqn:Et; [|apply nth_error_None in Et; lia].
  assert (Hv : val ts old = t_data t) by (unfold val; by rewrite Et).
  assert (HvC : val ts old ∈ C) by (apply (G_vals _ _ _ _ _ HG); done).
  rewrite <-Hv.
  assert (Hskip : closed (val ts) ord old →
     match scan sp ts ord rest with
     | SFound rest0 old0 nv => ∃ skipped, old :: rest = skipped ++ old0 :: rest0 ∧ (∀ p, p ∈ skipped → closed (val ts) ord p) ∧
          old0 < length ts ∧ next_comb sp (val ts old0) = Some nv ∧ (∀ nid, next_in ord old0 = Some nid → rk nv < rk (val ts nid))
     | SNone => ∀ p, p ∈ old :: rest → closed (val ts) ord p
     | SError => False
     end).
  { intros Hc. destruct (scan sp ts ord rest) as [rest0 old0 nv| |]; [|..].
    - destruct IH as (sk & -> & Hsk & H3). exists (old :: sk). split; [done|]. split; [|done].
      intros p Hin. apply elem_of_cons in Hin as [->|Hin]; auto.
    - intros p Hin. apply elem_of_cons in Hin as [->|Hin]; auto.
    - done. }
  destruct (next_comb sp (val ts old)) as [nv|] eqn:En.
  2:{ apply Hskip. left. by apply succ_none. }
  destruct (succ_some sp Hwo _ _ HvC En) as [HnvC Hrnv].
  destruct (next_in ord old) as [nid|] eqn:Enx.
  2:{ exists []. split_and!. all: try done. all: try (intros nid' Hn'; rewrite Enx in Hn'; done). intros p Hin. by apply elem_of_nil in Hin. }
  pose proof (next_in_elem _ _ _ Enx) as [_ Hnid]. apply (G_elems _ _ _ _ _ HG) in Hnid.
  destruct (nth_error ts nid) as [tn|] eqn:Etn; [|apply nth_error_None in Etn; lia].
  assert (Hvn : val ts nid = t_data tn) by (unfold val; by rewrite Etn).
  assert (HvnC : val ts nid ∈ C) by (apply (G_vals _ _ _ _ _ HG); done).
  rewrite <-Hvn.
  pose proof (compare_rank sp Hwo nv (val ts nid) HnvC HvnC) as Hcmp.
  destruct (compare sp nv (val ts nid)) as [[| |]|]; [| | |done].
  - (* Eq *) apply Hskip. right. exists nid. split; [done|]. by rewrite <-Hcmp.
  - (* Lt *) exists []. split_and!. all: try done.
    + intros p Hin. by apply elem_of_nil in Hin.
    + intros nid' Hn'. rewrite Enx in Hn'. by inversion Hn'; subst.
  - (* Gt: impossible *)
    exfalso. destruct (next_in_Some_split _ _ _ Enx) as (l1 & l2 & Hord & _).
    pose proof (G_sorted _ _ _ _ _ HG) as Hs. rewrite Hord in Hs.
    apply (incr_next (λ id, rk (val ts id))) in Hs. lia.
Qed.

Lemma GI_none n vl ord pend ong : GI n vl ord pend ong → (∀ p, p ∈ pend → closed vl ord p) → GI n vl ord [] ong.
Proof.
  intros [H1 H2 H3 H4 H5 H6] Hc. constructor; auto.
  - intros id Hid. destruct (H5 id Hid) as [?|[?|?]]; auto.
  - intros id Hid. by apply elem_of_nil in Hid.
Qed.

Lemma GI_found n vl ord pend ong skipped old rest nv vl' ong' :
  GI n vl ord pend ong → pend = skipped ++ old :: rest → (∀ p, p ∈ skipped → closed vl ord p) → old < n →
  next_comb sp (vl old) = Some nv → (∀ nid, next_in ord old = Some nid → rk nv < rk (vl nid)) →
  (∀ j, j < n → vl' j = vl j) → vl' n = nv → (∀ x, x ∈ ong → x ∈ ong') → n ∈ ong' →
  GI (S n) vl' (insert_after ord old n) rest ong'.
Proof.
  intros HG Hpend Hsk Hold Hnext Hlt Hvl Hvn Hong Hn.
  pose proof (GI_nodup _ _ _ _ _ HG) as Hnd.
  destruct HG as [H1 H2 H3 H4 H5 H6].
  assert (Hoin : old ∈ ord) by by apply H2.
  apply elem_of_list_split in Hoin as (l1 & l2 & Hord).
  assert (Hol1 : old ∉ l1).
  { rewrite Hord in Hnd. apply NoDup_app in Hnd as (_ & H & _). intros Hi. apply (H old Hi). by left. }
  assert (Hnord : n ∉ ord). { intros Hi. apply H2 in Hi. lia. }
  assert (HvC : vl old ∈ C) by auto.
  destruct (succ_some sp Hwo _ _ HvC Hnext) as [HnvC Hrnv].
  assert (Hordlt : ∀ j, j ∈ ord → j < n) by (intros j; apply H2).
  assert (Hmap : ∀ l, (∀ j, j ∈ l → j < n) → map (λ id, rk (vl' id)) l = map (λ id, rk (vl id)) l).
  { intros l Hl. apply map_ext_in. intros a Ha. cbn. rewrite Hvl; [done|]. apply Hl. by apply elem_of_list_In. }
  rewrite Hord. rewrite insert_after_split by done.
  assert (Hl1 : ∀ j, j ∈ l1 → j < n). { intros j Hj. apply Hordlt. rewrite Hord. apply elem_of_app. by left. }
  assert (Hl2 : ∀ j, j ∈ l2 → j < n). { intros j Hj. apply Hordlt. rewrite Hord. apply elem_of_app. right. by right. }
  assert (Hnx : next_in ord old = head l2). { rewrite Hord. by apply next_in_split. }
  constructor.
  - intros id Hid. destruct (decide (id = n)) as [->|Hne]; [by rewrite Hvn|]. rewrite Hvl by lia. apply H1. lia.
  - intros id. split.
    + intros Hi. apply elem_of_app in Hi as [Hi|Hi]; [pose proof (Hl1 _ Hi); lia|].
      apply elem_of_cons in Hi as [->|Hi]; [lia|]. apply elem_of_cons in Hi as [->|Hi]; [lia|]. pose proof (Hl2 _ Hi); lia.
    + intros Hi. destruct (decide (id = n)) as [->|Hne].
      * apply elem_of_app. right. right. by left.
      * assert (Hio : id ∈ ord) by (apply H2; lia). rewrite Hord in Hio.
        apply elem_of_app in Hio as [Hio|Hio]; apply elem_of_app; [by left|right].
        apply elem_of_cons in Hio as [->|Hio]; [by left|]. right. by right.
  - rewrite map_app. cbn. rewrite (Hmap l1 Hl1), (Hmap l2 Hl2), Hvn, (Hvl old Hold).
    rewrite Hord, map_app in H3. cbn in H3.
    apply incr_insert; [done|done|].
    intros u Hu. destruct l2 as [|u' l2']; [done|]. cbn in Hu. inversion Hu; subst u.
    apply Hlt. by rewrite Hnx.
  - intros id r Heq. destruct l1 as [|a l1']; cbn in Heq; inversion Heq; subst.
    + rewrite Hvl by done. by eapply (H4 id l2).
    + rewrite Hvl; [by eapply (H4 id (l1' ++ old :: l2))|]. apply Hl1. by left.
  - intros id Hid.
    destruct (decide (id = n)) as [->|Hnn]; [right; right; done|].
    destruct (decide (id = old)) as [->|Hno].
    + left. right. exists n. split; [by apply next_in_split|]. by rewrite Hvn, (Hvl old Hold).
    + assert (Hio : id ∈ ord).
      { rewrite Hord. apply elem_of_app in Hid as [Hi|Hi]; apply elem_of_app; [by left|right].
        apply elem_of_cons in Hi as [->|Hi]; [by left|]. apply elem_of_cons in Hi as [->|Hi]; [done|]. by right. }
      assert (Hidn : id < n) by auto.
      assert (Hcl : closed vl ord id → closed vl' (l1 ++ old :: n :: l2) id).
      { intros [Hc|(u & Hu & Hr)]; [left; by rewrite Hvl|right].
        exists u. split.
        - rewrite next_in_insert_other; [by rewrite <-Hord|by rewrite <-Hord|by rewrite <-Hord|done|done].
        - apply next_in_elem in Hu as [_ Hu']. rewrite !Hvl; auto. }
      destruct (H5 id Hio) as [Hc|[Hp|Ho]]; [left; auto| |right; right; auto].
      rewrite Hpend in Hp. apply elem_of_app in Hp as [Hp|Hp]; [left; auto|].
      apply elem_of_cons in Hp as [?|Hp]; [done|]. right. by left.
  - intros id Hid. assert (id < n); [|lia]. apply H6. rewrite Hpend. apply elem_of_app. right. by right.
Qed.

(* when nothing is pending and nothing is running, the order list is the whole enumeration *)
Lemma GI_chain n vl ord l1 x l2 : GI n vl ord [] [] → ord = l1 ++ x :: l2 →
  map (λ id, rk (vl id)) (x :: l2) = seq (rk (vl x)) (length C - rk (vl x)).
Proof.
  intros HG. revert l1 x. induction l2 as [|u l2 IH]; intros l1 x Hord.
  - pose proof (GI_nodup _ _ _ _ _ HG) as Hnd. rewrite Hord in Hnd.
    assert (Hx1 : x ∉ l1). { apply NoDup_app in Hnd as (_ & H & _). intros Hi. apply (H x Hi). by left. }
    assert (Hx : x ∈ ord). { rewrite Hord. apply elem_of_app. right. by left. }
    destruct (G_closed _ _ _ _ _ HG x Hx) as [[Hc|(u & Hu & _)]|[Hp|Ho]].
    + cbn. replace (length C - rk (vl x)) with 1 by lia. done.
    + rewrite Hord, next_in_split in Hu by done. done.
    + by apply elem_of_nil in Hp.
    + by apply elem_of_nil in Ho.
  - pose proof (GI_nodup _ _ _ _ _ HG) as Hnd. rewrite Hord in Hnd.
    assert (Hx1 : x ∉ l1). { apply NoDup_app in Hnd as (_ & H & _). intros Hi. apply (H x Hi). by left. }
    assert (Hx : x ∈ ord). { rewrite Hord. apply elem_of_app. right. by left. }
    assert (Hu : u ∈ ord). { rewrite Hord. apply elem_of_app. right. right. by left. }
    assert (HuC : vl u ∈ C). { apply (G_vals _ _ _ _ _ HG). by apply (G_elems _ _ _ _ _ HG). }
    pose proof (rank_lt_length C _ HuC) as Hulen.
    pose proof (G_sorted _ _ _ _ _ HG) as Hs. rewrite Hord in Hs. apply (incr_next (λ id, rk (vl id))) in Hs.
    assert (Hsu : rk (vl u) = S (rk (vl x))).
    { destruct (G_closed _ _ _ _ _ HG x Hx) as [[Hc|(u' & Hu' & Hr)]|[Hp|Ho]].
      - lia.
      - rewrite Hord, next_in_split in Hu' by done. cbn in Hu'. by inversion Hu'; subst.
      - by apply elem_of_nil in Hp.
      - by apply elem_of_nil in Ho. }
    specialize (IH (l1 ++ [x]) u). rewrite <-app_assoc in IH. specialize (IH Hord).
    change (map (λ id, rk (vl id)) (x :: u :: l2)) with (rk (vl x) :: map (λ id, rk (vl id)) (u :: l2)).
    rewrite IH, Hsu.
    replace (length C - rk (vl x)) with (S (length C - S (rk (vl x)))) by lia. done.
Qed.

Lemma GI_final n vl ord : GI n vl ord [] [] → 0 < n → map vl ord = C.
Proof.
  intros HG Hn.
  assert (H0 : 0 ∈ ord) by by apply (G_elems _ _ _ _ _ HG).
  destruct ord as [|x l2] eqn:Eo; [by apply elem_of_nil in H0|].
  pose proof (GI_chain _ _ _ [] x l2 HG eq_refl) as Hch.
  rewrite (G_head _ _ _ _ _ HG x l2 eq_refl), Nat.sub_0_r in Hch.
  apply list_eq. intros i.
  rewrite list_lookup_fmap.
  destruct ((x :: l2) !! i) as [id|] eqn:Ei; cbn.
  - assert (Hr : map (λ id, rk (vl id)) (x :: l2) !! i = Some (rk (vl id))) by (by rewrite list_lookup_fmap, Ei).
    rewrite Hch in Hr. apply lookup_seq in Hr as [Hr _]. cbn in Hr. subst i.
    symmetry. apply rank_lookup. apply (G_vals _ _ _ _ _ HG). apply (G_elems _ _ _ _ _ HG). by eapply elem_of_list_lookup_2.
  - apply lookup_ge_None in Ei. symmetry. apply lookup_ge_None.
    assert (length (map (λ id, rk (vl id)) (x :: l2)) = length C) by (by rewrite Hch, seq_length).
    rewrite map_length in H. lia.
Qed.
End ginv.
