(* C14: obligations about the generated return expressions (gen/Gen_hp.v, rewritten from /repo's source on every run) *)
From Coq Require Import ZArith QArith List.
Import ListNotations.
From KT Require Import HpIR Gen_hp.
Local Open Scope Q_scope.

Lemma int_nostep_clamped : all_clamped (path int_p2v GStepNone) = true.
Proof. vm_compute. reflexivity. Qed.
Lemma float_nostep_clamped : all_clamped (path float_p2v GStepNone) = true.
Proof. vm_compute. reflexivity. Qed.
Lemma float_step_clamped : all_clamped (path float_p2v GStepSome) = true.
Proof. vm_compute. reflexivity. Qed.
(* every path is accounted for: the function returns under `step is None` and under `step is not None`, nowhere else *)
Lemma int_paths_complete : map fst int_p2v = [GStepNone; GStepSome] /\ forallb (fun p => known (snd p)) int_p2v = true.
Proof. vm_compute. split; reflexivity. Qed.
Lemma float_paths_complete : map fst float_p2v = [GStepNone; GStepSome] /\ forallb (fun p => known (snd p)) float_p2v = true.
Proof. vm_compute. split; reflexivity. Qed.

(* whatever the float computation (libm pow for log / reverse_log sampling included) produced: *)
Theorem int_nostep_in_range rho lo hi : lo <= hi -> forall e, In e (path int_p2v GStepNone) -> lo <= eval rho lo hi e /\ eval rho lo hi e <= hi.
Proof. intros H. apply paths_in_range; [exact int_nostep_clamped|exact H]. Qed.
Theorem float_in_range rho lo hi : lo <= hi -> forall e, In e (path float_p2v GStepNone ++ path float_p2v GStepSome) -> lo <= eval rho lo hi e /\ eval rho lo hi e <= hi.
Proof.
  intros H e Hin. apply in_app_or in Hin as [Hin|Hin].
  - revert e Hin. apply paths_in_range; [exact float_nostep_clamped|exact H].
  - revert e Hin. apply paths_in_range; [exact float_step_clamped|exact H].
Qed.
