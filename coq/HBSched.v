(* C10 (H1): what populate_space tells a trial follows the schedule, and the label is the bracket the trial is placed in. *)
From Coq Require Import List ZArith Bool Lia PeanoNat.
Import ListNotations.
From KT Require Import Lifecycle HB HBInv.

Section Sched.
Context {V : Type}.
Notation trial := (trial V Z).
Variable h : hcfg.
Variable mk : hinfo -> V.
Variable vdef : V.

Theorem hpopulate_schedule (s : hstate) (ts : list trial) og id s' v :
  hpopulate h mk vdef s ts og id = (s', RUNNING, v) ->
  exists i, v = mk i /\ i_label i = i_bracket i /\
    i_epochs i = epochs h (i_bracket i) (i_round i) /\
    i_initial i = match i_round i with O => 0%Z | S r' => epochs h (i_bracket i) r' end /\
    (i_round i = 0 <-> i_parent i = None) /\
    exists br l, In br (brackets s') /\ bnum br = i_bracket i /\ nth_error (rounds br) (i_round i) = Some l /\ In id (ids l).
Proof.
  unfold hpopulate. set (brs := filter (incomplete h) (brackets s)).
  pose proof (scan_spec h ts brs []) as Hs. cbn [app length] in Hs.
  destruct (scan h ts brs 0) as [bi|bi r q|] eqn:Esc.
  - inversion Hs as [bi' br r0 rs Hn Hr Hlt| |]; subst. rewrite Hn. intros H; inversion H; subst s' v; clear H.
    eexists. split; [reflexivity|]. cbn [i_label i_bracket i_round i_epochs i_initial i_parent].
    split; [reflexivity|]. split; [reflexivity|]. split; [reflexivity|]. split; [tauto|].
    exists (add_entry 0 {| e_past := None; e_id := id |} br), (r0 ++ [{| e_past := None; e_id := id |}]).
    cbn [brackets]. split.
    + eapply nth_error_In with (n := bi). rewrite nth_upd_nth_same, Hn. reflexivity.
    + split; [reflexivity|]. unfold add_entry. cbn [rounds]. rewrite Hr. cbn. split; [reflexivity|].
      unfold ids. rewrite map_app. apply in_or_app. right. now left.
  - inversion Hs as [|bi' br r' q' prev cur Hn Hr1 Hp Hc Hlt Hin Hall|]; subst. rewrite Hn. intros H; inversion H; subst s' v; clear H.
    eexists. split; [reflexivity|]. cbn [i_label i_bracket i_round i_epochs i_initial i_parent].
    split; [reflexivity|]. split; [reflexivity|]. split; [destruct r as [|r0]; [lia|]; now rewrite Nat.sub_succ, Nat.sub_0_r|].
    split; [split; [lia|discriminate]|].
    exists (add_entry r {| e_past := Some q; e_id := id |} br), (cur ++ [{| e_past := Some q; e_id := id |}]).
    cbn [brackets]. split.
    + eapply nth_error_In with (n := bi). rewrite nth_upd_nth_same, Hn. reflexivity.
    + split; [reflexivity|]. unfold add_entry. cbn [rounds]. rewrite nth_upd_nth_same, Hc. cbn. split; [reflexivity|].
      unfold ids. rewrite map_app. apply in_or_app. right. now left.
  - destruct (Nat.eqb (cur_bracket s) 0 && match iterations h with Some n => Nat.eqb (S (cur_iter s)) n | None => false end).
    + destruct og; intros H; inversion H.
    + destruct (match cur_bracket s with O => (nbrackets h - 1, S (cur_iter s)) | S k => (k, cur_iter s) end) as [cb ci].
      intros H; inversion H; subst s' v; clear H.
      eexists. split; [reflexivity|]. cbn [i_label i_bracket i_round i_epochs i_initial i_parent].
      split; [reflexivity|]. split; [reflexivity|]. split; [reflexivity|]. split; [tauto|].
      exists (add_entry 0 {| e_past := None; e_id := id |} (new_bracket cb)), [{| e_past := None; e_id := id |}].
      cbn [brackets]. split; [apply in_or_app; right; now left|]. split; [reflexivity|]. cbn. split; [reflexivity|now left].
Qed.
End Sched.
