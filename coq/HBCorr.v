(* Correspondence instance for C10 / C11: HyperbandOracle on the lifecycle core.
   payload = what the trial is told (tuner/bracket, round, epochs, initial epoch, parent) + the objective values reported in
   the current run (one report per run in the generated histories; None = NaN). *)
From Coq Require Import List ZArith Bool PeanoNat.
Import ListNotations.
From KT Require Import Lifecycle HB.

Record hpay := { hp_info : option hinfo; hp_reps : list (option Z) }.
Definition hdef : hpay := {| hp_info := None; hp_reps := [] |}.
Definition hmk (i : hinfo) : hpay := {| hp_info := Some i; hp_reps := [] |}.
Definition hrep (x : option Z) (p : hpay) : hpay := {| hp_info := hp_info p; hp_reps := hp_reps p ++ [x] |}.
Definition hfresh (p : hpay) : hpay := {| hp_info := hp_info p; hp_reps := [] |}.
Definition hscore (p : hpay) : scored Z :=
  if existsb (fun x => match x with None => true | _ => false end) (hp_reps p) then SNaN
  else match hp_reps p with Some z :: _ => SVal z | _ => SNaN end.
Definition hkk (a : hstate) (id : tid) (v : hpay) : hstate := a.

Definition tbl (t : list (list nat)) (b r : nat) : nat := nth r (nth b t []) 0.
Definition hrun (c : cfg) (h : hcfg) (ops : list (@op hpay)) :=
  run hdef hscore (hpopulate h hmk hdef) hkk hkk (fun a => a) hfresh c (init (hinit h)) ops.

Definition info_list (p : hpay) : list Z :=
  match hp_info p with
  | None => []
  | Some i => [Z.of_nat (i_label i); Z.of_nat (i_round i); i_epochs i; i_initial i;
               match i_parent i with Some q => Z.of_nat q | None => (-1)%Z end]
  end.
Definition sorted_ins := fix ins (x : nat) (l : list nat) := match l with [] => [x] | y :: r => if Nat.leb x y then x :: l else y :: ins x r end.
Definition sortn (l : list nat) := fold_right sorted_ins [] l.
Definition hsnap (s : @ostate hstate hpay Z) :=
  (map (@t_status hpay Z) (trials s), map (@t_runs hpay Z) (trials s), ongoing s,
   (start_order s, end_order s, retryq s, sortn (tuner_ids s))).
Inductive eresp := ETrial (id : nat) (st : status) (i : list Z) | ENone | EAbort.
Definition resp_ok (r : @resp hpay) (e : eresp) : bool :=
  match r, e with
  | RTrial i st p, ETrial j st' l => Nat.eqb i j && status_eqb st st' && (fix eq (a b : list Z) := match a, b with [], [] => true | x :: a, y :: b => Z.eqb x y && eq a b | _, _ => false end) (info_list p) l
  | RNone, ENone | RAbort, EAbort => true
  | _, _ => false
  end.
Definition leqb {X} (e : X -> X -> bool) := fix go (a b : list X) := match a, b with [], [] => true | x :: a, y :: b => e x y && go a b | _, _ => false end.
Definition pe (a b : nat * nat) := Nat.eqb (fst a) (fst b) && Nat.eqb (snd a) (snd b).
Definition snap_t := (list status * list nat * list (nat * nat) * (list nat * list nat * list nat * list nat))%type.
Definition snap_ok (a b : snap_t) : bool :=
  let '(st1, ru1, og1, (so1, eo1, rq1, ti1)) := a in let '(st2, ru2, og2, (so2, eo2, rq2, ti2)) := b in
  leqb status_eqb st1 st2 && leqb Nat.eqb ru1 ru2 && leqb pe og1 og2 && leqb Nat.eqb so1 so2 && leqb Nat.eqb eo1 eo2 && leqb Nat.eqb rq1 rq2 && leqb Nat.eqb ti1 ti2.
Fixpoint first_bad (n : nat) (tr : list (@resp hpay * @ostate hstate hpay Z)) (ex : list (eresp * snap_t)) : option nat :=
  match tr, ex with
  | [], [] => None
  | (r, s) :: tr', (e, sn) :: ex' => if resp_ok r e && snap_ok (hsnap s) sn then first_bad (S n) tr' ex' else Some n
  | _, _ => Some n
  end.
Definition hcase := (cfg * hcfg * list (@op hpay) * list (eresp * snap_t))%type.
Definition check_hcase (k : hcase) : option nat := let '(c, h, ops, ex) := k in first_bad 0 (hrun c h ops) ex.
