(* Correspondence instance for C08: the write sequence of a search and the state rebuilt after a crash at write k. *)
From Coq Require Import List ZArith QArith Bool PeanoNat Uint63.
Import ListNotations.
From KT Require Import Metrics Lifecycle LifeCorr Crash.
Local Close Scope Q_scope.

Definition lwrites (mx : bool) (c : cfg) (tb : table) (ops : list lop) : list (@write table pay fv) :=
  search_writes pdef (pscore mx) tpop hk hk (fun a => a) fresh c tb ops.
Definition flat_write (w : @write table pay fv) : list Z :=
  match w with
  | WTrial id d => [1; N id; stn (d_status d)] ++ flat_score (d_score d) ++ [p_vals (d_data d)]
  | WOracle j => [2] ++ L (flat_map (fun p => [N (fst p); N (snd p)]) (j_ongoing j)) ++ L (map N (j_start j)) ++ L (map N (j_end j))
                     ++ L (map N (j_retryq j)) ++ L (map N (j_runs j))
  | WTuner => [3]
  end%Z.
Definition lrecover (mx : bool) (c : cfg) (tb : table) (ops : list lop) (k : nat) : option lstate :=
  crash_at pdef (pscore mx) tpop hk hk (fun a => a) fresh c tb ops k.
Definition flat_rec (o : option lstate) : list Z := match o with None => [0] | Some s => 1 :: flat_state s end%Z.

(* case: cfg, direction, table, ops of the uncrashed run, crash points with the expected digest of the recovered state,
   expected digests of all writes *)
Definition ccase := (cfg * bool * table * list lop * list int * list (nat * int))%type.
Definition check_ccase (x : ccase) : option nat :=
  let '(c, mx, tb, ops, wexp, ks) := x in
  match first_diff 0 (map (fun w => digest (flat_write w)) (lwrites mx c tb ops)) wexp with
  | Some n => Some n                                   (* write n differs *)
  | None =>
      let bad := filter (fun kd => negb (Uint63.eqb (digest (flat_rec (lrecover mx c tb ops (fst kd)))) (snd kd))) ks in
      match bad with [] => None | (k, _) :: _ => Some (1000 + k)%nat end    (* 1000+k: state recovered after k writes differs *)
  end.
Definition cwrite_at (x : ccase) (n : nat) : option (list Z) :=
  let '(c, mx, tb, ops, wexp, ks) := x in option_map flat_write (nth_error (lwrites mx c tb ops) n).
Definition crec_at (x : ccase) (k : nat) : list Z :=
  let '(c, mx, tb, ops, wexp, ks) := x in flat_rec (lrecover mx c tb ops k).
