(* RandomSearchOracle (and the shared sampling / de-duplication machinery of Oracle) on the lifecycle core *)
From stdpp Require Import gmap list.
From Coq Require Import ZArith.
From KT Require Import Lifecycle Space Discover.

Record tdata := { tv_space : list hp; tv_values : vals; tv_obs : list (option Z) }.
Record rstate := {
  a_osp : hps;                  (* Oracle.hyperparameters *)
  a_seed : Z;                   (* _seed_state *)
  a_tried : list vals;          (* _tried_so_far (a set; kept duplicate-free) *)
  a_idhash : list (nat * vals); (* _id_to_hash *)
  a_k : nat                     (* number of unseeded draws consumed so far *)
}.

Section Rand.
Variable samp : nat -> Z -> value.       (* hp.random_sample(seed) for the hp at that index of the oracle space *)
Variable draw : nat -> hp -> value.      (* unseeded random_sample() *)
Variables allow tune : bool.
Variable max_collisions : nat.           (* 20 *)

Definition hash_of (v : vals) : vals := v.   (* sha256 of the sorted k=v string, assumed injective *)

(* one pass of the sampling loop: fresh container, register each entry, sample the active ones *)
Fixpoint sample_pass (sp : list hp) (idx : nat) (s : hps) (seed : Z) : hps * Z :=
  match sp with
  | [] => (s, seed)
  | h :: rest =>
      let s1 := match register s h true with Ok (s', _) => s' | Err _ => s end in
      if is_active s1 h then
        sample_pass rest (S idx) (set_values s1 (<[h_name h := samp idx seed]> (s_values s1))) (seed + 1)
      else sample_pass rest (S idx) s1 seed
  end.

Definition duplicate (tried : list vals) (v : vals) : bool := bool_decide (hash_of v ∈ tried).

Fixpoint random_values (fuel : nat) (sp : list hp) (tried : list vals) (seed : Z) (collisions : nat) : option vals * Z :=
  match fuel with
  | O => (None, seed)
  | S fuel =>
      let '(s, seed') := sample_pass sp 0 empty_hps seed in
      (* a later entry of the same name may have overwritten the value an earlier entry's condition was checked against:
         ensure_active_values drops what became inactive before the values are looked up among the tried ones
         (ensure_active_values fills with defaults since the repair of F10/F17: the draw counter is not advanced here) *)
      let v := fst (ensure_go draw sp sp (s_values s) 0) in
      if duplicate tried v then
        if Nat.ltb max_collisions (S collisions) then (None, seed')
        else random_values fuel sp tried seed' (S collisions)
      else (Some v, seed')
  end.

(* _record_values after ensure_active_values has been applied to the trial *)
Definition record (a : rstate) (id : nat) (v : vals) (k' : nat) : rstate :=
  let hnew := hash_of v in
  let tried1 := if bool_decide (hnew ∈ a_tried a) then a_tried a else a_tried a ++ [hnew] in
  let old := (list_to_map (a_idhash a) : gmap nat vals) !! id in
  let '(tried2, idh) :=
    if bool_decide (old = Some hnew) then (tried1, a_idhash a)
    else (match old with
          | Some ho => filter (fun x => negb (bool_decide (x = ho))) tried1
          | None => tried1
          end, (id, hnew) :: a_idhash a) in
  {| a_osp := a_osp a; a_seed := a_seed a; a_tried := tried2; a_idhash := idh; a_k := k' |}.

Definition rpopulate (a : rstate) (ts : list (trial tdata unit)) (ongoing_nonempty : bool) (id : nat) : rstate * status * tdata :=
  let '(ov, seed') := random_values (S (S max_collisions)) (s_space (a_osp a)) (a_tried a) (a_seed a) 0 in
  let a1 := {| a_osp := a_osp a; a_seed := seed'; a_tried := a_tried a; a_idhash := a_idhash a; a_k := a_k a |} in
  match ov with
  | None => (a1, STOPPED, {| tv_space := []; tv_values := ∅; tv_obs := [] |})
  | Some v =>
      let '(v', k') := ensure_go draw (s_space (a_osp a)) (s_space (a_osp a)) v (a_k a) in
      (record a1 id v' k', RUNNING, {| tv_space := s_space (a_osp a); tv_values := v'; tv_obs := [] |})
  end.

(* the part of end_trial that touches the algorithm state: update_space, then _record_values *)
Definition rhook_end (a : rstate) (id : nat) (d : tdata) : rstate :=
  let osp' := match update_space allow tune (a_osp a) {| s_scopes := []; s_conds := []; s_space := tv_space d; s_values := tv_values d; s_active := []; s_inactive := [] |} with
              | UsOk o => o | UsNotAllowed => a_osp a end in
  let a1 := {| a_osp := osp'; a_seed := a_seed a; a_tried := a_tried a; a_idhash := a_idhash a; a_k := a_k a |} in
  record a1 id (tv_values d) (a_k a).

Definition rscore (d : tdata) : scored unit :=
  if existsb (fun x => match x with None => true | _ => false end) (tv_obs d) then SNaN else SVal tt.

(* operations as the harness issues them *)
Inductive rop :=
| RCreate (tu : nat)
| RUpdate (id : nat) (x : option Z)
| REnd (id : nat) (st : endst) (sp : list hp) (v : list (name * value))   (* the tuner's copy of the trial *)
| RReload.

Definition vdef : tdata := {| tv_space := []; tv_values := ∅; tv_obs := [] |}.
(* create_trial on a queued trial: same space and values, fresh metrics *)
Definition rfresh (d : tdata) : tdata := {| tv_space := tv_space d; tv_values := tv_values d; tv_obs := [] |}.

Definition rstep (c : cfg) (s : @ostate rstate tdata unit) (o : rop) : @ostate rstate tdata unit * @resp tdata :=
  match o with
  | RCreate tu => step vdef rscore rpopulate rhook_end rhook_end (fun a => a) rfresh c s (Create tu)
  | RUpdate id x => step vdef rscore rpopulate rhook_end rhook_end (fun a => a) rfresh c s
                      (Update id (fun d => {| tv_space := tv_space d; tv_values := tv_values d; tv_obs := tv_obs d ++ [x] |}))
  | REnd id st sp v =>
      let k := a_k (algo s) in
      let '(v', k') := ensure_go draw sp sp (list_to_map v) k in
      let f := fun d => {| tv_space := sp; tv_values := v'; tv_obs := tv_obs d |} in
      let '(s1, r) := step vdef rscore rpopulate rhook_end rhook_end (fun a => a) rfresh c s (End id st f) in
      (* account for the unseeded draws of this call *)
      ({| trials := trials s1; ongoing := ongoing s1; start_order := start_order s1; end_order := end_order s1;
          retryq := retryq s1; tuner_ids := tuner_ids s1; disk := disk s1;
          algo := {| a_osp := a_osp (algo s1); a_seed := a_seed (algo s1); a_tried := a_tried (algo s1);
                     a_idhash := a_idhash (algo s1); a_k := match r with RRejected => k | _ => k' end |} |}, r)
  | RReload => step vdef rscore rpopulate rhook_end rhook_end (fun a => a) rfresh c s Reload
  end.

Fixpoint rrun (c : cfg) (s : @ostate rstate tdata unit) (ops : list rop) :=
  match ops with [] => [] | o :: r => let '(s', rs) := rstep c s o in (rs, s') :: rrun c s' r end.
End Rand.
