(* C11 / C19: the sequential search loop terminates. With a trial budget N, retry limit R and a populate_space that
   answers RUNNING or STOPPED when nothing is in flight (it may answer IDLE only while trials are running elsewhere -
   which never happens for one worker), BaseTuner.search performs at most (R+1)*N trial runs: run with fuel
   (R+1)*N + 1 it never runs out of fuel, for every script of run_trial outcomes. *)
From Coq Require Import List ZArith Bool Lia PeanoNat.
Import ListNotations.
From KT Require Import Lifecycle LInv LProps Tuner.

Section Term.
Context {A V Sc : Type}.
Variable vdef : V.
Notation trial := (trial V Sc).
Variable score_fn : V -> scored Sc.
Variable populate : A -> list trial -> bool -> tid -> A * status * V.
Variable hook_end hook_end_abort : A -> tid -> V -> A.
Variable hook_reload : A -> A.
Variable reissue : V -> V.
Notation ost := (@ostate A V Sc).
Notation stepf := (step vdef score_fn populate hook_end hook_end_abort hook_reload reissue).
Notation searchf := (search vdef score_fn populate hook_end hook_end_abort reissue).

Hypothesis pop_ok : forall a ts id, snd (fst (populate a ts false id)) = RUNNING \/ snd (fst (populate a ts false id)) = STOPPED.

Definition truns (ts : list trial) : nat := fold_right (fun t acc => t_runs t + acc) 0 ts.
Lemma truns_total (s : ost) : total_runs s = truns (trials s). Proof. reflexivity. Qed.

Lemma truns_app ts t : truns (ts ++ [t]) = truns ts + t_runs t.
Proof. induction ts as [|x r IH]; simpl; [lia|]. rewrite IH. lia. Qed.
Lemma truns_upd ts id (f : trial -> trial) t0 :
  nth_error ts id = Some t0 -> truns (upd id f ts) + t_runs t0 = truns ts + t_runs (f t0).
Proof.
  revert id. induction ts as [|x r IH]; intros [|id] H; simpl in *; try discriminate.
  - inversion H; subst. lia.
  - specialize (IH id H). lia.
Qed.
Lemma truns_upd_none ts id (f : trial -> trial) : nth_error ts id = None -> upd id f ts = ts.
Proof. revert id. induction ts as [|x r IH]; intros [|id] H; simpl in *; try discriminate; auto. now rewrite IH. Qed.

Record Head (c : cfg) (n : nat) (s : ost) : Prop := {
  H_inv : Inv s; H_rinv : RInv c s; H_idle : ongoing s = []; H_len : length (trials s) <= n }.

(* one create from the loop head *)
Lemma head_create c n (s : ost) :
  abort_early c = false -> max_trials c = Some n -> Head c n s ->
  let s1 := fst (do_create vdef populate reissue c s me) in
  let v := create_view (snd (do_create vdef populate reissue c s me)) in
  Inv s1 /\ RInv c s1 /\ length (trials s1) <= n /\ truns (trials s1) = truns (trials s) /\
  (snd v = STOPPED \/ (snd v = RUNNING /\ ongoing s1 = [(me, fst v)])).
Proof.
  intros Hab Hn [HI HR Hid Hl].
  pose proof (inv_create vdef populate reissue c s me HI) as HI1.
  pose proof (rinv_step vdef score_fn populate hook_end hook_end_abort hook_reload reissue c s (Create me) Hab HI HR) as HR1.
  pose proof (C02_budget_step vdef score_fn populate hook_end hook_end_abort hook_reload reissue c n s (Create me) Hn Hl) as Hl1.
  cbn [step] in HR1, Hl1. cbv zeta. split; [exact HI1|]. split; [exact HR1|]. split; [exact Hl1|].
  unfold do_create. rewrite Hid. cbn [alookup].
  destruct (rev (retryq s)) as [|idr rq'] eqn:Erq.
  - rewrite Hn. cbn [length Nat.eqb negb].
    destruct (Nat.leb n (length (trials s))); [cbn; split; [reflexivity|left; reflexivity]|].
    pose proof (pop_ok (algo s) (trials s) (length (trials s))) as Hp.
    destruct (populate (algo s) (trials s) false (length (trials s))) as [[a' st] v0]. cbn [fst snd] in Hp.
    destruct Hp as [-> | ->]; cbn [fst snd trials ongoing create_view app].
    + split; [rewrite truns_app; cbn; lia|]. right. split; reflexivity.
    + split; [reflexivity|]. left; reflexivity.
  - cbn [fst snd trials ongoing create_view app]. split; [|right; split; reflexivity].
    destruct (nth_error (trials s) idr) as [t0|] eqn:Et.
    + pose proof (truns_upd (trials s) idr (reissue_trial reissue) t0 Et) as H. cbn [reissue_trial t_runs] in H. lia.
    + now rewrite truns_upd_none.
Qed.

Lemma head_update (s : ost) id f : ongoing (fst (do_update s id f)) = ongoing s /\ truns (trials (fst (do_update s id f))) = truns (trials s).
Proof.
  unfold do_update. destruct (nth_error (trials s) id) as [t|] eqn:Et; cbn [fst ongoing trials]; [|auto].
  split; [reflexivity|]. pose proof (truns_upd (trials s) id (fun _ => map_data f t) t Et) as H. cbn [map_data t_runs] in H. lia.
Qed.

Lemma head_end c n (s : ost) id es f :
  abort_early c = false -> max_trials c = Some n ->
  Inv s -> RInv c s -> length (trials s) <= n -> ongoing s = [(me, id)] ->
  Head c n (fst (do_end score_fn hook_end hook_end_abort c s id es f)) /\
  truns (trials (fst (do_end score_fn hook_end hook_end_abort c s id es f))) = S (truns (trials s)).
Proof.
  intros Hab Hn HI HR Hl Hon.
  pose proof (inv_end score_fn hook_end hook_end_abort c s id es f Hab HI) as HI1.
  pose proof (rinv_step vdef score_fn populate hook_end hook_end_abort hook_reload reissue c s (End id es f) Hab HI HR) as HR1.
  pose proof (C02_budget_step vdef score_fn populate hook_end hook_end_abort hook_reload reissue c n s (End id es f) Hn Hl) as Hl1.
  cbn [step] in HR1, Hl1.
  assert (Hlt : exists t0, nth_error (trials s) id = Some t0).
  { assert (Hin : In id (onids s)) by (unfold onids; rewrite Hon; now left).
    pose proof (I_on_run _ HI _ Hin) as Hr. unfold stat in Hr. destruct (nth_error (trials s) id) as [t0|]; [eauto|discriminate]. }
  destruct Hlt as (t0 & Et).
  assert (Hgoal : ongoing (fst (do_end score_fn hook_end hook_end_abort c s id es f)) = [] /\
                  truns (trials (fst (do_end score_fn hook_end hook_end_abort c s id es f))) = S (truns (trials s))).
  { unfold do_end. rewrite Hon. cbn [existsb snd]. rewrite Nat.eqb_refl. cbn [orb negb]. rewrite Et, Hab.
    assert (Hu : forall t', t_runs t' = S (t_runs t0) -> truns (upd id (fun _ => t') (trials s)) = S (truns (trials s))).
    { intros t' Hr. pose proof (truns_upd (trials s) id (fun _ => t') t0 Et) as H. lia. }
    repeat match goal with
    | |- context [match ?X with ECompleted => _ | EInvalid => _ | EFailed => _ end] => destruct X
    | |- context [match score_fn ?x with SNaN => _ | SVal _ => _ end] => destruct (score_fn x)
    | |- context [Nat.leb ?a ?b] => destruct (Nat.leb a b)
    | |- context [if streak ?a ?b ?d ?e then _ else _] => destruct (streak a b d e)
    end; cbn [fst ongoing trials remove_first_by_id]; rewrite Nat.eqb_refl; (split; [reflexivity|apply Hu; reflexivity]). }
  destruct Hgoal as [Hg1 Hg2]. split; [constructor; assumption|exact Hg2].
Qed.

Theorem search_terminates c n fuel (s : ost) script :
  abort_early c = false -> max_trials c = Some n -> Head c n s ->
  n * S (max_retries c) - truns (trials s) < fuel ->
  snd (fst (searchf fuel c s script)) <> OutOfFuel.
Proof.
  intros Hab Hn. revert s script. induction fuel as [|fuel IH]; intros s script HH Hf; [lia|].
  cbn [search].
  pose proof (head_create c n s Hab Hn HH) as Hc. cbv zeta in Hc.
  destruct (do_create vdef populate reissue c s me) as [s1 r]. cbn [fst snd] in Hc.
  destruct (create_view r) as [id st]. cbn [fst snd] in Hc.
  destruct Hc as (HI1 & HR1 & Hl1 & Ht1 & [-> | [-> Hon1]]); [cbn; discriminate|].
  destruct script as [|a rest]; [cbn; discriminate|].
  destruct (end_of a) as [es|] eqn:Ee; [|destruct a; cbn; discriminate].
  set (s2 := match a with AReturn f => fst (do_update s1 id f) | _ => s1 end).
  assert (H2 : Inv s2 /\ RInv c s2 /\ length (trials s2) <= n /\ ongoing s2 = [(me, id)] /\ truns (trials s2) = truns (trials s1)).
  { subst s2. destruct a as [f| | | |];
      try (split; [exact HI1|split; [exact HR1|split; [exact Hl1|split; [exact Hon1|reflexivity]]]]).
    pose proof (inv_update s1 id f HI1) as Hi.
    pose proof (rinv_step vdef score_fn populate hook_end hook_end_abort hook_reload reissue c s1 (Update id f) Hab HI1 HR1) as Hr.
    pose proof (C02_budget_step vdef score_fn populate hook_end hook_end_abort hook_reload reissue c n s1 (Update id f) Hn Hl1) as Hl.
    cbn [step] in Hr, Hl. destruct (head_update s1 id f) as [Ho Ht]. rewrite Ho.
    split; [exact Hi|split; [exact Hr|split; [exact Hl|split; [exact Hon1|exact Ht]]]]. }
  destruct H2 as (HI2 & HR2 & Hl2 & Hon2 & Ht2).
  pose proof (head_end c n s2 id es (fun v => v) Hab Hn HI2 HR2 Hl2 Hon2) as [HH3 Ht3].
  destruct (do_end score_fn hook_end hook_end_abort c s2 id es (fun v => v)) as [s3 r3]. cbn [fst] in HH3, Ht3.
  assert (Hb : truns (trials s3) <= n * S (max_retries c)).
  { pose proof (total_runs_bound c s3 (R_all _ _ (H_rinv _ _ _ HH3))) as Hb. rewrite truns_total in Hb.
    pose proof (H_len _ _ _ HH3). nia. }
  assert (Hf3 : n * S (max_retries c) - truns (trials s3) < fuel) by lia.
  specialize (IH s3 rest HH3 Hf3).
  destruct r3; try (destruct (searchf fuel c s3 rest) as [[[s' l] o] lft]; exact IH).
  cbn. discriminate.
Qed.
End Term.
