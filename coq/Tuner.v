(* BaseTuner.search over the lifecycle core, with a scripted run_trial (C19, C11).
   One worker (tuner id 0). An attempt is what run_trial does for one handed-out trial. *)
From Coq Require Import List ZArith Bool Lia PeanoNat.
Import ListNotations.
From KT Require Import Lifecycle.

Lemma length_upd' {X} n (f : X -> X) l : length (upd n f l) = length l.
Proof. revert n. induction l as [|x r IH]; intros [|n]; simpl; auto. Qed.
Lemma nth_upd_same' {X} n (f : X -> X) l : nth_error (upd n f l) n = option_map f (nth_error l n).
Proof. revert n. induction l as [|x r IH]; intros [|n]; simpl; auto. Qed.

Section Tuner.
Context {A V Sc : Type}.
Variable vdef : V.
Notation trial := (trial V Sc).
Variable score_fn : V -> scored Sc.
Variable populate : A -> list trial -> bool -> tid -> A * status * V.
Variable hook_end hook_end_abort : A -> tid -> V -> A.
Variable hook_reload : A -> A.
Variable reissue : V -> V.
Notation ost := (@ostate A V Sc).

Inductive attempt :=
| AReturn (f : V -> V)     (* returned results: reported with one update_trial (f), then ended COMPLETED *)
| ARaise                   (* an ordinary exception: INVALID *)
| ARaiseFailed             (* FailedTrialError: FAILED *)
| AFatal                   (* a FatalError subclass: propagates, the trial is not ended *)
| AInterrupt.              (* KeyboardInterrupt / process killed: propagates, the trial is not ended *)

Inductive outcome := Done | Fatal | Interrupted | Aborted | OutOfFuel | ScriptEnd.
Inductive ev :=
| EvResp (id : tid) (st : status)
| EvRun (id : tid)
| EvEnd (id : tid) (es : endst).

Definition me : tuner := 0.

Definition end_of (a : attempt) : option endst :=
  match a with AReturn _ => Some ECompleted | ARaise => Some EInvalid | ARaiseFailed => Some EFailed | _ => None end.

Definition create_view (r : @resp V) : tid * status :=
  match r with RTrial id st _ => (id, st) | _ => (0, STOPPED) end.
(* create_trial always answers with a trial object; the default above is never used *)
Lemma create_is_trial c (s : ost) tu : exists id st v, snd (do_create vdef populate reissue c s tu) = RTrial id st v.
Proof.
  unfold do_create. destruct (alookup tu (ongoing s)); [destruct (trial_view vdef (trials s) t); simpl; eauto|].
  destruct (rev (retryq s)); [|simpl; eauto].
  match goal with |- context [match ?X with (_, _) => _ end] => destruct X as [[a' st] v] end.
  destruct st; simpl; eauto.
Qed.

Fixpoint search (fuel : nat) (c : cfg) (s : ost) (script : list attempt) : ost * list ev * outcome * list attempt :=
  match fuel with
  | O => (s, [], OutOfFuel, script)
  | S fuel' =>
    let '(s1, r) := do_create vdef populate reissue c s me in
    let '(id, st) := create_view r in
    match st with
    | STOPPED => (s1, [EvResp id STOPPED], Done, script)
    | RUNNING =>
        match script with
        | [] => (s1, [EvResp id RUNNING], ScriptEnd, [])
        | a :: rest =>
            match end_of a with
            | None => (s1, [EvResp id RUNNING; EvRun id], match a with AFatal => Fatal | _ => Interrupted end, rest)
            | Some es =>
                let s2 := match a with AReturn f => fst (do_update s1 id f) | _ => s1 end in
                let '(s3, r3) := do_end score_fn hook_end hook_end_abort c s2 id es (fun v => v) in
                match r3 with
                | RAbort => (s3, [EvResp id RUNNING; EvRun id; EvEnd id es], Aborted, rest)
                | _ => let '(s', l, o, lft) := search fuel' c s3 rest in
                       (s', EvResp id RUNNING :: EvRun id :: EvEnd id es :: l, o, lft)
                end
            end
        end
    | _ =>       (* IDLE (or anything else): ask again *)
        let '(s', l, o, lft) := search fuel' c s1 script in (s', EvResp id st :: l, o, lft)
    end
  end.

Definition is_nil {X} (l : list X) : bool := match l with [] => true | _ => false end.
Definition outcome_eqb (a b : outcome) : bool :=
  match a, b with
  | Done, Done | Fatal, Fatal | Interrupted, Interrupted | Aborted, Aborted | OutOfFuel, OutOfFuel | ScriptEnd, ScriptEnd => true
  | _, _ => false end.
Definition endst_eqb (a b : endst) : bool :=
  match a, b with ECompleted, ECompleted | EInvalid, EInvalid | EFailed, EFailed => true | _, _ => false end.

(* the log of one search is well formed: every RUNNING response is followed by run_trial on that trial and then by
   exactly one end_trial of that trial with the status mapped from the attempt's behaviour (returned -> COMPLETED,
   ordinary exception -> INVALID, FailedTrialError -> FAILED) - unless the attempt was fatal or interrupted, in which case
   the log stops after the run with no end_trial; run_trial is called for RUNNING responses only; the loop leaves on STOPPED
   and asks again on IDLE; after an abort error nothing more happens *)
Fixpoint check_log (l : list ev) (script : list attempt) (o : outcome) : bool :=
  match l with
  | [] => outcome_eqb o OutOfFuel
  | EvResp id st :: rest =>
      match st with
      | STOPPED => is_nil rest && outcome_eqb o Done
      | RUNNING =>
          match script with
          | [] => is_nil rest && outcome_eqb o ScriptEnd
          | a :: script' =>
              match rest with
              | EvRun id' :: rest' =>
                  Nat.eqb id' id &&
                  match end_of a with
                  | None => is_nil rest' && outcome_eqb o (match a with AFatal => Fatal | _ => Interrupted end)
                  | Some es =>
                      match rest' with
                      | EvEnd id'' es' :: rest'' =>
                          Nat.eqb id'' id && endst_eqb es' es &&
                          ((is_nil rest'' && outcome_eqb o Aborted) || check_log rest'' script' o)
                      | _ => false
                      end
                  end
              | _ => false
              end
          end
      | _ => check_log rest script o
      end
  | _ => false
  end.

Theorem search_log_wf fuel c (s : ost) script :
  check_log (snd (fst (fst (search fuel c s script)))) script (snd (fst (search fuel c s script))) = true.
Proof.
  revert s script. induction fuel as [|fuel IH]; intros s script; [reflexivity|].
  cbn [search]. destruct (do_create vdef populate reissue c s me) as [s1 r].
  destruct (create_view r) as [id st].
  destruct st; try (specialize (IH s1 script); destruct (search fuel c s1 script) as [[[s' l] o] lft]; exact IH);
    [|reflexivity].
  destruct script as [|a rest]; [reflexivity|].
  destruct (end_of a) as [es|] eqn:Ee.
  - set (s2 := match a with AReturn f => fst (do_update s1 id f) | _ => s1 end).
    destruct (do_end score_fn hook_end hook_end_abort c s2 id es (fun v => v)) as [s3 r3].
    specialize (IH s3 rest).
    destruct r3; try (destruct (search fuel c s3 rest) as [[[s' l] o] lft]; cbn [fst snd check_log] in *;
                      rewrite Ee, Nat.eqb_refl; destruct es; cbn [endst_eqb andb]; rewrite IH; apply orb_true_r).
    cbn [fst snd check_log]. rewrite Ee, Nat.eqb_refl. destruct es; reflexivity.
  - cbn [fst snd check_log]. rewrite Ee, Nat.eqb_refl. destruct a; try discriminate; reflexivity.
Qed.

(* restart after an interruption: BaseTuner.__init__ reloads (tuner file present), the interrupted trial - the only
   ongoing one for a single worker - is queued and is the first trial handed out again, with its id, with the payload
   stored in its trial file (re-issued), and without consuming budget *)
Theorem resume_reissues_interrupted c (s : ost) id :
  ongoing s = [(me, id)] ->
  exists s'' v,
    do_create vdef populate reissue c (fst (do_reload hook_reload s)) me = (s'', RTrial id RUNNING v) /\
    length (trials s'') = length (trials (fst (do_reload hook_reload s))) /\
    (forall t, nth_error (trials (fst (do_reload hook_reload s))) id = Some t -> v = reissue (t_data t)) /\
    In (me, id) (ongoing s'').
Proof.
  intros Hon. unfold do_reload. cbn [fst]. unfold do_create. cbn [ongoing alookup retryq trials].
  rewrite Hon. cbn [map snd]. rewrite rev_app_distr. cbn [rev app].
  eexists. eexists. split; [reflexivity|]. cbn [trials ongoing]. split; [apply length_upd'|]. split.
  - intros t Ht. unfold trial_view. rewrite nth_upd_same', Ht. reflexivity.
  - now left.
Qed.
End Tuner.
