From stdpp Require Import gmap list.
From KT Require Import Lifecycle LInv G3 GR G4.
Set Default Proof Using "All".

(* ---------- NoDup of the enumeration ---------- *)
Lemma NoDup_flat_map {A B} (g : A → list B) xs :
  NoDup xs → (∀ x, x ∈ xs → NoDup (g x)) → (∀ x y a, x ∈ xs → y ∈ xs → x ≠ y → a ∈ g x → a ∈ g y → False) →
  NoDup (flat_map g xs).
Proof.
  induction xs as [|x xs IH]; intros Hnd Hg Hdis; cbn; [constructor|].
  apply NoDup_cons in Hnd as [Hx Hnd]. apply NoDup_app. split_and!.
  - apply Hg. by left.
  - intros a Ha Hin. apply elem_of_list_In, in_flat_map in Hin as (y & Hy & Hay).
    apply elem_of_list_In in Hy, Hay. eapply (Hdis x y a); [by left|by right| |done|done]. by intros ->.
  - apply IH; [done| |].
    + intros y Hy. apply Hg. by right.
    + intros y z a Hy Hz. apply Hdis; by right.
Qed.

Lemma combos_NoDup sp : ∀ pre dn, wo pre sp → NoDup (combos sp dn).
Proof.
  induction sp as [|h rest IH]; intros pre dn Hwo; cbn; [apply NoDup_singleton|].
  pose proof (wo_names _ _ Hwo) as [_ Hnd]. cbn in Hnd. apply NoDup_cons in Hnd as [Hhn _].
  destruct Hwo as (_ & _ & _ & Hndv & Hwo).
  destruct (active dn h); [|by eapply IH].
  apply NoDup_flat_map; [done| |].
  - intros x _. by eapply IH.
  - intros x y a _ _ Hxy Hax Hay.
    pose proof (combos_lookup_head _ _ _ _ _ Hhn Hax) as H1.
    pose proof (combos_lookup_head _ _ _ _ _ Hhn Hay) as H2. congruence.
Qed.

(* ---------- rank ---------- *)
Section rank.
Context {X : Type} `{EqDecision X}.
Fixpoint rank (v : X) (l : list X) : nat :=
  match l with [] => 0 | x :: r => if decide (x = v) then 0 else S (rank v r) end.

Lemma rank_split l1 v l2 : v ∉ l1 → rank v (l1 ++ v :: l2) = length l1.
Proof.
  induction l1 as [|x r IH]; intros Hv; cbn.
  - by rewrite decide_True.
  - rewrite decide_False; [f_equal; apply IH|]; intros ?; apply Hv; [by right|subst; by left].
Qed.

Lemma rank_lookup v l : v ∈ l → l !! rank v l = Some v.
Proof.
  induction l as [|x r IH]; intros Hv; [by apply elem_of_nil in Hv|]. cbn.
  destruct (decide (x = v)) as [->|Hne]; [done|]. cbn. apply IH. apply elem_of_cons in Hv as [?|?]; done.
Qed.

Lemma rank_before l a b : NoDup l → before l a b → rank a l < rank b l.
Proof.
  intros Hnd (l1 & l2 & l3 & ->).
  assert (Ha : a ∉ l1). { apply NoDup_app in Hnd as (_ & H & _). intros Hin. apply (H a Hin). by left. }
  rewrite (rank_split l1 a) by done.
  replace (l1 ++ a :: l2 ++ b :: l3) with ((l1 ++ a :: l2) ++ b :: l3) by (by rewrite <-app_assoc).
  rewrite rank_split.
  - rewrite app_length. cbn. lia.
  - replace (l1 ++ a :: l2 ++ b :: l3) with ((l1 ++ a :: l2) ++ b :: l3) in Hnd by (by rewrite <-app_assoc).
    apply NoDup_app in Hnd as (_ & H & _). intros Hin. apply (H b Hin). by left.
Qed.

Lemma rank_succ l l1 a b l2 : NoDup l → l = l1 ++ a :: b :: l2 → rank b l = S (rank a l).
Proof.
  intros Hnd ->.
  assert (Ha : a ∉ l1). { apply NoDup_app in Hnd as (_ & H & _). intros Hin. apply (H a Hin). by left. }
  rewrite (rank_split l1 a) by done.
  replace (l1 ++ a :: b :: l2) with ((l1 ++ [a]) ++ b :: l2) by (by rewrite <-app_assoc).
  rewrite rank_split; [rewrite app_length; cbn; lia|].
  replace (l1 ++ a :: b :: l2) with ((l1 ++ [a]) ++ b :: l2) in Hnd by (by rewrite <-app_assoc).
  apply NoDup_app in Hnd as (_ & H & _). intros Hin. apply (H b Hin). by left.
Qed.

Lemma rank_last l l1 a : NoDup l → l = l1 ++ [a] → S (rank a l) = length l.
Proof.
  intros Hnd ->.
  assert (Ha : a ∉ l1). { apply NoDup_app in Hnd as (_ & H & _). intros Hin. apply (H a Hin). by left. }
  rewrite rank_split by done. rewrite app_length. cbn. lia.
Qed.

Lemma rank_inj l a b : a ∈ l → b ∈ l → rank a l = rank b l → a = b.
Proof. intros Ha Hb Heq. apply rank_lookup in Ha, Hb. rewrite Heq in Ha. congruence. Qed.

Lemma rank_lt_length l a : a ∈ l → rank a l < length l.
Proof. intros Ha. apply rank_lookup in Ha. by eapply lookup_lt_Some. Qed.
End rank.

Section grid.
Variable sp : list hp.
Hypothesis Hwo : wo [] sp.
Notation V := (gmap positive positive).
Notation C := (combos sp ∅).
Notation rk v := (rank v C).

Lemma C_nodup : NoDup C. Proof. by eapply combos_NoDup. Qed.
Lemma C_nonempty : C ≠ []. Proof. by eapply combos_nonempty. Qed.

Lemma split_cases (v : V) : v ∈ C → (∃ l1, C = l1 ++ [v]) ∨ (∃ w l1 l2, C = l1 ++ v :: w :: l2).
Proof.
  intros (l1 & l2 & Heq)%elem_of_list_split. destruct l2 as [|w l2]; [left|right]; eauto.
Qed.

Lemma succ_none v : v ∈ C → next_comb sp v = None → S (rk v) = length C.
Proof.
  intros Hv Hn. destruct (split_cases v Hv) as [(l1 & Heq)|(w & l1 & l2 & Heq)].
  - by eapply rank_last; [apply C_nodup|].
  - destruct (next_comb_successor sp Hwo) as [_ Hs]. rewrite (Hs _ _ _ _ Heq) in Hn. done.
Qed.

Lemma succ_some v w : v ∈ C → next_comb sp v = Some w → w ∈ C ∧ rk w = S (rk v).
Proof.
  intros Hv Hn. destruct (split_cases v Hv) as [(l1 & Heq)|(w' & l1 & l2 & Heq)].
  - destruct (next_comb_successor sp Hwo) as [Hl _]. rewrite (Hl _ _ Heq) in Hn. done.
  - destruct (next_comb_successor sp Hwo) as [_ Hs]. rewrite (Hs _ _ _ _ Heq) in Hn. inversion Hn; subst w'.
    split.
    + rewrite Heq. apply elem_of_app. right. right. by left.
    + by eapply rank_succ; [apply C_nodup|].
Qed.

Lemma last_has_no_succ v : v ∈ C → S (rk v) = length C → next_comb sp v = None.
Proof.
  intros Hv Hr. destruct (next_comb sp v) as [w|] eqn:E; [|done].
  destruct (succ_some _ _ Hv E) as [Hw Hrw]. pose proof (rank_lt_length C w Hw). lia.
Qed.

Lemma compare_rank a b : a ∈ C → b ∈ C →
  match compare sp a b with
  | Some Lt => rk a < rk b
  | Some Eq => a = b
  | Some Gt => rk b < rk a
  | None => False
  end.
Proof.
  intros Ha Hb.
  destruct (compare_spec sp [] ∅ Hwo (λ n _, lookup_empty n) a b Ha Hb) as [[-> ?]|[[-> ?]|[-> ?]]]; [done|..];
    by apply rank_before; [apply C_nodup|].
Qed.

Lemma defaults_in : defaults sp ∈ C ∧ rk (defaults sp) = 0.
Proof.
  unfold defaults. pose proof C_nonempty. destruct C as [|c cs] eqn:E; [done|]. cbn. split; [by left|].
  by rewrite decide_True.
Qed.
End grid.
