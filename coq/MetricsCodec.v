(* C15: MetricHistory.get_config / from_config (and set_history) on the model of Metrics.v.
   get_config lists the observations in step order; from_config feeds them to update (a list of executions at once). *)
From Coq Require Import List ZArith QArith Bool Lia Sorting.Sorted Sorting.Permutation.
Import ListNotations.
From KT Require Import Metrics MetricsProofs.
Local Close Scope Q_scope.

Definition mh_config (o : obs) : obs := history o.
(* MetricHistory.update(value=list, step): extend the executions of that step, or create it *)
Fixpoint update_list (o : obs) (l : list fv) (step : Z) : obs :=
  match o with
  | [] => [(step, l)]
  | (s, l0) :: r => if Z.eqb s step then (s, l0 ++ l) :: r else (s, l0) :: update_list r l step
  end.
Definition mh_from_config (c : obs) : obs := fold_left (fun o p => update_list o (snd p) (fst p)) c [].

Lemma update_list_new o l s : ~ In s (map fst o) -> update_list o l s = o ++ [(s, l)].
Proof.
  induction o as [|[k l0] r IH]; simpl; intros H; [reflexivity|].
  destruct (Z.eqb_spec k s) as [->|Hne]; [exfalso; apply H; now left|]. f_equal. apply IH. intros Hin. apply H. now right.
Qed.
Lemma from_config_acc c : forall acc, NoDup (map fst (acc ++ c)) ->
  fold_left (fun o p => update_list o (snd p) (fst p)) c acc = acc ++ c.
Proof.
  induction c as [|[s l] r IH]; intros acc Hnd; simpl; [now rewrite app_nil_r|].
  rewrite update_list_new.
  - rewrite IH; [now rewrite <- app_assoc|]. now rewrite <- app_assoc.
  - rewrite map_app in Hnd. simpl in Hnd. apply NoDup_remove_2 in Hnd. intros Hin. apply Hnd. apply in_or_app. now left.
Qed.
Lemma from_config_id c : NoDup (map fst c) -> mh_from_config c = c.
Proof. intros H. unfold mh_from_config. now rewrite (from_config_acc c []). Qed.

Lemma ins_steps p l : Permutation (map fst (ins p l)) (fst p :: map fst l).
Proof. change (fst p :: map fst l) with (map fst (p :: l)). apply Permutation_map, ins_perm. Qed.
Lemma history_steps_nodup o : NoDup (map fst o) -> NoDup (map fst (history o)).
Proof. intros H. eapply Permutation_NoDup; [|exact H]. apply Permutation_map. symmetry. apply history_perm. Qed.

Lemma ins_lookup p l s : ~ In (fst p) (map fst l) ->
  olookup s (ins p l) = if Z.eqb (fst p) s then Some (snd p) else olookup s l.
Proof.
  induction l as [|[k l0] r IH]; simpl; intros Hn; [destruct p; reflexivity|].
  destruct (Z.leb (fst p) k); [destruct p; reflexivity|]. simpl.
  destruct (Z.eqb_spec k s) as [->|Hks].
  - destruct (Z.eqb_spec (fst p) s) as [E|_]; [exfalso; apply Hn; left; now rewrite E|reflexivity].
  - apply IH. intros Hin. apply Hn. now right.
Qed.
Lemma history_lookup o s : NoDup (map fst o) -> olookup s (history o) = olookup s o.
Proof.
  induction o as [|[k l] r IH]; simpl; intros Hnd; [reflexivity|]. inversion Hnd as [|? ? Hk Hr]; subst.
  rewrite ins_lookup.
  - simpl. destruct (Z.eqb k s); [reflexivity|]. now apply IH.
  - simpl. intros Hin. apply Hk. eapply Permutation_in; [|exact Hin]. apply Permutation_map. apply history_perm.
Qed.

Lemma ins_sorted_head p l : Sorted step_le (p :: l) -> ins p l = p :: l.
Proof.
  intros Hs. destruct l as [|q r]; [reflexivity|]. simpl. inversion Hs as [|? ? _ Hh]; subst. inversion Hh; subst.
  unfold step_le in *. destruct (Z.leb_spec (fst p) (fst q)); [reflexivity|lia].
Qed.
Lemma history_of_sorted l : Sorted step_le l -> history l = l.
Proof.
  induction l as [|p r IH]; intros Hs; [reflexivity|]. simpl. inversion Hs; subst. rewrite IH by assumption. now apply ins_sorted_head.
Qed.

(* the round trip: the reloaded history holds, for every step, exactly the executions reported at that step, and lists them in
   step order; its own config is the same config again *)
Theorem metric_history_roundtrip o : NoDup (map fst o) ->
  mh_from_config (mh_config o) = history o /\
  (forall s, olookup s (mh_from_config (mh_config o)) = olookup s o) /\
  mh_config (mh_from_config (mh_config o)) = mh_config o.
Proof.
  intros Hnd. unfold mh_config.
  assert (H1 : mh_from_config (history o) = history o) by (apply from_config_id, history_steps_nodup, Hnd).
  split; [exact H1|]. split.
  - intros s. rewrite H1. now apply history_lookup.
  - rewrite H1. apply history_of_sorted, history_sorted.
Qed.
(* update keeps steps distinct, so the hypothesis holds for every history built by reports *)
Theorem update_keeps_nodup o v s : NoDup (map fst o) -> NoDup (map fst (update o v s)).
Proof.
  intros H. rewrite update_steps. destruct (existsb (Z.eqb s) (map fst o)) eqn:E; [exact H|].
  rewrite <- (rev_involutive (map fst o ++ [s])). apply NoDup_rev. rewrite rev_app_distr. simpl. constructor; [|now apply NoDup_rev]. rewrite <- in_rev. intros Hin. assert (existsb (Z.eqb s) (map fst o) = true); [|congruence].
  apply existsb_exists. exists s. split; [exact Hin|apply Z.eqb_refl].
Qed.
