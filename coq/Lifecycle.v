(* Generic trial-lifecycle core of keras_tuner.engine.oracle.Oracle:
   create_trial / update_trial / end_trial / save+reload,
   parametric in the trial payload V (values, metrics, message ...), the payload transformers
   carried by update/end, the scoring function, populate_space and the subclass hooks. *)
From Coq Require Import List ZArith Bool Lia PeanoNat.
Import ListNotations.

Inductive status := RUNNING | IDLE | INVALID | STOPPED | COMPLETED | FAILED.
Definition status_eqb (a b : status) : bool :=
  match a, b with
  | RUNNING, RUNNING | IDLE, IDLE | INVALID, INVALID | STOPPED, STOPPED
  | COMPLETED, COMPLETED | FAILED, FAILED => true
  | _, _ => false end.

Definition tuner := nat.
Definition tid := nat.

(* what the tuner says when it ends a trial *)
Inductive endst := ECompleted | EInvalid | EFailed.

(* result of score_trial on the payload: NaN, or a usable score (kept abstract) *)
Inductive scored (Sc : Type) := SNaN | SVal (x : Sc).
Arguments SNaN {Sc}. Arguments SVal {Sc} x.

Record trial {V Sc : Type} := {
  t_status : status; t_score : option (scored Sc); t_runs : nat; t_data : V }.
Arguments trial : clear implicits.

(* what a trial file holds: everything but the run counter, which lives in oracle.json *)
Record dtrial {V Sc : Type} := { d_status : status; d_score : option (scored Sc); d_data : V }.
Arguments dtrial : clear implicits.

Record cfg := { max_trials : option nat; max_retries : nat; max_consec : nat; abort_early : bool }.

Section Lifecycle.
Context {A V Sc : Type}.
Variable vdef : V.
Notation trial := (trial V Sc).
Notation dtrial := (dtrial V Sc).
Variable score_fn : V -> scored Sc.                     (* Oracle.score_trial *)
Variable populate : A -> list trial -> bool -> tid -> A * status * V.
Variable hook_end : A -> tid -> V -> A.                 (* update_space, _record_values, subclass end_trial tail *)
Variable hook_end_abort : A -> tid -> V -> A.           (* same, when end_trial raises: the subclass tail is skipped *)
Variable hook_reload : A -> A.                          (* subclass set_state over its own get_state *)
Variable reissue : V -> V.                              (* what create_trial does to a trial taken from the retry queue (fresh metrics) *)

Record ostate := {
  trials : list trial;
  ongoing : list (tuner * tid);
  start_order : list tid;
  end_order : list tid;
  retryq : list tid;
  tuner_ids : list tuner;
  algo : A;
  disk : list dtrial            (* trial_<id>/trial.json as last written *)
}.

Definition init (a : A) : ostate :=
  {| trials := []; ongoing := []; start_order := []; end_order := []; retryq := []; tuner_ids := [];
     algo := a; disk := [] |}.

Inductive op :=
| Create (tu : tuner)
| Update (id : tid) (f : V -> V)
| End (id : tid) (st : endst) (f : V -> V)
| Reload.                       (* oracle.save(); fresh oracle; oracle.reload() *)

Inductive resp :=
| RTrial (id : tid) (st : status) (v : V)
| RNone
| RAbort
| RRejected.

Fixpoint alookup (tu : tuner) (l : list (tuner * tid)) : option tid :=
  match l with [] => None | (k, v) :: r => if Nat.eqb k tu then Some v else alookup tu r end.
Fixpoint remove_first_by_id (id : tid) (l : list (tuner * tid)) : list (tuner * tid) :=
  match l with [] => [] | (k, v) :: r => if Nat.eqb v id then r else (k, v) :: remove_first_by_id id r end.
Definition add_set (x : nat) (l : list nat) : list nat := if existsb (Nat.eqb x) l then l else l ++ [x].
Definition del_set (x : nat) (l : list nat) : list nat := filter (fun y => negb (Nat.eqb x y)) l.
Fixpoint upd {X} (n : nat) (f : X -> X) (l : list X) : list X :=
  match l, n with
  | [], _ => []
  | x :: r, O => f x :: r
  | x :: r, S n => x :: upd n f r
  end.

Definition to_disk (t : trial) : dtrial := {| d_status := t_status t; d_score := t_score t; d_data := t_data t |}.
Definition set_status (s : status) (t : trial) : trial :=
  {| t_status := s; t_score := t_score t; t_runs := t_runs t; t_data := t_data t |}.
Definition reissue_trial (t : trial) : trial :=
  {| t_status := RUNNING; t_score := t_score t; t_runs := t_runs t; t_data := reissue (t_data t) |}.
Definition map_data (f : V -> V) (t : trial) : trial :=
  {| t_status := t_status t; t_score := t_score t; t_runs := t_runs t; t_data := f (t_data t) |}.

Fixpoint streak (k : nat) (ts : list trial) (order : list tid) (cnt : nat) : bool :=
  match order with
  | [] => false
  | id :: r =>
      let cnt' := match nth_error ts id with
                  | Some t => if status_eqb (t_status t) FAILED then S cnt else 0
                  | None => 0 end in
      if Nat.eqb cnt' k then true else streak k ts r cnt'
  end.

Definition trial_view (ts : list trial) (id : tid) : status * V :=
  match nth_error ts id with Some t => (t_status t, t_data t) | None => (RUNNING, vdef) end.

Definition do_create (c : cfg) (s : ostate) (tu : tuner) : ostate * resp :=
  match alookup tu (ongoing s) with
  | Some id => let '(st, v) := trial_view (trials s) id in (s, RTrial id st v)
  | None =>
    let tids := add_set tu (tuner_ids s) in
    match rev (retryq s) with
    | id :: rq' =>
        let ts' := upd id reissue_trial (trials s) in
        (* only oracle.json is rewritten: the trial file keeps the status of its last save *)
        ({| trials := ts'; ongoing := ongoing s ++ [(tu, id)];
            start_order := start_order s; end_order := end_order s;
            retryq := rev rq'; tuner_ids := tids; algo := algo s; disk := disk s |},
         RTrial id RUNNING (snd (trial_view ts' id)))
    | [] =>
        let id := length (trials s) in
        let '(a', st, v) :=
          match max_trials c with
          | Some n => if Nat.leb n (length (trials s)) then (algo s, STOPPED, vdef)
                      else populate (algo s) (trials s) (negb (Nat.eqb (length (ongoing s)) 0)) id
          | None => populate (algo s) (trials s) (negb (Nat.eqb (length (ongoing s)) 0)) id
          end in
        match st with
        | RUNNING =>
            let t := {| t_status := RUNNING; t_score := None; t_runs := 0; t_data := v |} in
            ({| trials := trials s ++ [t]; ongoing := ongoing s ++ [(tu, id)];
                start_order := start_order s ++ [id]; end_order := end_order s;
                retryq := retryq s; tuner_ids := tids; algo := a'; disk := disk s ++ [to_disk t] |},
             RTrial id RUNNING v)
        | STOPPED =>
            ({| trials := trials s; ongoing := ongoing s; start_order := start_order s;
                end_order := end_order s; retryq := retryq s; tuner_ids := del_set tu tids; algo := a';
                disk := disk s |}, RTrial id STOPPED vdef)
        | st =>
            ({| trials := trials s; ongoing := ongoing s; start_order := start_order s;
                end_order := end_order s; retryq := retryq s; tuner_ids := tids; algo := a';
                disk := disk s |}, RTrial id st vdef)
        end
    end
  end.

Definition do_update (s : ostate) (id : tid) (f : V -> V) : ostate * resp :=
  match nth_error (trials s) id with
  | None => (s, RRejected)
  | Some t =>
      let t' := map_data f t in
      ({| trials := upd id (fun _ => t') (trials s); ongoing := ongoing s; start_order := start_order s;
          end_order := end_order s; retryq := retryq s; tuner_ids := tuner_ids s; algo := algo s;
          disk := upd id (fun _ => to_disk t') (disk s) |}, RNone)
  end.

Definition do_end (c : cfg) (s : ostate) (id : tid) (es : endst) (f : V -> V) : ostate * resp :=
  if negb (existsb (fun kv => Nat.eqb (snd kv) id) (ongoing s)) then (s, RRejected) else
  match nth_error (trials s) id with
  | None => (s, RRejected)
  | Some t0 =>
    let v1 := f (t_data t0) in
    let '(st1, sc1) :=
      match es with
      | ECompleted => match score_fn v1 with
                      | SNaN => (INVALID, Some SNaN)
                      | SVal x => (COMPLETED, Some (SVal x)) end
      | EInvalid => (INVALID, t_score t0)
      | EFailed => (FAILED, t_score t0)
      end in
    let runs := S (t_runs t0) in
    let '(st2, retry) :=
      match st1 with
      | INVALID => if Nat.leb (S (max_retries c)) runs then (FAILED, false) else (INVALID, true)
      | _ => (st1, false)
      end in
    let t' := {| t_status := st2; t_score := sc1; t_runs := runs; t_data := v1 |} in
    let ts' := upd id (fun _ => t') (trials s) in
    let dk' := upd id (fun _ => to_disk t') (disk s) in
    if retry then
      ({| trials := ts'; ongoing := remove_first_by_id id (ongoing s); start_order := start_order s;
          end_order := end_order s; retryq := retryq s ++ [id]; tuner_ids := tuner_ids s;
          algo := hook_end (algo s) id v1; disk := dk' |}, RNone)
    else
      let eo := end_order s ++ [id] in
      if streak (max_consec c) ts' eo 0 then
        if abort_early c then
          (* pinned source: raises before _save_trial, save() and the pop of the ongoing entry *)
          ({| trials := ts'; ongoing := ongoing s; start_order := start_order s;
              end_order := eo; retryq := retryq s; tuner_ids := tuner_ids s;
              algo := hook_end_abort (algo s) id v1; disk := disk s |}, RAbort)
        else
          ({| trials := ts'; ongoing := remove_first_by_id id (ongoing s); start_order := start_order s;
              end_order := eo; retryq := retryq s; tuner_ids := tuner_ids s;
              algo := hook_end_abort (algo s) id v1; disk := dk' |}, RAbort)
      else
        ({| trials := ts'; ongoing := remove_first_by_id id (ongoing s); start_order := start_order s;
            end_order := eo; retryq := retryq s; tuner_ids := tuner_ids s;
            algo := hook_end (algo s) id v1; disk := dk' |}, RNone)
  end.

(* save() then reload() into a fresh oracle of the same class *)
Fixpoint from_disk (ts : list trial) (ds : list dtrial) : list trial :=
  match ts, ds with
  | t :: ts', d :: ds' =>
      {| t_status := d_status d; t_score := d_score d; t_runs := t_runs t; t_data := d_data d |} :: from_disk ts' ds'
  | _, _ => []
  end.

Definition do_reload (s : ostate) : ostate * resp :=
  ({| trials := from_disk (trials s) (disk s); ongoing := [];
      start_order := start_order s; end_order := end_order s;
      retryq := retryq s ++ map snd (ongoing s); tuner_ids := [];
      algo := hook_reload (algo s); disk := disk s |}, RNone).

Definition step (c : cfg) (s : ostate) (o : op) : ostate * resp :=
  match o with
  | Create tu => do_create c s tu
  | Update id f => do_update s id f
  | End id es f => do_end c s id es f
  | Reload => do_reload s
  end.

Fixpoint run (c : cfg) (s : ostate) (ops : list op) : list (resp * ostate) :=
  match ops with [] => [] | o :: r => let '(s', rs) := step c s o in (rs, s') :: run c s' r end.
End Lifecycle.
