(* C08: theorems about the restart procedure (Crash.recover) and the directory images a crash can leave. *)
From Coq Require Import List ZArith Bool Lia PeanoNat.
Import ListNotations.
From KT Require Import Lifecycle LInv Crash.

Section CrashProofs.
Context {A V Sc : Type}.
Notation trial := (trial V Sc).
Notation dtrial := (dtrial V Sc).
Variable hook_reload : A -> A.
Notation ost := (@ostate A V Sc).
Notation recoverf := (@recover A V Sc hook_reload).

Lemma mapi_nth {X Y} (f : nat -> X -> Y) l : forall i k, nth_error (mapi f i l) k = option_map (f (i + k)) (nth_error l k).
Proof.
  induction l as [|x r IH]; intros i k; simpl; [now destruct k|].
  destruct k as [|k]; simpl; [now rewrite Nat.add_0_r|]. rewrite IH. now rewrite Nat.add_succ_r.
Qed.
Lemma mapi_length {X Y} (f : nat -> X -> Y) l : forall i, length (mapi f i l) = length l.
Proof. induction l as [|x r IH]; intros i; simpl; auto. Qed.

(* ---- what a restart does with ANY directory content that has a tuner file and an oracle.json ---------------- *)
Theorem recover_spec (d : dstate) (j : ojson) :
  ds_tuner d = true -> ds_oracle d = Some j ->
  exists t : ost, recoverf d = Some t /\
    (* nothing is handed out; orders as saved *)
    ongoing t = [] /\ start_order t = j_start j /\ end_order t = j_end j /\
    (* trial files without an entry in start_order are ignored *)
    length (trials t) = Nat.min (length (j_start j)) (length (ds_trials d)) /\
    (* every kept trial has exactly the status, score and payload of its file *)
    (forall id tr, nth_error (trials t) id = Some tr ->
       exists f, nth_error (ds_trials d) id = Some f /\ t_status tr = d_status f /\ t_score tr = d_score f /\ t_data tr = d_data f) /\
    (* a trial that was handed out when the state was saved is run again - unless its file says it ended *)
    (forall tu id f, In (tu, id) (j_ongoing j) -> nth_error (firstn (length (j_start j)) (ds_trials d)) id = Some f ->
       (dfinal f = false -> In id (retryq t)) /\ (dfinal f = true -> In id (retryq t) -> In id (j_retryq j))) /\
    (* what was queued stays queued, once *)
    (forall id, In id (j_retryq j) -> In id (retryq t)) /\
    (forall id, In id (retryq t) -> In id (j_retryq j) \/ In id (map snd (j_ongoing j))).
Proof.
  intros Ht Ho. unfold recover. rewrite Ht, Ho. cbn [negb]. eexists. split; [reflexivity|].
  cbn [ongoing start_order end_order trials retryq].
  split; [reflexivity|]. split; [reflexivity|]. split; [reflexivity|].
  split; [rewrite mapi_length; apply firstn_length|].
  split.
  { intros id tr H. rewrite mapi_nth in H. cbn [Nat.add] in H.
    destruct (nth_error (firstn (length (j_start j)) (ds_trials d)) id) as [f|] eqn:Ef; [|discriminate].
    inversion H; subst. exists f. cbn. split; [|auto].
    clear -Ef. revert id Ef. generalize (length (j_start j)). intros n. revert n.
    induction (ds_trials d) as [|x r IH]; intros n id H; destruct n, id; simpl in *; try discriminate; auto. eapply IH; eauto. }
  split.
  { intros tu id f Hin Hf. split.
    - intros Hnf. destruct (existsb (Nat.eqb id) (j_retryq j)) eqn:Eq.
      + apply in_or_app. left. apply existsb_exists in Eq as (x & Hx & Hxe). apply Nat.eqb_eq in Hxe. now subst.
      + apply in_or_app. right. unfold requeued. apply filter_In. split.
        * apply in_map_iff. exists (tu, id). auto.
        * rewrite Hf, Hnf, Eq. reflexivity.
    - intros Hfin Hq. apply in_app_or in Hq as [Hq|Hq]; [exact Hq|].
      unfold requeued in Hq. apply filter_In in Hq as [_ Hq]. rewrite Hf, Hfin in Hq. discriminate. }
  split; [intros id H; apply in_or_app; now left|].
  intros id H. apply in_app_or in H as [H|H]; [now left|right].
  unfold requeued in H. apply filter_In in H. tauto.
Qed.

(* ---- at an operation boundary the directory is image s, and a restart from it is exactly save+reload -------- *)
Definition image (s : ost) : dstate := {| ds_trials := disk s; ds_oracle := Some (to_json s); ds_tuner := true |}.

Lemma mapi_ext {X Y} (f g : nat -> X -> Y) l : forall i, (forall k x, f k x = g k x) -> mapi f i l = mapi g i l.
Proof. induction l as [|x r IH]; intros i H; simpl; [reflexivity|]. rewrite H. f_equal. now apply IH. Qed.

Lemma mapi_from_disk (ts : list trial) : forall (ds : list dtrial) (pre : list nat),
  length ds = length ts ->
  mapi (fun k dt => {| t_status := d_status dt; t_score := d_score dt;
                       t_runs := nth k (pre ++ map (@t_runs V Sc) ts) 0; t_data := d_data dt |}) (length pre) ds
  = from_disk ts ds.
Proof.
  induction ts as [|t r IH]; intros [|d ds] pre H; simpl in *; try discriminate; [reflexivity|].
  f_equal.
  - rewrite app_nth2 by lia. now rewrite Nat.sub_diag.
  - inversion H as [H']. rewrite <- (IH ds (pre ++ [t_runs t]) H'). rewrite app_length. cbn [length].
    rewrite Nat.add_1_r. apply mapi_ext. intros k x. now rewrite <- app_assoc.
Qed.

Lemma requeued_image (s : ost) : Inv s -> requeued (disk s) (to_json s) = map snd (ongoing s).
Proof.
  intros HI. unfold requeued. cbn [j_ongoing j_retryq to_json].
  assert (H : forall id, In id (map snd (ongoing s)) ->
            match nth_error (disk s) id with
            | Some d => negb (dfinal d) && negb (existsb (Nat.eqb id) (retryq s))
            | None => false end = true).
  { intros id Hin. destruct (on_facts _ _ HI Hin) as (Hlt & Hnq & _).
    destruct (nth_error (disk s) id) as [d|] eqn:Ed; [|apply nth_error_None in Ed; rewrite (I_disk_len _ HI) in Ed; lia].
    pose proof (I_d_wait _ HI id d (or_introl Hin) Ed) as [Hw|Hw]; unfold dfinal; rewrite Hw; cbn [negb andb].
    all: destruct (existsb (Nat.eqb id) (retryq s)) eqn:E; [|reflexivity].
    all: apply existsb_exists in E as (x & Hx & Hxe); apply Nat.eqb_eq in Hxe; subst; contradiction. }
  revert H. unfold onids. generalize (map snd (ongoing s)). intros l H.
  induction l as [|x r IH]; simpl; [reflexivity|]. rewrite (H x (or_introl eq_refl)). f_equal. apply IH. intros id Hid. apply H. now right.
Qed.

Theorem recover_image (s : ost) : Inv s -> recoverf (image s) = Some (fst (do_reload hook_reload s)).
Proof.
  intros HI. unfold recover, image. cbn [ds_tuner ds_oracle ds_trials negb j_start j_end j_retryq j_runs j_algo to_json].
  assert (Hlen : length (start_order s) = length (disk s)).
  { rewrite (I_start _ HI), seq_length. symmetry. apply (I_disk_len _ HI). }
  rewrite Hlen, firstn_all. rewrite (requeued_image s HI).
  unfold do_reload. cbn [fst]. f_equal. f_equal.
  apply (mapi_from_disk (trials s) (disk s) [] (I_disk_len _ HI)).
Qed.

(* ---- the directory images a crash inside end_trial can leave, and what is rebuilt from them ------------------ *)
(* writes of a normally returning end_trial: trial file, oracle.json with the ended trial still ongoing, then the
   tuner's save (oracle.json, tuner file). After k of them: *)
Lemma end_images (s s' : ost) id (d' : dtrial) k :
  fold_left apply_write (firstn k [WTrial id d'; WOracle (to_json (with_ongoing s' (ongoing s))); WOracle (to_json s'); WTuner]) (image s)
  = match k with
    | 0 => image s
    | 1 => {| ds_trials := set_nth id d' (disk s); ds_oracle := Some (to_json s); ds_tuner := true |}
    | 2 => {| ds_trials := set_nth id d' (disk s); ds_oracle := Some (to_json (with_ongoing s' (ongoing s))); ds_tuner := true |}
    | _ => {| ds_trials := set_nth id d' (disk s); ds_oracle := Some (to_json s'); ds_tuner := true |}
    end.
Proof. destruct k as [|[|[|[|k]]]]; try reflexivity. cbn [firstn]. rewrite firstn_nil. reflexivity. Qed.

(* the interesting window: the trial file already records the end, oracle.json does not. The restart keeps the recorded
   end (status and score of the file), does not run a COMPLETED/FAILED trial again, and queues an INVALID one. *)
Theorem end_crash_after_trial_file (s : ost) tu id (d' : dtrial) :
  Inv s -> In (tu, id) (ongoing s) ->
  exists t : ost,
    recoverf {| ds_trials := set_nth id d' (disk s); ds_oracle := Some (to_json s); ds_tuner := true |} = Some t /\
    ongoing t = [] /\
    (exists tr, nth_error (trials t) id = Some tr /\ t_status tr = d_status d' /\ t_score tr = d_score d' /\ t_data tr = d_data d') /\
    (dfinal d' = true -> ~ In id (retryq t)) /\
    (dfinal d' = false -> In id (retryq t)) /\
    length (trials t) = length (trials s).
Proof.
  intros HI Hin.
  assert (Hon : In id (onids s)) by (unfold onids; apply in_map_iff; exists (tu, id); auto).
  destruct (on_facts _ _ HI Hon) as (Hlt & Hnq & _).
  assert (Hlen : length (start_order s) = length (disk s)).
  { rewrite (I_start _ HI), seq_length. symmetry. apply (I_disk_len _ HI). }
  assert (Hsl : forall (l : list dtrial), id < length l -> length (set_nth id d' l) = length l /\ nth_error (set_nth id d' l) id = Some d').
  { clear. revert id. intros id l. revert id. induction l as [|x r IH]; intros [|id] H; simpl in *; try lia; [auto|].
    destruct (IH id ltac:(lia)) as [H1 H2]. split; [now rewrite H1|exact H2]. }
  assert (Hd : id < length (disk s)) by (rewrite (I_disk_len _ HI); exact Hlt).
  destruct (Hsl (disk s) Hd) as [Hl1 Hn1].
  destruct (recover_spec {| ds_trials := set_nth id d' (disk s); ds_oracle := Some (to_json s); ds_tuner := true |} (to_json s) eq_refl eq_refl)
    as (t & Hr & Hog & Hso & Heo & Hlen' & Hfiles & Hq & Hkeep & Hfrom).
  cbn [ds_trials j_start j_ongoing j_retryq to_json] in *.
  assert (Hfirst : firstn (length (start_order s)) (set_nth id d' (disk s)) = set_nth id d' (disk s)).
  { rewrite Hlen, <- Hl1. apply firstn_all. }
  exists t. split; [exact Hr|]. split; [exact Hog|].
  assert (Hlt' : id < length (trials t)) by (rewrite Hlen', Hl1, Hlen; rewrite Nat.min_id; exact Hd).
  split.
  { destruct (nth_error (trials t) id) as [tr|] eqn:Etr; [|apply nth_error_None in Etr; lia].
    destruct (Hfiles id tr Etr) as (f & Hf & H1 & H2 & H3). rewrite Hn1 in Hf. inversion Hf; subst f. exists tr. auto. }
  rewrite Hfirst in Hq. destruct (Hq tu id d' Hin Hn1) as [Hq1 Hq2].
  split; [intros Hf Hc; apply Hnq; now apply Hq2|]. split; [exact Hq1|].
  rewrite Hlen', Hl1, Hlen, Nat.min_id. apply (I_disk_len _ HI).
Qed.
End CrashProofs.
