(* Generic core facts for C03: COMPLETED / FAILED are absorbing (status and score never change again, under every
   operation including save+reload), and what end_trial decides for each outcome. *)
From Coq Require Import List ZArith Bool Lia PeanoNat.
Import ListNotations.
From KT Require Import Lifecycle LInv.

Section Final.
Context {A V Sc : Type}.
Variable vdef : V.
Notation trial := (trial V Sc).
Variable score_fn : V -> scored Sc.
Variable populate : A -> list trial -> bool -> tid -> A * status * V.
Variable hook_end hook_end_abort : A -> tid -> V -> A.
Variable hook_reload : A -> A.
Variable reissue : V -> V.
Notation ost := (@ostate A V Sc).
Notation stepf := (step vdef score_fn populate hook_end hook_end_abort hook_reload reissue).

Definition is_final (st : status) : bool := match st with COMPLETED | FAILED => true | _ => false end.
Definition fview (ts : list trial) (id : nat) : option (status * option (scored Sc)) :=
  match nth_error ts id with
  | Some t => if is_final (t_status t) then Some (t_status t, t_score t) else None
  | None => None
  end.
Definition fle (ts ts' : list trial) : Prop :=
  length ts <= length ts' /\ forall id z, fview ts id = Some z -> fview ts' id = Some z.
Lemma fle_refl ts : fle ts ts. Proof. split; auto. Qed.
Lemma fle_trans a b c : fle a b -> fle b c -> fle a c.
Proof. intros [H1 H2] [H3 H4]. split; [lia|]. intros id z H. auto. Qed.

Lemma fview_finalat (s : ost) id z : fview (trials s) id = Some z -> finalat s id.
Proof.
  intros Hc. unfold fview in Hc. destruct (nth_error (trials s) id) as [t|] eqn:Et; [|discriminate].
  destruct (is_final (t_status t)) eqn:Es; [|discriminate].
  exists (t_status t). split; [unfold stat; now rewrite Et|]. unfold is_final in Es. destruct (t_status t); try discriminate; [now left|now right].
Qed.
Lemma finalat_not_waiting (s : ost) id : Inv s -> finalat s id -> ~ In id (onids s) /\ ~ In id (retryq s).
Proof.
  intros HI (st & Hs & Hf). split; intros H.
  - pose proof (I_on_run _ HI _ H) as Hr. rewrite Hs in Hr. inversion Hr; subst. destruct Hf; discriminate.
  - destruct (I_rq_wait _ HI _ H) as (st' & Hs' & Hw). rewrite Hs in Hs'. inversion Hs'; subst. eapply waiting_not_final; eauto.
Qed.
(* without a crash in between, every ended trial is also listed in end_order: LStrong.v *)

(* a COMPLETED or FAILED trial never changes status or score again *)
Theorem step_fle c (s : ost) o : abort_early c = false -> Inv s -> fle (trials s) (trials (fst (stepf c s o))).
Proof.
  intros Hab HI.
  pose proof (fun id z H => finalat_not_waiting s id HI (fview_finalat s id z H)) as Hcv.
  destruct o as [tu|id f|id es f|]; simpl.
  - unfold do_create. destruct (alookup tu (ongoing s)); [destruct (trial_view vdef (trials s) t); apply fle_refl|].
    destruct (rev (retryq s)) as [|idr rq'] eqn:Erq.
    + match goal with |- context [match ?X with (_, _) => _ end] => destruct X as [[a' st] v] end.
      destruct st; simpl; try apply fle_refl.
      split; [rewrite app_length; lia|]. intros id z Hc. unfold fview in *.
      destruct (nth_error (trials s) id) eqn:E; [|discriminate]. rewrite nth_error_app1; [now rewrite E|].
      apply nth_error_Some. congruence.
    + simpl. split; [now rewrite length_upd|]. intros id z Hc.
      assert (id <> idr).
      { intros ->. pose proof (Hcv _ _ Hc) as [_ He]. pose proof (rev_cons_inv _ _ _ Erq) as Hrq.
        apply He. rewrite Hrq. apply in_or_app. right. now left. }
      unfold fview in *. rewrite nth_upd_other; [exact Hc|congruence].
  - unfold do_update. destruct (nth_error (trials s) id) as [t|] eqn:Et; simpl; [|apply fle_refl].
    split; [now rewrite length_upd|]. intros j z Hc. unfold fview in *.
    destruct (Nat.eq_dec id j) as [->|Hne]; [|rewrite nth_upd_other; [exact Hc|exact Hne]].
    rewrite nth_upd_same, Et. simpl. rewrite Et in Hc. exact Hc.
  - unfold do_end. destruct (existsb (fun kv => snd kv =? id) (ongoing s)) eqn:Eex; simpl; [|apply fle_refl].
    apply existsb_snd in Eex.
    destruct (nth_error (trials s) id) as [t0|] eqn:Et0; [|apply fle_refl].
    assert (Hgen : forall t', fle (trials s) (upd id (fun _ => t') (trials s))).
    { intros t'. split; [now rewrite length_upd|]. intros j z Hc.
      assert (j <> id). { intros ->. destruct (Hcv _ _ Hc) as [Hne _]. now apply Hne. }
      unfold fview in *. rewrite nth_upd_other; [exact Hc|congruence]. }
    rewrite Hab.
    repeat match goal with
    | |- context [match ?X with ECompleted => _ | EInvalid => _ | EFailed => _ end] => destruct X
    | |- context [match score_fn ?x with SNaN => _ | SVal _ => _ end] => destruct (score_fn x)
    | |- context [Nat.leb ?a ?b] => destruct (Nat.leb a b)
    | |- context [if streak ?a ?b ?d ?e then _ else _] => destruct (streak a b d e)
    end; simpl; apply Hgen.
  - split; [rewrite from_disk_length; [lia|apply (I_disk_len _ HI)]|].
    intros id z Hc. pose proof (I_d_fin _ HI _ (fview_finalat s id z Hc)) as Hd.
    unfold fview in *. destruct (nth_error (trials s) id) as [t|] eqn:Et; [|discriminate]. simpl in Hd.
    rewrite (from_disk_nth _ _ _ _ _ Et (eq_sym Hd)). simpl. exact Hc.
Qed.

(* lifted to whole runs: once a trial is seen COMPLETED/FAILED in some state of a run, it has the same status and score
   in every later state of that run *)
Theorem run_fle c ops : abort_early c = false -> forall s : ost, Inv s ->
  Forall (fun rs => fle (trials s) (trials (snd rs)))
         (run vdef score_fn populate hook_end hook_end_abort hook_reload reissue c s ops).
Proof.
  intros Hab. induction ops as [|o r IH]; intros s HI; simpl; [constructor|].
  destruct (stepf c s o) as [s' rs] eqn:Es.
  pose proof (step_fle c s o Hab HI) as Hle. rewrite Es in Hle. simpl in Hle.
  assert (HI' : Inv s').
  { destruct o as [tu|id f|id es f|]; simpl in Es.
    - pose proof (inv_create vdef populate reissue c s tu HI) as H. now rewrite Es in H.
    - pose proof (inv_update s id f HI) as H. now rewrite Es in H.
    - pose proof (inv_end score_fn hook_end hook_end_abort c s id es f Hab HI) as H. now rewrite Es in H.
    - pose proof (inv_reload hook_reload s HI) as H. now rewrite Es in H. }
  constructor; [exact Hle|].
  eapply Forall_impl; [|apply (IH s' HI')]. intros rs' H. eapply fle_trans; eauto.
Qed.

(* ---- what end_trial decides ------------------------------------------------------------------- *)
(* the status the tuner reports, after NaN objectives have been turned into INVALID *)
Definition effective (es : endst) (v : V) : status :=
  match es with
  | ECompleted => match score_fn v with SNaN => INVALID | SVal _ => COMPLETED end
  | EInvalid => INVALID
  | EFailed => FAILED
  end.

Definition final_status (c : cfg) (runs0 : nat) (st : status) : status :=
  match st with
  | INVALID => if Nat.leb (S (max_retries c)) (S runs0) then FAILED else INVALID
  | _ => st
  end.

(* end_trial on a trial that is handed out: the run counter goes up by one, the payload is what the tuner sent,
   an (effectively) INVALID run is queued for retry while runs <= max_retries and FAILED afterwards,
   COMPLETED carries the score of the payload, everything not queued is appended to end_order *)
Theorem end_outcome c (s : ost) id es f t0 :
  abort_early c = false -> Inv s ->
  In id (map snd (ongoing s)) -> nth_error (trials s) id = Some t0 ->
  exists t', nth_error (trials (fst (do_end score_fn hook_end hook_end_abort c s id es f))) id = Some t' /\
   t_runs t' = S (t_runs t0) /\ t_data t' = f (t_data t0) /\
   t_status t' = final_status c (t_runs t0) (effective es (f (t_data t0))) /\
   (t_status t' = INVALID ->
      retryq (fst (do_end score_fn hook_end hook_end_abort c s id es f)) = retryq s ++ [id] /\
      end_order (fst (do_end score_fn hook_end hook_end_abort c s id es f)) = end_order s) /\
   (t_status t' <> INVALID ->
      retryq (fst (do_end score_fn hook_end hook_end_abort c s id es f)) = retryq s /\
      end_order (fst (do_end score_fn hook_end hook_end_abort c s id es f)) = end_order s ++ [id]) /\
   (effective es (f (t_data t0)) = COMPLETED -> exists x, score_fn (f (t_data t0)) = SVal x /\ t_score t' = Some (SVal x)) /\
   ~ In id (map snd (ongoing (fst (do_end score_fn hook_end hook_end_abort c s id es f)))).
Proof.
  intros Hab HI Hon Ht0.
  assert (Hnd : NoDup (map snd (ongoing s))) by (destruct (I_part _ HI) as (H & _); exact H).
  unfold do_end.
  destruct (existsb (fun kv => snd kv =? id) (ongoing s)) eqn:Eex;
    [|exfalso; apply existsb_snd in Hon; unfold tuner, tid in *; congruence].
  cbn [negb].
  destruct (nth_error (trials s) id) as [t0'|] eqn:Et; [|discriminate]. injection Ht0 as ->.
  destruct (abort_early c); [discriminate|].
  unfold effective, final_status.
  destruct es; [destruct (score_fn (f (t_data t0))) as [|x] eqn:Esc| |];
  try destruct (Nat.leb (S (max_retries c)) (S (t_runs t0))) eqn:El;
  repeat match goal with
  | |- context [if streak ?a ?b ?d ?e then _ else _] => destruct (streak a b d e)
  end;
  (eexists; cbn [fst trials retryq end_order ongoing]; rewrite nth_upd_same, Et; cbn [option_map t_runs t_data t_status t_score];
   repeat split; try reflexivity; try discriminate; try congruence; try (intros; exfalso; congruence);
   try (intros _; eexists; split; reflexivity); try (now apply rfb_notin);
   try (exfalso; match goal with H : _ <> INVALID |- _ => apply H; reflexivity end)).
Qed.

(* end_trial raises the abort error exactly when the trial is not re-queued and the finishing order, with this trial
   appended, contains max_consecutive_failed_trials FAILED trials in a row (streak = has_streak by LProps.streak_spec) *)
Theorem end_abort_iff c (s : ost) id es f t0 :
  In id (map snd (ongoing s)) -> nth_error (trials s) id = Some t0 ->
  (snd (do_end score_fn hook_end hook_end_abort c s id es f) = RAbort <->
   final_status c (t_runs t0) (effective es (f (t_data t0))) <> INVALID /\
   streak (max_consec c) (trials (fst (do_end score_fn hook_end hook_end_abort c s id es f)))
          (end_order s ++ [id]) 0 = true).
Proof.
  intros Hon Ht0. unfold do_end.
  destruct (existsb (fun kv => snd kv =? id) (ongoing s)) eqn:Eex;
    [|exfalso; apply existsb_snd in Hon; unfold tuner, tid in *; congruence].
  cbn [negb].
  destruct (nth_error (trials s) id) as [t0'|] eqn:Et; [|discriminate]. injection Ht0 as ->.
  unfold effective, final_status.
  destruct es; [destruct (score_fn (f (t_data t0))) as [|x] eqn:Esc| |];
  try destruct (Nat.leb (S (max_retries c)) (S (t_runs t0))) eqn:El;
  repeat match goal with
  | |- context [if streak ?a ?b ?d ?e then _ else _] => destruct (streak a b d e) eqn:?
  end; try destruct (abort_early c); cbn [fst snd trials].
  all: split.
  all: first [ intros H; discriminate H
             | intros _; split; [discriminate|assumption]
             | intros [H1 H2]; first [reflexivity | congruence | exfalso; apply H1; reflexivity] ].
Qed.
End Final.
