From Coq Require Import List ZArith Bool Lia PeanoNat.
Import ListNotations.
From KT Require Import Lifecycle LSym BayesSym.
(* a concrete run that reaches the Gaussian-process branch: V = Vec = nat (the vector IS the value), warm-up of 1 trial *)
Definition ex_pop (mx : bool) := @bpopulate nat Z nat (list (nat * scored Z)) nat nat Z.opp (fun _ v => v) (fun _ => 1) (fun _ => None)
  (fun gp v => SVal (Z.of_nat (length gp) + Z.of_nat v)%Z) (fun xy => xy)
  (fun gp rs => (length gp + rs, S rs)) (fun _ v => v) (fun _ => 1) (fun r id => (S r, RUNNING, 10 + r)) mx.
Definition ex_cfg : cfg := {| max_trials := Some 5; max_retries := 0; max_consec := 3; abort_early := false |}.
Definition ex_ops : list (@op nat) :=
  [Create 0; Update 0 (fun v => v); End 0 ECompleted (fun v => v); Create 0; Create 1; End 1 ECompleted (fun v => v); Create 0].
Definition ex_run (mx : bool) (sc : nat -> scored Z) :=
  map fst (run 0 sc (ex_pop mx) (fun a _ _ => a) (fun a _ _ => a) (fun a => a) (fun v => v) ex_cfg (init (0, [], 0)) ex_ops).
(* the maximising oracle and the minimising oracle on negated scores answer alike, and the Gaussian-process branch is reached:
   the second and third trials carry what `optimize` returned (1, 3), not what the warm-up sampler would give (11, 12) *)
Example bayes_example :
  ex_run true (fun v => SVal (Z.of_nat v)) = ex_run false (fun v => SVal (- Z.of_nat v)%Z) /\
  ex_run true (fun v => SVal (Z.of_nat v)) =
    [RTrial 0 RUNNING 10; RNone; RNone; RTrial 1 RUNNING 1; RTrial 2 RUNNING 3; RNone; RTrial 3 RUNNING 5].
Proof. split; vm_compute; reflexivity. Qed.
