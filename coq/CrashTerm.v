(* C08 + C19: after any number of crashes, each at any point, the resumed tuner loop terminates within the run budget. *)
From Coq Require Import List ZArith Bool Lia PeanoNat.
Import ListNotations.
From KT Require Import Lifecycle LInv LProps Tuner TunerTerm Crash CrashAll.

Section CrashTerm.
Context {A V Sc : Type}.
Variable vdef : V.
Notation trial := (trial V Sc).
Variable score_fn : V -> scored Sc.
Variable populate : A -> list trial -> bool -> tid -> A * status * V.
Variable hook_end hook_end_abort : A -> tid -> V -> A.
Variable hook_reload : A -> A.
Variable reissue : V -> V.
Notation ost := (@ostate A V Sc).
(* with a single worker and nothing handed out, populate_space answers RUNNING or STOPPED (C11_idle_only_if_busy) *)
Hypothesis pop_ok : forall a ts id, snd (fst (populate a ts false id)) = RUNNING \/ snd (fst (populate a ts false id)) = STOPPED.

Theorem resumed_search_terminates c a0 n (d : @dstate A V Sc) (t : ost) fuel script :
  abort_early c = false -> max_trials c = Some n ->
  reachable_dir vdef score_fn populate hook_end hook_end_abort hook_reload reissue c a0 d ->
  recover hook_reload d = Some t ->
  n * S (max_retries c) - truns (trials t) < fuel ->
  snd (fst (search vdef score_fn populate hook_end hook_end_abort reissue fuel c t script)) <> OutOfFuel.
Proof.
  intros Hab Hn Hreach Hr Hfuel.
  pose proof (crash_any_point vdef score_fn populate hook_end hook_end_abort hook_reload reissue c a0 d Hab Hreach) as H.
  rewrite Hr in H. destruct H as (HI & HRI & Hog).
  pose proof (crash_budget vdef score_fn populate hook_end hook_end_abort hook_reload reissue c a0 n d t Hab Hn Hreach Hr) as Hlen.
  apply (search_terminates vdef score_fn populate hook_end hook_end_abort hook_reload reissue pop_ok c n fuel t script Hab Hn); [|exact Hfuel].
  constructor; assumption.
Qed.
End CrashTerm.
