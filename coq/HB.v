(* HyperbandOracle.populate_space on the generic lifecycle core; scores are integers (any total order works).
   `archive` is a ghost field: brackets dropped by _remove_completed_brackets are remembered there. *)
From Coq Require Import List ZArith Bool Lia PeanoNat.
Import ListNotations.
From KT Require Import Lifecycle.

Record entry := { e_past : option nat; e_id : nat }.
Record bracket := { bnum : nat; rounds : list (list entry) }.
Record hstate := { brackets : list bracket; cur_bracket : nat; cur_iter : nat; archive : list bracket }.
Record hcfg := { max_epochs : Z; factor : Z; iterations : option nat; nbrackets : nat; sizes : nat -> nat -> nat; maximize : bool }.

Section HB.
Context {V : Type}.
Notation trial := (trial V Z).
Variable h : hcfg.

Definition ceil_div (a b : Z) : Z := ((a + b - 1) / b)%Z.
Definition epochs (b r : nat) : Z := ceil_div (max_epochs h) (factor h ^ Z.of_nat (b - r)).

Definition new_bracket (b : nat) : bracket := {| bnum := b; rounds := repeat [] (S b) |}.
Definition hinit : hstate :=
  {| brackets := [new_bracket (nbrackets h - 1)]; cur_bracket := nbrackets h - 1; cur_iter := 0; archive := [] |}.

Definition last_len (br : bracket) : nat := length (last (rounds br) []).
Definition incomplete (br : bracket) : bool :=
  negb (Nat.eqb (last_len br) (sizes h (bnum br) (length (rounds br) - 1))).

Fixpoint upd_nth {X} (n : nat) (f : X -> X) (l : list X) : list X :=
  match l, n with [], _ => [] | x :: r, O => f x :: r | x :: r, S n => x :: upd_nth n f r end.

(* completed score of a trial, if any *)
Definition cview (ts : list trial) (id : nat) : option Z :=
  match nth_error ts id with
  | Some t => match t_status t, t_score t with COMPLETED, Some (SVal z) => Some z | _, _ => None end
  | None => None
  end.
Definition completed (ts : list trial) (id : nat) : bool := match cview ts id with Some _ => true | None => false end.
Definition score_of (ts : list trial) (id : nat) : Z := match cview ts id with Some z => z | None => 0%Z end.
Definition better (a b : Z) : bool := if maximize h then (b <? a)%Z else (a <? b)%Z.

Fixpoint best_of (ts : list trial) (cands : list nat) (cur : option nat) : option nat :=
  match cands with
  | [] => cur
  | c :: r =>
      let cur' := match cur with
                  | None => Some c
                  | Some b => if better (score_of ts c) (score_of ts b) then Some c else Some b
                  end in
      best_of ts r cur'
  end.

Definition selected (cur : list entry) (id : nat) : bool :=
  existsb (fun e => match e_past e with Some q => Nat.eqb q id | None => false end) cur.
Definition candidates (ts : list trial) (prev cur : list entry) : list nat :=
  filter (fun id => negb (selected cur id) && completed ts id) (map e_id prev).

Fixpoint try_rounds (ts : list trial) (b : nat) (prev : list entry) (rest : list (list entry)) (r : nat) : option (nat * nat) :=
  match rest with
  | [] => None
  | cur :: rest' =>
      let cands := candidates ts prev cur in
      if Nat.ltb (sizes h b (r - 1) - sizes h b r) (length cands) then
        match best_of ts cands None with
        | Some q => Some (r, q)
        | None => None
        end
      else try_rounds ts b cur rest' (S r)
  end.

Inductive choice := CRandom (bi : nat) | CPromote (bi r q : nat) | CNone.

Fixpoint scan (ts : list trial) (brs : list bracket) (bi : nat) : choice :=
  match brs with
  | [] => CNone
  | br :: rest =>
      match rounds br with
      | [] => scan ts rest (S bi)
      | r0 :: rs =>
          if Nat.ltb (length r0) (sizes h (bnum br) 0) then CRandom bi
          else match try_rounds ts (bnum br) r0 rs 1 with
               | Some (r, q) => CPromote bi r q
               | None => scan ts rest (S bi)
               end
      end
  end.

Definition add_entry (r : nat) (e : entry) (br : bracket) : bracket :=
  {| bnum := bnum br; rounds := upd_nth r (fun l => l ++ [e]) (rounds br) |}.

(* what the trial is told: label (tuner/bracket: the bracket being filled), round, epochs, initial epoch, parent, true bracket *)
Record hinfo := { i_label : nat; i_bracket : nat; i_round : nat; i_epochs : Z; i_initial : Z; i_parent : option nat }.

Variable mk_payload : hinfo -> V.     (* values: a fresh sample or the parent's values, plus the tuner/* entries *)
Variable vdef : V.

Definition hpopulate (s : hstate) (ts : list trial) (ongoing_nonempty : bool) (id : nat) : hstate * status * V :=
  let brs := filter incomplete (brackets s) in
  let arch := archive s ++ filter (fun b => negb (incomplete b)) (brackets s) in
  match scan ts brs 0 with
  | CRandom bi =>
      let b := match nth_error brs bi with Some br => bnum br | None => O end in
      ({| brackets := upd_nth bi (add_entry 0 {| e_past := None; e_id := id |}) brs;
          cur_bracket := cur_bracket s; cur_iter := cur_iter s; archive := arch |}, RUNNING,
       mk_payload {| i_label := b; i_bracket := b; i_round := 0; i_epochs := epochs b 0; i_initial := 0; i_parent := None |})
  | CPromote bi r q =>
      let b := match nth_error brs bi with Some br => bnum br | None => O end in
      ({| brackets := upd_nth bi (add_entry r {| e_past := Some q; e_id := id |}) brs;
          cur_bracket := cur_bracket s; cur_iter := cur_iter s; archive := arch |}, RUNNING,
       mk_payload {| i_label := b; i_bracket := b; i_round := r; i_epochs := epochs b r; i_initial := epochs b (r - 1); i_parent := Some q |})
  | CNone =>
      if Nat.eqb (cur_bracket s) 0 && match iterations h with Some n => Nat.eqb (S (cur_iter s)) n | None => false end then
        ({| brackets := brs; cur_bracket := cur_bracket s; cur_iter := cur_iter s; archive := arch |},
         (if ongoing_nonempty then IDLE else STOPPED), vdef)
      else
        let '(cb, ci) := match cur_bracket s with
                         | O => (nbrackets h - 1, S (cur_iter s))
                         | S k => (k, cur_iter s) end in
        let nb := add_entry 0 {| e_past := None; e_id := id |} (new_bracket cb) in
        ({| brackets := brs ++ [nb]; cur_bracket := cb; cur_iter := ci; archive := arch |}, RUNNING,
         mk_payload {| i_label := cb; i_bracket := cb; i_round := 0; i_epochs := epochs cb 0; i_initial := 0; i_parent := None |})
  end.
End HB.
