(* keras_tuner.engine.metrics_tracking.MetricHistory over extended rationals (exact value of the floats) *)
From Coq Require Import List ZArith QArith Bool Lia.
Import ListNotations.

Inductive fv := FNaN | FNInf | FFin (q : Q) | FPInf.

Definition fadd (a b : fv) : fv :=
  match a, b with
  | FNaN, _ | _, FNaN => FNaN
  | FPInf, FNInf | FNInf, FPInf => FNaN
  | FPInf, _ | _, FPInf => FPInf
  | FNInf, _ | _, FNInf => FNInf
  | FFin x, FFin y => FFin (x + y)
  end.
Definition fdivn (a : fv) (n : nat) : fv :=
  match a with FFin x => FFin (x / inject_Z (Z.of_nat n)) | other => other end.
Definition fmean (l : list fv) : fv := fdivn (fold_left fadd l (FFin 0)) (length l).

(* Python < on floats: false whenever NaN is involved *)
Definition flt (a b : fv) : bool :=
  match a, b with
  | FNaN, _ | _, FNaN => false
  | FNInf, FNInf => false | FNInf, _ => true
  | _, FNInf => false
  | FPInf, _ => false
  | _, FPInf => true
  | FFin x, FFin y => match x ?= y with Lt => true | _ => false end
  end.
Definition feq (a b : fv) : bool :=
  match a, b with
  | FNInf, FNInf | FPInf, FPInf => true
  | FFin x, FFin y => Qeq_bool x y
  | _, _ => false
  end.
Definition is_nan (a : fv) : bool := match a with FNaN => true | _ => false end.

Definition obs := list (Z * list fv).      (* step -> executions, in insertion order *)

Fixpoint update (o : obs) (v : fv) (step : Z) : obs :=
  match o with
  | [] => [(step, [v])]
  | (s, l) :: r => if Z.eqb s step then (s, l ++ [v]) :: r else (s, l) :: update r v step
  end.

Definition means (o : obs) : list fv := map (fun p => fmean (snd p)) o.

(* np.nanmin / np.nanmax: NaN entries ignored, NaN if nothing else *)
Definition nanbest (mx : bool) (l : list fv) : fv :=
  fold_left (fun acc x => if is_nan x then acc else if is_nan acc then x
                          else if (if mx then flt acc x else flt x acc) then x else acc) l FNaN.
Definition best_value (mx : bool) (o : obs) : option fv :=
  match o with [] => None | _ => Some (nanbest mx (means o)) end.
Definition best_step (mx : bool) (o : obs) : option Z :=
  match best_value mx o with
  | None => None
  | Some b => match find (fun p => feq (fmean (snd p)) b) o with Some p => Some (fst p) | None => None end
  end.

(* sorted(observations, key=step): steps are distinct, insertion sort *)
Fixpoint ins (p : Z * list fv) (l : obs) : obs :=
  match l with [] => [p] | q :: r => if Z.leb (fst p) (fst q) then p :: l else q :: ins p r end.
Definition history (o : obs) : obs := fold_right ins [] o.

(* ------------------------------------------------------------------------------------------ *)
(* MetricsTracker: metric name (interned) -> (maximise?, observations), in registration order. *)
Definition mname := positive.
Definition tracker := list (mname * (bool * obs)).

Fixpoint tlookup (n : mname) (t : tracker) : option (bool * obs) :=
  match t with [] => None | (k, v) :: r => if Pos.eqb k n then Some v else tlookup n r end.
Fixpoint tset (n : mname) (v : bool * obs) (t : tracker) : tracker :=
  match t with
  | [] => [(n, v)]
  | (k, w) :: r => if Pos.eqb k n then (k, v) :: r else (k, w) :: tset n v r
  end.

(* register(name, direction): `dir` is the direction handed in by Oracle.update_trial (the objective's, if the
   metric is an objective), `infer` the table of infer_metric_direction; default "min". *)
Definition tregister (infer : mname -> option bool) (n : mname) (dir : option bool) (t : tracker) : tracker :=
  match tlookup n t with
  | Some _ => t
  | None => let d := match dir with Some d => d | None => match infer n with Some d => d | None => false end end in
            tset n (d, []) t
  end.
Definition tupdate (infer : mname -> option bool) (n : mname) (dir : option bool) (v : fv) (step : Z) (t : tracker) : tracker :=
  let t1 := tregister infer n dir t in
  match tlookup n t1 with
  | Some (d, o) => tset n (d, update o v step) t1
  | None => t1
  end.
Definition t_best_value (n : mname) (t : tracker) : option fv :=
  match tlookup n t with Some (d, o) => best_value d o | None => None end.
Definition t_best_step (n : mname) (t : tracker) : option Z :=
  match tlookup n t with Some (d, o) => best_step d o | None => None end.

(* ------------------------------------------------------------------------------------------ *)
(* Objectives and result conversion (tuner_utils.convert_to_metrics_dict / get_best_step).      *)
Inductive objective :=
| OSingle (n : mname) (mx : bool)
| OMulti (self : mname) (parts : list (mname * bool)).   (* name "multi_objective", direction min *)

Definition obj_name (o : objective) : mname := match o with OSingle n _ => n | OMulti s _ => s end.
Definition obj_max (o : objective) : bool := match o with OSingle _ mx => mx | OMulti _ _ => false end.

Definition mdict := list (mname * fv).       (* a metrics dict / one epoch of logs, in insertion order *)
Fixpoint dlookup (n : mname) (d : mdict) : option fv :=
  match d with [] => None | (k, v) :: r => if Pos.eqb k n then Some v else dlookup n r end.
Definition fneg (a : fv) : fv :=
  match a with FNaN => FNaN | FNInf => FPInf | FPInf => FNInf | FFin q => FFin (- q) end.
Fixpoint plookup (n : mname) (p : list (mname * bool)) : option bool :=
  match p with [] => None | (k, v) :: r => if Pos.eqb k n then Some v else plookup n r end.

(* Objective.get_value / MultiObjective.get_value *)
Definition obj_value (o : objective) (logs : mdict) : option fv :=
  match o with
  | OSingle n _ => dlookup n logs
  | OMulti _ parts =>
      Some (fold_left (fun acc kv => match plookup (fst kv) parts with
                                     | None => acc
                                     | Some false => fadd acc (snd kv)
                                     | Some true => fadd acc (fneg (snd kv)) end) logs (FFin 0))
  end.
(* Objective.better_than a b *)
Definition better_than (mx : bool) (a b : fv) : bool := if mx then flt b a else flt a b.

(* _get_best_value_and_best_epoch_from_history over a rectangular history given by epochs; every epoch's
   dict receives the objective value under the objective's name if it is not already there *)
Definition with_obj (o : objective) (logs : mdict) : mdict :=
  match dlookup (obj_name o) logs, obj_value o logs with
  | None, Some v => logs ++ [(obj_name o, v)]
  | _, _ => logs
  end.
Fixpoint best_epoch_from (o : objective) (eps : list mdict) (i : nat) (bi : nat) (bv : fv) : nat :=
  match eps with
  | [] => bi
  | e :: r => match obj_value o e with
              | Some v => if better_than (obj_max o) v bv then best_epoch_from o r (S i) i v
                          else best_epoch_from o r (S i) bi bv
              | None => bi
              end
  end.
Definition hist_best_epoch (o : objective) (eps : list mdict) : nat :=
  match eps with
  | [] => 0%nat
  | e :: r => match obj_value o e with Some v => best_epoch_from o r 1%nat 0%nat v | None => 0%nat end
  end.

Inductive result :=
| RFloat (x : fv)
| RDict (d : mdict)
| RHist (epochs : list mdict)
| RList (l : list result).

(* average_metrics_dicts: per name (first-appearance order) the mean of the values of the dicts that have it *)
Fixpoint dadd (n : mname) (v : fv) (acc : list (mname * list fv)) : list (mname * list fv) :=
  match acc with
  | [] => [(n, [v])]
  | (k, l) :: r => if Pos.eqb k n then (k, l ++ [v]) :: r else (k, l) :: dadd n v r
  end.
Definition collect (ds : list mdict) : list (mname * list fv) :=
  fold_left (fun acc d => fold_left (fun acc kv => dadd (fst kv) (snd kv) acc) d acc) ds [].
Definition average (ds : list mdict) : mdict := map (fun kl => (fst kl, fmean (snd kl))) (collect ds).

Fixpoint convert (o : objective) (r : result) : mdict :=
  match r with
  | RFloat x => [(obj_name o, x)]
  | RDict d => d
  | RHist eps => with_obj o (nth (hist_best_epoch o eps) eps [])
  | RList l => average (map (convert o) l)
  end.

(* get_best_step: int(statistics.mean(...)) of non-negative ints = floor of the exact mean *)
Fixpoint result_best_step (o : objective) (r : result) : nat :=
  match r with
  | RHist eps => hist_best_epoch o eps
  | RList l => (fold_left Nat.add (map (result_best_step o) l) 0%nat / length l)%nat
  | _ => 0%nat
  end.
