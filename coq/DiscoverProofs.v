(* C13(c), partial correctness of BaseTuner._populate_initial_space / _activate_all_conditions (Discover.activate), for ANY build
   function (the build is an opaque function of the container here):
   when the loop returns, (1) every conditional scope that any of the builds opened - active or not - was active in at least
   one of the builds, and (2) with allow_new_entries = tune_new_entries = True every entry any build registered is in the
   oracle's search space. Termination is not proved (explored by the correspondence with the number of builds). *)
From stdpp Require Import gmap list.
From Coq Require Import ZArith Lia.
From KT Require Import Space Discover.

(* ---- Python equality on condition stacks is an equivalence ---- *)
Lemma py_eq_refl v : py_eq v v = true.
Proof. unfold py_eq. destruct (num_of v) as [[n d]|]; [apply Z.eqb_refl|by apply bool_decide_eq_true]. Qed.
Lemma py_eq_sym a b : py_eq a b = py_eq b a.
Proof.
  unfold py_eq. destruct (num_of a) as [[n1 d1]|], (num_of b) as [[n2 d2]|]; try done.
  - apply Z.eqb_sym.
  - apply bool_decide_ext. split; congruence.
Qed.
Lemma py_eq_trans a b c : py_eq a b = true → py_eq b c = true → py_eq a c = true.
Proof.
  unfold py_eq. destruct (num_of a) as [[n1 d1]|] eqn:Ea, (num_of b) as [[n2 d2]|] eqn:Eb, (num_of c) as [[n3 d3]|] eqn:Ec; try done.
  - rewrite !Z.eqb_eq. intros H1 H2. assert (H : (Z.pos d2 * (n1 * Z.pos d3 - n3 * Z.pos d1) = 0)%Z) by nia.
    apply Z.mul_eq_0 in H as [H|H]; lia.
  - intros H1 H2. apply bool_decide_eq_true in H1, H2. apply bool_decide_eq_true. congruence.
Qed.

Lemma vals_eqb_refl l : forallb (λ p : value * value, py_eq p.1 p.2) (zip l l) = true.
Proof. induction l as [|x r IH]; cbn; [done|]. by rewrite py_eq_refl. Qed.
Lemma cond_eqb_refl c : cond_eqb c c = true.
Proof. unfold cond_eqb. rewrite bool_decide_eq_true_2 by done. rewrite Nat.eqb_refl, vals_eqb_refl. done. Qed.
Lemma zip_py_sym (l1 : list value) : ∀ l2, forallb (λ p : value * value, py_eq p.1 p.2) (zip l1 l2) = forallb (λ p : value * value, py_eq p.1 p.2) (zip l2 l1).
Proof. induction l1 as [|x r IH]; intros [|y l2]; cbn; try done. by rewrite py_eq_sym, IH. Qed.
Lemma cond_eqb_sym a b : cond_eqb a b = cond_eqb b a.
Proof.
  unfold cond_eqb. rewrite (zip_py_sym (c_values a)), (Nat.eqb_sym (length (c_values a))).
  f_equal. apply bool_decide_ext. split; congruence.
Qed.
Lemma zip_py_trans (l1 : list value) : ∀ l2 l3, length l1 = length l2 → length l2 = length l3 →
  forallb (λ p : value * value, py_eq p.1 p.2) (zip l1 l2) = true → forallb (λ p : value * value, py_eq p.1 p.2) (zip l2 l3) = true →
  forallb (λ p : value * value, py_eq p.1 p.2) (zip l1 l3) = true.
Proof.
  induction l1 as [|x r IH]; intros [|y l2] [|z l3] H1 H2; cbn in *; try done.
  rewrite !andb_true_iff. intros [Ha Hb] [Hc Hd]. split; [by eapply py_eq_trans|]. eapply (IH l2 l3); eauto; lia.
Qed.
Lemma cond_eqb_trans a b c : cond_eqb a b = true → cond_eqb b c = true → cond_eqb a c = true.
Proof.
  unfold cond_eqb. rewrite !andb_true_iff, !bool_decide_eq_true, !Nat.eqb_eq. intros (H1 & H2 & H3) (H4 & H5 & H6).
  split; [congruence|]. split; [congruence|]. eapply zip_py_trans; eauto.
Qed.
Lemma conds_eqb_refl a : conds_eqb a a = true.
Proof. induction a as [|x r IH]; cbn; [done|]. by rewrite cond_eqb_refl. Qed.
Lemma conds_eqb_sym a : ∀ b, conds_eqb a b = conds_eqb b a.
Proof. induction a as [|x r IH]; intros [|y b]; cbn; try done. by rewrite cond_eqb_sym, IH. Qed.
Lemma conds_eqb_trans a : ∀ b c, conds_eqb a b = true → conds_eqb b c = true → conds_eqb a c = true.
Proof.
  induction a as [|x r IH]; intros [|y b] [|z c]; cbn; try done.
  rewrite !andb_true_iff. intros [H1 H2] [H3 H4]. split; [by eapply cond_eqb_trans|by eapply IH].
Qed.

Lemma scope_in_spec c l : scope_in c l = true ↔ ∃ x, x ∈ l ∧ conds_eqb c x = true.
Proof.
  unfold scope_in. rewrite existsb_exists. split; intros (x & Hx & He); exists x; split; auto; by apply elem_of_list_In.
Qed.
Lemma scope_in_eqb c c' l : conds_eqb c c' = true → scope_in c l = scope_in c' l.
Proof.
  intros He. apply eq_true_iff_eq. rewrite !scope_in_spec. split; intros (x & Hx & Hcx); exists x; split; auto.
  - eapply conds_eqb_trans; [|exact Hcx]. by rewrite conds_eqb_sym.
  - eapply conds_eqb_trans; eauto.
Qed.
Lemma scope_in_app c l1 l2 : scope_in c (l1 ++ l2) = scope_in c l1 || scope_in c l2.
Proof. unfold scope_in. apply existsb_app. Qed.

Lemma remove_first_in c x l : x ∈ remove_first c l → x ∈ l.
Proof.
  induction l as [|y r IH]; cbn; [done|]. destruct (conds_eqb c y); [intros H; by right|].
  intros H. apply elem_of_cons in H as [->|H]; [by left|right; auto].
Qed.
(* what is left in `never` after removing the first entry equal to c: everything that is not equal to c is still there *)
Lemma remove_first_keeps c x l : x ∈ l → conds_eqb c x = false → x ∈ remove_first c l.
Proof.
  induction l as [|y r IH]; cbn; [done|]. intros H Hne. apply elem_of_cons in H as [->|H].
  - rewrite Hne. by left.
  - destruct (conds_eqb c y); [done|]. right. auto.
Qed.

(* ---- the bookkeeping of one build ---- *)
Section book.
(* WA cs: cs was active in one of the builds so far (a parameter here) *)
Variable WA : list cond → Prop.
Hypothesis WA_eqb : ∀ c c', conds_eqb c c' = true → WA c → WA c'.

Definition BK (never once : list (list cond)) (seen : list cond → Prop) : Prop :=
  (∀ c, c ∈ once → WA c) ∧ (∀ c, seen c → WA c ∨ scope_in c never = true).

Lemma note_active_bk never once seen c : BK never once seen → WA c →
  let '(n', o') := note_active (never, once) c in BK n' o' (λ x, seen x ∨ conds_eqb x c = true).
Proof.
  intros [H1 H2] Hc. unfold note_active. split.
  - intros x Hx. destruct (scope_in c once); [auto|]. apply elem_of_app in Hx as [Hx|Hx]; [auto|]. apply elem_of_list_singleton in Hx. by subst.
  - intros x [Hx|Hx].
    + destruct (H2 x Hx) as [Hw|Hn]; [by left|].
      destruct (scope_in c never) eqn:Ecn; [|by right].
      apply scope_in_spec in Hn as (y & Hy & Hxy).
      destruct (conds_eqb c y) eqn:Ecy.
      * left. eapply WA_eqb; [|exact Hc]. eapply conds_eqb_trans; [exact Ecy|]. by rewrite conds_eqb_sym.
      * right. apply scope_in_spec. exists y. split; [by apply remove_first_keeps|done].
    + left. eapply WA_eqb; [|exact Hc]. by rewrite conds_eqb_sym.
Qed.

Lemma note_inactive_bk never once seen c : BK never once seen →
  let '(n', o') := note_inactive (never, once) c in BK n' o' (λ x, seen x ∨ conds_eqb x c = true).
Proof.
  intros [H1 H2]. unfold note_inactive. destruct (scope_in c once) eqn:Eco.
  - split; [done|]. intros x [Hx|Hx]; [auto|]. left.
    apply scope_in_spec in Eco as (y & Hy & Hcy). eapply WA_eqb; [|exact (H1 y Hy)].
    rewrite conds_eqb_sym. eapply conds_eqb_trans; eauto.
  - split; [done|]. intros x [Hx|Hx].
    + destruct (H2 x Hx) as [Hw|Hn]; [by left|right]. rewrite scope_in_app, Hn. done.
    + right. rewrite scope_in_app. apply orb_true_iff. right. apply scope_in_spec. exists c. split; [by left|done].
Qed.

Lemma fold_active_bk l : ∀ never once seen, BK never once seen → (∀ c, c ∈ l → WA c) →
  let '(n', o') := fold_left note_active l (never, once) in BK n' o' (λ x, seen x ∨ scope_in x l = true).
Proof.
  induction l as [|c r IH]; intros never once seen HB Hl; cbn [fold_left].
  - destruct HB as [H1 H2]. split; [done|]. intros x [Hx|Hx]; [auto|done].
  - pose proof (note_active_bk never once seen c HB (Hl c ltac:(by left))) as H.
    destruct (note_active (never, once) c) as [n1 o1].
    specialize (IH n1 o1 _ H (λ x Hx, Hl x ltac:(by right))).
    destruct (fold_left note_active r (n1, o1)) as [n2 o2]. destruct IH as [I1 I2]. split; [done|].
    intros x [Hx|Hx]; [apply I2; left; by left|].
    cbn in Hx. apply orb_true_iff in Hx as [Hx|Hx]; [apply I2; left; by right|apply I2; by right].
Qed.
Lemma fold_inactive_bk l : ∀ never once seen, BK never once seen →
  let '(n', o') := fold_left note_inactive l (never, once) in BK n' o' (λ x, seen x ∨ scope_in x l = true).
Proof.
  induction l as [|c r IH]; intros never once seen HB; cbn [fold_left].
  - destruct HB as [H1 H2]. split; [done|]. intros x [Hx|Hx]; [auto|done].
  - pose proof (note_inactive_bk never once seen c HB) as H.
    destruct (note_inactive (never, once) c) as [n1 o1].
    specialize (IH n1 o1 _ H).
    destruct (fold_left note_inactive r (n1, o1)) as [n2 o2]. destruct IH as [I1 I2]. split; [done|].
    intros x [Hx|Hx]; [apply I2; left; by left|].
    cbn in Hx. apply orb_true_iff in Hx as [Hx|Hx]; [apply I2; left; by right|apply I2; by right].
Qed.
End book.

(* ---- the loop, with the containers of all builds kept ---- *)
Section act.
Variable draw : nat → hp → value.
Variable B : hps → hps * list event * bool.     (* one build: the container afterwards, the log, whether it raised *)
Variables allow tune : bool.

Fixpoint activate_h (fuel : nat) (osp : hps) (hp : hps) (never once : list (list cond)) (k builds : nat) (hist : list hps) : act_res * list hps :=
  match fuel with
  | O => (ActFuel, hist)
  | S fuel =>
      let '(hp', _, raised) := B hp in
      if raised then (ActError, hist ++ [hp']) else
      match update_space allow tune osp hp' with
      | UsNotAllowed => (ActError, hist ++ [hp'])
      | UsOk osp' =>
          let '(never1, once1) := fold_left note_active (s_active hp') (never, once) in
          let '(never2, once2) := fold_left note_inactive (s_inactive hp') (never1, once1) in
          match never2 with
          | [] => (ActDone osp' k (S builds), hist ++ [hp'])
          | chain :: _ =>
              let hp0 := copy_hps osp' in
              let v := fold_left (fun v c => match c_values c with x :: _ => <[c_name c := x]> v | [] => v end) chain (s_values hp0) in
              let '(hp1, k') := ensure_active draw (set_values hp0 v) k in
              activate_h fuel osp' hp1 never2 once2 k' (S builds) (hist ++ [hp'])
          end
      end
  end.

Definition WAh (hist : list hps) (cs : list cond) : Prop := ∃ h, h ∈ hist ∧ scope_in cs (s_active h) = true.
Definition Seenh (hist : list hps) (cs : list cond) : Prop := ∃ h, h ∈ hist ∧ scope_in cs (s_active h ++ s_inactive h) = true.

Lemma WAh_eqb hist c c' : conds_eqb c c' = true → WAh hist c → WAh hist c'.
Proof. intros He (h & Hh & Hs). exists h. split; [done|]. by rewrite <-(scope_in_eqb c c' _ He). Qed.
Lemma WAh_mono hist x c : WAh hist c → WAh (hist ++ [x]) c.
Proof. intros (h & Hh & Hs). exists h. split; [apply elem_of_app; by left|done]. Qed.

Theorem activate_scopes fuel : ∀ osp hp never once k builds hist osp' k' b hist',
  BK (WAh hist) never once (Seenh hist) →
  activate_h fuel osp hp never once k builds hist = (ActDone osp' k' b, hist') →
  ∀ cs, Seenh hist' cs → WAh hist' cs.
Proof.
  induction fuel as [|fuel IH]; intros osp hp never once k builds hist osp' k' b hist' HB Hrun; cbn [activate_h] in Hrun; [done|].
  destruct (B hp) as [[hp' lg] raised]. destruct raised; [done|].
  destruct (update_space allow tune osp hp') as [osp1|]; [|done].
  set (hist1 := hist ++ [hp']) in *.
  assert (HB1 : BK (WAh hist1) never once (Seenh hist)).
  { destruct HB as [H1 H2]. split; [intros c Hc; by apply WAh_mono, H1|].
    intros c Hc. destruct (H2 c Hc) as [H|H]; [left; by apply WAh_mono|by right]. }
  pose proof (fold_active_bk (WAh hist1) (WAh_eqb hist1) (s_active hp') never once (Seenh hist) HB1) as Ha.
  destruct (fold_left note_active (s_active hp') (never, once)) as [never1 once1].
  assert (Hact : ∀ c, c ∈ s_active hp' → WAh hist1 c).
  { intros c Hc. exists hp'. split; [apply elem_of_app; right; by left|]. apply scope_in_spec. exists c. split; [done|apply conds_eqb_refl]. }
  specialize (Ha Hact).
  pose proof (fold_inactive_bk (WAh hist1) (WAh_eqb hist1) (s_inactive hp') never1 once1 _ Ha) as Hi.
  destruct (fold_left note_inactive (s_inactive hp') (never1, once1)) as [never2 once2].
  assert (HB2 : BK (WAh hist1) never2 once2 (Seenh hist1)).
  { destruct Hi as [I1 I2]. split; [done|]. intros c (h & Hh & Hs). apply I2.
    apply elem_of_app in Hh as [Hh|Hh].
    - left. left. by exists h.
    - apply elem_of_list_singleton in Hh. subst h. rewrite scope_in_app in Hs. apply orb_true_iff in Hs as [Hs|Hs]; [left; by right|by right]. }
  destruct never2 as [|chain rest].
  - inversion Hrun; subst. intros cs Hcs. destruct HB2 as [_ H2]. destruct (H2 cs Hcs) as [H|H]; [done|done].
  - destruct (ensure_active draw _ k) as [hp1 k1]. eapply IH; eauto.
Qed.

(* every conditional scope that any build opened has been active in some build *)
Corollary discovery_activates_every_scope fuel osp osp' k' b hist' :
  activate_h fuel osp (copy_hps osp) [] [] 0 0 [] = (ActDone osp' k' b, hist') →
  ∀ h cs, h ∈ hist' → cs ∈ s_active h ++ s_inactive h → ∃ h', h' ∈ hist' ∧ scope_in cs (s_active h') = true.
Proof.
  intros Hrun h cs Hh Hcs. eapply (activate_scopes fuel); [|exact Hrun|].
  - split; [intros c Hc; by apply elem_of_nil in Hc|]. intros c (x & Hx & _). by apply elem_of_nil in Hx.
  - exists h. split; [done|]. apply scope_in_spec. exists cs. split; [done|apply conds_eqb_refl].
Qed.
End act.

(* with the build function of Discover.activate (a program run by Space.exec) this is Discover.activate *)
Definition run_build (build : list stmt) (hp : hps) : hps * list event * bool := exec 2000 hp build [].
Lemma activate_h_fst draw build allow tune fuel : ∀ osp hp never once k builds hist,
  (activate_h draw (run_build build) allow tune fuel osp hp never once k builds hist).1
  = activate draw build allow tune fuel osp hp never once k builds.
Proof.
  unfold run_build. induction fuel as [|fuel IH]; intros; cbn [activate_h activate]; [done|].
  destruct (exec 2000 hp build []) as [[hp' lg] raised]. destruct raised; [done|].
  destruct (update_space allow tune osp hp') as [osp'|]; [|done].
  destruct (fold_left note_active (s_active hp') (never, once)) as [never1 once1].
  destruct (fold_left note_inactive (s_inactive hp') (never1, once1)) as [never2 once2].
  destruct never2 as [|chain rest]; [done|].
  destruct (ensure_active draw _ k) as [hp1 k']. apply IH.
Qed.

(* ---- (2) with allow_new_entries = tune_new_entries = True every entry any build registered is in the oracle's space ---- *)
Section space.
Lemma register_empty_stack s h ow : s_conds s = [] →
  ∃ s' v, register s h ow = Ok (s', v) ∧ s_space s' = s_space s ++ [h] ∧ s_conds s' = [].
Proof.
  intros Hc. unfold register. rewrite Hc. cbn [existsb].
  match goal with |- context [if is_active ?S h then _ else _] => destruct (is_active S h) end; eexists _, _; split; try reflexivity; cbn; done.
Qed.
Lemma exists_mono s s' l n c : s_space s' = s_space s ++ l → exists_ s n c = true → exists_ s' n c = true.
Proof. unfold exists_. intros ->. rewrite existsb_app. intros ->. done. Qed.
Lemma exists_new s s' h : s_space s' = s_space s ++ [h] → exists_ s' (h_name h) (h_conds h) = true.
Proof.
  unfold exists_. intros ->. rewrite existsb_app. apply orb_true_iff. right. cbn.
  rewrite bool_decide_eq_true_2 by done. by rewrite conds_eqb_refl.
Qed.

Lemma merge_list_spec l : ∀ s, s_conds s = [] →
  s_conds (merge_list s l) = [] ∧ (∀ n c, exists_ s n c = true → exists_ (merge_list s l) n c = true) ∧
  (∀ h, h ∈ l → exists_ (merge_list s l) (h_name h) (h_conds h) = true).
Proof.
  induction l as [|h r IH]; intros s Hc; cbn [merge_list fold_left].
  - split; [done|]. split; [done|]. intros h Hh. by apply elem_of_nil in Hh.
  - destruct (register_empty_stack s h true Hc) as (s1 & v & Hr & Hs & Hc1). rewrite Hr.
    destruct (IH s1 Hc1) as (I1 & I2 & I3). fold (merge_list s1 r). split; [done|]. split.
    + intros n c Hn. apply I2. by eapply exists_mono.
    + intros x Hx. apply elem_of_cons in Hx as [->|Hx]; [|by apply I3]. apply I2. by eapply exists_new.
Qed.

Lemma update_space_covers osp hp' osp1 : s_conds osp = [] → update_space true true osp hp' = UsOk osp1 →
  s_conds osp1 = [] ∧ (∀ n c, exists_ osp n c = true → exists_ osp1 n c = true) ∧
  (∀ e, e ∈ s_space hp' → exists_ osp1 (h_name e) (h_conds e) = true).
Proof.
  intros Hc. unfold update_space. cbn [negb andb]. intros [= <-].
  set (new := filter _ (s_space hp')).
  destruct (merge_list_spec new osp Hc) as (I1 & I2 & I3). split; [done|]. split; [done|].
  intros e He. destruct (exists_ osp (h_name e) (h_conds e)) eqn:Ex; [by apply I2|].
  apply I3. unfold new. apply elem_of_list_filter. split; [|done]. rewrite Ex. done.
Qed.

Variable draw : nat → hp → value.
Variable B : hps → hps * list event * bool.

Definition J2 (osp : hps) (hist : list hps) : Prop :=
  s_conds osp = [] ∧ ∀ h e, h ∈ hist → e ∈ s_space h → exists_ osp (h_name e) (h_conds e) = true.

Theorem activate_space fuel : ∀ osp hp never once k builds hist osp' k' b hist',
  J2 osp hist → activate_h draw B true true fuel osp hp never once k builds hist = (ActDone osp' k' b, hist') → J2 osp' hist'.
Proof.
  induction fuel as [|fuel IH]; intros osp hp never once k builds hist osp' k' b hist' [Hc HJ] Hrun; cbn [activate_h] in Hrun; [done|].
  destruct (B hp) as [[hp' lg] raised]. destruct raised; [done|].
  destruct (update_space true true osp hp') as [osp1|] eqn:Eu; [|done].
  destruct (update_space_covers osp hp' osp1 Hc Eu) as (U1 & U2 & U3).
  assert (HJ1 : J2 osp1 (hist ++ [hp'])).
  { split; [done|]. intros h e Hh He. apply elem_of_app in Hh as [Hh|Hh]; [apply U2; by eapply HJ|].
    apply elem_of_list_singleton in Hh. subst. by apply U3. }
  destruct (fold_left note_active (s_active hp') (never, once)) as [never1 once1].
  destruct (fold_left note_inactive (s_inactive hp') (never1, once1)) as [never2 once2].
  destruct never2 as [|chain rest].
  - inversion Hrun; subst. done.
  - destruct (ensure_active draw _ k) as [hp1 k1]. eapply IH; eauto.
Qed.
Lemma activate_h_length fuel : ∀ osp hp never once k builds hist0 r hist1,
  activate_h draw B true true fuel osp hp never once k builds hist0 = (r, hist1) →
  match r with ActDone _ _ b' => length hist1 + builds = b' + length hist0 | _ => True end.
Proof.
  induction fuel as [|fuel IH]; intros osp hp never once k builds hist0 r hist1 H; cbn [activate_h] in H; [by inversion H|].
  destruct (B hp) as [[hp' lg] raised]. destruct raised; [by inversion H|].
  destruct (update_space true true osp hp') as [osp1|]; [|by inversion H].
  destruct (fold_left note_active (s_active hp') (never, once)) as [never1 once1].
  destruct (fold_left note_inactive (s_inactive hp') (never1, once1)) as [never2 once2].
  destruct never2 as [|chain rest].
  - inversion H; subst. rewrite app_length. cbn. lia.
  - destruct (ensure_active draw _ k) as [hp1 k1]. apply IH in H. destruct r; try done. rewrite app_length in H. cbn in H. lia.
Qed.
End space.

(* ---- both, for _populate_initial_space as modelled (Discover.populate_initial) ---- *)
Theorem discovery_partial_correctness draw build fuel osp osp' k' b :
  s_conds osp = [] →
  populate_initial draw build true true fuel osp = ActDone osp' k' b →
  ∃ hist : list hps,
    (* the containers after each of the b builds *)
    length hist = b ∧
    (* every conditional scope opened in any build was active in some build *)
    (∀ h cs, h ∈ hist → cs ∈ s_active h ++ s_inactive h → ∃ h', h' ∈ hist ∧ scope_in cs (s_active h') = true) ∧
    (* everything any build registered is in the oracle's search space *)
    (∀ h e, h ∈ hist → e ∈ s_space h → exists_ osp' (h_name e) (h_conds e) = true).
Proof.
  intros Hc Hrun. unfold populate_initial in Hrun.
  pose proof (activate_h_fst draw build true true fuel osp (copy_hps osp) [] [] 0 0 []) as Hf.
  remember (activate_h draw (run_build build) true true fuel osp (copy_hps osp) [] [] 0 0 []) as res eqn:Eh.
  destruct res as [r hist]. cbn [fst] in Hf. rewrite Hrun in Hf. subst r. symmetry in Eh.
  exists hist. split; [|split].
  - pose proof (activate_h_length draw (run_build build) fuel _ _ _ _ _ _ _ _ _ Eh) as Hlen. cbn in Hlen. lia.
  - exact (discovery_activates_every_scope draw (run_build build) true true fuel osp osp' k' b hist Eh).
  - pose proof (activate_space draw (run_build build) fuel osp (copy_hps osp) [] [] 0 0 [] osp' k' b hist) as H.
    destruct H as [_ H]; [|exact Eh|exact H]. split; [done|]. intros h e Hh. by apply elem_of_nil in Hh.
Qed.
Print Assumptions discovery_partial_correctness.
