(* trial files never lag behind memory in the trial's payload, as long as re-issuing a trial does not change it (reissue = id):
   every operation that changes a trial's payload also rewrites its file. Used to carry algorithm invariants that read the
   payloads (grid search: C09) across save+reload. *)
From Coq Require Import List ZArith Bool Lia PeanoNat.
Import ListNotations.
From KT Require Import Lifecycle LInv.

Section Sync.
Context {A V Sc : Type}.
Variable vdef : V.
Notation trial := (trial V Sc).
Variable score_fn : V -> scored Sc.
Variable populate : A -> list trial -> bool -> tid -> A * status * V.
Variable hook_end hook_end_abort : A -> tid -> V -> A.
Variable hook_reload : A -> A.
Variable reissue : V -> V.
Hypothesis reissue_id : forall v, reissue v = v.
Notation ost := (@ostate A V Sc).
Notation stepf := (step vdef score_fn populate hook_end hook_end_abort hook_reload reissue).

Definition DSync (s : ost) : Prop :=
  forall j t d, nth_error (trials s) j = Some t -> nth_error (disk s) j = Some d -> d_data d = t_data t.

Lemma dsync_init (a : A) : DSync (init a : ost).
Proof. intros [|j] t d H; discriminate. Qed.

Lemma dsync_upd (s : ost) id (t' : trial) ts' dk' :
  DSync s -> ts' = upd id (fun _ => t') (trials s) -> dk' = upd id (fun _ => to_disk t') (disk s) ->
  forall j t d, nth_error ts' j = Some t -> nth_error dk' j = Some d -> d_data d = t_data t.
Proof.
  intros HD -> -> j t d Ht Hd. destruct (Nat.eq_dec id j) as [->|Hne].
  - rewrite nth_upd_same in Ht. rewrite nth_upd_same in Hd. destruct (nth_error (trials s) j); [|discriminate]. destruct (nth_error (disk s) j); [|discriminate].
    cbn in Ht, Hd. inversion Ht; inversion Hd; subst. reflexivity.
  - rewrite nth_upd_other in Ht by exact Hne. rewrite nth_upd_other in Hd by exact Hne. eapply HD; eauto.
Qed.

Theorem dsync_step c (s : ost) o : abort_early c = false -> Inv s -> DSync s -> DSync (fst (stepf c s o)).
Proof.
  intros Hab HI HD. destruct o as [tu|id f|id es f|]; cbn [step].
  - unfold do_create. destruct (alookup tu (ongoing s)); [destruct (trial_view vdef (trials s) t); exact HD|].
    destruct (rev (retryq s)) as [|idr rq'].
    + match goal with |- context [match ?X with (_, _) => _ end] => destruct X as [[a' st] v] end.
      destruct st; cbn [fst]; try exact HD.
      intros j t d Ht Hd. cbn [trials disk] in *.
      destruct (Nat.lt_ge_cases j (length (trials s))) as [Hlt|Hge].
      * rewrite nth_error_app1 in Ht by exact Hlt. rewrite nth_error_app1 in Hd by (rewrite (I_disk_len _ HI); exact Hlt). eapply HD; eauto.
      * rewrite nth_error_app2 in Ht by exact Hge. rewrite nth_error_app2 in Hd by (rewrite (I_disk_len _ HI); exact Hge).
        rewrite (I_disk_len _ HI) in Hd. destruct (j - length (trials s)) as [|[|k]]; cbn in Ht, Hd; try discriminate.
        inversion Ht; inversion Hd; subst. reflexivity.
    + cbn [fst]. intros j t d Ht Hd. cbn [trials disk] in *. destruct (Nat.eq_dec idr j) as [->|Hne].
      * rewrite nth_upd_same in Ht. destruct (nth_error (trials s) j) as [t0|] eqn:Et0; [|discriminate]. cbn in Ht. inversion Ht; subst. cbn.
        rewrite reissue_id. eapply HD; eauto.
      * rewrite nth_upd_other in Ht by exact Hne. eapply HD; eauto.
  - unfold do_update. destruct (nth_error (trials s) id) as [t0|]; cbn [fst]; [|exact HD].
    unfold DSync; cbn [trials disk]; eapply (dsync_upd s id _ _ _ HD); reflexivity.
  - unfold do_end. destruct (negb (existsb (fun kv => snd kv =? id) (ongoing s))); [exact HD|].
    destruct (nth_error (trials s) id) as [t0|]; [|exact HD]. rewrite Hab.
    repeat match goal with
    | |- context [match ?X with ECompleted => _ | EInvalid => _ | EFailed => _ end] => destruct X
    | |- context [match score_fn ?x with SNaN => _ | SVal _ => _ end] => destruct (score_fn x)
    | |- context [Nat.leb ?a ?b] => destruct (Nat.leb a b)
    | |- context [if streak ?a ?b ?d ?e then _ else _] => destruct (streak a b d e)
    end; cbn [fst]; unfold DSync; cbn [trials disk]; eapply (dsync_upd s id _ _ _ HD); reflexivity.
  - cbn [do_reload fst]. intros j t d Ht Hd. cbn [trials disk] in *.
    destruct (nth_error (trials s) j) as [t0|] eqn:Et0.
    + rewrite (from_disk_nth _ _ _ _ _ Et0 Hd) in Ht. inversion Ht; subst. reflexivity.
    + assert (Hlen : length (from_disk (trials s) (disk s)) = length (trials s)) by (apply from_disk_length, (I_disk_len _ HI)).
      apply nth_error_None in Et0. assert (j < length (from_disk (trials s) (disk s))) by (apply nth_error_Some; congruence). lia.
Qed.

(* ... so save+reload keeps every trial's payload *)
Lemma reload_data (s : ost) j : Inv s -> DSync s ->
  option_map (@t_data V Sc) (nth_error (trials (fst (do_reload hook_reload s))) j) = option_map (@t_data V Sc) (nth_error (trials s) j).
Proof.
  intros HI HD. cbn [do_reload fst trials].
  destruct (nth_error (trials s) j) as [t0|] eqn:Et0.
  - destruct (nth_error (disk s) j) as [d|] eqn:Ed.
    + rewrite (from_disk_nth _ _ _ _ _ Et0 Ed). cbn. f_equal. eapply HD; eauto.
    + apply nth_error_None in Ed. rewrite (I_disk_len _ HI) in Ed. assert (j < length (trials s)) by (apply nth_error_Some; congruence). lia.
  - assert (Hlen : length (from_disk (trials s) (disk s)) = length (trials s)) by (apply from_disk_length, (I_disk_len _ HI)).
    apply nth_error_None in Et0. assert (H : nth_error (from_disk (trials s) (disk s)) j = None) by (apply nth_error_None; lia). now rewrite H.
Qed.

(* the same for a projection of the payload that re-issuing leaves alone (random search: the values, not the metrics) *)
Section Proj.
Context {W : Type}.
Variable p : V -> W.
Variable reissue' : V -> V.
Hypothesis reissue_p : forall v, p (reissue' v) = p v.
Notation stepp := (step vdef score_fn populate hook_end hook_end_abort hook_reload reissue').

Definition DSyncP (s : ost) : Prop :=
  forall j t d, nth_error (trials s) j = Some t -> nth_error (disk s) j = Some d -> p (d_data d) = p (t_data t).

Lemma dsyncp_init (a : A) : DSyncP (init a : ost).
Proof. intros [|j] t d H; discriminate. Qed.

Lemma dsyncp_upd (s : ost) id (t' : trial) ts' dk' :
  DSyncP s -> ts' = upd id (fun _ => t') (trials s) -> dk' = upd id (fun _ => to_disk t') (disk s) ->
  forall j t d, nth_error ts' j = Some t -> nth_error dk' j = Some d -> p (d_data d) = p (t_data t).
Proof.
  intros HD -> -> j t d Ht Hd. destruct (Nat.eq_dec id j) as [->|Hne].
  - rewrite nth_upd_same in Ht. rewrite nth_upd_same in Hd. destruct (nth_error (trials s) j); [|discriminate]. destruct (nth_error (disk s) j); [|discriminate].
    cbn in Ht, Hd. inversion Ht; inversion Hd; subst. reflexivity.
  - rewrite nth_upd_other in Ht by exact Hne. rewrite nth_upd_other in Hd by exact Hne. eapply HD; eauto.
Qed.

Theorem dsyncp_step c (s : ost) o : abort_early c = false -> Inv s -> DSyncP s -> DSyncP (fst (stepp c s o)).
Proof.
  intros Hab HI HD. destruct o as [tu|id f|id es f|]; cbn [step].
  - unfold do_create. destruct (alookup tu (ongoing s)); [destruct (trial_view vdef (trials s) t); exact HD|].
    destruct (rev (retryq s)) as [|idr rq'].
    + match goal with |- context [match ?X with (_, _) => _ end] => destruct X as [[a' st] v] end.
      destruct st; cbn [fst]; try exact HD.
      intros j t d Ht Hd. cbn [trials disk] in *.
      destruct (Nat.lt_ge_cases j (length (trials s))) as [Hlt|Hge].
      * rewrite nth_error_app1 in Ht by exact Hlt. rewrite nth_error_app1 in Hd by (rewrite (I_disk_len _ HI); exact Hlt). eapply HD; eauto.
      * rewrite nth_error_app2 in Ht by exact Hge. rewrite nth_error_app2 in Hd by (rewrite (I_disk_len _ HI); exact Hge).
        rewrite (I_disk_len _ HI) in Hd. destruct (j - length (trials s)) as [|[|k]]; cbn in Ht, Hd; try discriminate.
        inversion Ht; inversion Hd; subst. reflexivity.
    + cbn [fst]. intros j t d Ht Hd. cbn [trials disk] in *. destruct (Nat.eq_dec idr j) as [->|Hne].
      * rewrite nth_upd_same in Ht. destruct (nth_error (trials s) j) as [t0|] eqn:Et0; [|discriminate]. cbn in Ht. inversion Ht; subst. cbn.
        rewrite reissue_p. eapply HD; eauto.
      * rewrite nth_upd_other in Ht by exact Hne. eapply HD; eauto.
  - unfold do_update. destruct (nth_error (trials s) id) as [t0|]; cbn [fst]; [|exact HD].
    unfold DSyncP; cbn [trials disk]; eapply (dsyncp_upd s id _ _ _ HD); reflexivity.
  - unfold do_end. destruct (negb (existsb (fun kv => snd kv =? id) (ongoing s))); [exact HD|].
    destruct (nth_error (trials s) id) as [t0|]; [|exact HD]. rewrite Hab.
    repeat match goal with
    | |- context [match ?X with ECompleted => _ | EInvalid => _ | EFailed => _ end] => destruct X
    | |- context [match score_fn ?x with SNaN => _ | SVal _ => _ end] => destruct (score_fn x)
    | |- context [Nat.leb ?a ?b] => destruct (Nat.leb a b)
    | |- context [if streak ?a ?b ?d ?e then _ else _] => destruct (streak a b d e)
    end; cbn [fst]; unfold DSyncP; cbn [trials disk]; eapply (dsyncp_upd s id _ _ _ HD); reflexivity.
  - cbn [do_reload fst]. intros j t d Ht Hd. cbn [trials disk] in *.
    destruct (nth_error (trials s) j) as [t0|] eqn:Et0.
    + rewrite (from_disk_nth _ _ _ _ _ Et0 Hd) in Ht. inversion Ht; subst. reflexivity.
    + assert (Hlen : length (from_disk (trials s) (disk s)) = length (trials s)) by (apply from_disk_length, (I_disk_len _ HI)).
      apply nth_error_None in Et0. assert (j < length (from_disk (trials s) (disk s))) by (apply nth_error_Some; congruence). lia.
Qed.

Lemma reload_proj (s : ost) j : Inv s -> DSyncP s ->
  option_map (fun t => p (t_data t)) (nth_error (trials (fst (do_reload hook_reload s))) j) = option_map (fun t => p (t_data t)) (nth_error (trials s) j).
Proof.
  intros HI HD. cbn [do_reload fst trials].
  destruct (nth_error (trials s) j) as [t0|] eqn:Et0.
  - destruct (nth_error (disk s) j) as [d|] eqn:Ed.
    + rewrite (from_disk_nth _ _ _ _ _ Et0 Ed). cbn. f_equal. eapply HD; eauto.
    + apply nth_error_None in Ed. rewrite (I_disk_len _ HI) in Ed. assert (j < length (trials s)) by (apply nth_error_Some; congruence). lia.
  - assert (Hlen : length (from_disk (trials s) (disk s)) = length (trials s)) by (apply from_disk_length, (I_disk_len _ HI)).
    apply nth_error_None in Et0. assert (H : nth_error (from_disk (trials s) (disk s)) j = None) by (apply nth_error_None; lia). now rewrite H.
Qed.
End Proj.
End Sync.
