(* C02 / C03 / C11 facts on the generic lifecycle core *)
From Coq Require Import List ZArith Bool Lia PeanoNat.
Import ListNotations.
From KT Require Import Lifecycle LInv.

Section Props.
Context {A V Sc : Type}.
Variable vdef : V.
Notation trial := (trial V Sc).
Variable score_fn : V -> scored Sc.
Variable populate : A -> list trial -> bool -> tid -> A * status * V.
Variable hook_end hook_end_abort : A -> tid -> V -> A.
Variable hook_reload : A -> A.
Variable reissue : V -> V.
Notation ost := (@ostate A V Sc).
Notation stepf := (step vdef score_fn populate hook_end hook_end_abort hook_reload reissue).
Notation createf := (do_create vdef populate reissue).
Notation endf := (do_end score_fn hook_end hook_end_abort).

(* ---------------- C02: max_trials is a hard budget ---------------- *)
Lemma from_disk_len (ts : list trial) ds : length (from_disk ts ds) <= length ts.
Proof. revert ds. induction ts as [|x r IH]; intros [|y ds]; simpl; try lia. specialize (IH ds). lia. Qed.

Theorem C02_budget_step c n s o : max_trials c = Some n ->
  length (trials s) <= n -> length (trials (fst (stepf c s o))) <= n.
Proof.
  intros Hn Hle. destruct o as [tu|id f|id es f|]; simpl.
  - unfold do_create. destruct (alookup tu (ongoing s)); [destruct (trial_view vdef (trials s) t); exact Hle|].
    destruct (rev (retryq s)); [|simpl; now rewrite length_upd].
    rewrite Hn. destruct (Nat.leb_spec n (length (trials s))) as [Hge|Hlt]; [simpl; exact Hle|].
    destruct (populate (algo s) (trials s) (negb (length (ongoing s) =? 0)) (length (trials s))) as [[a' st] v].
    destruct st; simpl; try exact Hle. rewrite app_length. simpl. lia.
  - unfold do_update. destruct (nth_error (trials s) id); simpl; [now rewrite length_upd|exact Hle].
  - unfold do_end. destruct (negb (existsb (fun kv => snd kv =? id) (ongoing s))); [exact Hle|].
    destruct (nth_error (trials s) id) as [t0|]; [|exact Hle].
    repeat match goal with
    | |- context [match ?X with ECompleted => _ | EInvalid => _ | EFailed => _ end] => destruct X
    | |- context [match score_fn ?x with SNaN => _ | SVal _ => _ end] => destruct (score_fn x)
    | |- context [Nat.leb ?a ?b] => destruct (Nat.leb a b)
    | |- context [if streak ?a ?b ?d ?e then _ else _] => destruct (streak a b d e)
    | |- context [if abort_early ?cc then _ else _] => destruct (abort_early cc)
    end; simpl; rewrite ?length_upd; exact Hle.
  - pose proof (from_disk_len (trials s) (disk s)). lia.
Qed.

Theorem C02_budget c n a ops : max_trials c = Some n ->
  Forall (fun rs => length (trials (snd rs)) <= n)
         (run vdef score_fn populate hook_end hook_end_abort hook_reload reissue c (init a) ops).
Proof.
  intros Hn. assert (H : forall s, length (trials s) <= n ->
     Forall (fun rs => length (trials (snd rs)) <= n) (run vdef score_fn populate hook_end hook_end_abort hook_reload reissue c s ops)).
  { induction ops as [|o r IH]; intros s Hs; simpl; [constructor|].
    destruct (stepf c s o) as [s' rs] eqn:Es. pose proof (C02_budget_step c n s o Hn Hs) as H'. rewrite Es in H'. simpl in H'.
    constructor; [exact H'|now apply IH]. }
  apply H. simpl. lia.
Qed.

(* once the budget is used and nothing waits for a retry, a tuner holding nothing is told to stop, and nothing changes but tuner_ids *)
Theorem C02_stopped c n s tu : max_trials c = Some n -> n <= length (trials s) -> retryq s = [] ->
  alookup tu (ongoing s) = None ->
  exists s', createf c s tu = (s', RTrial (length (trials s)) STOPPED vdef) /\
             trials s' = trials s /\ ongoing s' = ongoing s /\ retryq s' = [] /\ end_order s' = end_order s.
Proof.
  intros Hn Hge Hrq Hlk. unfold do_create. rewrite Hlk, Hrq. simpl. rewrite Hn.
  apply Nat.leb_le in Hge. rewrite Hge. simpl. eexists. split; [reflexivity|]. simpl. auto.
Qed.

(* retries never consume budget: a Create served from the queue re-issues an existing trial *)
Theorem C03_retry_first c s tu id rq' : alookup tu (ongoing s) = None -> rev (retryq s) = id :: rq' ->
  exists s' v, createf c s tu = (s', RTrial id RUNNING v) /\
     length (trials s') = length (trials s) /\ retryq s' = rev rq' /\ In (tu, id) (ongoing s') /\
     (forall t, nth_error (trials s) id = Some t -> v = reissue (t_data t)).
Proof.
  intros Hlk Hrq. unfold do_create. rewrite Hlk, Hrq. eexists. eexists. split; [reflexivity|]. simpl.
  rewrite length_upd. repeat split; auto.
  - apply in_or_app. right. now left.
  - intros t Ht. unfold trial_view. rewrite nth_upd_same, Ht. reflexivity.
Qed.

(* a trial that has ended (COMPLETED or FAILED) is never handed out again: whatever Create answers with
   status RUNNING is not in end_order *)
Theorem C01_never_reissue_final c s tu s' id v : Inv s ->
  createf c s tu = (s', RTrial id RUNNING v) -> ~ In id (end_order s).
Proof.
  intros HI. unfold do_create.
  destruct (alookup tu (ongoing s)) as [id0|] eqn:Elk.
  - destruct (trial_view vdef (trials s) id0) as [st0 v0] eqn:Ev. intros H; injection H as _ Hid _ _; subst id0.
    apply alookup_some in Elk. assert (Hon : In id (onids s)) by (unfold onids; apply in_map_iff; exists (tu, id); auto).
    apply (on_facts s id HI Hon).
  - destruct (rev (retryq s)) as [|idq rq'] eqn:Erq.
    + destruct (match max_trials c with
                | Some n => if Nat.leb n (length (trials s)) then (algo s, STOPPED, vdef)
                            else populate (algo s) (trials s) (negb (Nat.eqb (length (ongoing s)) 0)) (length (trials s))
                | None => populate (algo s) (trials s) (negb (Nat.eqb (length (ongoing s)) 0)) (length (trials s)) end) as [[a' st] v0].
      destruct st; intros H; try discriminate H; injection H as _ Hid _; subst id.
      intros Hin. destruct (I_eo_fin _ HI _ Hin) as (st & Hst & _). apply stat_lt in Hst. lia.
    + intros H; injection H as _ Hid _; subst idq. apply rev_cons_inv in Erq.
      destruct (I_part _ HI) as (_ & _ & _ & _ & _ & H3). apply H3. rewrite Erq. apply in_or_app. right. now left.
Qed.

(* a tuner that still holds a trial gets the same trial back and nothing changes *)
Theorem C01_same_trial c s tu id : alookup tu (ongoing s) = Some id ->
  exists st v, createf c s tu = (s, RTrial id st v).
Proof. intros H. unfold do_create. rewrite H. destruct (trial_view vdef (trials s) id). eauto. Qed.

(* ---------------- C03 (d): the abort test is "K consecutive FAILED in finishing order" ---------------- *)
Definition failed_at (ts : list trial) (id : tid) : bool :=
  match nth_error ts id with Some t => status_eqb (t_status t) FAILED | None => false end.

(* there is a window of k consecutive FAILED entries in the order, the first `cnt` of which may come from before *)
Fixpoint has_streak (k : nat) (ts : list trial) (order : list tid) (cnt : nat) : Prop :=
  match order with
  | [] => False
  | id :: r => let cnt' := if failed_at ts id then S cnt else 0 in cnt' = k \/ has_streak k ts r cnt'
  end.

Lemma streak_spec k ts order cnt : streak k ts order cnt = true <-> has_streak k ts order cnt.
Proof.
  revert cnt. induction order as [|id r IH]; intros cnt; cbn [streak has_streak]; [split; [discriminate|tauto]|].
  unfold failed_at.
  set (cnt' := match nth_error ts id with Some t => if status_eqb (t_status t) FAILED then S cnt else 0 | None => 0 end).
  assert (Hc : (if match nth_error ts id with Some t => status_eqb (t_status t) FAILED | None => false end then S cnt else 0) = cnt').
  { unfold cnt'. destruct (nth_error ts id) as [t|]; [destruct (status_eqb (t_status t) FAILED)|]; reflexivity. }
  rewrite Hc. destruct (Nat.eqb_spec cnt' k) as [He|Hne].
  - split; [intros _; now left|intros _; reflexivity].
  - split; [intros H; right; now apply IH|intros [H|H]; [contradiction|now apply IH]].
Qed.

(* ---------------- C11: the number of trial runs is bounded ---------------- *)
Definition total_runs (s : ost) : nat := fold_right (fun t acc => t_runs t + acc) 0 (trials s).

Record RInv (c : cfg) (s : ost) : Prop := {
  R_all : forall id t, nth_error (trials s) id = Some t -> t_runs t <= S (max_retries c);
  R_live : forall id t, nth_error (trials s) id = Some t -> (In id (onids s) \/ In id (retryq s)) -> t_runs t <= max_retries c
}.

Lemma total_runs_bound c s : (forall id t, nth_error (trials s) id = Some t -> t_runs t <= S (max_retries c)) ->
  total_runs s <= length (trials s) * S (max_retries c).
Proof.
  unfold total_runs. generalize (trials s). intros ts H. induction ts as [|t r IH]; simpl; [lia|].
  assert (t_runs t <= S (max_retries c)) by (apply (H 0 t); reflexivity).
  assert (fold_right (fun t acc => t_runs t + acc) 0 r <= length r * S (max_retries c)).
  { apply IH. intros id u Hu. apply (H (S id) u). exact Hu. }
  lia.
Qed.

(* run counters: at most R+1 per trial, and at most R while the trial may still be run again *)
Theorem rinv_step c s o : abort_early c = false -> Inv s -> RInv c s -> RInv c (fst (stepf c s o)).
Proof.
  intros Hab HI [Ra Rl].
  destruct o as [tu|id f|id es f|]; simpl.
  - (* create *)
    unfold do_create. destruct (alookup tu (ongoing s)) as [id0|] eqn:Elk.
    { destruct (trial_view vdef (trials s) id0). now constructor. }
    destruct (rev (retryq s)) as [|idr rq'] eqn:Erq.
    + match goal with |- context [match ?X with (_, _) => _ end] => destruct X as [[a' st] v] end.
      destruct st; simpl; try now constructor.
      constructor; simpl.
      * intros id t Ht. destruct (Nat.lt_ge_cases id (length (trials s))) as [Hlt|Hge].
        -- rewrite nth_error_app1 in Ht by exact Hlt. eauto.
        -- rewrite nth_error_app2 in Ht by exact Hge. destruct (id - length (trials s)) as [|[|k]]; simpl in Ht; try discriminate.
           inversion Ht; subst. simpl. lia.
      * intros id t Ht Hin. destruct (Nat.lt_ge_cases id (length (trials s))) as [Hlt|Hge].
        -- rewrite nth_error_app1 in Ht by exact Hlt. eapply Rl; [exact Ht|].
           unfold onids in *. simpl in Hin. rewrite map_app in Hin. destruct Hin as [Hin|Hin]; [|now right].
           apply in_app_or in Hin as [Hin|[E|[]]]; [now left|simpl in E; lia].
        -- rewrite nth_error_app2 in Ht by exact Hge. destruct (id - length (trials s)) as [|[|k]]; simpl in Ht; try discriminate.
           inversion Ht; subst. simpl. lia.
    + pose proof (rev_cons_inv _ _ _ Erq) as Hrq. simpl. constructor; simpl.
      * intros id t Ht. destruct (Nat.eq_dec idr id) as [->|Hne].
        -- rewrite nth_upd_same in Ht. destruct (nth_error (trials s) id) as [t0|] eqn:E; [|discriminate]. simpl in Ht.
           inversion Ht; subst. simpl. eauto.
        -- rewrite nth_upd_other in Ht by exact Hne. eauto.
      * intros id t Ht Hin.
        assert (Hin' : In id (onids s) \/ In id (retryq s)).
        { unfold onids in *. simpl in Hin. rewrite map_app in Hin. rewrite Hrq. destruct Hin as [Hin|Hin].
          - apply in_app_or in Hin as [Hin|[E|[]]]; [now left|]. simpl in E. subst. right. apply in_or_app. right. now left.
          - right. apply in_or_app. now left. }
        destruct (Nat.eq_dec idr id) as [->|Hne].
        -- rewrite nth_upd_same in Ht. destruct (nth_error (trials s) id) as [t0|] eqn:E; [|discriminate]. simpl in Ht.
           inversion Ht; subst. simpl. eapply Rl; eauto.
        -- rewrite nth_upd_other in Ht by exact Hne. eapply Rl; eauto.
  - (* update *)
    unfold do_update. destruct (nth_error (trials s) id) as [t0|] eqn:Et; simpl; [|now constructor].
    constructor; simpl.
    + intros j t Ht. destruct (Nat.eq_dec id j) as [->|Hne].
      * rewrite nth_upd_same, Et in Ht. simpl in Ht. inversion Ht; subst. simpl. eauto.
      * rewrite nth_upd_other in Ht by exact Hne. eauto.
    + intros j t Ht Hin. destruct (Nat.eq_dec id j) as [->|Hne].
      * rewrite nth_upd_same, Et in Ht. simpl in Ht. inversion Ht; subst. simpl. eapply Rl; eauto.
      * rewrite nth_upd_other in Ht by exact Hne. eapply Rl; eauto.
  - (* end *)
    unfold do_end. destruct (existsb (fun kv => snd kv =? id) (ongoing s)) eqn:Eex; simpl; [|now constructor].
    apply existsb_snd in Eex.
    destruct (nth_error (trials s) id) as [t0|] eqn:Et0; [|now constructor].
    assert (Hr0 : t_runs t0 <= max_retries c) by (eapply Rl; [exact Et0|now left]).
    rewrite Hab.
    (* shape lemma: the trial's counter becomes runs+1; it stays live only when requeued, which needs runs+1 <= R *)
    assert (Hshape : forall st2 sc1 v1 og eo rq tids a' dk (live : bool),
        (live = true -> S (t_runs t0) <= max_retries c) ->
        (forall j, In j (map snd og) -> In j (onids s) /\ j <> id) ->
        (forall j, In j rq -> j <> id -> In j (retryq s)) ->
        (live = false -> ~ In id rq) ->
        RInv c {| trials := upd id (fun _ => {| t_status := st2; t_score := sc1; t_runs := S (t_runs t0); t_data := v1 |}) (trials s);
                  ongoing := og; start_order := start_order s; end_order := eo; retryq := rq; tuner_ids := tids; algo := a'; disk := dk |}).
    { intros st2 sc1 v1 og eo rq tids a' dk live Hlive Hog Hrq Hnl. constructor; simpl.
      - intros j t Ht. destruct (Nat.eq_dec id j) as [->|Hne].
        + rewrite nth_upd_same, Et0 in Ht. simpl in Ht. inversion Ht; subst. simpl. lia.
        + rewrite nth_upd_other in Ht by exact Hne. eauto.
      - intros j t Ht Hin. destruct (Nat.eq_dec id j) as [->|Hne].
        + rewrite nth_upd_same, Et0 in Ht. simpl in Ht. inversion Ht; subst. simpl.
          destruct live; [now apply Hlive|]. exfalso. destruct Hin as [Hin|Hin].
          * unfold onids in Hin. simpl in Hin. destruct (Hog _ Hin) as [_ H]. congruence.
          * now apply (Hnl eq_refl).
        + rewrite nth_upd_other in Ht by exact Hne. eapply Rl; [exact Ht|].
          destruct Hin as [Hin|Hin]; [left; unfold onids in Hin; simpl in Hin; now apply Hog|right; apply Hrq; [exact Hin|congruence]]. }
    assert (Hog : forall j, In j (map snd (remove_first_by_id id (ongoing s))) -> In j (onids s) /\ j <> id).
    { intros j Hj. split; [now apply rfb_snd_in in Hj|]. intros ->. destruct (I_part _ HI) as (Ha & _). now apply (rfb_notin id (ongoing s) Ha). }
    assert (Hnrq : ~ In id (retryq s)) by (apply (on_facts _ _ HI Eex)).
    destruct es; simpl.
    + destruct (score_fn (f (t_data t0))) as [|x]; simpl.
      * match goal with |- context [Nat.leb ?a ?b] => destruct (Nat.leb_spec a b) as [Hge|Hlt] end; simpl.
        -- match goal with |- context [if streak ?a ?b ?d ?e then _ else _] => destruct (streak a b d e) end; simpl;
             apply (Hshape _ _ _ _ _ _ _ _ _ false); auto; try discriminate.
        -- apply (Hshape _ _ _ _ _ _ _ _ _ true); auto; try lia; try discriminate.
           intros j Hj Hne. apply in_app_or in Hj as [Hj|[E|[]]]; [exact Hj|congruence].
      * match goal with |- context [if streak ?a ?b ?d ?e then _ else _] => destruct (streak a b d e) end; simpl;
          apply (Hshape _ _ _ _ _ _ _ _ _ false); auto; try discriminate.
    + match goal with |- context [Nat.leb ?a ?b] => destruct (Nat.leb_spec a b) as [Hge|Hlt] end; simpl.
      * match goal with |- context [if streak ?a ?b ?d ?e then _ else _] => destruct (streak a b d e) end; simpl;
          apply (Hshape _ _ _ _ _ _ _ _ _ false); auto; try discriminate.
      * apply (Hshape _ _ _ _ _ _ _ _ _ true); auto; try lia; try discriminate.
        intros j Hj Hne. apply in_app_or in Hj as [Hj|[E|[]]]; [exact Hj|congruence].
    + match goal with |- context [if streak ?a ?b ?d ?e then _ else _] => destruct (streak a b d e) end; simpl;
        apply (Hshape _ _ _ _ _ _ _ _ _ false); auto; try discriminate.
  - (* reload: counters are kept, every unfinished trial is queued *)
    constructor; simpl.
    + intros j t Ht.
      destruct (nth_error (trials s) j) as [t1|] eqn:E1.
      * destruct (nth_error (disk s) j) as [d1|] eqn:E2.
        -- rewrite (from_disk_nth _ _ _ _ _ E1 E2) in Ht. inversion Ht; subst. simpl. eauto.
        -- apply nth_error_None in E2. assert (j < length (trials s)) by (apply nth_error_Some; congruence).
           rewrite (I_disk_len _ HI) in E2. lia.
      * assert (Hl : length (from_disk (trials s) (disk s)) = length (trials s)) by (apply from_disk_length, (I_disk_len _ HI)).
        apply nth_error_None in E1. assert (j < length (from_disk (trials s) (disk s))) by (apply nth_error_Some; congruence). lia.
    + intros j t Ht Hin. unfold onids in Hin. simpl in Hin. destruct Hin as [[]|Hin].
      assert (Hin' : In j (onids s) \/ In j (retryq s)) by (apply in_app_or in Hin as [H|H]; [now right|now left]).
      destruct (nth_error (trials s) j) as [t1|] eqn:E1.
      * destruct (nth_error (disk s) j) as [d1|] eqn:E2.
        -- rewrite (from_disk_nth _ _ _ _ _ E1 E2) in Ht. inversion Ht; subst. simpl. eapply Rl; eauto.
        -- apply nth_error_None in E2. assert (j < length (trials s)) by (apply nth_error_Some; congruence).
           rewrite (I_disk_len _ HI) in E2. lia.
      * assert (Hl : length (from_disk (trials s) (disk s)) = length (trials s)) by (apply from_disk_length, (I_disk_len _ HI)).
        apply nth_error_None in E1. assert (j < length (from_disk (trials s) (disk s))) by (apply nth_error_Some; congruence). lia.
Qed.
End Props.
Print Assumptions C02_budget.
Print Assumptions streak_spec.
Print Assumptions rinv_step.
