(* C04, symmetry clause for Hyperband: maximising s issues what minimising -s issues *)
From Coq Require Import List ZArith Bool Lia PeanoNat.
Import ListNotations.
From KT Require Import Lifecycle HB.

Section Sym.
Context {V : Type}.
Notation trial := (trial V Z).

Definition neg_trial (t : trial) : trial :=
  {| t_status := t_status t;
     t_score := match t_score t with Some (SVal z) => Some (SVal (- z)%Z) | other => other end;
     t_runs := t_runs t; t_data := t_data t |}.
Definition neg_ts (ts : list trial) : list trial := map neg_trial ts.

Definition flip (h : hcfg) : hcfg :=
  {| max_epochs := max_epochs h; factor := factor h; iterations := iterations h; nbrackets := nbrackets h;
     sizes := sizes h; maximize := negb (maximize h) |}.

Lemma cview_neg ts id : cview (neg_ts ts) id = option_map Z.opp (cview ts id).
Proof.
  unfold cview, neg_ts. rewrite nth_error_map. destruct (nth_error ts id) as [t|]; simpl; [|reflexivity].
  destruct (t_status t); simpl; try reflexivity; destruct (t_score t) as [[|z]|]; reflexivity.
Qed.
Lemma completed_neg ts id : completed (neg_ts ts) id = completed ts id.
Proof. unfold completed. rewrite cview_neg. now destruct (cview ts id). Qed.
Lemma score_neg ts id : score_of (neg_ts ts) id = (- score_of ts id)%Z.
Proof. unfold score_of. rewrite cview_neg. now destruct (cview ts id). Qed.
Lemma better_flip h a b : better (flip h) (- a) (- b) = better h a b.
Proof.
  unfold better, flip. simpl. destruct (maximize h); simpl.
  - destruct (Z.ltb_spec b a), (Z.ltb_spec (- a) (- b)); auto; lia.
  - destruct (Z.ltb_spec a b), (Z.ltb_spec (- b) (- a)); auto; lia.
Qed.

Lemma best_of_sym h ts cands cur : best_of (flip h) (neg_ts ts) cands cur = best_of h ts cands cur.
Proof.
  revert cur. induction cands as [|c r IH]; intros cur; simpl; [reflexivity|].
  destruct cur as [b|]; [|apply IH]. rewrite !score_neg, better_flip. apply IH.
Qed.
Lemma candidates_sym ts prev cur : candidates (neg_ts ts) prev cur = candidates ts prev cur.
Proof. unfold candidates. apply filter_ext. intros id. now rewrite completed_neg. Qed.
Lemma try_rounds_sym h ts b rs : forall prev r, try_rounds (flip h) (neg_ts ts) b prev rs r = try_rounds h ts b prev rs r.
Proof.
  induction rs as [|cur rest IH]; intros prev r; simpl; [reflexivity|].
  rewrite candidates_sym, best_of_sym, IH. reflexivity.
Qed.
Lemma scan_sym h ts brs : forall bi, scan (flip h) (neg_ts ts) brs bi = scan h ts brs bi.
Proof.
  induction brs as [|br rest IH]; intros bi; simpl; [reflexivity|].
  destruct (rounds br) as [|r0 rs]; [apply IH|]. simpl. rewrite try_rounds_sym, IH. reflexivity.
Qed.

(* same bracket bookkeeping, same status, same payload: the sign of the objective does not show *)
Theorem hpopulate_sym h (mk : hinfo -> V) vdef s ts og id :
  hpopulate (flip h) mk vdef s (neg_ts ts) og id = hpopulate h mk vdef s ts og id.
Proof. unfold hpopulate. rewrite scan_sym. reflexivity. Qed.
End Sym.
Print Assumptions hpopulate_sym.
