(* C14: the return expressions of Int.prob_to_value / Float.prob_to_value as the translator (harness/ktverif/translate_hp.py)
   reads them from the source, and the one fact the domain clause needs about them: an expression of the shape
   max(self.min_value, min(E, self.max_value)) lies in [min_value, max_value] WHATEVER E evaluates to - in particular
   whatever libm's pow returned for log / reverse_log sampling. *)
From Coq Require Import ZArith QArith List String Lia Lqa.
Import ListNotations.
Local Open Scope Q_scope.

Inductive expr :=
| EOpaque (k : nat)            (* self._sample_numerical_value(...) = 0, self._sample_with_step(prob) = 1: any number *)
| EInt (e : expr)              (* int(e): truncation towards zero *)
| EMax (a b : expr) | EMin (a b : expr)
| ESelfMin | ESelfMax
| EUnknown (s : string).

Inductive guard := GStepNone | GStepSome | GAlways.
Definition guard_eqb (a b : guard) : bool :=
  match a, b with GStepNone, GStepNone | GStepSome, GStepSome | GAlways, GAlways => true | _, _ => false end.

Definition trunc (q : Q) : Q := inject_Z (Z.quot (Qnum q) (Zpos (Qden q))).
Definition qmax (a b : Q) : Q := if Qle_bool b a then a else b.       (* Python max(a, b): a unless b > a *)
Definition qmin (a b : Q) : Q := if Qle_bool a b then a else b.

Fixpoint eval (rho : nat -> Q) (lo hi : Q) (e : expr) : Q :=
  match e with
  | EOpaque k => rho k
  | EInt e => trunc (eval rho lo hi e)
  | EMax a b => qmax (eval rho lo hi a) (eval rho lo hi b)
  | EMin a b => qmin (eval rho lo hi a) (eval rho lo hi b)
  | ESelfMin => lo
  | ESelfMax => hi
  | EUnknown _ => 0
  end.

Definition is_clamp (e : expr) : bool :=
  match e with EMax ESelfMin (EMin _ ESelfMax) => true | _ => false end.

Fixpoint known (e : expr) : bool :=
  match e with
  | EUnknown _ => false
  | EInt e => known e
  | EMax a b | EMin a b => known a && known b
  | _ => true
  end.

Lemma qmax_spec a b : (qmax a b == a \/ qmax a b == b) /\ a <= qmax a b /\ b <= qmax a b.
Proof.
  unfold qmax. destruct (Qle_bool b a) eqn:E.
  - apply Qle_bool_iff in E. split; [left; reflexivity|]. split; lra.
  - assert (~ b <= a) by (intros H; apply Qle_bool_iff in H; congruence). split; [right; reflexivity|]. split; lra.
Qed.
Lemma qmin_spec a b : (qmin a b == a \/ qmin a b == b) /\ qmin a b <= a /\ qmin a b <= b.
Proof.
  unfold qmin. destruct (Qle_bool a b) eqn:E.
  - apply Qle_bool_iff in E. split; [left; reflexivity|]. split; lra.
  - assert (~ a <= b) by (intros H; apply Qle_bool_iff in H; congruence). split; [right; reflexivity|]. split; lra.
Qed.

Theorem clamp_in_range rho lo hi e : is_clamp e = true -> lo <= hi -> lo <= eval rho lo hi e /\ eval rho lo hi e <= hi.
Proof.
  destruct e as [| | a b | | | |]; try discriminate. destruct a; try discriminate. destruct b as [| | | x y | | |]; try discriminate.
  destruct y; try discriminate. intros _ Hle. cbn [eval].
  pose proof (qmin_spec (eval rho lo hi x) hi) as (_ & _ & H2).
  pose proof (qmax_spec lo (qmin (eval rho lo hi x) hi)) as ([H3|H3] & H4 & H5); split; lra.
Qed.

(* a function body as guarded return expressions *)
Definition pfun := list (guard * expr).
Definition path (f : pfun) (g : guard) : list expr := map snd (filter (fun p => guard_eqb (fst p) g) f).
Definition all_clamped (l : list expr) : bool := negb (Nat.eqb (List.length l) 0) && forallb (fun e => is_clamp e && known e) l.

Theorem paths_in_range rho lo hi (l : list expr) : all_clamped l = true -> lo <= hi ->
  forall e, In e l -> lo <= eval rho lo hi e /\ eval rho lo hi e <= hi.
Proof.
  unfold all_clamped. intros H Hle e Hin. apply andb_true_iff in H as [_ H].
  rewrite forallb_forall in H. specialize (H e Hin). apply andb_true_iff in H as [H _]. now apply clamp_in_range.
Qed.
