From Coq Require Import List Arith Bool Lia PeanoNat.
Import ListNotations.

Inductive pc := PCheck | PAcq | PSetOwn | PBody | PClear | PRel.
Record frame := { fpc : pc; need : bool }.
Definition stack := list frame.

Record cfg := { lock : option nat; owner : option nat; stk : nat -> stack }.

Definition upd (f : nat -> stack) (t : nat) (s : stack) : nat -> stack :=
  fun u => if Nat.eqb u t then s else f u.

Definition is_me (o : option nat) (t : nat) : bool :=
  match o with Some u => Nat.eqb u t | None => false end.

Inductive step : cfg -> nat -> cfg -> Prop :=
| S_call c t : stk c t = [] ->
    step c t {| lock := lock c; owner := owner c; stk := upd (stk c) t [{| fpc := PCheck; need := false |}] |}
| S_check c t nd r : stk c t = {| fpc := PCheck; need := nd |} :: r ->
    let nd' := negb (is_me (owner c) t) in
    step c t {| lock := lock c; owner := owner c;
                stk := upd (stk c) t ({| fpc := if nd' then PAcq else PBody; need := nd' |} :: r) |}
| S_acq c t r : stk c t = {| fpc := PAcq; need := true |} :: r -> lock c = None ->
    step c t {| lock := Some t; owner := owner c; stk := upd (stk c) t ({| fpc := PSetOwn; need := true |} :: r) |}
| S_setown c t r : stk c t = {| fpc := PSetOwn; need := true |} :: r ->
    step c t {| lock := lock c; owner := Some t; stk := upd (stk c) t ({| fpc := PBody; need := true |} :: r) |}
| S_micro c t nd r : stk c t = {| fpc := PBody; need := nd |} :: r -> step c t c
| S_nested c t nd r : stk c t = {| fpc := PBody; need := nd |} :: r ->
    step c t {| lock := lock c; owner := owner c;
                stk := upd (stk c) t ({| fpc := PCheck; need := false |} :: {| fpc := PBody; need := nd |} :: r) |}
| S_finish_need c t r : stk c t = {| fpc := PBody; need := true |} :: r ->   (* return or raise: finally runs *)
    step c t {| lock := lock c; owner := owner c; stk := upd (stk c) t ({| fpc := PClear; need := true |} :: r) |}
| S_finish_noneed c t r : stk c t = {| fpc := PBody; need := false |} :: r ->
    step c t {| lock := lock c; owner := owner c; stk := upd (stk c) t r |}
| S_clear c t r : stk c t = {| fpc := PClear; need := true |} :: r ->
    step c t {| lock := lock c; owner := None; stk := upd (stk c) t ({| fpc := PRel; need := true |} :: r) |}
| S_rel c t r : stk c t = {| fpc := PRel; need := true |} :: r ->
    step c t {| lock := None; owner := owner c; stk := upd (stk c) t r |}.

Definition init : cfg := {| lock := None; owner := None; stk := fun _ => [] |}.

Inductive reach : cfg -> Prop :=
| R0 : reach init
| RS c t c' : reach c -> step c t c' -> reach c'.


(* per-thread invariant *)
Notation BodyT := {| fpc := PBody; need := true |}.
Notation BodyF := {| fpc := PBody; need := false |}.
Notation CheckF := {| fpc := PCheck; need := false |}.

Inductive below : stack -> Prop :=
| B1 : below [BodyT]
| B2 r : below r -> below (BodyF :: r).

Definition nested_ok (f : frame) : Prop := f = CheckF \/ f = BodyF.

Definition single_ok (l o : bool) (b : frame) : Prop :=
  match fpc b, need b with
  | PCheck, _ => l = false /\ o = false
  | PAcq, true => l = false /\ o = false
  | PSetOwn, true => l = true /\ o = false
  | PBody, true => l = true /\ o = true
  | PClear, true => l = true /\ o = true
  | PRel, true => l = true /\ o = false
  | _, _ => False
  end.

Definition tinv (l o : bool) (s : stack) : Prop :=
  match s with
  | [] => l = false /\ o = false
  | [b] => single_ok l o b
  | top :: rest => nested_ok top /\ below rest /\ l = true /\ o = true
  end.

Definition Inv (c : cfg) : Prop := forall t, tinv (is_me (lock c) t) (is_me (owner c) t) (stk c t).

Lemma tinv_owner_lock l o s : tinv l o s -> o = true -> l = true.
Proof.
  destruct s as [|b [|b' r]]; simpl.
  - intros [_ H] H'. congruence.
  - unfold single_ok. destruct (fpc b), (need b); intuition congruence.
  - tauto.
Qed.

Lemma is_me_unique o t u : is_me o t = true -> is_me o u = true -> t = u.
Proof. destruct o; simpl; [|discriminate]. intros H1 H2. apply Nat.eqb_eq in H1, H2. congruence. Qed.

Lemma is_me_some_other t u : u <> t -> is_me (Some t) u = false.
Proof. intros H. simpl. apply Nat.eqb_neq. congruence. Qed.

Lemma upd_same f t s : upd f t s t = s. Proof. unfold upd. now rewrite Nat.eqb_refl. Qed.
Lemma upd_other f t s u : u <> t -> upd f t s u = f u.
Proof. intros H. unfold upd. apply Nat.eqb_neq in H. now rewrite H. Qed.

Lemma below_inv r : below r -> r = [BodyT] \/ exists r', r = BodyF :: r' /\ below r'.
Proof. intros []; eauto. Qed.

Lemma below_nonempty r : below r -> r <> []. Proof. intros [] ?; discriminate. Qed.

Ltac other_thread Hc u t :=
  let E := fresh in destruct (Nat.eq_dec u t) as [E|E]; [subst u|rewrite (upd_other _ _ _ _ E); try exact (Hc u)].

Theorem inv_step c t c' : Inv c -> step c t c' -> Inv c'.
Proof.
  intros Hc Hs u. pose proof (Hc t) as Ht.
  inversion Hs; subst; cbn [lock owner stk] in *.
  - (* call *) other_thread Hc u t. rewrite upd_same. rewrite H in Ht. simpl in *. exact Ht.
  - (* check *) other_thread Hc u t. rewrite upd_same. rewrite H in Ht.
    destruct r as [|f r'].
    + simpl in Ht |- *. unfold single_ok in *. simpl in *. destruct Ht as [Hl Ho]. subst nd'. rewrite Ho. simpl. auto.
    + simpl in Ht. destruct Ht as (_ & Hb & Hl & Ho). subst nd'. rewrite Ho. simpl.
      repeat split; auto. right; reflexivity.
  - (* acq *) rewrite H in Ht. destruct r as [|f r'].
    2:{ simpl in Ht. destruct Ht as ([?|?] & _); discriminate. }
    destruct (Nat.eq_dec u t) as [E|E].
    + subst u. rewrite upd_same. simpl in *. unfold single_ok in *. simpl in *. rewrite Nat.eqb_refl. tauto.
    + rewrite (upd_other _ _ _ _ E). pose proof (Hc u) as Hu. rewrite H0 in Hu. simpl in Hu.
      rewrite (is_me_some_other _ _ E). exact Hu.
  - (* setown *) rewrite H in Ht. destruct r as [|f r'].
    2:{ simpl in Ht. destruct Ht as ([?|?] & _); discriminate. }
    simpl in Ht. unfold single_ok in Ht. simpl in Ht. destruct Ht as [Hl Ho].
    destruct (Nat.eq_dec u t) as [E|E].
    + subst u. rewrite upd_same. simpl. unfold single_ok. simpl. rewrite Nat.eqb_refl. tauto.
    + rewrite (upd_other _ _ _ _ E). pose proof (Hc u) as Hu.
      rewrite (is_me_some_other _ _ E).
      destruct (is_me (owner c) u) eqn:Eo; [|exact Hu].
      exfalso. pose proof (tinv_owner_lock _ _ _ Hu eq_refl) as Hlu.
      apply E. symmetry. eapply is_me_unique; eauto.
  - (* micro *) exact (Hc u).
  - (* nested *) other_thread Hc u t. rewrite upd_same. rewrite H in Ht.
    destruct r as [|f r'].
    + simpl in Ht |- *. unfold single_ok in Ht. simpl in Ht. destruct nd; [|tauto].
      repeat split; try tauto. left; reflexivity. constructor.
    + simpl in Ht. destruct Ht as ([Hn|Hn] & Hb & Hl & Ho); [discriminate|]. inversion Hn; subst.
      simpl. repeat split; auto. left; reflexivity. constructor. exact Hb.
  - (* finish need *) other_thread Hc u t. rewrite upd_same. rewrite H in Ht.
    destruct r as [|f r'].
    + simpl in *. unfold single_ok in *. simpl in *. exact Ht.
    + simpl in Ht. destruct Ht as ([?|?] & _); discriminate.
  - (* finish noneed *) other_thread Hc u t. rewrite upd_same. rewrite H in Ht.
    destruct r as [|f r'].
    + simpl in Ht. unfold single_ok in Ht. simpl in Ht. tauto.
    + simpl in Ht. destruct Ht as (_ & Hb & Hl & Ho).
      destruct (below_inv _ Hb) as [Hr|(r2 & Hr & Hb2)].
      * inversion Hr; subst. simpl. unfold single_ok. simpl. auto.
      * inversion Hr; subst. pose proof (below_nonempty _ Hb2). destruct r2; [congruence|].
        simpl. repeat split; auto. right; reflexivity.
  - (* clear *) rewrite H in Ht. destruct r as [|f r'].
    2:{ simpl in Ht. destruct Ht as ([?|?] & _); discriminate. }
    simpl in Ht. unfold single_ok in Ht. simpl in Ht. destruct Ht as [Hl Ho].
    destruct (Nat.eq_dec u t) as [E|E].
    + subst u. rewrite upd_same. simpl. unfold single_ok. simpl. tauto.
    + rewrite (upd_other _ _ _ _ E). pose proof (Hc u) as Hu.
      destruct (is_me (owner c) u) eqn:Eo; [|exact Hu].
      exfalso. apply E. symmetry. eapply is_me_unique; eauto.
  - (* rel *) rewrite H in Ht. destruct r as [|f r'].
    2:{ simpl in Ht. destruct Ht as ([?|?] & _); discriminate. }
    simpl in Ht. unfold single_ok in Ht. simpl in Ht. destruct Ht as [Hl Ho].
    destruct (Nat.eq_dec u t) as [E|E].
    + subst u. rewrite upd_same. simpl. tauto.
    + rewrite (upd_other _ _ _ _ E). pose proof (Hc u) as Hu.
      destruct (is_me (lock c) u) eqn:El; [|exact Hu].
      exfalso. apply E. symmetry. eapply is_me_unique; eauto.
Qed.

Theorem inv_reach c : reach c -> Inv c.
Proof.
  induction 1 as [|c t c' _ IH Hs].
  - intros t. simpl. auto.
  - eapply inv_step; eauto.
Qed.

(* mutual exclusion: a thread whose top frame is in the body holds the lock *)
Definition in_body (c : cfg) (t : nat) : Prop := exists nd r, stk c t = {| fpc := PBody; need := nd |} :: r.

Theorem body_holds_lock c t : reach c -> in_body c t -> lock c = Some t.
Proof.
  intros Hr (nd & r & Hs). pose proof (inv_reach _ Hr t) as Ht. rewrite Hs in Ht.
  assert (Hl : is_me (lock c) t = true).
  { destruct r as [|f r']; simpl in Ht.
    - unfold single_ok in Ht. simpl in Ht. destruct nd; tauto.
    - tauto. }
  destruct (lock c) as [x|]; simpl in Hl; [|discriminate]. apply Nat.eqb_eq in Hl. congruence.
Qed.

Theorem mutual_exclusion c t u : reach c -> in_body c t -> in_body c u -> t = u.
Proof. intros Hr Ht Hu. pose proof (body_holds_lock _ _ Hr Ht). pose proof (body_holds_lock _ _ Hr Hu). congruence. Qed.

(* no wedge: whenever some thread is blocked in acquire, the lock holder can step *)
Theorem holder_can_step c t r : reach c -> stk c t = {| fpc := PAcq; need := true |} :: r ->
  forall h, lock c = Some h -> h <> t /\ exists c', step c h c'.
Proof.
  intros Hr Hs h Hl. pose proof (inv_reach _ Hr) as HI.
  pose proof (HI t) as Ht. rewrite Hs in Ht.
  assert (Hnl : is_me (lock c) t = false).
  { destruct r; simpl in Ht. unfold single_ok in Ht; simpl in Ht; tauto. destruct Ht as ([?|?] & _); discriminate. }
  split. { intros ->. rewrite Hl in Hnl. simpl in Hnl. now rewrite Nat.eqb_refl in Hnl. }
  pose proof (HI h) as Hh. rewrite Hl in Hh. simpl in Hh. rewrite Nat.eqb_refl in Hh.
  destruct (stk c h) as [|[p nd] [|f r']] eqn:Eh; simpl in Hh.
  - destruct Hh; discriminate.
  - unfold single_ok in Hh. simpl in Hh.
    destruct p, nd; try contradiction; try (destruct Hh as [Hx _]; discriminate Hx).
    + eexists. eapply S_setown; eauto.
    + eexists. eapply S_micro; eauto.
    + eexists. eapply S_clear; eauto.
    + eexists. eapply S_rel; eauto.
  - destruct Hh as ([Hn|Hn] & _); inversion Hn; subst.
    + eexists. eapply S_check; eauto.
    + eexists. eapply S_micro; eauto.
Qed.

(* a thread that is not inside any synchronized call - in particular after a call of its own returned OR raised - neither
   holds the lock nor is recorded as owner: an exception cannot leave the oracle locked *)
Theorem idle_thread_holds_nothing c t : reach c -> stk c t = [] -> lock c <> Some t /\ owner c <> Some t.
Proof.
  intros Hr Hs. pose proof (inv_reach _ Hr t) as Ht. rewrite Hs in Ht. simpl in Ht. destruct Ht as [Hl Ho].
  split; intros E; [rewrite E in Hl|rewrite E in Ho]; simpl in *; now rewrite Nat.eqb_refl in *.
Qed.
(* a re-entrant call (a frame on top of the thread's own body frame) never waits for the lock *)
Theorem reentrant_never_waits c t f r : reach c -> stk c t = f :: {| fpc := PBody; need := true |} :: r -> fpc f <> PAcq.
Proof.
  intros Hr Hs. pose proof (inv_reach _ Hr t) as Ht. rewrite Hs in Ht. simpl in Ht. destruct Ht as ([->| ->] & _); discriminate.
Qed.
Print Assumptions mutual_exclusion.
Print Assumptions holder_can_step.
