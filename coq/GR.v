From stdpp Require Import gmap list.
From KT Require Import Lifecycle G3.

(* _compare: None = KeyError *)
Fixpoint index_of (x : value) (l : list value) (n : nat) : option nat :=
  match l with [] => None | y :: r => if decide (x = y) then Some n else index_of x r (S n) end.

Fixpoint compare (sp : list hp) (a b : vals) : option comparison :=
  match sp with
  | [] => Some Eq
  | h :: rest =>
      match a !! hname h with
      | None => compare rest a b
      | Some x =>
          (* a trial started before this entry was discovered runs with the default, the head of hall *)
          match (match b !! hname h with Some y => Some y | None => head (hall h) end) with
          | None => None
          | Some y =>
              if decide (x = y) then compare rest a b
              else match index_of x (hall h) 0, index_of y (hall h) 0 with
                   | Some i, Some j => Some (if Nat.ltb i j then Lt else Gt)
                   | _, _ => None
                   end
          end
      end
  end.

Record gstate := { ordered : list nat; pending : list nat }.

Fixpoint next_in (l : list nat) (x : nat) : option nat :=
  match l with [] => None | y :: r => if Nat.eqb y x then head r else next_in r x end.
Fixpoint insert_after (l : list nat) (x new : nat) : list nat :=
  match l with [] => [new] | y :: r => if Nat.eqb y x then y :: new :: r else y :: insert_after r x new end.

Inductive scanres := SFound (rest : list nat) (old : nat) (nv : vals) | SNone | SError.

Fixpoint scan (sp : list hp) (ts : list (trial vals unit)) (ord : list nat) (pend : list nat) : scanres :=
  match pend with
  | [] => SNone
  | old :: rest =>
      match nth_error ts old with
      | None => SError
      | Some t =>
          match next_comb sp (t_data t) with
          | None => scan sp ts ord rest
          | Some nv =>
              match next_in ord old with
              | None => SFound rest old nv
              | Some nid =>
                  match nth_error ts nid with
                  | None => SError
                  | Some tn =>
                      match compare sp nv (t_data tn) with
                      | None => SError
                      | Some Lt => SFound rest old nv
                      | Some _ => scan sp ts ord rest
                      end
                  end
              end
          end
      end
  end.

Definition defaults (sp : list hp) : vals := hd ∅ (combos sp ∅).

Definition gpopulate (sp : list hp) (g : gstate) (ts : list (trial vals unit)) (ongoing_nonempty : bool) (id : nat)
  : gstate * status * vals :=
  match ts with
  | [] => ({| ordered := [id]; pending := pending g ++ [id] |}, RUNNING, defaults sp)
  | _ =>
      match scan sp ts (ordered g) (pending g) with
      | SFound rest old nv => ({| ordered := insert_after (ordered g) old id; pending := rest |}, RUNNING, nv)
      | SNone => ({| ordered := ordered g; pending := [] |}, if ongoing_nonempty then IDLE else STOPPED, ∅)
      | SError => (g, FAILED, ∅)  (* marks a Python exception; never expected *)
      end
  end.

Definition gend (g : gstate) (id : nat) (_ : vals) : gstate := {| ordered := ordered g; pending := pending g ++ [id] |}.
Definition ginit : gstate := {| ordered := []; pending := [] |}.
