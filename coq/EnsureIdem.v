(* ensure_active_values is idempotent on well-ordered spaces with distinct names: its output carries a value for exactly the
   active entries (Cover.ensure_covers'), and on such a map it changes nothing. Consequence for C06: the hypothesis
   `sample_complete` of the de-duplication theorems holds whenever the oracle's space is well ordered. *)
From stdpp Require Import gmap list.
From Coq Require Import ZArith.
From KT Require Import Lifecycle Space Discover Cover Rand RandDedup.
Set Default Proof Using "Type".

Section idem.
Variable draw : nat → hp → value.

Lemma ensure_fix sp : ∀ v k, (∀ h, h ∈ sp → (is_Some (v !! h_name h) ↔ conds_active v (h_conds h) = true)) →
  (ensure_go0 draw sp v k).1 = v.
Proof.
  induction sp as [|h r IH]; intros v k Hex; cbn; [done|].
  assert (Hr : ∀ h', h' ∈ r → (is_Some (v !! h_name h') ↔ conds_active v (h_conds h') = true)) by (intros h' Hh'; apply Hex; by right).
  pose proof (Hex h ltac:(by left)) as Hh.
  destruct (conds_active v (h_conds h)) eqn:Ea.
  - destruct (v !! h_name h) as [x|] eqn:Ev; [by apply IH|]. exfalso. destruct Hh as [_ Hh]. destruct (Hh eq_refl) as [y Hy]. congruence.
  - assert (Hn : v !! h_name h = None). { destruct (v !! h_name h) eqn:Ev; [|done]. destruct Hh as [Hh _]. by specialize (Hh ltac:(by eexists)). }
    rewrite delete_notin by done. by apply IH.
Qed.

Theorem ensure_idem sp v k k' : wo [] sp →
  (ensure_go draw sp sp (ensure_go draw sp sp v k).1 k').1 = (ensure_go draw sp sp v k).1.
Proof.
  intros Hwo. pose proof (ensure_covers' draw sp v k Hwo) as Hc. cbn in Hc.
  rewrite (ensure_go_distinct draw sp sp) at 1; [|by apply (wo_names sp [])|done].
  by apply ensure_fix.
Qed.
End idem.

Section c06.
Variable samp : nat → Z → value.
Variable draw : nat → hp → value.
Variables allow tune : bool.
Variable max_collisions : nat.
Variable c : cfg.
Notation ost := (@ostate rstate tdata unit).

Lemma random_values_ensured fuel sp tried : ∀ seed col v seed',
  random_values samp draw max_collisions fuel sp tried seed col = (Some v, seed') → ∃ w, v = (ensure_go draw sp sp w 0).1.
Proof.
  induction fuel as [|fuel IH]; intros seed col v seed' H; cbn [random_values] in H; [by inversion H|].
  destruct (sample_pass samp sp 0 empty_hps seed) as [s sd]. cbv zeta in H.
  destruct (duplicate tried (ensure_go draw sp sp (s_values s) 0).1).
  - destruct (Nat.ltb max_collisions (S col)); [done|]. by eapply IH.
  - inversion H; subst. by eexists.
Qed.

(* on a well-ordered space (parents first, distinct names) the hypothesis of C06_step / C06_distinct_run holds *)
Theorem sample_complete_of_wo (s : ost) : wo [] (s_space (a_osp (algo s))) → sample_complete samp draw max_collisions s.
Proof.
  intros Hwo v seed seed' k Hrv. destruct (random_values_ensured _ _ _ _ _ _ _ Hrv) as (w & ->).
  by apply ensure_idem.
Qed.
End c06.
Print Assumptions sample_complete_of_wo.

(* C05 for the sampling oracles (random search, Hyperband's first rounds, the Bayesian warm-up): what _random_values hands out
   holds a value for exactly the active entries *)
Theorem random_values_exactly_active (samp : nat → Z → value) (draw : nat → hp → value) mc fuel sp tried seed col v seed' :
  wo [] sp → random_values samp draw mc fuel sp tried seed col = (Some v, seed') →
  ∀ h, h ∈ sp → (is_Some (v !! h_name h) ↔ conds_active v (h_conds h) = true).
Proof.
  intros Hwo Hrv. destruct (random_values_ensured _ _ _ _ _ _ _ _ _ _ Hrv) as (w & ->).
  by apply ensure_covers'.
Qed.
