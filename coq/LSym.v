(* C04, direction symmetry of a whole search, for the generic lifecycle core: run the same operations on two oracles whose
   score functions differ by the sign of the objective (maximise s / minimise -s) and whose populate_space functions do
   not tell the two apart (random and grid search never read scores; Hyperband: HBSym.hpopulate_sym). Then every response
   (ids, statuses, values) is identical and the states differ only in the sign of the recorded scores - after any number
   of creates, updates, ends, retries, aborts and reloads, for any number of tuners. *)
From Coq Require Import List ZArith Bool Lia PeanoNat.
Import ListNotations.
From KT Require Import Lifecycle.

Section Sym.
Context {A V Sc : Type}.
Variable vdef : V.
Notation trial := (trial V Sc).
Notation dtrial := (dtrial V Sc).
Variable neg : Sc -> Sc.
Variable score1 score2 : V -> scored Sc.
Definition sneg (x : scored Sc) : scored Sc := match x with SNaN => SNaN | SVal z => SVal (neg z) end.
Hypothesis score_sym : forall v, score2 v = sneg (score1 v).
Definition ntr (t : trial) : trial :=
  {| t_status := t_status t; t_score := option_map sneg (t_score t); t_runs := t_runs t; t_data := t_data t |}.
Definition ndt (d : dtrial) : dtrial :=
  {| d_status := d_status d; d_score := option_map sneg (d_score d); d_data := d_data d |}.
Variable pop1 pop2 : A -> list trial -> bool -> tid -> A * status * V.
Hypothesis pop_sym : forall a ts b id, pop2 a (map ntr ts) b id = pop1 a ts b id.
Variable hook_end hook_end_abort : A -> tid -> V -> A.
Variable hook_reload : A -> A.
Variable reissue : V -> V.
Notation ost := (@ostate A V Sc).
Notation step1 := (step vdef score1 pop1 hook_end hook_end_abort hook_reload reissue).
Notation step2 := (step vdef score2 pop2 hook_end hook_end_abort hook_reload reissue).

Definition nst (s : ost) : ost :=
  {| trials := map ntr (trials s); ongoing := ongoing s; start_order := start_order s; end_order := end_order s;
     retryq := retryq s; tuner_ids := tuner_ids s; algo := algo s; disk := map ndt (disk s) |}.

Lemma map_upd {X Y} (f : X -> Y) (g : X -> X) (g' : Y -> Y) n l : (forall x, f (g x) = g' (f x)) -> map f (upd n g l) = upd n g' (map f l).
Proof. intros H. revert n. induction l as [|x r IH]; intros [|n]; simpl; auto; [now rewrite H|now rewrite IH]. Qed.
Lemma nth_map {X Y} (f : X -> Y) l n : nth_error (map f l) n = option_map f (nth_error l n).
Proof. revert n. induction l as [|x r IH]; intros [|n]; simpl; auto. Qed.
Lemma trial_view_ntr ts id : trial_view vdef (map ntr ts) id = trial_view vdef ts id.
Proof. unfold trial_view. rewrite nth_map. destruct (nth_error ts id); reflexivity. Qed.
Lemma streak_ntr k ts order : forall cnt, streak k (map ntr ts) order cnt = streak k ts order cnt.
Proof.
  induction order as [|id r IH]; intros cnt; simpl; [reflexivity|]. rewrite nth_map.
  destruct (nth_error ts id) as [t|]; simpl; rewrite IH; reflexivity.
Qed.
Fixpoint streakS (k : nat) (sts : list status) (order : list tid) (cnt : nat) : bool :=
  match order with
  | [] => false
  | id :: r =>
      let cnt' := match nth_error sts id with
                  | Some st => if status_eqb st FAILED then S cnt else 0
                  | None => 0 end in
      if Nat.eqb cnt' k then true else streakS k sts r cnt'
  end.
Lemma streak_S k (ts : list trial) order : forall cnt, streak k ts order cnt = streakS k (map (@t_status V Sc) ts) order cnt.
Proof.
  induction order as [|id r IH]; intros cnt; simpl; [reflexivity|]. rewrite nth_map.
  destruct (nth_error ts id) as [t|]; simpl; rewrite IH; reflexivity.
Qed.
Lemma map_status_upd n (t : trial) l : map (@t_status V Sc) (upd n (fun _ => t) l) = upd n (fun _ => t_status t) (map (@t_status V Sc) l).
Proof. apply map_upd. reflexivity. Qed.
Lemma map_status_ntr (ts : list trial) : map (@t_status V Sc) (map ntr ts) = map (@t_status V Sc) ts.
Proof. rewrite map_map. reflexivity. Qed.
Lemma to_disk_ntr t : to_disk (ntr t) = ndt (to_disk t).
Proof. reflexivity. Qed.
Lemma from_disk_ntr ts : forall ds, from_disk (map ntr ts) (map ndt ds) = map ntr (from_disk ts ds).
Proof. induction ts as [|t r IH]; intros [|d ds]; simpl; auto. now rewrite IH. Qed.

Theorem step_sym c (s : ost) o : step2 c (nst s) o = (nst (fst (step1 c s o)), snd (step1 c s o)).
Proof.
  destruct o as [tu|id f|id es f|]; cbn [step].
  - (* create *)
    unfold do_create. cbn [nst ongoing trials retryq].
    destruct (alookup tu (ongoing s)) as [id0|].
    { rewrite trial_view_ntr. destruct (trial_view vdef (trials s) id0). reflexivity. }
    destruct (rev (retryq s)) as [|idr rq'].
    + rewrite map_length. cbn [algo nst].
      assert (E : forall b, pop2 (algo s) (map ntr (trials s)) b (length (trials s)) = pop1 (algo s) (trials s) b (length (trials s))) by (intros; apply pop_sym).
      destruct (max_trials c) as [n|]; [destruct (Nat.leb n (length (trials s)))|]; rewrite ?E;
        try (destruct (pop1 (algo s) (trials s) (negb (length (ongoing s) =? 0)) (length (trials s))) as [[a' st] v]; destruct st);
        cbn [fst snd]; unfold nst; cbn; rewrite ?map_app; reflexivity.
    + cbn [fst snd]. unfold nst. cbn. rewrite <- (map_upd ntr (reissue_trial reissue) (reissue_trial reissue)) by reflexivity.
      rewrite trial_view_ntr. reflexivity.
  - (* update *)
    unfold do_update. cbn [nst trials]. rewrite nth_map. destruct (nth_error (trials s) id) as [t|]; cbn [option_map fst snd]; [|reflexivity].
    unfold nst. cbn. f_equal. f_equal.
    + symmetry. apply map_upd. reflexivity.
    + symmetry. rewrite (map_upd ndt (fun _ => to_disk (map_data f t)) (fun _ => to_disk (map_data f (ntr t)))); reflexivity.
  - (* end *)
    unfold do_end. cbn [nst ongoing trials].
    destruct (negb (existsb (fun kv => snd kv =? id) (ongoing s))); [reflexivity|].
    rewrite nth_map. destruct (nth_error (trials s) id) as [t0|]; cbn [option_map]; [|reflexivity].
    cbn [ntr t_data t_score t_runs]. rewrite score_sym.
    assert (Hupd : forall t', map ntr (upd id (fun _ => t') (trials s)) = upd id (fun _ => ntr t') (map ntr (trials s))).
    { intros t'. apply map_upd. reflexivity. }
    assert (Hdupd : forall t', map ndt (upd id (fun _ => to_disk t') (disk s)) = upd id (fun _ => to_disk (ntr t')) (map ndt (disk s))).
    { intros t'. apply map_upd. reflexivity. }
    destruct es; [destruct (score1 (f (t_data t0))) as [|x]| |]; cbn [sneg]; cbv zeta.
    all: repeat match goal with |- context [Nat.leb ?a ?b] => destruct (Nat.leb a b) end; cbv iota beta.
    all: cbn [nst ongoing trials start_order end_order retryq tuner_ids algo disk].
    all: rewrite ?streak_S, ?map_status_upd, ?map_status_ntr; cbn [t_status].
    all: repeat match goal with |- context [streakS ?a ?b ?d ?e] => destruct (streakS a b d e) end.
    all: repeat match goal with |- context [abort_early ?cc] => destruct (abort_early cc) end.
    all: cbn [fst snd]; unfold nst; cbn [trials ongoing start_order end_order retryq tuner_ids algo disk].
    all: rewrite ?Hupd, ?Hdupd; reflexivity.
  - (* reload *)
    unfold do_reload. cbn [nst trials disk ongoing]. cbn [fst snd]. unfold nst. cbn. rewrite from_disk_ntr. reflexivity.
Qed.

Theorem run_sym c ops : forall s : ost,
  run vdef score2 pop2 hook_end hook_end_abort hook_reload reissue c (nst s) ops
  = map (fun rs => (fst rs, nst (snd rs))) (run vdef score1 pop1 hook_end hook_end_abort hook_reload reissue c s ops).
Proof.
  induction ops as [|o r IH]; intros s; cbn [run map]; [reflexivity|].
  rewrite step_sym. destruct (step1 c s o) as [s' rs]. cbn [fst snd map]. now rewrite IH.
Qed.

(* from the initial state: the two searches answer every request identically *)
Corollary search_sym c (a : A) ops :
  map fst (run vdef score2 pop2 hook_end hook_end_abort hook_reload reissue c (init a) ops)
  = map fst (run vdef score1 pop1 hook_end hook_end_abort hook_reload reissue c (init a) ops).
Proof.
  change (init a : ost) with (nst (init a)) at 1. rewrite run_sym, map_map. reflexivity.
Qed.
End Sym.
