(* C17: the intermediate representation the translator (harness/ktverif/translate_sync.py) emits for
   keras_tuner.engine.oracle.synchronized.wrapped_func, and the shape the proofs of Sync.v are about.
   Anything the translator does not recognise is emitted as Unknown "<source text>", which well_structured rejects. *)
From Coq Require Import List String Bool.
Import ListNotations.

Inductive rd := ReadDefaultdict  (* THREADS[oracle]: a defaultdict lookup, creating the entry in two steps *)
              | ReadAtomic.      (* THREADS.get(oracle): creates nothing *)
Inductive lk := LookupDefaultdict  (* LOCKS[oracle]: factory call then store - two threads can obtain two different locks *)
              | LookupAtomic.      (* a module-level getter that does `with <module lock>: return LOCKS[oracle]` *)
Inductive instr :=
| Compat                          (* backward compatible end_trial(trial_id, status) argument shuffle: no shared effect *)
| SetOracle | ThreadName
| NeedAcquire (r : rd)            (* need_acquire = <owner read> != thread_name *)
| IfNeed (body : list instr)
| Acquire (l : lk) | Release (l : lk)
| SetOwner (me : bool)            (* THREADS[oracle] = thread_name / None *)
| Call                            (* the wrapped call: ret_val = func(...) *)
| Try (body fin : list instr)     (* try: body finally: fin *)
| Return
| Unknown (src : string).

Definition instr_eqb (a b : instr) : bool :=
  match a, b with
  | Compat, Compat | SetOracle, SetOracle | ThreadName, ThreadName | Call, Call | Return, Return => true
  | NeedAcquire ReadAtomic, NeedAcquire ReadAtomic => true
  | Acquire LookupAtomic, Acquire LookupAtomic | Release LookupAtomic, Release LookupAtomic => true
  | SetOwner x, SetOwner y => Bool.eqb x y
  | _, _ => false
  end.
Fixpoint list_eqb (a b : list instr) : bool :=
  match a, b with [], [] => true | x :: a, y :: b => instr_eqb x y && list_eqb a b | _, _ => false end.

(* the shape Sync.v gives a semantics to: the owner is read without creating anything; the lock is looked up atomically and
   acquired before the owner is set; the call sits in a try whose finally clears the owner and THEN releases the lock, both
   under the same need_acquire flag. Statements without shared effect (Compat, SetOracle, ThreadName) may come first in any
   order. *)
Definition no_effect (i : instr) : bool := match i with Compat | SetOracle | ThreadName => true | _ => false end.
Fixpoint strip (p : list instr) : list instr :=
  match p with i :: r => if no_effect i then strip r else p | [] => [] end.
Definition well_structured (p : list instr) : bool :=
  match strip p with
  | [NeedAcquire ReadAtomic; IfNeed acq; Try body fin; Return] =>
      list_eqb acq [Acquire LookupAtomic; SetOwner true] && list_eqb body [Call]
      && match fin with [IfNeed rel] => list_eqb rel [SetOwner false; Release LookupAtomic] | _ => false end
  | _ => false
  end.
Definition all_decorated (d : list (string * bool)) : bool := forallb snd d && Nat.eqb (List.length d) 5.
