(* C02 - max_trials is a hard budget on distinct trials. Statements only. *)
From Coq Require Import List ZArith Bool.
Import ListNotations.
From KT Require Import Lifecycle LInv LProps LifeCorr Metrics.

(* never more than N distinct trials, in every state of every history (save+reload anywhere), for every populate_space *)
Theorem C02_budget :
  forall (A V Sc : Type) (vdef : V) (score_fn : V -> scored Sc)
         (populate : A -> list (trial V Sc) -> bool -> tid -> A * status * V)
         (hook_end hook_end_abort : A -> tid -> V -> A) (hook_reload : A -> A) (reissue : V -> V)
         (c : cfg) (n : nat) (a : A) (ops : list (@op V)),
  max_trials c = Some n ->
  Forall (fun rs => length (trials (snd rs)) <= n)
         (run vdef score_fn populate hook_end hook_end_abort hook_reload reissue c (init a) ops).
Proof. exact @LProps.C02_budget. Qed.

(* retries do not consume budget: a request served from the retry queue re-issues an existing trial, the number of
   trials is unchanged *)
Theorem C02_retry_reuses_trial :
  forall (A V Sc : Type) (vdef : V) (populate : A -> list (trial V Sc) -> bool -> tid -> A * status * V) (reissue : V -> V)
         (c : cfg) (s : @ostate A V Sc) (tu : tuner) (id : tid) (rq' : list tid),
  alookup tu (ongoing s) = None -> rev (retryq s) = id :: rq' ->
  exists s' v, do_create vdef populate reissue c s tu = (s', RTrial id RUNNING v) /\
     length (trials s') = length (trials s) /\ retryq s' = rev rq' /\ In (tu, id) (ongoing s') /\
     (forall t, nth_error (trials s) id = Some t -> v = reissue (t_data t)).
Proof. exact @LProps.C03_retry_first. Qed.

(* once N trials exist and no retry is pending, every request by a tuner holding nothing is answered STOPPED and
   nothing changes; remaining_trials = N - number of trials is `n - length (trials s)` by definition *)
Theorem C02_stopped :
  forall (A V Sc : Type) (vdef : V) (populate : A -> list (trial V Sc) -> bool -> tid -> A * status * V) (reissue : V -> V)
         (c : cfg) (n : nat) (s : @ostate A V Sc) (tu : tuner),
  max_trials c = Some n -> n <= length (trials s) -> retryq s = [] -> alookup tu (ongoing s) = None ->
  exists s', do_create vdef populate reissue c s tu = (s', RTrial (length (trials s)) STOPPED vdef) /\
             trials s' = trials s /\ ongoing s' = ongoing s /\ retryq s' = [] /\ end_order s' = end_order s.
Proof. exact @LProps.C02_stopped. Qed.

(* non-vacuity: N = 2, three tuners, a retry at the boundary *)
Example C02_example :
  let c := {| max_trials := Some 2%nat; max_retries := 1; max_consec := 9; abort_early := false |} in
  let ops := [Create 0; Create 1; Create 2; End 1 EInvalid keep; Create 2; Create 1]%nat in
  map (fun rs => match fst rs with RTrial i st _ => Some (i, st) | _ => None end)
      (lrun false true c [(RUNNING, 11); (RUNNING, 12); (RUNNING, 13)]%Z ops)
  = [Some (0, RUNNING); Some (1, RUNNING); Some (2, STOPPED); None; Some (1, RUNNING); Some (2, STOPPED)]%nat.
Proof. vm_compute. reflexivity. Qed.

Print Assumptions C02_budget.
Print Assumptions C02_retry_reuses_trial.
Print Assumptions C02_stopped.
