(* C13 - define-by-run lookup, conditional scopes and space discovery. Statements only.
   Proved on the container model Space.v / Discover.v (tied to HyperParameters / BaseTuner by the correspondence on generated
   build programs): (a) what declaring and reading return, (b) parents are registered before children in every container a
   build program can produce, (d) the two new-entry flags. (c) - that _populate_initial_space terminates and finds every
   declaration - is NOT a theorem: it is explored by the correspondence (discovered space, number of builds and outcome of the
   real tuner constructor against Discover.v): PARTIAL. *)
From stdpp Require Import gmap list.
From Coq Require Import ZArith.
From KT Require Import Space Discover SpaceProofs DiscoverProofs.

Theorem C13_declare_known_active : ∀ s h v,
  exists_ s (h_name h) (h_conds h) = true → is_active s h = true → s_values s !! h_name h = Some v → retrieve s h = Ok (s, Some v).
Proof. exact retrieve_known_active. Qed.
Theorem C13_declare_known_inactive : ∀ s h,
  exists_ s (h_name h) (h_conds h) = true → is_active s h = false → retrieve s h = Ok (s, None).
Proof. exact retrieve_known_inactive. Qed.
Theorem C13_declare_unknown : ∀ s h,
  exists_ s (h_name h) (h_conds h) = false → existsb (λ c, bool_decide (c_name c = h_name h)) (s_conds s) = false →
  ∃ s' r, retrieve s h = Ok (s', r) ∧ s_space s' = s_space s ++ [h] ∧
    (conds_active (s_values s) (h_conds h) = true →
       r = Some (default (h_default h) (s_values s !! h_name h)) ∧
       s_values s' = match s_values s !! h_name h with Some _ => s_values s | None => <[h_name h := h_default h]> (s_values s) end) ∧
    (conds_active (s_values s) (h_conds h) = false → r = None ∧ s_values s' = s_values s).
Proof. exact retrieve_unknown. Qed.
Theorem C13_get : ∀ s n,
  match get s n with
  | Ok v => s_values s !! get_name s n = Some v
  | Err EValueError => s_values s !! get_name s n = None ∧ known s (get_name s n) = true
  | Err EKeyError => s_values s !! get_name s n = None ∧ known s (get_name s n) = false
  end.
Proof. exact get_spec. Qed.
Theorem C13_contains : ∀ s n, contains s n = true ↔ is_Some (s_values s !! get_name s n).
Proof. exact contains_spec. Qed.

(* (b) for every build program, to any nesting depth of name scopes and conditional scopes, eager or `if`-guarded *)
Theorem C13_parents_first : ∀ fuel p, wo_list (s_space (exec fuel empty_hps p []).1.1).
Proof. exact exec_parents_first. Qed.
Theorem C13_parents_first_inv : ∀ fuel s p log, SInv s → SInv (exec fuel s p log).1.1.
Proof. exact exec_sinv. Qed.

(* (d) *)
Theorem C13_new_entries : ∀ allow tune osp hp,
  let new := filter (λ h, negb (exists_ osp (h_name h) (h_conds h))) (s_space hp) in
  (allow = false → new ≠ [] → update_space allow tune osp hp = UsNotAllowed) ∧
  ((allow = true ∨ new = []) → tune = false → update_space allow tune osp hp = UsOk osp) ∧
  ((allow = true ∨ new = []) → tune = true → update_space allow tune osp hp = UsOk (merge_list osp new)).
Proof. exact update_space_spec. Qed.

(* (c) _populate_initial_space, partial correctness, for EVERY build program: when discovery returns (ActDone after b builds),
   every conditional scope opened in any of the builds - active or not - was active in at least one of them, and (with
   allow_new_entries = tune_new_entries = True) everything any build registered is in the oracle's search space.
   Termination is not proved: the correspondence compares the number of builds on generated programs. *)
Theorem C13_discovery_partial_correctness : ∀ (draw : nat → hp → value) (build : list stmt) (fuel : nat) (osp osp' : hps) (k' b : nat),
  s_conds osp = [] →
  populate_initial draw build true true fuel osp = ActDone osp' k' b →
  ∃ hist : list hps, length hist = b ∧
    (∀ h cs, h ∈ hist → cs ∈ s_active h ++ s_inactive h → ∃ h', h' ∈ hist ∧ scope_in cs (s_active h') = true) ∧
    (∀ h e, h ∈ hist → e ∈ s_space h → exists_ osp' (h_name e) (h_conds e) = true).
Proof. exact discovery_partial_correctness. Qed.

(* non-vacuity: `a = Choice(x, y)`; `if a == y: b = Int(...)` is discovered in two builds *)
Example C13_discovery_example :
  match populate_initial (λ _ h, h_default h) [SDecl 1 (VStr 1) 1; SCond false 1 [VStr 2] [SDecl 2 (VInt 0) 2]] true true 10 empty_hps with
  | ActDone osp _ b => (b, map h_name (s_space osp)) = (2, [[1%positive]; [2%positive]])
  | _ => False
  end.
Proof. vm_compute. reflexivity. Qed.


Print Assumptions C13_declare_unknown.
Print Assumptions C13_get.
Print Assumptions C13_parents_first.
Print Assumptions C13_new_entries.
Print Assumptions C13_discovery_partial_correctness.
