(* C08 - a crash between any two writes leaves a resumable, consistent project. Statements only.
   Proved: what the restart rebuilds from ANY directory content (C08_restart_spec), that at every operation boundary the
   restart equals save+reload (C08_boundary, which brings in all of C07/C01), which directory images a crash inside
   end_trial can leave (C08_end_images) and what is rebuilt in the one window where the two files disagree
   (C08_end_window). Not a theorem (explored by the harness at every crash point of generated searches, incl. the model
   correspondence of every write and every rebuilt state): termination and budget of the resumed search from the rebuilt
   states that are not reachable without a crash, and repeated crashes. *)
From Coq Require Import List ZArith Bool.
Import ListNotations.
From KT Require Import Lifecycle LInv Crash CrashProofs.

Theorem C08_restart_spec : forall (A V Sc : Type) (hook_reload : A -> A) (d : @dstate A V Sc) (j : @ojson A),
  ds_tuner d = true -> ds_oracle d = Some j ->
  exists t : @ostate A V Sc, recover hook_reload d = Some t /\
    ongoing t = [] /\ start_order t = j_start j /\ end_order t = j_end j /\
    length (trials t) = Nat.min (length (j_start j)) (length (ds_trials d)) /\
    (forall id tr, nth_error (trials t) id = Some tr ->
       exists f, nth_error (ds_trials d) id = Some f /\ t_status tr = d_status f /\ t_score tr = d_score f /\ t_data tr = d_data f) /\
    (forall tu id f, In (tu, id) (j_ongoing j) -> nth_error (firstn (length (j_start j)) (ds_trials d)) id = Some f ->
       (dfinal f = false -> In id (retryq t)) /\ (dfinal f = true -> In id (retryq t) -> In id (j_retryq j))) /\
    (forall id, In id (j_retryq j) -> In id (retryq t)) /\
    (forall id, In id (retryq t) -> In id (j_retryq j) \/ In id (map snd (j_ongoing j))).
Proof. exact @recover_spec. Qed.

Theorem C08_boundary : forall (A V Sc : Type) (hook_reload : A -> A) (s : @ostate A V Sc),
  Inv s -> recover hook_reload (image s) = Some (fst (do_reload hook_reload s)).
Proof. exact @recover_image. Qed.

Theorem C08_end_images : forall (A V Sc : Type) (s s' : @ostate A V Sc) id (d' : dtrial V Sc) k,
  fold_left apply_write (firstn k [WTrial id d'; WOracle (to_json (with_ongoing s' (ongoing s))); WOracle (to_json s'); WTuner]) (image s)
  = match k with
    | 0 => image s
    | 1 => {| ds_trials := set_nth id d' (disk s); ds_oracle := Some (to_json s); ds_tuner := true |}
    | 2 => {| ds_trials := set_nth id d' (disk s); ds_oracle := Some (to_json (with_ongoing s' (ongoing s))); ds_tuner := true |}
    | _ => {| ds_trials := set_nth id d' (disk s); ds_oracle := Some (to_json s'); ds_tuner := true |}
    end.
Proof. exact @end_images. Qed.

Theorem C08_end_window : forall (A V Sc : Type) (hook_reload : A -> A) (s : @ostate A V Sc) tu id (d' : dtrial V Sc),
  Inv s -> In (tu, id) (ongoing s) ->
  exists t : @ostate A V Sc,
    recover hook_reload {| ds_trials := set_nth id d' (disk s); ds_oracle := Some (to_json s); ds_tuner := true |} = Some t /\
    ongoing t = [] /\
    (exists tr, nth_error (trials t) id = Some tr /\ t_status tr = d_status d' /\ t_score tr = d_score d' /\ t_data tr = d_data d') /\
    (dfinal d' = true -> ~ In id (retryq t)) /\
    (dfinal d' = false -> In id (retryq t)) /\
    length (trials t) = length (trials s).
Proof. exact @end_crash_after_trial_file. Qed.

Print Assumptions C08_restart_spec.
Print Assumptions C08_boundary.
Print Assumptions C08_end_images.
Print Assumptions C08_end_window.
