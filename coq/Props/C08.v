(* C08 - a crash between any two writes leaves a resumable, consistent project. Statements only.
   Proved for EVERY crash point of EVERY search and any number of crashes (reachable_dir: search, crash after any number
   of writes, restart, search, crash, ...): the restart either finds no tuner file and begins a new search, or rebuilds a
   state that satisfies the lifecycle invariant Inv with nothing handed out (C08_any_crash_point) - so every trial has
   ended or is queued to be run again, ids are 0..n-1, and every theorem of C01/C02/C03/C07 that starts from an Inv state
   applies to the resumed search - and holds at most max_trials trials (C08_budget). What the restart rebuilds from ANY
   directory content is C08_restart_spec (status, score and payload of every kept trial are those of its file: a durably
   recorded end never changes); at every operation boundary the restart equals save+reload (C08_boundary); the images a
   crash inside end_trial can leave and the one window in which the two files disagree are C08_end_images/C08_end_window.
   C08_resumed_search_terminates: the tuner loop resumed from any such state ends within (max_retries+1)*max_trials runs.
   Outside the model: several workers crashing independently, non-atomic file writes. *)
From Coq Require Import List ZArith Bool.
Import ListNotations.
From KT Require Import Lifecycle LInv LProps Tuner TunerTerm Crash CrashProofs CrashAll CrashTerm.

Theorem C08_any_crash_point : forall (A V Sc : Type) (vdef : V) (score_fn : V -> scored Sc)
    (populate : A -> list (trial V Sc) -> bool -> tid -> A * status * V) (hook_end hook_end_abort : A -> tid -> V -> A)
    (hook_reload : A -> A) (reissue : V -> V) (c : cfg) (a0 : A) (d : @dstate A V Sc),
  abort_early c = false ->
  reachable_dir vdef score_fn populate hook_end hook_end_abort hook_reload reissue c a0 d ->
  match recover hook_reload d with
  | None => fresh_dir d
  | Some t => Inv t /\ RInv c t /\ ongoing t = []
  end.
Proof. exact @crash_any_point. Qed.

(* ... and the resumed tuner loop ends within the run budget (single worker: populate_space answers RUNNING or STOPPED) *)
Theorem C08_resumed_search_terminates : forall (A V Sc : Type) (vdef : V) (score_fn : V -> scored Sc)
    (populate : A -> list (trial V Sc) -> bool -> tid -> A * status * V) (hook_end hook_end_abort : A -> tid -> V -> A)
    (hook_reload : A -> A) (reissue : V -> V),
  (forall a ts id, snd (fst (populate a ts false id)) = RUNNING \/ snd (fst (populate a ts false id)) = STOPPED) ->
  forall (c : cfg) (a0 : A) (n : nat) (d : @dstate A V Sc) (t : @ostate A V Sc) (fuel : nat) (script : list (@attempt V)),
  abort_early c = false -> max_trials c = Some n ->
  reachable_dir vdef score_fn populate hook_end hook_end_abort hook_reload reissue c a0 d ->
  recover hook_reload d = Some t ->
  n * S (max_retries c) - truns (trials t) < fuel ->
  snd (fst (search vdef score_fn populate hook_end hook_end_abort reissue fuel c t script)) <> OutOfFuel.
Proof. exact @resumed_search_terminates. Qed.

Theorem C08_budget : forall (A V Sc : Type) (vdef : V) (score_fn : V -> scored Sc)
    (populate : A -> list (trial V Sc) -> bool -> tid -> A * status * V) (hook_end hook_end_abort : A -> tid -> V -> A)
    (hook_reload : A -> A) (reissue : V -> V) (c : cfg) (a0 : A) (n : nat) (d : @dstate A V Sc) (t : @ostate A V Sc),
  abort_early c = false -> max_trials c = Some n ->
  reachable_dir vdef score_fn populate hook_end hook_end_abort hook_reload reissue c a0 d ->
  recover hook_reload d = Some t -> length (trials t) <= n.
Proof. exact @crash_budget. Qed.

(* the first search crashed after k writes, as run by the correspondence check (Crash.crash_at) *)
Theorem C08_first_crash : forall (A V Sc : Type) (vdef : V) (score_fn : V -> scored Sc)
    (populate : A -> list (trial V Sc) -> bool -> tid -> A * status * V) (hook_end hook_end_abort : A -> tid -> V -> A)
    (hook_reload : A -> A) (reissue : V -> V) (c : cfg) (a0 : A) (ops : list (@op V)) (k : nat),
  abort_early c = false -> no_reload ops = true ->
  match crash_at vdef score_fn populate hook_end hook_end_abort hook_reload reissue c a0 ops k with
  | None => k < 2
  | Some t => 2 <= k /\ Inv t /\ RInv c t /\ ongoing t = []
  end.
Proof. exact @crash_at_ok. Qed.

(* the invariant is about the directory: the restart from ANY directory satisfying it yields an Inv state *)
Theorem C08_dirok_recovers : forall (A V Sc : Type) (vdef : V) (score_fn : V -> scored Sc) (hook_reload : A -> A) (reissue : V -> V) (c : cfg) (d : @dstate A V Sc),
  DirOK (max_retries c) d -> exists t : @ostate A V Sc, recover hook_reload d = Some t /\ Inv t /\ RInv c t /\ ongoing t = [].
Proof. exact @recover_inv. Qed.

(* non-vacuity: two trials started, the first ended COMPLETED, crash right after its trial file was written (write 7):
   the restart keeps the COMPLETED trial and queues the other one *)
Example C08_crash_example :
  let c := {| max_trials := Some 5; max_retries := 0; max_consec := 3; abort_early := false |} in
  let pop := fun (a : unit) (_ : list (trial nat nat)) (_ : bool) (id : tid) => (a, RUNNING, id) in
  let ops := [Create 0; Create 1; End 0 ECompleted (fun v => v)] in
  option_map (fun t => (map (@t_status nat nat) (trials t), retryq t, end_order t))
    (crash_at 0 (fun v => SVal v) pop (fun a _ _ => a) (fun a _ _ => a) (fun a => a) (fun v => v) c tt ops 7)
  = Some ([COMPLETED; RUNNING], [1], []).
Proof. vm_compute. reflexivity. Qed.

Theorem C08_restart_spec : forall (A V Sc : Type) (hook_reload : A -> A) (d : @dstate A V Sc) (j : @ojson A),
  ds_tuner d = true -> ds_oracle d = Some j ->
  exists t : @ostate A V Sc, recover hook_reload d = Some t /\
    ongoing t = [] /\ start_order t = j_start j /\ end_order t = j_end j /\
    length (trials t) = Nat.min (length (j_start j)) (length (ds_trials d)) /\
    (forall id tr, nth_error (trials t) id = Some tr ->
       exists f, nth_error (ds_trials d) id = Some f /\ t_status tr = d_status f /\ t_score tr = d_score f /\ t_data tr = d_data f) /\
    (forall tu id f, In (tu, id) (j_ongoing j) -> nth_error (firstn (length (j_start j)) (ds_trials d)) id = Some f ->
       (dfinal f = false -> In id (retryq t)) /\ (dfinal f = true -> In id (retryq t) -> In id (j_retryq j))) /\
    (forall id, In id (j_retryq j) -> In id (retryq t)) /\
    (forall id, In id (retryq t) -> In id (j_retryq j) \/ In id (map snd (j_ongoing j))).
Proof. exact @recover_spec. Qed.

Theorem C08_boundary : forall (A V Sc : Type) (hook_reload : A -> A) (s : @ostate A V Sc),
  Inv s -> recover hook_reload (image s) = Some (fst (do_reload hook_reload s)).
Proof. exact @recover_image. Qed.

Theorem C08_end_images : forall (A V Sc : Type) (s s' : @ostate A V Sc) id (d' : dtrial V Sc) k,
  fold_left apply_write (firstn k [WTrial id d'; WOracle (to_json (with_ongoing s' (ongoing s))); WOracle (to_json s'); WTuner]) (image s)
  = match k with
    | 0 => image s
    | 1 => {| ds_trials := set_nth id d' (disk s); ds_oracle := Some (to_json s); ds_tuner := true |}
    | 2 => {| ds_trials := set_nth id d' (disk s); ds_oracle := Some (to_json (with_ongoing s' (ongoing s))); ds_tuner := true |}
    | _ => {| ds_trials := set_nth id d' (disk s); ds_oracle := Some (to_json s'); ds_tuner := true |}
    end.
Proof. exact @end_images. Qed.

Theorem C08_end_window : forall (A V Sc : Type) (hook_reload : A -> A) (s : @ostate A V Sc) tu id (d' : dtrial V Sc),
  Inv s -> In (tu, id) (ongoing s) ->
  exists t : @ostate A V Sc,
    recover hook_reload {| ds_trials := set_nth id d' (disk s); ds_oracle := Some (to_json s); ds_tuner := true |} = Some t /\
    ongoing t = [] /\
    (exists tr, nth_error (trials t) id = Some tr /\ t_status tr = d_status d' /\ t_score tr = d_score d' /\ t_data tr = d_data d') /\
    (dfinal d' = true -> ~ In id (retryq t)) /\
    (dfinal d' = false -> In id (retryq t)) /\
    length (trials t) = length (trials s).
Proof. exact @end_crash_after_trial_file. Qed.

Print Assumptions C08_any_crash_point.
Print Assumptions C08_resumed_search_terminates.
Print Assumptions C08_budget.
Print Assumptions C08_first_crash.
Print Assumptions C08_dirok_recovers.
Print Assumptions C08_restart_spec.
Print Assumptions C08_boundary.
Print Assumptions C08_end_images.
Print Assumptions C08_end_window.
