(* C10 - Hyperband follows the successive-halving schedule and promotes only winners. Statements only.
   Model HB.v (HyperbandOracle.populate_space on the lifecycle core; `archive` is a ghost field remembering the brackets that
   _remove_completed_brackets drops; the round sizes are a table with sizes b 0 >= 1). *)
From Coq Require Import List ZArith Bool.
Import ListNotations.
From KT Require Import Lifecycle LInv HB HBInv HBRun HBSched HBCorr.

(* (H1) every issued trial carries the bracket it is placed in, its round, epochs = ceil(max_epochs / factor^(bracket-round)),
   initial epoch 0 in round 0 and the previous round's epochs otherwise, and has a parent iff its round is not 0 *)
Theorem C10_schedule : forall (V : Type) (h : hcfg) (mk : hinfo -> V) (vdef : V) (s : hstate) (ts : list (trial V Z)) og id s' v,
  hpopulate h mk vdef s ts og id = (s', RUNNING, v) ->
  exists i, v = mk i /\ i_label i = i_bracket i /\
    i_epochs i = epochs h (i_bracket i) (i_round i) /\
    i_initial i = match i_round i with O => 0%Z | S r' => epochs h (i_bracket i) r' end /\
    (i_round i = 0 <-> i_parent i = None) /\
    exists br l, In br (brackets s') /\ bnum br = i_bracket i /\ nth_error (rounds br) (i_round i) = Some l /\ In id (ids l).
Proof. exact @hpopulate_schedule. Qed.

(* (H2)+(H3) in EVERY reachable state - any number of tuners, finishing orders, ties, failures, retries, reloads - every
   bracket, live or archived, satisfies BOK (HBInv.v): no round holds more trials than scheduled; ids and parents within a
   round are distinct; every promoted entry continues a COMPLETED trial of the previous round of the same bracket *)
Theorem C10_invariant : forall (V : Type) (h : hcfg), (forall b : nat, 1 <= sizes h b 0) ->
  forall (vdef : V) (mk : hinfo -> V) (score_fn : V -> scored Z) (reissue : V -> V) (c : cfg) (ops : list op),
  abort_early c = false ->
  Forall (fun rs : resp * ostate => HI h (snd rs))
         (run vdef score_fn (hpopulate h mk vdef) hk hk (fun a : hstate => a) reissue c (init (hinit h)) ops).
Proof. exact @C10_run. Qed.

(* ... and from BOK: fewer trials of the previous round score strictly better than the promoted trial's parent than the
   next round has places (at promotion time and in every later state, since BOK is an invariant of reachable states) *)
Theorem C10_promoted_is_winner : forall (V : Type) (h : hcfg) (ts : list (trial V Z)) (br : bracket) (r : nat) (prev cur : list entry) (e : entry) (q : nat),
  BOK h ts br -> nth_error (rounds br) r = Some prev -> nth_error (rounds br) (S r) = Some cur -> In e cur -> e_past e = Some q ->
  length (filter (beats h ts q) (ids prev)) < sizes h (bnum br) (S r).
Proof. exact @promoted_is_winner. Qed.

Example C10_example :
  let h := {| max_epochs := 4; factor := 2; iterations := Some 1%nat; nbrackets := 3; sizes := tbl [[3]; [4; 2]; [4; 2; 1]]%nat; maximize := false |} in
  let c := {| max_trials := None; max_retries := 0; max_consec := 9; abort_early := false |} in
  let ops := [Create 0; Create 1; Create 2; Create 3; End 0 ECompleted (hrep (Some 3%Z)); End 1 ECompleted (hrep (Some 1%Z));
              End 2 ECompleted (hrep (Some 2%Z)); Create 0]%nat in
  match last (hrun c h ops) (RNone, init (hinit h)) with
  | (RTrial id st p, _) => (id, st, info_list p) = (4%nat, RUNNING, [2; 1; 2; 1; 1]%Z)
  | _ => False
  end.
Proof. vm_compute. reflexivity. Qed.

Print Assumptions C10_schedule.
Print Assumptions C10_invariant.
Print Assumptions C10_promoted_is_winner.
