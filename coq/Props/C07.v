(* C07 - saving and reloading an oracle preserves the search and its continuation. Statements only. *)
From Coq Require Import List ZArith Bool.
Import ListNotations.
From KT Require Import Lifecycle LInv LReload.

(* start/end order, retry bookkeeping and trial files are untouched; running trials are queued to be run again *)
Theorem C07_reload_shape : forall (A V Sc : Type) (hook_reload : A -> A) (s : @ostate A V Sc), Inv s ->
  let s' := fst (do_reload hook_reload s) in
  ongoing s' = [] /\ retryq s' = retryq s ++ map snd (ongoing s) /\ start_order s' = start_order s /\
  end_order s' = end_order s /\ disk s' = disk s /\ algo s' = hook_reload (algo s) /\
  length (trials s') = length (trials s).
Proof. exact @reload_shape. Qed.

(* every ended trial is restored exactly: status, score, run counter, values, metrics *)
Theorem C07_ended_preserved : forall (A V Sc : Type) (hook_reload : A -> A) (s : @ostate A V Sc) id,
  Inv s -> In id (end_order s) ->
  nth_error (trials (fst (do_reload hook_reload s))) id = nth_error (trials s) id.
Proof. exact @reload_ended_preserved. Qed.

(* every unfinished trial is restored from its trial file, keeps its run counter and is queued *)
Theorem C07_waiting_requeued : forall (A V Sc : Type) (hook_reload : A -> A) (s : @ostate A V Sc) id,
  Inv s -> In id (onids s) \/ In id (retryq s) ->
  exists t d, nth_error (trials s) id = Some t /\ nth_error (disk s) id = Some d /\
    nth_error (trials (fst (do_reload hook_reload s))) id =
      Some {| t_status := d_status d; t_score := d_score d; t_runs := t_runs t; t_data := d_data d |} /\
    waiting (d_status d) /\ In id (retryq (fst (do_reload hook_reload s))).
Proof. exact @reload_waiting. Qed.

(* continuation: if the algorithm's own state survives get_state/set_state (checked against the real random, grid and
   Hyperband oracles by the correspondence) and the trial files are current, the reloaded oracle IS the uninterrupted
   oracle with its running trials re-queued - hence issues exactly the same trials from there on *)
Theorem C07_reload_is_requeue : forall (A V Sc : Type) (hook_reload : A -> A) (s : @ostate A V Sc),
  hook_reload (algo s) = algo s -> from_disk (trials s) (disk s) = trials s ->
  fst (do_reload hook_reload s) = requeue s.
Proof. exact @reload_is_requeue. Qed.

Print Assumptions C07_reload_shape.
Print Assumptions C07_ended_preserved.
Print Assumptions C07_waiting_requeued.
Print Assumptions C07_reload_is_requeue.
