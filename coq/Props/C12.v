(* C12 - same seed, same history, same trials. Statements only.
   In the model every oracle operation is a function (determinism is definitional); the content of this property is WHICH
   inputs it is a function of. After the repair of ensure_active_values the fill-in value is the entry's default:
   C12_fill_in_independent_of_draws states that ensure_active_values instantiated this way does not depend on any stream of
   unseeded draws, and C12_discovery_deterministic that _populate_initial_space is the same function for every stream. The
   implementation side (no dependence on hash order, global generators, wall clock) is the differential replay of the check. *)
From stdpp Require Import gmap list.
From Coq Require Import ZArith.
From KT Require Import Space Discover.

Definition dflt : nat → hp → value := λ _ h, h_default h.

Theorem C12_fill_in_independent_of_draws : ∀ all sp v k1 k2, (ensure_go dflt all sp v k1).1 = (ensure_go dflt all sp v k2).1.
Proof.
  intros all sp. induction sp as [|h r IH]; intros v k1 k2; [done|]. cbn.
  destruct (conds_active v (h_conds h)); [destruct (v !! h_name h)|destruct (name_active all v (h_name h))]; apply IH.
Qed.
Theorem C12_discovery_deterministic : ∀ build allow tune fuel osp,
  populate_initial dflt build allow tune fuel osp = populate_initial (λ k h, dflt (k + 1) h) build allow tune fuel osp.
Proof. reflexivity. Qed.
Print Assumptions C12_fill_in_independent_of_draws.
Print Assumptions C12_discovery_deterministic.
