(* C03 - retry and failure policy: INVALID retried, FAILED final, abort on streak. Statements only. *)
From Coq Require Import List ZArith QArith Bool.
Import ListNotations.
From KT Require Import Lifecycle LInv LProps LFinal LifeCorr Metrics.

(* (a)+(b)+(c) what end_trial decides: run counter +1; (effectively) INVALID => queued for retry while it has been run at
   most max_retries times, FAILED afterwards; COMPLETED carries the score of the payload the tuner sent; whatever is not
   queued is appended to the finishing order; the trial is no longer handed out *)
Theorem C03_end_outcome :
  forall (A V Sc : Type) (score_fn : V -> scored Sc) (hook_end hook_end_abort : A -> tid -> V -> A)
         (c : cfg) (s : @ostate A V Sc) (id : tid) (es : endst) (f : V -> V) (t0 : trial V Sc),
  abort_early c = false -> Inv s ->
  In id (map snd (ongoing s)) -> nth_error (trials s) id = Some t0 ->
  exists t', nth_error (trials (fst (do_end score_fn hook_end hook_end_abort c s id es f))) id = Some t' /\
   t_runs t' = S (t_runs t0) /\ t_data t' = f (t_data t0) /\
   t_status t' = final_status c (t_runs t0) (effective score_fn es (f (t_data t0))) /\
   (t_status t' = INVALID ->
      retryq (fst (do_end score_fn hook_end hook_end_abort c s id es f)) = retryq s ++ [id] /\
      end_order (fst (do_end score_fn hook_end hook_end_abort c s id es f)) = end_order s) /\
   (t_status t' <> INVALID ->
      retryq (fst (do_end score_fn hook_end hook_end_abort c s id es f)) = retryq s /\
      end_order (fst (do_end score_fn hook_end hook_end_abort c s id es f)) = end_order s ++ [id]) /\
   (effective score_fn es (f (t_data t0)) = COMPLETED -> exists x, score_fn (f (t_data t0)) = SVal x /\ t_score t' = Some (SVal x)) /\
   ~ In id (map snd (ongoing (fst (do_end score_fn hook_end hook_end_abort c s id es f)))).
Proof. exact @LFinal.end_outcome. Qed.

(* (a) queued trials are served first, with their stored id and (re-issued) payload, and no new trial is created *)
Theorem C03_retry_first :
  forall (A V Sc : Type) (vdef : V) (populate : A -> list (trial V Sc) -> bool -> tid -> A * status * V) (reissue : V -> V)
         (c : cfg) (s : @ostate A V Sc) (tu : tuner) (id : tid) (rq' : list tid),
  alookup tu (ongoing s) = None -> rev (retryq s) = id :: rq' ->
  exists s' v, do_create vdef populate reissue c s tu = (s', RTrial id RUNNING v) /\
     length (trials s') = length (trials s) /\ retryq s' = rev rq' /\ In (tu, id) (ongoing s') /\
     (forall t, nth_error (trials s) id = Some t -> v = reissue (t_data t)).
Proof. exact @LProps.C03_retry_first. Qed.
(* ... and re-issuing keeps the hyperparameter values and starts from fresh metrics, so that the score of the retry is
   the score of that run alone *)
Theorem C03_reissue_same_values : forall p, p_vals (fresh p) = p_vals p /\ p_obs (fresh p) = [].
Proof. intros p. split; reflexivity. Qed.

(* (b) COMPLETED and FAILED are absorbing: same status and score in every later state, under every operation *)
Theorem C03_final_absorbing :
  forall (A V Sc : Type) (vdef : V) (score_fn : V -> scored Sc)
         (populate : A -> list (trial V Sc) -> bool -> tid -> A * status * V)
         (hook_end hook_end_abort : A -> tid -> V -> A) (hook_reload : A -> A) (reissue : V -> V)
         (c : cfg) (ops : list (@op V)),
  abort_early c = false -> forall s : @ostate A V Sc, Inv s ->
  Forall (fun rs => fle (trials s) (trials (snd rs)))
         (run vdef score_fn populate hook_end hook_end_abort hook_reload reissue c s ops).
Proof. exact @LFinal.run_fle. Qed.

(* (d) the abort error is raised exactly when K consecutive FAILED trials appear in finishing order *)
Theorem C03_abort_iff :
  forall (A V Sc : Type) (score_fn : V -> scored Sc) (hook_end hook_end_abort : A -> tid -> V -> A)
         (c : cfg) (s : @ostate A V Sc) (id : tid) (es : endst) (f : V -> V) (t0 : trial V Sc),
  In id (map snd (ongoing s)) -> nth_error (trials s) id = Some t0 ->
  (snd (do_end score_fn hook_end hook_end_abort c s id es f) = RAbort <->
   final_status c (t_runs t0) (effective score_fn es (f (t_data t0))) <> INVALID /\
   streak (max_consec c) (trials (fst (do_end score_fn hook_end hook_end_abort c s id es f))) (end_order s ++ [id]) 0 = true).
Proof. exact @LFinal.end_abort_iff. Qed.
Theorem C03_streak_spec : forall (V Sc : Type) (vdef : V) (k : nat) (ts : list (trial V Sc)) (order : list tid) (cnt : nat),
  streak k ts order cnt = true <-> has_streak k ts order cnt.
Proof. exact (fun V Sc vdef => @LProps.streak_spec V Sc vdef (fun _ => SNaN) (fun v => v)). Qed.

(* non-vacuity: R = 1: NaN run, good retry -> COMPLETED with the retry's score (7, not the mean with NaN);
   second trial INVALID twice -> FAILED; K = 1 -> abort *)
Example C03_example :
  let c := {| max_trials := None; max_retries := 1; max_consec := 1; abort_early := false |} in
  let ops := [Create 0; Update 0 (rep FNaN 0); End 0 ECompleted keep; Create 0; Update 0 (rep (FFin (7 # 1)) 0); End 0 ECompleted keep;
              Create 0; End 1 EInvalid keep; Create 0; End 1 EInvalid keep]%nat in
  match last (lrun false true c [(RUNNING, 11); (RUNNING, 12)]%Z ops) (RNone, init []) with
  | (r, s) => r = RAbort /\ map (fun t => (t_status t, t_score t)) (trials s) = [(COMPLETED, Some (SVal (FFin (7 # 1)))); (FAILED, None)]
              /\ ongoing s = []
  end.
Proof. vm_compute. repeat split. Qed.

Print Assumptions C03_end_outcome.
Print Assumptions C03_retry_first.
Print Assumptions C03_final_absorbing.
Print Assumptions C03_abort_iff.
Print Assumptions C03_streak_spec.
