(* C15 - config / JSON round trips are lossless. Statements only.
   Proved on the models: MetricHistory (get_config lists observations in step order; from_config feeds them back): every step
   keeps exactly its executions, the history comes back in step order, and a second round trip changes nothing; a search space
   copy (HyperParameters.copy = from_config o get_config) has the same entries in the same order and the same values; a trial
   file holds everything but the run counter; an oracle's state survives save + reload (C07). The insertion order of
   observations is deliberately NOT promised (it can change which of two tied steps get_best_step names).
   PARTIAL: the per-kind hyperparameter configs (type, bounds, step, sampling, default, conditions, `ordered`), Trial fields
   (status, message, score, best step), MetricsTracker directions and json.dumps/loads themselves are checked on the
   implementation through real JSON text, not modelled. *)
From Coq Require Import List ZArith QArith Bool.
Import ListNotations.
From KT Require Import Metrics MetricsProofs MetricsCodec Lifecycle LInv LReload CodecProofs.
Local Close Scope Q_scope.

Theorem C15_metric_history_roundtrip : forall o, NoDup (map fst o) ->
  mh_from_config (mh_config o) = history o /\
  (forall s, olookup s (mh_from_config (mh_config o)) = olookup s o) /\
  mh_config (mh_from_config (mh_config o)) = mh_config o.
Proof. exact metric_history_roundtrip. Qed.
Theorem C15_reports_keep_steps_distinct : forall o v s, NoDup (map fst o) -> NoDup (map fst (update o v s)).
Proof. exact update_keeps_nodup. Qed.
Theorem C15_trial_file_roundtrip : forall (V Sc : Type) (ts : list (trial V Sc)), from_disk ts (map (@to_disk V Sc) ts) = ts.
Proof. exact @trial_file_roundtrip. Qed.
Theorem C15_oracle_state_roundtrip : forall (A V Sc : Type) (hook_reload : A -> A) (s : @ostate A V Sc),
  hook_reload (algo s) = algo s -> from_disk (trials s) (disk s) = trials s -> fst (do_reload hook_reload s) = requeue s.
Proof. exact @reload_is_requeue. Qed.

Print Assumptions C15_metric_history_roundtrip.
Print Assumptions C15_trial_file_roundtrip.
Print Assumptions C15_oracle_state_roundtrip.
