(* C19 - the search loop ends each started trial once, maps errors, and resumes. Statements only. *)
From Coq Require Import List ZArith QArith Bool.
Local Close Scope Q_scope.
Import ListNotations.
From KT Require Import Lifecycle LInv LProps Tuner TunerTerm TunerCorr LifeCorr Metrics.

(* the event log of BaseTuner.search satisfies check_log (Tuner.v): each RUNNING response is followed by run_trial and by
   exactly one end_trial of that trial - COMPLETED if the run returned, INVALID for an ordinary exception, FAILED for
   FailedTrialError - unless the run was fatal or interrupted (then nothing more happens, no end_trial); run_trial only for
   RUNNING responses; IDLE -> ask again; STOPPED -> leave; for every oracle (populate), script, configuration *)
Theorem C19_search_log :
  forall (A V Sc : Type) (vdef : V) (score_fn : V -> scored Sc)
         (populate : A -> list (trial V Sc) -> bool -> tid -> A * status * V)
         (hook_end hook_end_abort : A -> tid -> V -> A) (reissue : V -> V)
         fuel c (s : @ostate A V Sc) script,
  check_log (snd (fst (fst (search vdef score_fn populate hook_end hook_end_abort reissue fuel c s script)))) script
            (snd (fst (search vdef score_fn populate hook_end hook_end_abort reissue fuel c s script))) = true.
Proof. exact @search_log_wf. Qed.

(* resume: after an interruption the reloaded oracle hands the interrupted trial out first, same id, payload from its
   trial file (same values, fresh metrics), no budget consumed *)
Theorem C19_resume :
  forall (A V Sc : Type) (vdef : V) (populate : A -> list (trial V Sc) -> bool -> tid -> A * status * V)
         (hook_reload : A -> A) (reissue : V -> V) c (s : @ostate A V Sc) id,
  ongoing s = [(me, id)] ->
  exists s'' v,
    do_create vdef populate reissue c (fst (do_reload hook_reload s)) me = (s'', RTrial id RUNNING v) /\
    length (trials s'') = length (trials (fst (do_reload hook_reload s))) /\
    (forall t, nth_error (trials (fst (do_reload hook_reload s))) id = Some t -> v = reissue (t_data t)) /\
    In (me, id) (ongoing s'').
Proof. exact @resume_reissues_interrupted. Qed.

(* the loop terminates: at most (max_retries+1) * max_trials trial runs *)
Theorem C19_search_terminates :
  forall (A V Sc : Type) (vdef : V) (score_fn : V -> scored Sc)
         (populate : A -> list (trial V Sc) -> bool -> tid -> A * status * V)
         (hook_end hook_end_abort : A -> tid -> V -> A) (reissue : V -> V),
  (forall a ts id, snd (fst (populate a ts false id)) = RUNNING \/ snd (fst (populate a ts false id)) = STOPPED) ->
  forall c n fuel (s : @ostate A V Sc) script,
  abort_early c = false -> max_trials c = Some n -> Head c n s ->
  n * S (max_retries c) - truns (trials s) < fuel ->
  snd (fst (search vdef score_fn populate hook_end hook_end_abort reissue fuel c s script)) <> OutOfFuel.
Proof. exact (fun A V Sc vdef score_fn populate hook_end hook_end_abort reissue => @search_terminates A V Sc vdef score_fn populate hook_end hook_end_abort (fun a => a) reissue). Qed.

Example C19_example :
  let c := {| max_trials := Some 3%nat; max_retries := 1; max_consec := 9; abort_early := false |} in
  let ss := [(SFirst, [AReturn (rep (FFin (1 # 1)%Q) 0); ARaise; AInterrupt]); (SResume, [AReturn (rep (FFin (2 # 1)%Q) 0); ARaiseFailed; AFatal])] in
  map (fun x => snd (fst x)) (sessions false c (init [(RUNNING, 11); (RUNNING, 12); (RUNNING, 13)]%Z) ss) = [Interrupted; Done].
Proof. vm_compute. reflexivity. Qed.

Print Assumptions C19_search_log.
Print Assumptions C19_resume.
Print Assumptions C19_search_terminates.
