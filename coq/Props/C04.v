(* C04 - best trials are the best COMPLETED trials in order; direction is symmetric. Statements only. *)
From Coq Require Import List ZArith QArith Bool Sorting.Sorted Sorting.Permutation.
Import ListNotations.
From KT Require Import Metrics MetricsProofs Lifecycle Best HB HBSym LSym HBRun HBSymRun BayesSym BayesEx.
Local Close Scope Q_scope.

(* get_best_trials(n) returns min(n, #trials) trials *)
Theorem C04_length : forall (T : Type) (completed : T -> bool) (score : T -> fv) mx n ts,
  length (best_trials completed score mx n ts) = Nat.min n (length ts).
Proof. exact @best_length. Qed.

(* no running / invalid / failed trial is ever placed ahead of a completed one *)
Theorem C04_completed_first : forall (T : Type) (completed : T -> bool) (score : T -> fv) mx n ts i j x y,
  i < j -> nth_error (best_trials completed score mx n ts) i = Some x -> nth_error (best_trials completed score mx n ts) j = Some y ->
  completed y = true -> completed x = true.
Proof. exact @best_completed_first. Qed.

(* the completed trials come in the objective's direction: a later one is never strictly better than an earlier one
   (completed trials have non-NaN scores: C01) *)
Theorem C04_sorted : forall (T : Type) (completed : T -> bool) (score : T -> fv) mx n ts i j x y,
  Forall (ok score) (filter completed ts) ->
  i < j -> nth_error (best_trials completed score mx n ts) i = Some x -> nth_error (best_trials completed score mx n ts) j = Some y ->
  completed x = true -> completed y = true -> ord score mx x y.
Proof. exact @best_sorted. Qed.

(* they are the n best: a completed trial that is left out is not strictly better than any returned completed trial *)
Theorem C04_left_out : forall (T : Type) (completed : T -> bool) (score : T -> fv) mx n ts t x,
  Forall (ok score) (filter completed ts) ->
  In t ts -> completed t = true -> ~ In t (best_trials completed score mx n ts) ->
  In x (best_trials completed score mx n ts) -> completed x = true -> before score mx t x = false.
Proof. exact @best_left_out. Qed.

(* direction symmetry of the ranking, ties included: maximising s ranks exactly like minimising -s *)
Theorem C04_ranking_symmetric : forall (T : Type) (completed : T -> bool) (score : T -> fv) n ts,
  best_trials completed score true n ts = best_trials completed (fun t => fneg (score t)) false n ts.
Proof. exact @best_symmetric. Qed.

(* direction symmetry of Hyperband's promotion: with the direction flipped and every score negated, populate_space
   does the same bracket bookkeeping and issues the same trial (random and grid search never read scores; the Bayesian
   oracle multiplies y by -1 exactly when maximising: checked on the implementation by the two-run monitor) *)
Theorem C04_hyperband_symmetric : forall (V : Type) h (mk : hinfo -> V) vdef s ts og id,
  hpopulate (flip h) mk vdef s (neg_ts ts) og id = hpopulate h mk vdef s ts og id.
Proof. exact @hpopulate_sym. Qed.

Example C04_example :
  let ts := [(true, FFin 3); (false, FFin 0); (true, FFin 1); (true, FFin 3); (true, FPInf)] in
  map snd (best_trials fst snd false 3 ts) = [FFin 1; FFin 3; FFin 3] /\
  map snd (best_trials fst snd true 9 ts) = [FPInf; FFin 3; FFin 3; FFin 1; FFin 0].
Proof. vm_compute. split; reflexivity. Qed.

(* direction symmetry of a WHOLE search, generic core: two oracles whose score functions differ by the sign of the objective and
   whose populate_space functions cannot tell the two apart answer every request of any history identically *)
Theorem C04_search_symmetric : forall (A V Sc : Type) (vdef : V) (neg : Sc -> Sc) (score1 score2 : V -> scored Sc),
  (forall v, score2 v = sneg neg (score1 v)) ->
  forall (pop1 pop2 : A -> list (trial V Sc) -> bool -> tid -> A * status * V),
  (forall a ts b id, pop2 a (map (ntr neg) ts) b id = pop1 a ts b id) ->
  forall (hook_end hook_end_abort : A -> tid -> V -> A) (hook_reload : A -> A) (reissue : V -> V) (c : cfg) (a : A) (ops : list (@op V)),
  map fst (run vdef score2 pop2 hook_end hook_end_abort hook_reload reissue c (init a) ops)
  = map fst (run vdef score1 pop1 hook_end hook_end_abort hook_reload reissue c (init a) ops).
Proof. exact @search_sym. Qed.

(* ... instantiated: the Hyperband oracle maximising s and the one minimising -s issue the same trials for every history
   (random and grid search have no scores in their models at all: Sc = unit) *)
Theorem C04_hyperband_search_symmetric : forall (V : Type) (h : hcfg) (vdef : V) (mk : hinfo -> V) (score_fn : V -> scored Z)
  (reissue : V -> V) (c : cfg) (a : hstate) (ops : list (@op V)),
  map fst (run vdef (fun v => sneg Z.opp (score_fn v)) (hpopulate (flip h) mk vdef) hk hk (fun a => a) reissue c (init a) ops)
  = map fst (run vdef score_fn (hpopulate h mk vdef) hk hk (fun a => a) reissue c (init a) ops).
Proof. exact @hyperband_search_sym. Qed.

(* ... and the Bayesian oracle. Its numerical machinery - value_to_prob, GaussianProcessRegressor.fit / predict, the seeded
   L-BFGS-B restarts - enters as uninterpreted FUNCTIONS of their inputs (vecof, fit, pess, optimize); what is modelled is the
   glue of populate_space / _vectorize_trials (BayesSym.v: which trials enter the training set, in which order, with which
   sign; when the warm-up ends), compared with the real method on every run. The minimising oracle looking at negated scores
   hands the Gaussian process exactly the training set the maximising oracle hands it ... *)
Theorem C04_bayes_populate_symmetric : forall (V Sc R GP RS Vec : Type) (neg : Sc -> Sc) (vecof : R -> V -> Vec) (veclen : Vec -> nat)
  (nfeat : GP -> option nat) (pess : GP -> Vec -> scored Sc) (fit : list (Vec * scored Sc) -> GP) (optimize : GP -> RS -> Vec * RS)
  (v2v : R -> Vec -> V) (nip : R -> nat) (rpop : R -> tid -> R * status * V) (a : bstate) (ts : list (trial V Sc)) (b : bool) (id : tid),
  bpopulate neg vecof veclen nfeat pess fit optimize v2v nip rpop false a (List.map (ntr neg) ts) b id =
  bpopulate neg vecof veclen nfeat pess fit optimize v2v nip rpop true a ts b id.
Proof. exact @bpopulate_sym. Qed.
(* ... hence the two searches answer every request of every history identically (any number of tuners, ongoing trials being
   estimated by the model fitted last, retries, reloads) *)
Theorem C04_bayes_search_symmetric : forall (V Sc R GP RS Vec : Type) (neg : Sc -> Sc) (vdef : V) (vecof : R -> V -> Vec) (veclen : Vec -> nat)
  (nfeat : GP -> option nat) (pess : GP -> Vec -> scored Sc) (fit : list (Vec * scored Sc) -> GP) (optimize : GP -> RS -> Vec * RS)
  (v2v : R -> Vec -> V) (nip : R -> nat) (rpop : R -> tid -> R * status * V) (score_fn : V -> scored Sc)
  (hook_end hook_end_abort : bstate -> tid -> V -> bstate) (hook_reload : bstate -> bstate) (reissue : V -> V) (c : cfg) (a : bstate) (ops : list op),
  List.map fst (run vdef (fun v : V => sneg neg (score_fn v)) (bpopulate neg vecof veclen nfeat pess fit optimize v2v nip rpop false)
                    hook_end hook_end_abort hook_reload reissue c (init a) ops) =
  List.map fst (run vdef score_fn (bpopulate neg vecof veclen nfeat pess fit optimize v2v nip rpop true)
                    hook_end hook_end_abort hook_reload reissue c (init a) ops).
Proof. exact @bayes_search_sym. Qed.

(* a concrete run of the Bayesian model in which the Gaussian-process branch is reached with an ongoing trial being estimated *)
Example C04_bayes_example :
  ex_run true (fun v => SVal (Z.of_nat v)) = ex_run false (fun v => SVal (- Z.of_nat v)%Z) /\
  ex_run true (fun v => SVal (Z.of_nat v)) =
    [RTrial 0 RUNNING 10; RNone; RNone; RTrial 1 RUNNING 1; RTrial 2 RUNNING 3; RNone; RTrial 3 RUNNING 5].
Proof. exact bayes_example. Qed.

Print Assumptions C04_length.
Print Assumptions C04_completed_first.
Print Assumptions C04_sorted.
Print Assumptions C04_left_out.
Print Assumptions C04_ranking_symmetric.
Print Assumptions C04_hyperband_symmetric.
Print Assumptions C04_search_symmetric.
Print Assumptions C04_hyperband_search_symmetric.
Print Assumptions C04_bayes_populate_symmetric.
Print Assumptions C04_bayes_search_symmetric.
