(* C01 - trial lifecycle is a well-formed state machine under any interleaving.
   Statements only; proofs are `exact <lemma>` from LInv.v / LProps.v. *)
From Coq Require Import List ZArith QArith Bool.
Import ListNotations.
From KT Require Import Metrics Lifecycle LInv LProps LStrong LifeCorr.

(* Every state reachable by any sequence of create / update / end / save+reload operations, for ANY populate_space,
   scoring function, subclass hooks and payload type, satisfies the invariant Inv (LInv.v):
   ids are 0..n-1 in start order; ongoing is injective in tuner and in trial and maps to RUNNING trials;
   ongoing, retry queue and end_order are pairwise disjoint and duplicate-free; every trial is handed out, queued, or has
   ended (status COMPLETED/FAILED); end_order holds only ended trials; a COMPLETED trial has a non-NaN score; trial files
   agree with memory for ended trials. Inv also holds of every state a restart rebuilds after a crash at any point
   (C08). That end_order lists EVERY ended trial - so that every trial is in exactly one of the three - is
   C01_listed / C01_exactly_one below. *)
Theorem C01_lifecycle :
  forall (A V Sc : Type) (vdef : V) (score_fn : V -> scored Sc)
         (populate : A -> list (trial V Sc) -> bool -> tid -> A * status * V)
         (hook_end hook_end_abort : A -> tid -> V -> A) (hook_reload : A -> A) (reissue : V -> V)
         (c : cfg) (a : A) (ops : list (@op V)),
  abort_early c = false ->
  Forall (fun rs => Inv (snd rs)) (run vdef score_fn populate hook_end hook_end_abort hook_reload reissue c (init a) ops).
Proof. exact @LInv.C01_lifecycle. Qed.

Theorem C01_listed :
  forall (A V Sc : Type) (vdef : V) (score_fn : V -> scored Sc)
         (populate : A -> list (trial V Sc) -> bool -> tid -> A * status * V)
         (hook_end hook_end_abort : A -> tid -> V -> A) (hook_reload : A -> A) (reissue : V -> V)
         (c : cfg) (a : A) (ops : list (@op V)),
  abort_early c = false ->
  Forall (fun rs => Listed (snd rs)) (run vdef score_fn populate hook_end hook_end_abort hook_reload reissue c (init a) ops).
Proof. exact @LStrong.listed_run. Qed.

Theorem C01_exactly_one :
  forall (A V Sc : Type) (s : @ostate A V Sc) (id : nat),
  Inv s -> Listed s -> (id < length (trials s))%nat -> In id (onids s) \/ In id (retryq s) \/ In id (end_order s).
Proof. exact @LStrong.cover3. Qed.

(* a tuner that asks again before finishing gets the same trial back and nothing changes *)
Theorem C01_same_trial :
  forall (A V Sc : Type) (vdef : V) (populate : A -> list (trial V Sc) -> bool -> tid -> A * status * V) (reissue : V -> V)
         (c : cfg) (s : @ostate A V Sc) (tu : tuner) (id : tid),
  alookup tu (ongoing s) = Some id ->
  exists st v, do_create vdef populate reissue c s tu = (s, RTrial id st v).
Proof. exact @LProps.C01_same_trial. Qed.

(* a trial that ended COMPLETED or FAILED is never handed out again *)
Theorem C01_never_reissue_final :
  forall (A V Sc : Type) (vdef : V) (populate : A -> list (trial V Sc) -> bool -> tid -> A * status * V) (reissue : V -> V)
         (c : cfg) (s : @ostate A V Sc) (tu : tuner) (s' : @ostate A V Sc) (id : tid) (v : V),
  Inv s -> do_create vdef populate reissue c s tu = (s', RTrial id RUNNING v) -> ~ In id (end_order s).
Proof. exact @LProps.C01_never_reissue_final. Qed.

(* ... listed in end_order or not (the states rebuilt after a crash) *)
Theorem C01_never_reissue_ended :
  forall (A V Sc : Type) (vdef : V) (populate : A -> list (trial V Sc) -> bool -> tid -> A * status * V) (reissue : V -> V)
         (c : cfg) (s s' : @ostate A V Sc) (tu : tuner) (id : tid) (v : V),
  Inv s -> do_create vdef populate reissue c s tu = (s', RTrial id RUNNING v) -> ~ finalat s id.
Proof. exact @LStrong.never_reissue_ended. Qed.

(* non-vacuity: three tuners, a NaN objective, a retry, a FAILED trial and a reload *)
Example C01_example :
  let c := {| max_trials := Some 3%nat; max_retries := 1; max_consec := 9; abort_early := false |} in
  let ops := [Create 0; Create 1; Create 2; Update 0 (rep FNaN 0); End 0 ECompleted keep; End 1 EFailed keep;
              Create 0; Update 0 (rep (FFin 5) 0); Reload; Create 1; Update 0 (rep (FFin 7) 0); End 0 ECompleted keep]%nat in
  match last (lrun false true c [(RUNNING, 11); (RUNNING, 12); (RUNNING, 13)]%Z ops) (RNone, init []) with
  | (_, s) => map (fun t => t_status t) (trials s) = [COMPLETED; FAILED; RUNNING] /\ end_order s = [1; 0]%nat /\ retryq s = [2]%nat
  end.
Proof. vm_compute. repeat split. Qed.

Print Assumptions C01_lifecycle.
Print Assumptions C01_listed.
Print Assumptions C01_exactly_one.
Print Assumptions C01_never_reissue_ended.
Print Assumptions C01_same_trial.
Print Assumptions C01_never_reissue_final.
