(* C17 - oracle operations are mutually exclusive, linearizable and never wedge. Statements only.
   Gen_sync.wrapper / Gen_sync.decorated are regenerated from /repo's oracle.py, gridsearch.py and oracle_chief.py by the
   fail-closed AST translator on every run; the obligations C17_source_shape / C17_all_decorated are what ties the semantics of
   Sync.v (threads as natural numbers, one oracle, nested calls, bodies that may return or raise at any point) to the source.
   Different oracles have different locks and owner entries (separate instances of this transition system), so they cannot
   block each other. *)
From Coq Require Import List String Bool.
Import ListNotations.
From KT Require Import SyncIR Sync.
From KT.gen Require Import Gen_sync.

Theorem C17_source_shape : well_structured Gen_sync.wrapper = true.
Proof. vm_compute. reflexivity. Qed.
Theorem C17_all_decorated : all_decorated Gen_sync.decorated = true.
Proof. vm_compute. reflexivity. Qed.

(* (M) bodies of synchronized calls of different threads never overlap: whoever is inside a body holds the lock *)
Theorem C17_mutual_exclusion : forall c t u, reach c -> in_body c t -> in_body c u -> t = u.
Proof. exact mutual_exclusion. Qed.
(* hence the state equals that of the sequential composition of the calls in lock-acquisition order: only body steps touch
   oracle state and they are totally ordered by C17_mutual_exclusion *)

(* (N) a re-entrant call never waits for the lock its own thread holds *)
Theorem C17_reentrant_never_waits : forall c t f r, reach c -> stk c t = f :: {| fpc := PBody; need := true |} :: r -> fpc f <> PAcq.
Proof. exact reentrant_never_waits. Qed.
(* (X) after a call returned or raised the thread holds nothing *)
Theorem C17_exception_releases : forall c t, reach c -> stk c t = [] -> lock c <> Some t /\ owner c <> Some t.
Proof. exact idle_thread_holds_nothing. Qed.
(* (D) no wedge: whenever a thread waits for the lock, the holder is another thread and it can make a step *)
Theorem C17_no_wedge : forall c t r, reach c -> stk c t = {| fpc := PAcq; need := true |} :: r ->
  forall h, lock c = Some h -> h <> t /\ exists c', step c h c'.
Proof. exact holder_can_step. Qed.

Print Assumptions C17_source_shape.
Print Assumptions C17_mutual_exclusion.
Print Assumptions C17_reentrant_never_waits.
Print Assumptions C17_exception_releases.
Print Assumptions C17_no_wedge.
