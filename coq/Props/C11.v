(* C11 - no livelock, no early stop. Statements only.
   (L1) IDLE only while work is in flight: for every populate_space that says IDLE only when told that trials are ongoing
        - which the Hyperband, grid and random-search models do - create_trial answers IDLE only if ongoing_trials is not empty.
   (L2) bounded number of trial runs: run counters never exceed max_retries+1 (RInv, preserved by every operation incl. reload),
        so at most (max_retries+1) * #trials runs in total; the sequential loop terminates (C11_search_terminates).
   (L3) once the budget is used up and nothing is queued, everybody is told STOPPED and nothing changes (C02_stopped).
   (L4) STOPPED is answered only when the budget is used up or the algorithm itself stops: Hyperband only at bracket 0 of the
        last iteration with no open bracket able to take or promote a trial; random search only when the sampling loop gave up;
        grid only when every combination has been tried (C09_stopped_complete).
   Fair termination with several workers is the conjunction of (L1)-(L3) (an IDLE worker waits for a trial some worker will
   end; at most the bounded number of runs happen) and is exercised on the real oracles by the harness. *)
From stdpp Require Import gmap list.
From Coq Require Import ZArith.
From KT Require Import Lifecycle LInv LProps LIdle AlgoIdle HB G3 GR Space Discover Rand Tuner TunerTerm.
From KT Require BayesSym.

Theorem C11_idle_only_if_busy : ∀ (A V Sc : Type) (vdef : V) (populate : A → list (trial V Sc) → bool → tid → A * status * V) (reissue : V → V)
    c (s : @ostate A V Sc) tu s' id v,
  idle_only_if_busy populate → do_create vdef populate reissue c s tu = (s', RTrial id IDLE v) → ongoing s ≠ [].
Proof. exact @create_idle_busy. Qed.
Theorem C11_hyperband_idle : ∀ (V : Type) (h : hcfg) (mk : hinfo → V) vdef, idle_only_if_busy (hpopulate h mk vdef).
Proof. exact @hpopulate_idle. Qed.
Theorem C11_grid_idle : ∀ sp, idle_only_if_busy (gpopulate sp).
Proof. exact gpopulate_idle. Qed.
Theorem C11_random_idle : ∀ samp draw mc, idle_only_if_busy (rpopulate samp draw mc).
Proof. exact rpopulate_idle. Qed.

(* the Bayesian oracle (glue modelled in BayesSym.v, numerical machinery uninterpreted): never IDLE by itself as long as its
   warm-up sampler (_random_populate_space: RUNNING or STOPPED) is not; its own STOPPED is that sampler giving up during warm-up *)
Theorem C11_bayes_idle : ∀ (V Sc R GP RS Vec : Type) (neg : Sc → Sc) (vecof : R → V → Vec) (veclen : Vec → nat) (nfeat : GP → option nat)
    (pess : GP → Vec → scored Sc) (fit : list (Vec * scored Sc) → GP) (optimize : GP → RS → Vec * RS) (v2v : R → Vec → V) (nip : R → nat)
    (rpop : R → tid → R * status * V) (mx : bool),
  (∀ r id, snd (fst (rpop r id)) ≠ IDLE) →
  idle_only_if_busy (BayesSym.bpopulate neg vecof veclen nfeat pess fit optimize v2v nip rpop mx).
Proof. exact @BayesSym.bpopulate_idle. Qed.
Theorem C11_bayes_stopped : ∀ (V Sc R GP RS Vec : Type) (neg : Sc → Sc) (vecof : R → V → Vec) (veclen : Vec → nat) (nfeat : GP → option nat)
    (pess : GP → Vec → scored Sc) (fit : list (Vec * scored Sc) → GP) (optimize : GP → RS → Vec * RS) (v2v : R → Vec → V) (nip : R → nat)
    (rpop : R → tid → R * status * V) (mx : bool) (a : BayesSym.bstate) (ts : list (trial V Sc)) (busy : bool) (id : tid),
  snd (fst (BayesSym.bpopulate neg vecof veclen nfeat pess fit optimize v2v nip rpop mx a ts busy id)) = STOPPED →
  let '(r, _, _) := a in BayesSym.ncompleted ts < nip r ∧ snd (fst (rpop r id)) = STOPPED.
Proof. exact @BayesSym.bpopulate_stopped. Qed.

Theorem C11_runs_bounded_step : ∀ (A V Sc : Type) (vdef : V) (score_fn : V → scored Sc) (populate : A → list (trial V Sc) → bool → tid → A * status * V)
    (hook_end hook_end_abort : A → tid → V → A) (hook_reload : A → A) (reissue : V → V) c (s : @ostate A V Sc) o,
  abort_early c = false → Inv s → RInv c s → RInv c (fst (step vdef score_fn populate hook_end hook_end_abort hook_reload reissue c s o)).
Proof. exact @rinv_step. Qed.
Theorem C11_runs_bounded : ∀ (A V Sc : Type) c (s : @ostate A V Sc),
  (∀ id t, nth_error (trials s) id = Some t → t_runs t ≤ S (max_retries c)) → total_runs s ≤ length (trials s) * S (max_retries c).
Proof. intros A V Sc. exact (@total_runs_bound A V Sc). Qed.
Theorem C11_search_terminates : ∀ (A V Sc : Type) (vdef : V) (score_fn : V → scored Sc)
    (populate : A → list (trial V Sc) → bool → tid → A * status * V) (hook_end hook_end_abort : A → tid → V → A) (reissue : V → V),
  (∀ a ts id, snd (fst (populate a ts false id)) = RUNNING ∨ snd (fst (populate a ts false id)) = STOPPED) →
  ∀ c n fuel (s : @ostate A V Sc) script,
  abort_early c = false → max_trials c = Some n → Head c n s → n * S (max_retries c) - truns (trials s) < fuel →
  snd (fst (search vdef score_fn populate hook_end hook_end_abort reissue fuel c s script)) ≠ OutOfFuel.
Proof. exact (λ A V Sc vdef score_fn populate hook_end hook_end_abort reissue, @search_terminates A V Sc vdef score_fn populate hook_end hook_end_abort (λ a, a) reissue). Qed.

Theorem C11_stopped_reason : ∀ (A V Sc : Type) (vdef : V) (populate : A → list (trial V Sc) → bool → tid → A * status * V) (reissue : V → V)
    c (s : @ostate A V Sc) tu s' id v,
  do_create vdef populate reissue c s tu = (s', RTrial id STOPPED v) →
  (∃ id0, alookup tu (ongoing s) = Some id0) ∨
  (retryq s = [] ∧ ((∃ n, max_trials c = Some n ∧ n ≤ length (trials s)) ∨
                    snd (fst (populate (algo s) (trials s) (negb (length (ongoing s) =? 0)) (length (trials s)))) = STOPPED)).
Proof. exact @create_stopped_reason. Qed.
Theorem C11_hyperband_stopped : ∀ (V : Type) (h : hcfg) (mk : hinfo → V) vdef a (ts : list (trial V Z)) busy id,
  snd (fst (hpopulate h mk vdef a ts busy id)) = STOPPED →
  busy = false ∧ cur_bracket a = 0 ∧ (∃ n, iterations h = Some n ∧ S (cur_iter a) = n) ∧
  HB.scan h ts (List.filter (incomplete h) (brackets a)) 0 = CNone.
Proof. exact @hpopulate_stopped. Qed.
Theorem C11_random_stopped : ∀ samp draw mc a ts busy id,
  snd (fst (rpopulate samp draw mc a ts busy id)) = STOPPED →
  ∃ seed', random_values samp draw mc (S (S mc)) (s_space (a_osp a)) (a_tried a) (a_seed a) 0 = (None, seed').
Proof. exact rpopulate_stopped. Qed.

Print Assumptions C11_idle_only_if_busy.
Print Assumptions C11_hyperband_idle.
Print Assumptions C11_bayes_idle.
Print Assumptions C11_bayes_stopped.
Print Assumptions C11_runs_bounded_step.
Print Assumptions C11_search_terminates.
Print Assumptions C11_stopped_reason.
Print Assumptions C11_hyperband_stopped.
