(* C14 - value/probability transforms stay in the domain and invert each other. Statements only.
   Exact layer (Z/Q, HpExact.v) and IEEE-754 binary64 layer (Flocq, FloatIndex.v / HpFloat.v).
   Covered by theorems: Int with linear sampling (any step), Choice, Boolean, Fixed (trivial), and the two index/probability
   helpers every kind uses. Float hyperparameters and log / reverse_log sampling depend on libm pow/log: that what they hand
   out lies in [min_value, max_value] WHATEVER libm returned is C14_int_nostep_in_range / C14_float_in_range, about the return
   expressions the translator reads from Int.prob_to_value / Float.prob_to_value on every run (gen/Gen_hp.v); their lattice
   membership and round trips are checked on the implementation only (see the evidence): PARTIAL. *)
From Coq Require Import ZArith QArith Reals List Bool Lia.
From Flocq Require Import Core BinarySingleNaN.
From KT Require Import HpExact FloatIndex HpFloat HpIR HpGen.
From KT Require Gen_hp.
Import ListNotations.
Local Open Scope Z_scope.

(* binary64: for every finite probability 0 <= p < 1 and 1 <= n < 2^53 the index floor(p / fl(1/n)), clamped, is in [0, n) *)
Theorem C14_float_index_range : forall (p : b64) (n : Z),
  is_finite p = true -> (0 <= B2R p < 1)%R -> 1 <= n < 2 ^ 53 -> 0 <= idx p n < n.
Proof. exact idx_range. Qed.
(* binary64: the centre of bucket i maps back to i *)
Theorem C14_float_index_roundtrip : forall i n : Z, 0 <= i < n -> n < 2 ^ 50 -> idx (FloatIndex.index_to_prob i n) n = i.
Proof. exact idx_roundtrip. Qed.

(* Int, linear sampling, any step: every probability yields a lattice point min + i*step within [min, max] *)
Theorem C14_int_in_domain : forall l p,
  wf l -> n_values l < 2 ^ 53 -> is_finite p = true -> (0 <= B2R p < 1)%R -> on_lattice l (int_p2v l p) /\ lo l <= int_p2v l p <= hi l.
Proof. intros l p H1 H2 H3 H4. split; [now apply int_p2v_on_lattice|now apply int_p2v_in_range]. Qed.
(* ... every lattice value maps to a probability and back to itself (binary64 computation of the probability) *)
Theorem C14_int_roundtrip : forall l v, wf l -> n_values l < 2 ^ 50 -> on_lattice l v -> int_p2v l (int_v2p l v) = v.
Proof. exact int_roundtrip. Qed.
(* ... the enumerated values are exactly the lattice, which stays within [min, max] and contains max iff step | max - min *)
Theorem C14_int_values : forall l v, wf l -> (In v (int_values l) <-> on_lattice l v).
Proof. exact int_values_spec. Qed.
Theorem C14_lattice_in_range : forall l v, wf l -> on_lattice l v -> lo l <= v <= hi l.
Proof. exact lattice_in_range. Qed.
Theorem C14_max_on_lattice : forall l, wf l -> (on_lattice l (hi l) <-> (step l | hi l - lo l)).
Proof. exact max_on_lattice_iff. Qed.

(* Choice: a member of the list; every element (by position) round-trips *)
Theorem C14_choice_in_domain : forall (X : Type) (vals : list X) p,
  vals <> [] -> Z.of_nat (length vals) < 2 ^ 53 -> is_finite p = true -> (0 <= B2R p < 1)%R ->
  exists x, choice_p2v vals p = Some x /\ In x vals.
Proof. exact @choice_p2v_member. Qed.
Theorem C14_choice_roundtrip : forall (X : Type) (vals : list X) i x,
  Z.of_nat (length vals) < 2 ^ 50 -> nth_error vals i = Some x -> choice_p2v vals (choice_v2p i (length vals)) = Some x.
Proof. exact @choice_roundtrip. Qed.
Theorem C14_boolean_roundtrip : forall v, bool_p2v (bool_v2p v) = v.
Proof. exact bool_roundtrip. Qed.

(* the same statements over exact rationals (no bound on n) *)
Theorem C14_exact_index_range : forall (q : Q) (n : Z), 1 <= n -> (0 <= q)%Q -> (q < 1)%Q -> 0 <= prob_to_index q n < n.
Proof. exact prob_to_index_range. Qed.
Theorem C14_exact_index_roundtrip : forall i n : Z, 0 <= i < n -> prob_to_index (HpExact.index_to_prob i n) n = i.
Proof. exact index_roundtrip. Qed.
Theorem C14_exact_value_roundtrip : forall l v, wf l -> on_lattice l v -> prob_to_value l (value_to_prob l v) = v.
Proof. exact value_roundtrip. Qed.

(* the source returns only under `step is None` / `step is not None`, every sub-expression was recognised by the translator *)
Theorem C14_source_paths :
  (map fst Gen_hp.int_p2v = [GStepNone; GStepSome] /\ forallb (fun p => known (snd p)) Gen_hp.int_p2v = true) /\
  (map fst Gen_hp.float_p2v = [GStepNone; GStepSome] /\ forallb (fun p => known (snd p)) Gen_hp.float_p2v = true).
Proof. exact (conj int_paths_complete float_paths_complete). Qed.
(* unstepped Int (log / reverse_log sampling): max(min_value, min(int(<float computation>), max_value)) *)
Theorem C14_int_nostep_in_range : forall (rho : nat -> Q) (lo hi : Q), (lo <= hi)%Q ->
  forall e, In e (path Gen_hp.int_p2v GStepNone) -> (lo <= eval rho lo hi e /\ eval rho lo hi e <= hi)%Q.
Proof. exact int_nostep_in_range. Qed.
(* Float, with or without step, every sampling *)
Theorem C14_float_in_range : forall (rho : nat -> Q) (lo hi : Q), (lo <= hi)%Q ->
  forall e, In e (path Gen_hp.float_p2v GStepNone ++ path Gen_hp.float_p2v GStepSome) -> (lo <= eval rho lo hi e /\ eval rho lo hi e <= hi)%Q.
Proof. exact float_in_range. Qed.

Example C14_example : let l := {| lo := -3; hi := 20; step := 7 |} in
  wf l /\ int_values l = [-3; 4; 11; 18] /\ int_p2v l (FloatIndex.index_to_prob 3 4) = 18.
Proof. split; [unfold wf; simpl; lia|]. split; vm_compute; reflexivity. Qed.

Print Assumptions C14_source_paths.
Print Assumptions C14_int_nostep_in_range.
Print Assumptions C14_float_in_range.
Print Assumptions C14_float_index_range.
Print Assumptions C14_float_index_roundtrip.
Print Assumptions C14_int_in_domain.
Print Assumptions C14_int_roundtrip.
Print Assumptions C14_int_values.
Print Assumptions C14_choice_in_domain.
Print Assumptions C14_choice_roundtrip.
Print Assumptions C14_exact_index_range.
Print Assumptions C14_exact_value_roundtrip.
