(* C06 - sampling oracles never start the same configuration twice, and give up cleanly. Statements only.
   Model: Rand.v (Oracle._random_values / _duplicate / _record_values / update_space on the lifecycle core), tied to the real
   RandomSearchOracle by the correspondence (issued values, values of every stored trial, search space, seed state and size of
   the tried set after every call). The same sampling machinery serves Hyperband's first rounds and the Bayesian warm-up (they
   call Oracle._random_values): their de-duplication is checked on the implementation.
   Proved: a freshly sampled configuration is not in the tried set; every stored trial's values are in the tried set under its
   id (invariant TInv); hence in every reachable state of a run over a static space the stored trials carry pairwise different
   values (C06_distinct_run), also across save+reload (C06_distinct_run_reload); bounded effort. PARTIAL: for spaces that grow during the search the invariant TInv (every stored
   configuration is known to the tried set) is proved only for steps that leave stored values alone; the growth case is
   explored by the implementation-level check (no duplicate start observed), not proved. *)
From stdpp Require Import gmap list.
From Coq Require Import ZArith.
From KT Require Import Lifecycle LInv LSync Space Discover Cover Rand RandDedup RandRun RandReload EnsureIdem.

Theorem C06_sample_is_fresh : ∀ samp draw mc fuel sp tried seed col v seed',
  random_values samp draw mc fuel sp tried seed col = (Some v, seed') → v ∉ tried.
Proof. exact random_values_fresh. Qed.

Theorem C06_step : ∀ samp draw allow tune mc c s o,
  TInv s → static_end draw s o → sample_complete samp draw mc s →
  TInv (rstep samp draw allow tune mc c s o).1 ∧
  (∀ t_new, trials (rstep samp draw allow tune mc c s o).1 = trials s ++ [t_new] →
     ∀ j v, RandDedup.vals_of s j = Some v → tv_values (t_data t_new) ≠ v).
Proof. exact tinv_step. Qed.

Theorem C06_distinct_run : ∀ samp draw allow tune mc c ops s,
  TInv s → Distinct s → good_run samp draw allow tune mc c s ops →
  Forall (λ rs, Distinct rs.2) (rrun samp draw allow tune mc c s ops).
Proof. exact distinct_run. Qed.

(* ... and with save+reload at any point of the run: the tried set and the id->hash table are saved, the values of every trial
   come back from its file *)
Theorem C06_distinct_run_reload : ∀ samp draw allow tune mc c, abort_early c = false → ∀ ops s,
  Inv s → DSyncP tv_values s → TInv s → Distinct s → good_run_r samp draw allow tune mc c s ops →
  Forall (λ rs, Distinct rs.2) (rrun samp draw allow tune mc c s ops).
Proof. exact distinct_run_reload. Qed.

(* the hypothesis sample_complete of C06_step / C06_distinct_run (a second ensure_active_values leaves the sampled values alone)
   holds whenever the oracle's space has parents before children and distinct names *)
Theorem C06_sample_complete_of_wo : ∀ samp draw mc (s : @ostate rstate tdata unit),
  wo [] (s_space (a_osp (algo s))) → sample_complete samp draw mc s.
Proof. exact sample_complete_of_wo. Qed.

Theorem C06_bounded_effort : ∀ samp draw mc fuel sp tried seed col r seed',
  random_values samp draw mc fuel sp tried seed col = (r, seed') →
  (seed ≤ seed' ≤ seed + Z.of_nat fuel * Z.of_nat (length sp))%Z.
Proof. exact random_values_effort. Qed.

Print Assumptions C06_sample_is_fresh.
Print Assumptions C06_step.
Print Assumptions C06_distinct_run.
Print Assumptions C06_distinct_run_reload.
Print Assumptions C06_sample_complete_of_wo.
Print Assumptions C06_bounded_effort.
