(* C16 - the chief/worker RPC layer is transparent. Statements only.
   Proved (ProtoHp.v, on the container model of C13): the protocol-buffer encoding of a search space groups the entries by kind;
   the decoded space is a permutation of the encoded one (nothing lost, nothing added) and lists every parent ahead of its
   conditional children whenever every condition names an entry with strictly fewer conditions - which holds for every space
   a build program produces (C16_program_space). The chief's exit test is by definition `no ongoing trial and no tuner id`.
   PARTIAL: values / statuses / metrics / single precision of scores through real protobuf messages, and the equivalence of a
   request sequence applied directly and through OracleClient / OracleServicer, are checked on the implementation (every
   message serialised and parsed), not modelled. *)
From stdpp Require Import gmap list.
From Coq Require Import ZArith.
From KT Require Import Space Discover SpaceProofs ProtoHp.

Theorem C16_nothing_lost_or_added : ∀ sp, Forall known_kind sp → decoded_space sp ≡ₚ sp.
Proof. exact decoded_space_perm. Qed.
Theorem C16_parents_first : ∀ sp, Forall known_kind sp → depth_ok sp → wo_list (decoded_space sp).
Proof. exact decoded_parents_first. Qed.
Theorem C16_program_space : ∀ fuel p, depth_ok (s_space (exec fuel empty_hps p []).1.1).
Proof. exact exec_depth_ok. Qed.
Theorem C16_program_space_decodes_parents_first : ∀ fuel p,
  Forall known_kind (s_space (exec fuel empty_hps p []).1.1) → wo_list (decoded_space (s_space (exec fuel empty_hps p []).1.1)).
Proof. exact program_space_decodes_parents_first. Qed.

Print Assumptions C16_nothing_lost_or_added.
Print Assumptions C16_parents_first.
Print Assumptions C16_program_space.
