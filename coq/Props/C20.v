(* C20 - kept checkpoints are the best epoch's weights. Statements only.
   Checkpoint.v: SaveBestEpoch (one callback instance shared by all executions of a trial: best_value starts at +-inf, a
   strictly better epoch saves) as the function last_saved over the execution-major list of per-epoch objective values, and the
   History post-processing of tuner_utils as best_epoch. Values: extended rationals with Objective.better_than; the order laws
   hold for non-NaN values (finite curves, as the property says), and for integers.
   PARTIAL: that save_weights followed by load_weights restores the arrays and that fit honours initial_epoch / epochs are
   Keras behaviours; they are observed by the harness (real SaveBestEpoch, real save/load of a tiny model, real Tuner.run_trial,
   get_best_models, Hyperband promotion) - not proved. *)
From Coq Require Import List ZArith QArith Bool.
Import ListNotations.
From KT Require Import Metrics MetricsProofs Checkpoint.
Local Close Scope Q_scope.

(* the last save is the FIRST epoch attaining the best value over all executions *)
Theorem C20_callback_keeps_first_best : forall mx v l, Forall nonnan (v :: l) ->
  exists i, last_saved (better_than mx) (v :: l) = Some i /\ first_best (better_than mx) (v :: l) i.
Proof.
  intros mx. exact (callback_keeps_first_best (better_than mx) nonnan (better_than_irrefl mx) (better_than_nb mx) (better_than_nt mx)).
Qed.
(* for one execution the kept epoch is the epoch chosen by the History post-processing (whose value is what is reported to
   the oracle as the trial's objective, and whose index is the reported best step) *)
Theorem C20_selectors_agree : forall mx v l, last_saved (better_than mx) (v :: l) = Some (best_epoch (better_than mx) (v :: l)).
Proof. intros mx. exact (selectors_agree (better_than mx)). Qed.
(* the position is determined by the specification *)
Theorem C20_first_best_unique : forall mx l i j, first_best (better_than mx) l i -> first_best (better_than mx) l j -> i = j.
Proof. intros mx. exact (first_best_unique (better_than mx)). Qed.
(* same over integers *)
Theorem C20_callback_keeps_first_best_Z : forall mx v l, exists i, last_saved (betterZ mx) (v :: l) = Some i /\ first_best (betterZ mx) (v :: l) i.
Proof.
  intros mx v l. apply (callback_keeps_first_best (betterZ mx) (fun _ => True) (betterZ_irrefl mx) (betterZ_nb mx) (betterZ_nt mx)).
  apply Forall_forall. auto.
Qed.

Example C20_example :
  last_saved (better_than false) [FFin 3; FFin 1; FFin 1; FFin 2; FFin 1; FFin 0; FFin 0] = Some 5%nat /\
  last_saved (better_than true) [FFin 3; FFin 1; FFin 3] = Some 0%nat.
Proof. vm_compute. split; reflexivity. Qed.

Print Assumptions C20_callback_keeps_first_best.
Print Assumptions C20_selectors_agree.
Print Assumptions C20_callback_keeps_first_best_Z.
