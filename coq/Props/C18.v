(* C18 - metric bookkeeping and result conversion compute the documented aggregates.
   Only statements; every proof is `exact <lemma of MetricsProofs>`. *)
From Coq Require Import List ZArith QArith Bool Sorting.Sorted Sorting.Permutation.
Import ListNotations.
From KT Require Import Metrics Checkpoint MetricsProofs.

(* reports are recorded per step; executions at the same step are appended (and averaged by fmean) *)
Theorem C18_update_same : forall o v s,
  olookup s (update o v s) = Some (match olookup s o with Some l => l ++ [v] | None => [v] end).
Proof. exact update_same. Qed.
Theorem C18_update_other : forall o v s s', s' <> s -> olookup s' (update o v s) = olookup s' o.
Proof. exact update_other. Qed.

(* best value follows the direction, ignores NaN unless every per-step mean is NaN, None iff nothing reported *)
Theorem C18_best_value : forall mx l, (exists y, In y l /\ nonnan y) ->
  nonnan (nanbest mx l) /\ In (nanbest mx l) l /\ (forall y, In y l -> nonnan y -> better_than mx y (nanbest mx l) = false).
Proof. exact nanbest_spec. Qed.
Theorem C18_best_value_all_nan : forall mx l, (forall y, In y l -> is_nan y = true) -> nanbest mx l = FNaN.
Proof. exact nanbest_allnan. Qed.
Theorem C18_best_value_none : forall mx o, best_value mx o = None <-> o = [].
Proof. exact best_value_none. Qed.
Theorem C18_best_step : forall mx o s, best_step mx o = Some s ->
  exists b pre l post, best_value mx o = Some b /\ o = pre ++ (s, l) :: post /\
     feq (fmean l) b = true /\ (forall p, In p pre -> feq (fmean (snd p)) b = false).
Proof. exact best_step_first. Qed.

(* histories come back in step order and contain exactly the observations *)
Theorem C18_history_sorted : forall o, Sorted step_le (history o).
Proof. exact history_sorted. Qed.
Theorem C18_history_perm : forall o, Permutation (history o) o.
Proof. exact history_perm. Qed.

(* result conversion *)
Theorem C18_convert_float : forall o x, dlookup (obj_name o) (convert o (RFloat x)) = Some x.
Proof. exact convert_float. Qed.
Theorem C18_convert_dict : forall o d, convert o (RDict d) = d.
Proof. exact convert_dict. Qed.
Theorem C18_convert_history : forall o eps e, nth_error eps (hist_best_epoch o eps) = Some e ->
  dlookup (obj_name o) (convert o (RHist eps)) = match dlookup (obj_name o) e with Some v => Some v | None => obj_value o e end.
Proof. exact convert_hist_objective. Qed.
Theorem C18_best_epoch_is_first_best : forall o eps vs, eps <> [] -> map (obj_value o) eps = map Some vs -> Forall nonnan vs ->
  first_best (better_than (obj_max o)) vs (hist_best_epoch o eps).
Proof. exact hist_best_epoch_first_best. Qed.
Theorem C18_list_objective_is_mean : forall o rs vs,
  Forall2 (fun r v => NoDup (map fst (convert o r)) /\ dlookup (obj_name o) (convert o r) = Some v) rs vs ->
  rs <> [] -> dlookup (obj_name o) (convert o (RList rs)) = Some (fmean vs).
Proof. exact convert_list_objective. Qed.
Theorem C18_average : forall n ds,
  dlookup n (average ds) = match flat_map (vals_of n) ds with [] => None | l => Some (fmean l) end.
Proof. exact average_spec. Qed.
Theorem C18_multi_objective : forall self parts logs,
  exists q, obj_value (OMulti self parts) (map (fun kv => (fst kv, FFin (snd kv))) logs) = Some (FFin q) /\ q == multi_sum parts logs.
Proof. exact multi_objective_value. Qed.

(* non-vacuity: a concrete tracker history with a NaN, a tie and two executions at one step *)
Example C18_example :
  let o := update (update (update (update [] (FFin 3) 2) FNaN 0) (FFin 1) 1) (FFin (-1)) 2 in
  best_value false o = Some (FFin (2 # 2)) /\ best_step false o = Some 2%Z /\ map fst (history o) = [0; 1; 2]%Z.
Proof. vm_compute. repeat split. Qed.

Print Assumptions C18_update_same.
Print Assumptions C18_best_value.
Print Assumptions C18_best_step.
Print Assumptions C18_history_sorted.
Print Assumptions C18_history_perm.
Print Assumptions C18_convert_history.
Print Assumptions C18_best_epoch_is_first_best.
Print Assumptions C18_list_objective_is_mean.
Print Assumptions C18_multi_objective.
