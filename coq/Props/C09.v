(* C09 - grid search visits every combination exactly once, then stops. Statements only.
   Setting of the theorems: a static search space `sp` in which parents precede children and names are distinct (wo [] sp:
   declared up front or discovered by _populate_initial_space before the first trial; conditions nested to any depth),
   max_trials = None, the consecutive-failure limit not reached, tuners handing back the values they were given, any number of
   tuners, any finishing order, INVALID/FAILED outcomes and retries. `combos sp ∅` enumerates the valid assignments (exactly the
   active names, values from [default] + remaining values) in lexicographic order; its head is the all-defaults combination.
   PARTIAL: discovery while trials run and save+reload inside a grid search are explored on the implementation (exactly-once at
   STOPPED over the final space), not proved. *)
From stdpp Require Import gmap list.
From KT Require Import Lifecycle LInv LSync G3 G4 GR GQ GT2.

(* _get_next_combination is the successor function of the enumeration: the last combination has none, every other one is
   followed by its neighbour *)
Theorem C09_successor : ∀ sp : list hp, wo [] sp →
  (∀ (v : vals) (l1 : list vals), combos sp ∅ = l1 ++ [v] → next_comb sp v = None) ∧
  (∀ (v w : vals) (l1 l2 : list vals), combos sp ∅ = l1 ++ v :: w :: l2 → next_comb sp v = Some w).
Proof. exact next_comb_successor. Qed.

(* _compare is the order of positions in the enumeration *)
Theorem C09_compare : ∀ (sp : list hp) (pre : list name) (dn : vals), wo pre sp → (∀ n : name, n ∈ names sp → dn !! n = None) →
  ∀ a b : vals, a ∈ combos sp dn → b ∈ combos sp dn →
    compare sp a b = Some Eq ∧ a = b ∨ compare sp a b = Some Lt ∧ before (combos sp dn) a b ∨ compare sp a b = Some Gt ∧ before (combos sp dn) b a.
Proof. exact compare_spec. Qed.

(* the oracle invariant GInv (ordered list strictly increasing in rank, head of rank 0, every element closed, pending or
   ongoing) holds in every state of every run *)
Theorem C09_invariant : ∀ sp : list hp, wo [] sp → ∀ c : cfg, max_trials c = None →
  ∀ (score_fn : vals → scored ()) (ops : list op) (s : ostate),
    GInv sp s → Forall static_op ops →
    no_abort (run ∅ score_fn (gpopulate sp) gend habort (λ g : gstate, g) (λ v : vals, v) c s ops) →
    Forall (λ rs : resp * ostate, GInv sp rs.2) (run ∅ score_fn (gpopulate sp) gend habort (λ g : gstate, g) (λ v : vals, v) c s ops).
Proof. exact run_ginv. Qed.

(* ... and save+reload at any point keeps it (the linked list and the pending queue are part of the saved state, payloads come
   back from the trial files, running trials are queued again): the invariant in every state of every run WITH reloads *)
Theorem C09_invariant_reload : ∀ sp : list hp, wo [] sp → ∀ c : cfg, max_trials c = None →
  ∀ (score_fn : vals → scored ()) (ops : list op), abort_early c = false → ∀ s : ostate,
    Inv s → DSync s → GInv sp s → Forall static_op_r ops →
    no_abort (run ∅ score_fn (gpopulate sp) gend habort (λ g : gstate, g) (λ v : vals, v) c s ops) →
    Forall (λ rs : resp * ostate, GInv sp rs.2) (run ∅ score_fn (gpopulate sp) gend habort (λ g : gstate, g) (λ v : vals, v) c s ops).
Proof. exact run_ginv_reload. Qed.

(* ... hence whenever the grid answers STOPPED, the values of the trials are a permutation of all combinations: every
   combination exactly once *)
Theorem C09_stopped_complete : ∀ sp : list hp, wo [] sp → ∀ c : cfg, max_trials c = None → (vals → scored ()) →
  ∀ (s : ostate) (tu : tuner) (s' : ostate) (id : tid) (v : vals),
    GInv sp s → Inv s →
    do_create ∅ (gpopulate sp) (λ v0 : vals, v0) c s tu = (s', RTrial id STOPPED v) →
    map t_data (trials s') ≡ₚ combos sp ∅.
Proof. exact grid_stopped_complete. Qed.

Print Assumptions C09_successor.
Print Assumptions C09_compare.
Print Assumptions C09_invariant.
Print Assumptions C09_invariant_reload.
Print Assumptions C09_stopped_complete.
