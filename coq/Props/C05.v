(* C05 - issued values cover exactly the active hyperparameters, within their domain. Statements only.
   Coverage: Oracle._record_values applies ensure_active_values to every new trial, whatever populate_space produced; for a
   search space in which parents precede children and names are distinct (C13_parents_first: every space a build program
   produces is so ordered) the result holds a value for exactly the active entries - for ANY input values, hence for every
   oracle kind. Domain: the values come from prob_to_value / values / default of the hyperparameter (the C14 theorems). The per-oracle
   production of values (grid combination, Hyperband copy, Bayesian vector) is tied to the code by the implementation-level
   check of this property on the four real oracles (all kinds, conditions, spaces growing during the search). *)
From stdpp Require Import gmap list.
From Coq Require Import ZArith.
From KT Require Import Space Discover Cover.
From KT Require G3 GR GQ GT2 GValid Lifecycle Rand EnsureIdem BayesVec HB HBValues.

Theorem C05_exactly_active : ∀ (draw : nat → hp → value) sp v k, wo [] sp →
  let v' := (ensure_go draw sp sp v k).1 in
  ∀ h, h ∈ sp → (is_Some (v' !! h_name h) ↔ conds_active v' (h_conds h) = true).
Proof. exact ensure_covers'. Qed.
(* names outside the space are never touched (Hyperband's tuner/* bookkeeping entries survive) *)
Theorem C05_other_names_untouched : ∀ (draw : nat → hp → value) sp v k n, n ∉ hnames sp → (ensure_go0 draw sp v k).1 !! n = v !! n.
Proof. exact ensure_go_other. Qed.

(* ---- the sampling oracles (random search, Hyperband's first rounds, the Bayesian warm-up): whatever Oracle._random_values
   returns - for every seeded sample table, tried set, seed and collision count - is valued on exactly the active entries *)
Theorem C05_random_values_exactly_active : ∀ (samp : nat → Z → value) (draw : nat → hp → value) mc fuel sp tried seed col v seed',
  wo [] sp → Rand.random_values samp draw mc fuel sp tried seed col = (Some v, seed') →
  ∀ h, h ∈ sp → (is_Some (v !! h_name h) ↔ conds_active v (h_conds h) = true).
Proof. exact EnsureIdem.random_values_exactly_active. Qed.

(* ---- the Bayesian oracle: _vector_to_values, the glue between the optimiser's vector and the trial's values, for ANY space
   (names may be shared between entries) and any vector: every value of the result was assigned by an entry of that very name,
   and is that entry's own prob_to_value of its own vector component (Fixed entries consume none), its fixed value or its
   default - never a value computed for another entry; an entry that is inactive at its turn changes nothing *)
Theorem C05_bayes_vector_provenance : ∀ (fixed : hp → bool) (p2v : nat → nat → value) (sp : list hp),
  BayesVec.Prov fixed p2v sp (BayesVec.vector_to_values fixed p2v sp).
Proof. exact BayesVec.vector_to_values_provenance. Qed.
Theorem C05_bayes_inactive_entry_skips : ∀ (fixed : hp → bool) (p2v : nat → nat → value) h rest idx vi s,
  s_conds s = [] → conds_active (s_values s) (h_conds h) = false →
  BayesVec.v2v fixed p2v (h :: rest) idx vi s =
  BayesVec.v2v fixed p2v rest (S idx) (if fixed h then vi else S vi)
      {| s_scopes := s_scopes s; s_conds := s_conds s; s_space := s_space s ++ [h]; s_values := s_values s;
         s_active := s_active s; s_inactive := s_inactive s |}.
Proof. exact BayesVec.v2v_inactive_skips. Qed.

(* ---- the grid oracle: production of the values themselves. Every element of the enumeration `combos` is a valid assignment
   (a value for exactly the active entries, each taken from [default] + values) ... *)
Theorem C05_grid_combination_valid : ∀ (sp : list G3.hp) (pre : list G3.name) (dn : G3.vals), G3.wo pre sp →
  (∀ n, n ∈ G3.names sp → dn !! n = None) → ∀ v, v ∈ G3.combos sp dn → GValid.valid_for sp v.
Proof. exact GValid.combos_valid. Qed.
(* ... and in every state satisfying the grid invariant - which C09_invariant / C09_invariant_reload establish for every state of
   every run, any number of tuners, finishing orders, retries and reloads - EVERY trial the oracle holds carries such an
   assignment and no value for a name outside the space *)
Theorem C05_grid_trials_valid : ∀ sp : list G3.hp, G3.wo [] sp → ∀ s : @Lifecycle.ostate GR.gstate G3.vals unit, GT2.GInv sp s →
  ∀ id, id < length (Lifecycle.trials s) →
    GValid.valid_for sp (GQ.val (Lifecycle.trials s) id) ∧ ∀ n, n ∉ G3.names sp → GQ.val (Lifecycle.trials s) id !! n = None.
Proof. exact GValid.grid_trials_valid. Qed.
(* non-vacuity: a conditional space (k only under m = 1) is well ordered and has 2 + ... combinations *)
Example C05_grid_example :
  let sp := [ {| G3.hname := 1%positive; G3.hconds := []; G3.hall := [1; 2]%positive |};
              {| G3.hname := 2%positive; G3.hconds := [(1%positive, [1%positive])]; G3.hall := [1; 2; 3]%positive |} ] in
  G3.wo [] sp ∧ length (G3.combos sp ∅) = 4.
Proof. cbn. split; [|reflexivity]. repeat split; try set_solver; repeat constructor; set_solver. Qed.

(* ---- Hyperband's copy step (HBValues.v): a promoted trial gets its parent's values plus the five tuner/* entries. For a space
   whose names are not tuner/* names every entry has the parent's value and the parent's activity, so a parent valued on exactly
   the active entries (a sampled one is: C05_random_values_exactly_active) hands that on, at any promotion depth; the tuner/*
   entries read back are the ones of the schedule model HB.v (C10). *)
Theorem C05_hyperband_promotion_exactly_active : ∀ (t : HBValues.tnames) sp parent pid (i : HB.hinfo),
  wo [] sp → (∀ n, n ∈ hnames sp → n ∉ HBValues.tuner_names t) →
  (∀ h, h ∈ sp → (is_Some (parent !! h_name h) ↔ conds_active parent (h_conds h) = true)) →
  let v := HBValues.promote_values t parent pid i in
  ∀ h, h ∈ sp → (is_Some (v !! h_name h) ↔ conds_active v (h_conds h) = true) ∧ v !! h_name h = parent !! h_name h.
Proof. exact HBValues.promote_exactly_active. Qed.
Theorem C05_hyperband_promotion_other_entries : ∀ (t : HBValues.tnames) parent pid (i : HB.hinfo) n,
  n ∉ HBValues.tuner_names t → HBValues.promote_values t parent pid i !! n = parent !! n.
Proof. exact HBValues.promote_other. Qed.
Theorem C05_hyperband_tuner_entries : ∀ (t : HBValues.tnames) parent pid (i : HB.hinfo), NoDup (HBValues.tuner_names t) →
  let v := HBValues.promote_values t parent pid i in
  v !! HBValues.n_trial_id t = Some pid ∧ v !! HBValues.n_epochs t = Some (VInt (HB.i_epochs i)) ∧
  v !! HBValues.n_initial t = Some (VInt (HB.i_initial i)) ∧
  v !! HBValues.n_bracket t = Some (VInt (Z.of_nat (HB.i_label i))) ∧ v !! HBValues.n_round t = Some (VInt (Z.of_nat (HB.i_round i))).
Proof. exact HBValues.promote_entries. Qed.
(* _compute_values_hash drops the four schedule entries: a promoted trial is hashed as its parent plus tuner/trial_id *)
Theorem C05_hyperband_hash_view : ∀ (t : HBValues.tnames) parent pid (i : HB.hinfo), NoDup (HBValues.tuner_names t) →
  HBValues.hash_view t (HBValues.promote_values t parent pid i) = <[HBValues.n_trial_id t := pid]> (HBValues.hash_view t parent).
Proof. exact HBValues.hash_view_promote. Qed.
(* non-vacuity: five distinct names outside a one-entry space, parent {x: 3} *)
Example C05_hyperband_example :
  let t := {| HBValues.n_trial_id := [11%positive]; HBValues.n_epochs := [12%positive]; HBValues.n_initial := [13%positive];
              HBValues.n_bracket := [14%positive]; HBValues.n_round := [15%positive] |} in
  let i := {| HB.i_label := 2; HB.i_bracket := 2; HB.i_round := 1; HB.i_epochs := 4; HB.i_initial := 2; HB.i_parent := Some 0 |} in
  let v := HBValues.promote_values t {[ [1%positive] := VInt 3 ]} (VStr 7) i in
  NoDup (HBValues.tuner_names t) ∧ v !! [1%positive] = Some (VInt 3) ∧ v !! [12%positive] = Some (VInt 4) ∧ v !! [11%positive] = Some (VStr 7).
Proof. cbn. split; [|by vm_compute]. unfold HBValues.tuner_names; cbn. repeat (apply NoDup_cons; split; [set_solver|]). apply NoDup_nil_2. Qed.


Print Assumptions C05_exactly_active.
Print Assumptions C05_random_values_exactly_active.
Print Assumptions C05_bayes_vector_provenance.
Print Assumptions C05_bayes_inactive_entry_skips.
Print Assumptions C05_grid_combination_valid.
Print Assumptions C05_grid_trials_valid.
Print Assumptions C05_other_names_untouched.
Print Assumptions C05_hyperband_promotion_exactly_active.
Print Assumptions C05_hyperband_tuner_entries.
Print Assumptions C05_hyperband_hash_view.
