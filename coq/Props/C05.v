(* C05 - issued values cover exactly the active hyperparameters, within their domain. Statements only.
   Coverage: Oracle._record_values applies ensure_active_values to every new trial, whatever populate_space produced; for a
   search space in which parents precede children and names are distinct (C13_parents_first: every space a build program
   produces is so ordered) the result holds a value for exactly the active entries - for ANY input values, hence for every
   oracle kind. Domain: the values come from prob_to_value / values / default of the hyperparameter (the C14 theorems). The per-oracle
   production of values (grid combination, Hyperband copy, Bayesian vector) is tied to the code by the implementation-level
   check of this property on the four real oracles (all kinds, conditions, spaces growing during the search). *)
From stdpp Require Import gmap list.
From Coq Require Import ZArith.
From KT Require Import Space Discover Cover.

Theorem C05_exactly_active : ∀ (draw : nat → hp → value) sp v k, wo [] sp →
  let v' := (ensure_go draw sp sp v k).1 in
  ∀ h, h ∈ sp → (is_Some (v' !! h_name h) ↔ conds_active v' (h_conds h) = true).
Proof. exact ensure_covers'. Qed.
(* names outside the space are never touched (Hyperband's tuner/* bookkeeping entries survive) *)
Theorem C05_other_names_untouched : ∀ (draw : nat → hp → value) sp v k n, n ∉ hnames sp → (ensure_go0 draw sp v k).1 !! n = v !! n.
Proof. exact ensure_go_other. Qed.

Print Assumptions C05_exactly_active.
Print Assumptions C05_other_names_untouched.
