(* C20 / C18: "first epoch attaining the best value" selectors.
   SaveBestEpoch (one callback shared by all executions of a trial) keeps the first epoch that attains the best
   objective value; for one execution this is also the epoch chosen by
   tuner_utils._get_best_value_and_best_epoch_from_history.
   Generic in the value type X and the strict comparison `better` (Objective.better_than); the order laws are
   required only of values satisfying P (for floats: "not NaN"), and instantiated below for Z and for the
   extended rationals of Metrics.v. *)
From Coq Require Import List ZArith Bool Lia.
Import ListNotations.

Section FirstBest.
Context {X : Type}.
Variable better : X -> X -> bool.
Variable P : X -> Prop.
Hypothesis better_irrefl : forall a, better a a = false.
Hypothesis better_not_better : forall a b c, P a -> P b -> P c -> better a b = true -> better c b = false -> better c a = false.
Hypothesis better_neg_trans : forall a b c, P a -> P b -> P c -> better a b = true -> better c b = false -> better a c = true.

(* the callback: best_value starts at -inf/+inf (None); strictly better => save.  Positions are indices in the
   execution-major flattening of all epochs the callback sees. *)
Fixpoint cb (l : list X) (i : nat) (best : option X) (last : option nat) : option nat :=
  match l with
  | [] => last
  | v :: r =>
      let sv := match best with None => true | Some b => better v b end in
      if sv then cb r (S i) (Some v) (Some i) else cb r (S i) best last
  end.
Definition last_saved l := cb l 0%nat None None.

(* History post-processing for one execution: best_epoch := 0; move when strictly better than the value at best_epoch *)
Fixpoint hist (l : list X) (i : nat) (bi : nat) (bv : X) : nat :=
  match l with
  | [] => bi
  | v :: r => if better v bv then hist r (S i) i v else hist r (S i) bi bv
  end.
Definition best_epoch l := match l with [] => 0%nat | v :: r => hist r 1%nat 0%nat v end.

(* specification: i is the first index attaining the optimum *)
Definition first_best (l : list X) (i : nat) : Prop :=
  exists v, nth_error l i = Some v /\
    (forall j w, nth_error l j = Some w -> better w v = false) /\
    (forall j w, (j < i)%nat -> nth_error l j = Some w -> better v w = true).

Lemma Forall_nth_error (l : list X) j w : Forall P l -> nth_error l j = Some w -> P w.
Proof. intros HF Hn. rewrite Forall_forall in HF. apply HF. eapply nth_error_In; eauto. Qed.

(* generalized invariant for the callback: (bi, bv) is the first best of the prefix already seen *)
Lemma cb_spec pre l bi bv :
  Forall P (pre ++ l) ->
  nth_error pre bi = Some bv ->
  (forall j w, nth_error pre j = Some w -> better w bv = false) ->
  (forall j w, (j < bi)%nat -> nth_error pre j = Some w -> better bv w = true) ->
  exists i, cb l (length pre) (Some bv) (Some bi) = Some i /\ first_best (pre ++ l) i.
Proof.
  revert pre bi bv. induction l as [|v r IH]; intros pre bi bv HP Hn Hall Hfirst; simpl.
  - exists bi. split; [reflexivity|]. rewrite app_nil_r. exists bv. auto.
  - assert (Pbv : P bv). { eapply Forall_nth_error; [exact HP|]. rewrite nth_error_app1; [exact Hn|]. apply nth_error_Some. congruence. }
    assert (Pv : P v). { apply (Forall_nth_error _ (length pre) v HP). rewrite nth_error_app2 by lia. rewrite Nat.sub_diag. reflexivity. }
    assert (Ppre : forall j w, nth_error pre j = Some w -> P w).
    { intros j w Hj. eapply Forall_nth_error; [exact HP|]. rewrite nth_error_app1; [exact Hj|]. apply nth_error_Some. congruence. }
    destruct (better v bv) eqn:Eb.
    + (* new best at position length pre *)
      specialize (IH (pre ++ [v]) (length pre) v).
      rewrite app_length in IH. simpl in IH. replace (length pre + 1)%nat with (S (length pre)) in IH by lia.
      rewrite <- app_assoc in IH. simpl in IH. apply IH.
      * exact HP.
      * rewrite nth_error_app2 by lia. now rewrite Nat.sub_diag.
      * intros j w Hj. destruct (Nat.lt_ge_cases j (length pre)) as [Hlt|Hge].
        -- rewrite nth_error_app1 in Hj by exact Hlt.
           apply (better_not_better v bv w Pv Pbv (Ppre j w Hj) Eb (Hall j w Hj)).
        -- rewrite nth_error_app2 in Hj by exact Hge. destruct (j - length pre)%nat as [|[|k]]; simpl in Hj; try discriminate.
           inversion Hj; subst. apply better_irrefl.
      * intros j w Hlt Hj. rewrite nth_error_app1 in Hj by exact Hlt.
        apply (better_neg_trans v bv w Pv Pbv (Ppre j w Hj) Eb (Hall j w Hj)).
    + specialize (IH (pre ++ [v]) bi bv).
      rewrite app_length in IH. simpl in IH. replace (length pre + 1)%nat with (S (length pre)) in IH by lia.
      rewrite <- app_assoc in IH. simpl in IH. apply IH.
      * exact HP.
      * rewrite nth_error_app1; [exact Hn|]. apply nth_error_Some. congruence.
      * intros j w Hj. destruct (Nat.lt_ge_cases j (length pre)) as [Hlt|Hge].
        -- rewrite nth_error_app1 in Hj by exact Hlt. eauto.
        -- rewrite nth_error_app2 in Hj by exact Hge. destruct (j - length pre)%nat as [|[|k]]; simpl in Hj; try discriminate.
           now inversion Hj; subst.
      * intros j w Hlt Hj. assert (j < length pre)%nat. { assert (bi < length pre)%nat by (apply nth_error_Some; congruence). lia. }
        rewrite nth_error_app1 in Hj by assumption. eauto.
Qed.

Theorem callback_keeps_first_best v l :
  Forall P (v :: l) ->
  exists i, last_saved (v :: l) = Some i /\ first_best (v :: l) i.
Proof.
  intros HP. unfold last_saved. simpl.
  destruct (cb_spec [v] l 0%nat v) as (i & Hi & Hf); simpl; auto.
  - intros [|[|j]] w H; simpl in H; try discriminate. inversion H; subst. apply better_irrefl.
  - intros j w Hj. lia.
  - exists i. split; assumption.
Qed.

Lemma hist_cb l i bi bv : cb l i (Some bv) (Some bi) = Some (hist l i bi bv).
Proof.
  revert i bi bv. induction l as [|v r IH]; intros i bi bv; simpl; [reflexivity|].
  destruct (better v bv); apply IH.
Qed.

Theorem selectors_agree v l : last_saved (v :: l) = Some (best_epoch (v :: l)).
Proof. unfold last_saved, best_epoch. simpl. apply hist_cb. Qed.

Corollary best_epoch_first_best v l : Forall P (v :: l) -> first_best (v :: l) (best_epoch (v :: l)).
Proof.
  intros HP. destruct (callback_keeps_first_best v l HP) as (i & Hi & Hf).
  rewrite selectors_agree in Hi. inversion Hi; subst. exact Hf.
Qed.

(* uniqueness of the first best: the spec determines the index *)
Lemma first_best_unique l i j : first_best l i -> first_best l j -> i = j.
Proof.
  intros (v & Hv & Ha & Hf) (w & Hw & Hb & Hg).
  destruct (Nat.lt_trichotomy i j) as [H|[H|H]]; [|exact H|].
  - pose proof (Hg i v H Hv). pose proof (Ha j w Hw). congruence.
  - pose proof (Hf j w H Hw). pose proof (Hb i v Hv). congruence.
Qed.
End FirstBest.

(* ---- instance: integers ---------------------------------------------------------------------- *)
Definition betterZ (mx : bool) (a b : Z) : bool := if mx then (b <? a)%Z else (a <? b)%Z.
Lemma betterZ_irrefl mx a : betterZ mx a a = false.
Proof. unfold betterZ. destruct mx; apply Z.ltb_irrefl. Qed.
Lemma betterZ_nb mx a b c : True -> True -> True -> betterZ mx a b = true -> betterZ mx c b = false -> betterZ mx c a = false.
Proof. unfold betterZ. destruct mx; rewrite ?Z.ltb_lt, ?Z.ltb_ge; lia. Qed.
Lemma betterZ_nt mx a b c : True -> True -> True -> betterZ mx a b = true -> betterZ mx c b = false -> betterZ mx a c = true.
Proof. unfold betterZ. destruct mx; rewrite ?Z.ltb_lt, ?Z.ltb_ge; lia. Qed.
